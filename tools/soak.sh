#!/bin/bash
# usage: tools/soak.sh <tier> <seed> [props...]   runs the checks one after another (they share the Lean build)
# and prints one line per check; logs go to /dev/shm/soak-<seed>/
tier=$1; seed=$2; shift 2
props=${@:-C01 C02 C03 C04 C05 C06 C07 C08 C09 C10 C11 C12 C13 C14 C15 C16 C17 C18 C19 C20}
d=/dev/shm/soak-$seed; mkdir -p $d
cd "$(dirname "$0")/.."
for p in $props; do
  VERIF_SEED=$seed ./check $p --tier $tier > $d/$p.log 2>&1; rc=$?
  echo "$p seed=$seed rc=$rc viol=$(grep -c '^VIOLATION' $d/$p.log) known=$(grep -c '^KNOWN-FINDING' $d/$p.log)"
done
