#!/usr/bin/env python3
"""Regenerates the generated tables of DESIGN.md section 13 (between the
BEGIN/END GENERATED markers) from known_findings.json and seeded/*/meta.json."""
import json
import os
import re

HERE = os.path.dirname(os.path.dirname(os.path.abspath(__file__)))


def esc(s):
    return str(s).replace("|", "\\|").replace("\n", " ")


def fixed_table(findings):
    rows = {}
    for e in findings:
        if e["kind"] != "fixed":
            continue
        rows.setdefault((e["commit"], e["what"]), []).append(e["property"])
    out = ["| commit | properties | what failed before the repair |", "|---|---|---|"]
    for (commit, what), props in rows.items():
        out.append("| `%s` | %s | %s |" % (commit, ", ".join(sorted(set(props))), esc(what)))
    return "\n".join(out)


def known_table(findings):
    out = ["| id | property | what fails | witness | why not repaired |", "|---|---|---|---|---|"]
    for e in findings:
        if e["kind"] != "known":
            continue
        out.append("| %s | %s | %s | %s | %s |" % (e["id"], e["property"], esc(e["what"]),
                                                    esc(e.get("witness", "")), esc(e.get("why_not_fixed", ""))))
    return "\n".join(out)


def seeded_table():
    out = ["| change | breaks | idea (from its NOTES.md) | check, quick tier | first line reported |",
           "|---|---|---|---|---|"]
    base = os.path.join(HERE, "seeded")
    for name in sorted(os.listdir(base)):
        d = os.path.join(base, name)
        meta = json.load(open(os.path.join(d, "meta.json")))
        idea = ""
        notes = os.path.join(d, "NOTES.md")
        if os.path.exists(notes):
            for line in open(notes):
                line = line.strip()
                if line.startswith("#"):
                    idea = line.lstrip("# ").strip()
                    break
        det = meta.get("detected_by")
        if isinstance(det, dict):
            res, first = det.get("status", ""), ""
        elif isinstance(det, list) and det:
            parts = []
            first = ""
            for r in det:
                if r["rc"] == 1:
                    parts.append("%s: VIOLATION %s" % (r["check"], "with witness" if r["with_failing_input"]
                                                       else "(no-failing-input-found)"))
                    first = first or r["first"]
                else:
                    parts.append("%s: missed (rc %d)" % (r["check"], r["rc"]))
            res = "; ".join(parts)
        else:
            res, first = "not run", ""
        out.append("| %s | %s | %s | %s | %s |" % (name, meta["breaks_property"], esc(idea)[:160], esc(res),
                                                    esc(first)[:200]))
    return "\n".join(out)


def theorem_table():
    """the property theorems as they stand in lean/MaestroVerif/Props (names only; the statements
    are in the files, the axioms each depends on are in evidence/<id>.json)"""
    out = ["| id | theorems in `Props/Cxx.lean` | lemma files it rests on | lines (Props + those lemma files) |",
           "|---|---|---|---|"]
    props = os.path.join(HERE, "lean", "MaestroVerif", "Props")
    lem = os.path.join(HERE, "lean", "MaestroVerif", "Lemmas")
    for f in sorted(os.listdir(props)):
        if not re.fullmatch(r"C\d\d\.lean", f):
            continue
        src = open(os.path.join(props, f)).read()
        names = re.findall(r"^theorem\s+([A-Za-z0-9_.']+)", src, re.M)
        imports = re.findall(r"^import MaestroVerif\.Lemmas\.(\w+)", src, re.M)
        n = src.count("\n") + sum(open(os.path.join(lem, i + ".lean")).read().count("\n")
                                  for i in imports if os.path.exists(os.path.join(lem, i + ".lean")))
        out.append("| %s | %d: %s | %s | %d |" % (f[:3], len(names), ", ".join("`%s`" % x for x in names),
                                                  ", ".join(imports) or "-", n))
    return "\n".join(out)


def main():
    findings = json.load(open(os.path.join(HERE, "known_findings.json")))["findings"]
    p = os.path.join(HERE, "DESIGN.md")
    s = open(p).read()
    for key, text in (("fixed", fixed_table(findings)), ("known", known_table(findings)),
                      ("seeded", seeded_table()), ("theorems", theorem_table())):
        pat = re.compile(r"(<!-- BEGIN GENERATED %s -->\n).*?(<!-- END GENERATED %s -->)" % (key, key), re.S)
        assert pat.search(s), key
        s = pat.sub(lambda m: m.group(1) + text + "\n" + m.group(2), s)
    open(p, "w").write(s)
    print("DESIGN.md tables regenerated")


if __name__ == "__main__":
    main()
