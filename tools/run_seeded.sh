#!/bin/bash
# usage: tools/run_seeded.sh <seeded-name> <property> [tier]
# Applies seeded/<name>/patch.diff to /repo, runs the property's check, and undoes the change.
name=$1; prop=$2; tier=${3:-quick}
cd /verif
if [ -n "$(git -C /repo status --porcelain -- maestrowf)" ]; then echo "/repo not clean"; exit 2; fi
sed 's#^\(--- a\|+++ b\)/tmp/mut/[A-Za-z0-9_]*/#\1/#' seeded/$name/patch.diff > /dev/shm/seed-$name.patch
git -C /repo apply /dev/shm/seed-$name.patch || { echo "apply failed"; rm -f /dev/shm/seed-$name.patch; exit 2; }
timeout 3600 ./check $prop --tier $tier > /dev/shm/seed-$name.out 2>&1; rc=$?
git -C /repo checkout -- . ; rm -f /dev/shm/seed-$name.patch
echo "seeded=$name property=$prop tier=$tier rc=$rc"; grep -A1 "^VIOLATION\|^KNOWN" /dev/shm/seed-$name.out | head -12
rm -f /dev/shm/seed-$name.out
