#!/usr/bin/env python3
"""Regenerates MANIFEST.json from the table below (kept valid at all times)."""
import json, os
HERE = os.path.dirname(os.path.dirname(os.path.abspath(__file__)))

# id -> (category, technique, text, note, design_ref)
EXEC_NOTE = 'Trusted: Lean kernel; axioms propext/Classical.choice/Quot.sound (audited every run); the scripted-scheduler correspondence harness; job ids returned by submit are unique; report dicts are keyed by queried jobs (WFPoll). Modelled, not verified: Python set iteration order (only observable in check/cancel argument lists, compared sorted), logging, timestamps.'
def ex(title, text, ref):
    return ("proof", "Lean 4 invariants over Model/Exec.lean for all DAGs/configurations/histories + state-by-state correspondence with the real ExecutionGraph under a scripted scheduler + property monitor on the real trace: " + title, text, EXEC_NOTE, ref)
CLAIMED = {
 "C01": ex("launch-after-dependencies history variable, ready/in-progress parents invariant, completion-only-on-success",
           "Theorems hold for every well-formed configuration and every sequence of polls (arbitrary well-formed scheduler answers) and cancel requests; the model is validated against executiongraph.py after every operation of thousands of generated histories, and the C01 monitor checks every real submit call against the scheduler's own ledger.", "DESIGN.md §6 C01"),
 "C02": ex("descendant closure of failed/cancelled, resolved steps never queued/tracked/launched, permanence",
           "Closure is proved for every reachable state without a study-wide cancel request (after one, nothing at all is submitted: C07); the liveness half (unrelated steps still run) is C05's. Monitor: no submit for descendants of an unsuccessful step, descendants reported FAILED/CANCELLED, no collateral failures.", "DESIGN.md §6 C02"),
 "C03": ex("ghost ledger of live jobs, peak <= throttle at every ledger change, ledger = tracking",
           "The peak number of simultaneously live scheduler jobs (history variable updated at every submission/terminal answer, not only at poll boundaries) is proved <= throttle for every history; monitor recomputes the ledger from the real adapter calls.", "DESIGN.md §6 C03"),
 "C04": ex("one-live-job and never-relaunched history variables, monotone resolved sets, no orphans at a final verdict",
           "All three clauses are theorems over the model for every history (including failing submissions, hardware failures and restarts); monitor checks the scripted scheduler's ledger, state finality and live jobs at return.", "DESIGN.md §6 C04"),
 "C05": ex("verdict decision table (exhaustive, exclusive), exit codes over the regenerated enum, FINISHED iff all steps succeeded and no cancel, and LIVENESS: progress of every decisive poll and termination within 2(n+1)+1 decisive polls from every reachable state (lexicographic measure; deadlock freedom from the 'untouched steps are INITIALIZED with dependency sets inside their parents' invariant, descendant closure and acyclicity)",
           "Truthfulness: decision table of _check_study_completion over reachable states; exit codes by decide over Gen/Enums. Termination: C05_progress / C05_terminates are theorems for every acyclic well-formed configuration, every reachable state (any history of polls, lost answers, restarts, hardware failures, failed submissions, cancel requests) and every continuation in which the scheduler answers each tracked job with FINISHED / FAILED / UNKNOWN / CANCELLED; submissions may fail arbitrarily. The broader fairness notion (TIMEDOUT answers within a finite restart budget) is covered by the fair-tail monitor with the potential bound on the real code, not by a theorem.", "DESIGN.md §6 C05, §13.1"),
 "C06": ex("restart budget invariant, restart-only-with-command history variable, TIMEDOUT decision spelled out",
           "Budget and restart-script use are theorems for every history; the TIMEDOUT branch is characterised exactly; monitor checks script kind of each real submit, restart rounds and the Number Restarts value.", "DESIGN.md §6 C06"),
 "C07": ex("after a cancel request a poll only queries (event log), cancel args = tracked = live jobs, flag persists, CANCELLED when drained",
           "Theorems for every point at which the request can arrive and every continuation (TIMEDOUT / HWFAILURE after the request included); adapter cancel_jobs totality is checked on the real Slurm/LSF/Flux/local adapters by the harness.", "DESIGN.md §6 C07"),
 "C17": ex("dry-run polls append only script-generation events, nothing in flight, launched steps DRYRUN and complete",
           "Event-log theorem for every configuration; the dry-vs-real differential and the monitor check adapter calls and states on the real code.", "DESIGN.md §6 C17"),
 "C20": ex("ERROR aborts with state unchanged, None/omitted/passive answers are no-ops (equational laws), NOJOBS ignores answers",
           "Equational laws of the model for all states and answers; monitor checks states/jobs/restarts across polls with ERROR, NOJOBS and partial answers on the real code.", "DESIGN.md §6 C20"),
 "C16": ("proof",
         "state tables regenerated from the adapters' _state functions on every run (AST translation, extensional fallback) + decide over the documented vocabularies; per-job-id exactness theorem of the row fold; exit-code laws; parsing correspondence with the real check_jobs under a scripted subprocess / fake flux",
         "Tables: 'alive never maps to terminal' and 'only success maps to FINISHED (for every string)' are re-proved against the current source on every run; parsing: the fold theorem shows each queried id gets the state of the last row whose id field equals it exactly and None when absent; the Lean parser is validated against the real squeue/sacct/bjobs parsers on generated outputs (padding, prefix ids, array/step rows, blank lines, malformed stream) and all exit codes.",
         "Trusted: Lean kernel; standard axioms; the translator (cross-checked against the real _state on the vocabulary + random strings every run); the hand-entered vocabulary/classification of scheduler states (Model/SchedVocab.lean); Python re.split/str.split/strip modelled for ASCII. Known finding: Slurm STOPPED (ST).",
         "DESIGN.md §6 C16"),
 "C08": ("proof",
         "Lean 4 theorems over Model/Expand.lean: the named pieces (exact parameter-use detection, used-parameter closure, instance naming / sharing, attached parameters), every placement, and the finished graph (every step staged, an instance for every row, dependency sets = the declarative expansion, adjacency table = dependency sets) by an invariant carried through the whole staging loop + expansion correspondence (graph and staging tables) with the real load/stage path + declarative expansion monitor on the real graph",
         "For every specification that meets the validator's guarantees (distinct step names, none _source, no self funnel) and the decidable prefix check on the step names, every iteration oracle: every step is staged, every row has its instance, the dependency set of every instance is exactly what the final used_params / step_combos tables say it is owed (row by row when the instance name determines the labels), and both edge tables agree (the execution model's WFCfg.par). Outside those hypotheses the statement is false of the code (known finding C08-name-collision, proved counterexample); there the independent monitor judges the real ExecutionGraph. The model is tied to the code instance by instance and table by table on every run.",
         "Trusted: Lean kernel; standard axioms; the study-level correspondence harness; Python str()/yaml/md5 (oracle inputs to the model); re semantics of the two regular expressions modelled (ASCII \\w); names are kept ASCII by the generators. Known finding D9 (name collisions when labels contain '.'): sharing theorem carries the '.'-free hypothesis." ,
         "DESIGN.md §6 C08"),
 "C09": ("proof",
         "Lean 4 laws of one replacement pass (untouched text, exact replacement of an occurrence, occurrence = substring, token forms) over Model/Subst.lean + primitive correspondence (str.replace, apply_environment, WSREGEX) + pipeline correspondence of every expanded text + tokenizer-based simultaneous-substitution monitor on the real texts",
         "The per-pass laws are proved for all strings; the text of every instance the expansion places is proved to be the step's text after the row's table of passes and, for $-free table entries over a text of $-free literals and tokens, exactly one simultaneous substitution (C09_instance_text_simultaneous, over Model/Expand); the environment stage (labels before dependencies before variables) has its own theorems over Model/Env; values that contain '$' are outside the theorem's domain and are decided by the independent oracle against the real texts (hundreds of specifications per run) and by comparing every text with the model.",
         "Trusted: Lean kernel; standard axioms; the study-level correspondence harness; Python str()/yaml/md5 (oracle inputs to the model); re semantics of the two regular expressions modelled (ASCII \\w); names are kept ASCII by the generators.",
         "DESIGN.md §6 C09"),
 "C10": ("proof",
         "alphabet regenerated from make_safe_path + Lean theorems (component safety for every string, identity on safe names, one path level per component, containment, the captured stdout/stderr of a local step one level below its launch directory, workspace shape / distinctness / containment of every instance of the finished graph under CleanSpec) with proved counterexamples; make_safe_path correspondence on arbitrary printable strings; workspace / script-path monitor on real staged studies and generated scripts (local/slurm/lsf, +-hashws, +-usetmp)",
         "Component safety holds for every argument (re-proved against the regenerated alphabet on every run); distinctness and containment are proved under explicit hypotheses, and the unrestricted statement is false: four known findings (sanitiser collisions, degenerate components, '/' in a label, hashws+usetmp) each with a deterministic corpus case and a match predicate keyed on the cause.",
         "Trusted: Lean kernel; standard axioms; the study-level correspondence harness; Python str()/yaml/md5 (oracle inputs to the model); re semantics of the two regular expressions modelled (ASCII \\w); names are kept ASCII by the generators. md5 is an oracle (injectivity on a study's label strings assumed for hashed names).",
         "DESIGN.md §6 C10"),
 "C11": ("proof",
         "Lean 4 proof that sorted(set) is canonical (total order on strings, uniqueness of strictly sorted lists) hence names / workspaces / attached parameters are independent of set iteration order + multi-process staging under different PYTHONHASHSEED values and roots compared with each other and with the model",
         "The mechanism that makes expansion repeatable (every observable built from a set goes through sorted) is proved canonical for all inputs; the runtime half (real hash randomisation, pickling, different roots) is sampled: every generated specification is staged in 4 (quick) / 8 (thorough) fresh interpreters and the root-neutral serialisations, status order, Params order and script texts must coincide.",
         "Trusted: Lean kernel; standard axioms; the study-level correspondence harness; Python str()/yaml/md5 (oracle inputs to the model); re semantics of the two regular expressions modelled (ASCII \\w); names are kept ASCII by the generators. Partial by nature: hash randomisation is runtime behaviour, abstracted as an arbitrary iteration order.",
         "DESIGN.md §6 C11"),
 "C12": ("proof",
         "Lean 4 round-trip theorem readCsv(writeCsv t) = t for comma/newline-free fields + proved counterexamples; lock-protocol invariant over all writer/reader schedules (no torn read); byte-level correspondence of the real write_status / csvtable_to_dict with the model after every poll of conductor-level scenarios; recorded lock/file operation order vs the model's programs",
         "The reader/writer pair is proved to round-trip every table whose fields contain no comma, newline or carriage return (the unrestricted statement is false: two known findings with Lean witnesses). Concurrent reads: for every interleaving of the modelled writer and reader (including lock time-outs) a completed read returns a complete table; the modelled programs are checked against the operation order recorded from the real code on every run. The order in which rows are emitted (status_subtree) is proved to list exactly the instances reachable from _source, each once - every instance when all hang below _source - over Model/Dag.statusOrder, which is compared with the real status_subtree in every execution scenario; row contents are monitored against the scripted scheduler's ledger and the live records (state, job id, restart count) after every poll.",
         "Trusted: Lean kernel; standard axioms; filelock/OS mutual exclusion and atomicity of a single write (runtime behaviour, sampled by the thorough-tier multi-process stress run); text-mode newline translation modelled; timestamps columns compared as written.",
         "DESIGN.md §6 C12"),
 "C18": ("other",
         "model-as-oracle differential through the real hand-off path: store_study/store_batch in one interpreter, load_study/load_batch + stage in another (different hash seeds), compared with each other and with Model/Expand; ExecutionGraph.pickle/unpickle after every poll compared with the live state and the parsed status.csv",
         "Serialisation fidelity (dill, yaml) is a library/runtime property that a Lean theorem cannot carry; the check therefore decides the property by differential runs with the proved expansion model as the expected value. Lean proves only that staging is a function of the study's content.",
         "Trusted: dill/pickle/yaml (checked on every generated study, not proved); the harness; process isolation of the two interpreters.",
         "DESIGN.md §6 C18"),
 "C19": ("proof",
         "Lean 4 theorems on the local-execution path of Model/Exec.lean (one execution per attempt up to the first exit 0, at most `attempts`; success completes at once; exhausted attempts fail the whole sub-tree; order from C01; exit code = verdict value) + real `maestro run -fg` runs whose marker logs, status.csv, exit code and captured stdout/stderr are compared with the model's prediction and monitored",
         "Run count, exit-code decision and sub-tree failure are theorems for every attempts value and every exit-code stream; real processes, working directories, pids and captured output are runtime behaviour sampled by end-to-end CLI runs (quick 20, thorough 400 studies) in which every observed execution sequence must equal the model's.",
         "Trusted: Lean kernel; standard axioms; /bin/bash, the OS process model and the file system (sampled); the launcher stubs only time.sleep.",
         "DESIGN.md §6 C19"),
 "C15": ("proof",
         "Lean 4 theorems over Model/Launcher.lean (Python-typed resource values, every exception an Except error): scheduled iff nodes/procs declared; local script exact; Slurm header = exactly one directive per requested resource with the step-else-batch fallback law; launcher-token loop invariant (each token replaced by its own launcher, per-token and total budgets) for every adapter; only ValueError rejections on Slurm/Flux; proved counterexamples for the known findings + resource-space correspondence with the real Slurm/LSF/Flux/local write_script (script text or exception class) + independent header/launcher monitor",
         "Theorems hold for every batch block, resource dictionary (any value types) and command text. Full-strength 'never fails / exactly the declared resources' is proved for Slurm (header exactness, never-fails without bracketed tokens, clean rejection with them); the launcher-loop theorem covers all adapters; LSF and Flux headers are modelled and tied by correspondence and the monitor but carry no exactness theorem, and five combination-specific defects are known findings with Lean witnesses (LSF needs nodes and procs, LSF [Pp] token, [Nn] token, Flux nodes-only, LSF empty directives). Five other defects were repaired ('fix:' commits).",
         "Trusted: Lean kernel; standard axioms; the correspondence harness (real adapters, fake flux module for version/handle only); Python str.format/str()/int()/float() modelled for the decimal ASCII spellings the generators produce (fractional Flux walltimes and non-ASCII digits are outside the model); regular expressions of schedulerscriptadapter.py modelled by hand (findAllocs, hasLegacy, digitsBefore) and validated by the correspondence.",
         "DESIGN.md §6 C15"),
 "C13": ("proof",
         "the four JSON schemas regenerated from yamlspecification.json as Lean terms on every run + Lean 4 model of load/verify/convert/Study construction (Model/Spec.lean, schema evaluator for the keywords used) + theorems: accept-soundness (accepted => schema-valid sections with their proved consequences, >=1 step, distinct names, no self/undefined dependency, equal parameter lengths), characterisation of every internal-error source, accepted steps = document steps, priority names understood (decide over regenerated tables), proved counterexamples + structural-mutation correspondence with the real load -> environment -> steps -> parameters -> Study path, Draft7-validity correspondence per section, independent rule oracle / staging monitor",
         "Accept-soundness and the internal-error characterisation are theorems for every document (any tree of mappings, lists and scalars); schema consequences are re-proved against the regenerated schema term, so weakening the schema file breaks a proof. 'Never an internal error' (load never crashes) is a theorem at full strength for every document since the repairs of _verify_steps, the sources schema and _verify_dependencies (14 'fix:' commits in all for this property). One known finding remains and is reported on every run: a step name that holds a $(VAR) token passes the validator and Study construction then raises ValueError (the node is filed under the raw name, the edges under the substituted one); the Spec model takes names as written, so such documents are judged by the monitor only. Usability after acceptance (conversion, Study, staging) is decided by the correspondence and the staging monitor on the real code; staging itself is C08's model.",
         "Trusted: Lean kernel; standard axioms; the translator (unsupported schema constructs are listed in Gen/Schema and must be proved empty); PyYAML parsing (documents are compared as parsed trees: duplicate mapping keys are collapsed by the loader before the code sees them; non-string keys and floats that are not multiples of 0.1 are outside the model); jsonschema Draft7 semantics modelled for the keywords used and validated per section on every run; file-system dependent failures (a dependency path that does not exist) are outside the model.",
         "DESIGN.md §6 C13"),
 "C14": ("proof",
         "Lean 4 theorems over Model/Dag.lean (acyclicity invariant, DFS cycle-detection soundness/completeness, toposort, BFS/DFS exactness, fuel sufficiency) + operation-sequence correspondence with the real DAG class + property monitor",
         "Machine-checked theorems for all operation sequences and all graphs over a hand-written model of dag.py; the model is tied to the code on every run by a differential run (random + bounded-exhaustive operation sequences, state compared after every operation) and the property is also monitored directly on the real graph.",
         "Trusted: Lean kernel; axioms propext/Classical.choice/Quot.sound; the correspondence harness; Python's recursion limit is not modelled (walks take fuel, proved sufficient).",
         "DESIGN.md §6 C14"),
}
PENDING_REASON = "check not built yet in this commit (work in progress; see DESIGN.md §11 for the order of work)"

def main():
    props = [json.loads(l) for l in open(os.path.join(HERE, "properties.jsonl"))]
    checks, na = [], []
    for p in props:
        pid = p["id"]
        if pid in CLAIMED:
            cat, tech, text, note, ref = CLAIMED[pid]
            checks.append({
                "property_id": pid,
                "quick_cmd": "./check %s --tier quick" % pid,
                "thorough_cmd": "./check %s --tier thorough" % pid,
                "evidence_file": "evidence/%s.json" % pid,
                "replay_cmd_template": "./check %s --replay {path}" % pid,
                "engine": "lean-proof+correspondence",
                "level_claimed": {"category": cat, "text": text, "design_ref": ref},
                "level_note": note,
                "technique": tech,
            })
        else:
            na.append({"property_id": pid, "reason": NA.get(pid, PENDING_REASON)})
    m = {
        "version": 1,
        "setup_cmd": "./check --setup",
        "hooks": {
            "guard": "MAESTROWF_VERIF",
            "enable": "no source hook is needed: the harness registers a scripted scheduler adapter through ScriptAdapterFactory.factories and replaces time.sleep / subprocess entry points from outside; the guard variable is reserved and unused",
            "baseline_off_cmd": "cd /repo && /venv/bin/python -m pytest -ra -q -p no:cacheprovider --timeout=900 --continue-on-collection-errors",
            "source_commits": [],
            "add_only": True,
        },
        "engines": [{
            "name": "lean-proof+correspondence",
            "path": "check",
            "serves_properties": sorted(CLAIMED),
            "kind_free_text": "Lean 4 theorems over executable models (lean/MaestroVerif), tables regenerated from /repo by harness/translate.py, line-protocol correspondence between the compiled model driver and the real Python code, property monitors on the real traces",
        }],
        "checks": checks,
        "not_applicable": na,
        "notes": "See DESIGN.md. Fix commits made in /repo are listed in known_findings.json as 'fixed' entries.",
    }
    json.dump(m, open(os.path.join(HERE, "MANIFEST.json"), "w"), indent=1)
    print("claimed:", sorted(CLAIMED), "not_applicable:", len(na))

NA = {}
if __name__ == "__main__":
    main()
