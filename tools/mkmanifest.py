#!/usr/bin/env python3
"""Regenerates MANIFEST.json from the table below (kept valid at all times)."""
import json, os
HERE = os.path.dirname(os.path.dirname(os.path.abspath(__file__)))

# id -> (category, technique, text, note, design_ref)
CLAIMED = {
 "C14": ("proof",
         "Lean 4 theorems over Model/Dag.lean (acyclicity invariant, DFS cycle-detection soundness/completeness, toposort, BFS/DFS exactness, fuel sufficiency) + operation-sequence correspondence with the real DAG class + property monitor",
         "Machine-checked theorems for all operation sequences and all graphs over a hand-written model of dag.py; the model is tied to the code on every run by a differential run (random + bounded-exhaustive operation sequences, state compared after every operation) and the property is also monitored directly on the real graph.",
         "Trusted: Lean kernel; axioms propext/Classical.choice/Quot.sound; the correspondence harness; Python's recursion limit is not modelled (walks take fuel, proved sufficient).",
         "DESIGN.md §6 C14"),
}
PENDING_REASON = "check not built yet in this commit (work in progress; see DESIGN.md §11 for the order of work)"

def main():
    props = [json.loads(l) for l in open(os.path.join(HERE, "properties.jsonl"))]
    checks, na = [], []
    for p in props:
        pid = p["id"]
        if pid in CLAIMED:
            cat, tech, text, note, ref = CLAIMED[pid]
            checks.append({
                "property_id": pid,
                "quick_cmd": "./check %s --tier quick" % pid,
                "thorough_cmd": "./check %s --tier thorough" % pid,
                "evidence_file": "evidence/%s.json" % pid,
                "replay_cmd_template": "./check %s --replay {path}" % pid,
                "engine": "lean-proof+correspondence",
                "level_claimed": {"category": cat, "text": text, "design_ref": ref},
                "level_note": note,
                "technique": tech,
            })
        else:
            na.append({"property_id": pid, "reason": NA.get(pid, PENDING_REASON)})
    m = {
        "version": 1,
        "setup_cmd": "./check --setup",
        "hooks": {
            "guard": "MAESTROWF_VERIF",
            "enable": "no source hook is needed: the harness registers a scripted scheduler adapter through ScriptAdapterFactory.factories and replaces time.sleep / subprocess entry points from outside; the guard variable is reserved and unused",
            "baseline_off_cmd": "cd /repo && /venv/bin/python -m pytest -ra -q -p no:cacheprovider --timeout=900 --continue-on-collection-errors",
            "source_commits": [],
            "add_only": True,
        },
        "engines": [{
            "name": "lean-proof+correspondence",
            "path": "check",
            "serves_properties": sorted(CLAIMED),
            "kind_free_text": "Lean 4 theorems over executable models (lean/MaestroVerif), tables regenerated from /repo by harness/translate.py, line-protocol correspondence between the compiled model driver and the real Python code, property monitors on the real traces",
        }],
        "checks": checks,
        "not_applicable": na,
        "notes": "See DESIGN.md. Fix commits made in /repo are listed in known_findings.json as 'fixed' entries.",
    }
    json.dump(m, open(os.path.join(HERE, "MANIFEST.json"), "w"), indent=1)
    print("claimed:", sorted(CLAIMED), "not_applicable:", len(na))

NA = {}
if __name__ == "__main__":
    main()
