#!/bin/bash
out=$1; sd=$2
props=(C12 C05 C02 C01 C10 C15 C09 C14 C04 C08 C13 C18 C19 C20 C03 C06 C07 C11 C16 C17)
for i in 0 1 2 3; do
  (
    wt=/tmp/mut/tlane$i; vc=/dev/shm/tlane$i-verif
    [ -d $wt ] || git -C /repo worktree add --detach $wt HEAD -q
    git -C $wt checkout -q --detach $(git -C /repo rev-parse HEAD); git -C $wt checkout -q -- .
    rsync -a --delete --exclude=.git --exclude=replays /verif/ $vc/
    k=0
    for p in "${props[@]}"; do
      if [ $((k % 4)) -eq $i ]; then
        t0=$(date +%s)
        (cd $vc && PYTHONPATH=$wt VERIF_REPO=$wt VERIF_SEED=$sd ./check $p --tier thorough > /dev/shm/lt-$p-$sd.log 2>&1; echo "$p seed=$sd rc=$? viol=$(grep -c '^VIOLATION' /dev/shm/lt-$p-$sd.log) secs=$(( $(date +%s) - t0 ))" >> $out)
      fi
      k=$((k+1))
    done
  ) &
done
wait
