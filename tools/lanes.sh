#!/bin/bash
# usage: lanes.sh <out-file> <env-assignment-or-> <names...> ; 4 lanes, each with its own worktree and copy of /verif
out=$1; envs=$2; shift 2
names=("$@")
for i in 0 1 2 3; do
  (
    wt=/tmp/mut/lane$i; vc=/dev/shm/lane$i-verif
    [ -d $wt ] || git -C /repo worktree add --detach $wt HEAD -q
    git -C $wt checkout -q --detach $(git -C /repo rev-parse HEAD); git -C $wt checkout -q -- .
    rsync -a --delete --exclude=.git --exclude=replays /verif/ $vc/
    k=0
    for n in "${names[@]}"; do
      if [ $((k % 4)) -eq $i ]; then
        p=${n:0:3}
        sed -E 's#^(--- a|\+\+\+ b)/tmp/mut/[A-Za-z0-9_]*/#\1/#' /verif/seeded/$n/patch.diff > /dev/shm/lane$i.diff
        if git -C $wt apply /dev/shm/lane$i.diff 2>/dev/null; then
          (cd $vc && PYTHONPATH=$wt VERIF_REPO=$wt env $envs ./check $p --tier quick > /dev/shm/lane$i-$n.log 2>&1; rc=$?
           echo "$n rc=$rc nofail=$(grep -c 'no-failing-input-found' /dev/shm/lane$i-$n.log) $(grep -A1 '^VIOLATION' /dev/shm/lane$i-$n.log | sed -n 2p | cut -c1-150)" >> $out)
          git -C $wt checkout -q -- .
        else
          echo "$n patch-does-not-apply" >> $out
        fi
      fi
      k=$((k+1))
    done
  ) &
done
wait
