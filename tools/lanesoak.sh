#!/bin/bash
# usage: lanesoak.sh <out> <seed> ; all 20 quick checks on clean worktrees, four lanes
out=$1; sd=$2
props=(C01 C02 C03 C04 C05 C06 C07 C08 C09 C10 C11 C12 C13 C14 C15 C16 C17 C18 C19 C20)
for i in 0 1 2 3; do
  (
    wt=/tmp/mut/lane$i; vc=/dev/shm/lane$i-verif
    git -C $wt checkout -q --detach $(git -C /repo rev-parse HEAD); git -C $wt checkout -q -- .
    rsync -a --delete --exclude=.git --exclude=replays /verif/ $vc/
    k=0
    for p in "${props[@]}"; do
      if [ $((k % 4)) -eq $i ]; then
        (cd $vc && PYTHONPATH=$wt VERIF_REPO=$wt VERIF_SEED=$sd ./check $p --tier quick > /dev/shm/ls-$p-$sd.log 2>&1; echo "$p seed=$sd rc=$? viol=$(grep -c '^VIOLATION' /dev/shm/ls-$p-$sd.log) lines=$(grep -vc '^KNOWN' /dev/shm/ls-$p-$sd.log)" >> $out)
      fi
      k=$((k+1))
    done
  ) &
done
wait
