#!/usr/bin/env python3
"""Runs every seeded breaking change (seeded/<name>/patch.diff) against the check
of the property it breaks: applies the patch to /repo, runs the quick tier,
reverts, and records the outcome in seeded/<name>/meta.json (`detected_by`).

usage: tools/seeded_matrix.py [name ...] [--also C05,C12] [--dry]   (default: all; --dry: do not record)
Never leaves /repo modified; refuses to start when /repo is not clean.
"""
import json
import os
import re
import subprocess
import sys

HERE = os.path.dirname(os.path.dirname(os.path.abspath(__file__)))
REPO = "/repo"


def sh(cmd, **kw):
    return subprocess.run(cmd, shell=True, capture_output=True, text=True, **kw)


def clean():
    return sh("git -C %s status --porcelain -- maestrowf" % REPO).stdout.strip() == ""


def run_one(name, props):
    d = os.path.join(HERE, "seeded", name)
    meta = json.load(open(os.path.join(d, "meta.json")))
    patch = open(os.path.join(d, "patch.diff")).read()
    patch = re.sub(r"^(--- a|\+\+\+ b)/tmp/mut/[A-Za-z0-9_]*/", r"\1/", patch, flags=re.M)
    tmp = "/dev/shm/seed-%s.patch" % name
    open(tmp, "w").write(patch)
    results = []
    ap = sh("git -C %s apply %s" % (REPO, tmp))
    if ap.returncode != 0:
        os.remove(tmp)
        meta["detected_by"] = {"status": "patch no longer applies to the current tree (superseded)",
                               "detail": ap.stderr.strip()[:200]}
        json.dump(meta, open(os.path.join(d, "meta.json"), "w"), indent=1)
        return meta["detected_by"]
    # the evidence files belong to runs on the unchanged tree: what a run against a seeded change
    # writes there is put back afterwards
    saved_ev = {}
    for prop in props:
        ev = os.path.join(HERE, "evidence", "%s.json" % prop)
        saved_ev[ev] = open(ev).read() if os.path.exists(ev) else None
    try:
        for prop in props:
            r = sh("timeout 3600 ./check %s --tier quick" % prop, cwd=HERE)
            viol = [l for l in r.stdout.splitlines() if l.startswith("VIOLATION")]
            what = ""
            lines = r.stdout.splitlines()
            for i, l in enumerate(lines):
                if l.startswith("VIOLATION") and i + 1 < len(lines):
                    what = lines[i + 1].strip()[:240]
                    break
            results.append({"check": prop, "tier": "quick", "rc": r.returncode,
                            "violations": len(viol),
                            "with_failing_input": any("no-failing-input-found" not in v for v in viol),
                            "first": what})
    finally:
        sh("git -C %s checkout -- ." % REPO)
        os.remove(tmp)
        for ev, text in saved_ev.items():
            if text is not None:
                open(ev, "w").write(text)
    if "--dry" in sys.argv:      # e.g. a run under another VERIF_SEED: report only
        return results
    meta["detected_by"] = results
    json.dump(meta, open(os.path.join(d, "meta.json"), "w"), indent=1)
    return results


def main():
    args = [a for a in sys.argv[1:] if not a.startswith("--")]
    also = []
    for a in sys.argv[1:]:
        if a.startswith("--also"):
            also = a.split("=", 1)[1].split(",") if "=" in a else []
    if not clean():
        print("/repo is not clean; refusing to run")
        return 2
    names = args or sorted(os.listdir(os.path.join(HERE, "seeded")))
    for name in names:
        meta = json.load(open(os.path.join(HERE, "seeded", name, "meta.json")))
        props = [meta["breaks_property"]] + [p for p in also if p != meta["breaks_property"]]
        res = run_one(name, props)
        print(name, json.dumps(res)[:400])
        if not clean():
            print("/repo left dirty after", name)
            return 2
    return 0


if __name__ == "__main__":
    sys.exit(main())
