#!/bin/bash
# usage: tools/seed_verify.sh <name> <dir-with patch.diff demo.py NOTES.md> <property>
# Confirms a candidate breaking change in a fresh scratch worktree of /repo:
#  demo passes on the unchanged code, fails with the change, suite still 40 passed.
set -u
name=$1; src=$2; prop=$3
wt=/tmp/seedchk-$name
git -C /repo worktree remove --force $wt 2>/dev/null
git -C /repo worktree add -q --detach $wt HEAD || exit 2
mkdir -p $wt/_mut && cp $src/demo.py $wt/_mut/demo.py
# demos refer to their original worktree path; rewrite it
orig=$(grep -o '/tmp/mut/[A-Za-z0-9_]*' $src/demo.py | head -1)
[ -n "$orig" ] && sed -i "s#$orig#$wt#g" $wt/_mut/demo.py
cd $wt
PYTHONPATH=$wt timeout 600 /venv/bin/python _mut/demo.py >/tmp/seedchk-$name.base.log 2>&1; base=$?
if [ -n "$orig" ]; then sed "s#$orig#$wt#g" $src/patch.diff > /tmp/seedchk-$name.patch; else cp $src/patch.diff /tmp/seedchk-$name.patch; fi
git apply /tmp/seedchk-$name.patch || { echo "patch does not apply"; cd /; git -C /repo worktree remove --force $wt; exit 2; }
PYTHONPATH=$wt timeout 600 /venv/bin/python _mut/demo.py >/tmp/seedchk-$name.mut.log 2>&1; mut=$?
tests=$(PYTHONPATH=$wt timeout 900 /venv/bin/python -m pytest -q -p no:cacheprovider --timeout=900 --continue-on-collection-errors 2>&1 | tail -1)
cd /
git -C /repo worktree remove --force $wt
echo "name=$name base_rc=$base mutated_rc=$mut tests: $tests"
if [ $base -eq 0 ] && [ $mut -ne 0 ] && echo "$tests" | grep -q "40 passed"; then
  d=/verif/seeded/$name; mkdir -p $d
  cp $src/patch.diff $d/patch.diff; cp $src/demo.py $d/demo.py; [ -f $src/NOTES.md ] && cp $src/NOTES.md $d/NOTES.md
  [ -n "$orig" ] && sed -i "s#$orig#<WORKTREE>#g" $d/demo.py $d/NOTES.md 2>/dev/null
  python3 - "$name" "$prop" "$base" "$mut" "$tests" <<'PY'
import json,sys,os
name,prop,base,mut,tests=sys.argv[1:6]
d="/verif/seeded/"+name
notes=open(d+"/NOTES.md").read() if os.path.exists(d+"/NOTES.md") else ""
json.dump({"id":name,"breaks_property":prop,
 "origin":"independent sub-agent given only the property text and a scratch worktree",
 "needs_to_manifest":"see NOTES.md",
 "confirmed":{"demo_on_unchanged_rc":int(base),"demo_with_change_rc":int(mut),"test_suite_with_change":tests,
  "how":"tools/seed_verify.sh: fresh scratch worktree of /repo HEAD; PYTHONPATH=<worktree> /venv/bin/python _mut/demo.py before and after git apply; pinned pytest command with the change applied"},
 "detected_by":None}, open(d+"/meta.json","w"), indent=1)
PY
  echo CONFIRMED
else
  echo REJECTED; tail -5 /tmp/seedchk-$name.base.log /tmp/seedchk-$name.mut.log
fi
rm -f /tmp/seedchk-$name.patch /tmp/seedchk-$name.*.log
