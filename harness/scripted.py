"""Scripted scheduler environment for driving the real ExecutionGraph.

Everything here is harness-side: no source hook in /repo is needed.  A scripted
adapter is registered through the plugin registry
(ScriptAdapterFactory.factories) under the key "scripted"; the "local" entry is
replaced by a scripted local adapter so that locally executed steps consume the
same global submission-outcome stream without starting processes.
"""
import os
import sys
import time

# Never sleep: replace time.sleep before maestrowf modules bind the name.
_real_sleep = time.sleep
time.sleep = lambda *_a, **_k: None

import logging  # noqa: E402
logging.disable(logging.CRITICAL)

from maestrowf.abstracts.enums import (  # noqa: E402
    JobStatusCode, State, SubmissionCode, CancelCode, StudyStatus)
from maestrowf.abstracts.interfaces import ScriptAdapter  # noqa: E402
from maestrowf.interfaces import ScriptAdapterFactory  # noqa: E402
from maestrowf.interfaces.script import (  # noqa: E402
    CancellationRecord, SubmissionRecord)
import maestrowf.datastructures.core.executiongraph as egmod  # noqa: E402
from maestrowf.datastructures.core.executiongraph import (  # noqa: E402
    ExecutionGraph)
from maestrowf.datastructures.core.study import StudyStep  # noqa: E402

egmod.sleep = lambda *_a, **_k: None

SOURCE = "_source"


class World:
    """Global state of the scripted scheduler (one per scenario)."""

    def __init__(self):
        self.reset()

    def reset(self, subs=None, sched=None, restart=None, write_files=False):
        self.subs = list(subs or [])       # global submission outcomes (1/0)
        self.counter = 0                   # global submission counter
        self.sched = dict(sched or {})     # step name -> bool
        self.restart = dict(restart or {})  # step name -> bool
        self.events = []                   # events of the current operation
        self.poll_code = "OK"
        self.poll_calls = 0
        self.poll_reports = []             # [(step name, state name | None)]
        self.job_owner = {}                # job id -> step name
        self.ledger = {}                   # job id -> "live" | terminal state
        self.all_events = []
        self.write_files = write_files
        self.queried = None
        self.cancel_code = "OK"            # what the scheduler answers to cancel_jobs
        self.peak_live = 0                 # the largest number of simultaneously live jobs so far
        self.foreign_scripts = []          # submissions whose script file did not hold the step's own command
        self.via = None                    # "slurm" / "lsf": a real adapter interprets the answers
        self.via_rng = None

    def outcome(self):
        k = self.counter
        self.counter += 1
        ok = self.subs[k] if k < len(self.subs) else 1
        return k, bool(ok)

    def emit(self, ev):
        self.events.append(ev)
        self.all_events.append(ev)


WORLD = World()


def _kind(path):
    base = os.path.basename(path or "")
    return "restart" if ".restart." in base else "main"


class ScriptedAdapter(ScriptAdapter):
    """Scheduler adapter whose answers come from the scenario script."""

    key = "scripted"

    def __init__(self, **kwargs):
        super(ScriptedAdapter, self).__init__(**kwargs)
        self._extension = ".scr.sh"

    @property
    def extension(self):
        return self._extension

    def _write_script(self, ws_path, step):
        name = step.real_name
        sched = bool(WORLD.sched.get(name, True))
        script = os.path.join(ws_path, "{}.scr.sh".format(step.name))
        rpath = None
        if step.run["restart"]:
            rpath = os.path.join(ws_path, "{}.restart.scr.sh".format(step.name))
        if WORLD.write_files:
            with open(script, "w") as f:
                f.write("#!/bin/bash\n\n{}\n".format(step.run["cmd"]))
            if rpath:
                with open(rpath, "w") as f:
                    f.write("#!/bin/bash\n\n{}\n".format(step.run["restart"]))
        WORLD.emit(("gen", name))
        return sched, script, rpath

    def write_script(self, ws_path, step):
        if WORLD.write_files:
            return super(ScriptedAdapter, self).write_script(ws_path, step)
        return self._write_script(ws_path, step)

    def submit(self, step, path, cwd, job_map=None, env=None):
        k, ok = WORLD.outcome()
        name = step.real_name
        if WORLD.write_files and path and os.path.exists(path):
            # the scheduler reads the file it is given, at the moment it is given
            want = step.run["restart"] if _kind(path) == "restart" else step.run["cmd"]
            with open(path) as f:
                text = f.read()
            if "\n\n{}\n".format(want) not in text:
                WORLD.foreign_scripts.append((name, _kind(path), path, text[-120:]))
        if ok:
            jid = str(k + 1)
            WORLD.job_owner[jid] = name
            WORLD.ledger[jid] = "live"
            WORLD.peak_live = max(WORLD.peak_live, sum(1 for v in WORLD.ledger.values() if v == "live"))
            WORLD.emit(("submit", name, _kind(path), "ok", k + 1, cwd))
            return SubmissionRecord(SubmissionCode.OK, 0, jid)
        WORLD.emit(("submit", name, _kind(path), "fail", 0, cwd))
        return SubmissionRecord(SubmissionCode.ERROR, 1)

    def check_jobs(self, joblist):
        WORLD.queried = list(joblist)
        # a job this scheduler never handed out (the id comes from somewhere else, e.g. an earlier run's
        # leftovers): the call is recorded, the scheduler knows nothing about the job
        foreign = [j for j in joblist if j not in WORLD.job_owner]
        joblist = [j for j in joblist if j in WORLD.job_owner]
        WORLD.emit(("check", tuple(sorted([WORLD.job_owner[j] for j in joblist] + ["?job:%s" % j for j in foreign])),
                    tuple(sorted(int(j) for j in joblist))))
        # the scenario's code is the outcome of the first query of the poll; should the graph ask again
        # within the same poll, the scheduler is up again (a transient failure)
        code = getattr(JobStatusCode, WORLD.poll_code if WORLD.poll_calls == 0 else "OK")
        WORLD.poll_calls += 1
        status = {}
        # the scenario's report for a step is about the step's newest job; an older
        # job of the same step that is asked about again is answered from the record
        latest = {}
        for j, nm in WORLD.job_owner.items():
            if nm not in latest or int(j) > int(latest[nm]):
                latest[nm] = j
        owner_to_job = {}
        for j in joblist:
            nm = WORLD.job_owner[j]
            if latest[nm] == j:
                owner_to_job[nm] = j
            elif WORLD.ledger.get(j) in TERMINAL and code == JobStatusCode.OK:
                status[j] = getattr(State, WORLD.ledger[j])
        for name, st in WORLD.poll_reports:
            if name not in owner_to_job:
                continue      # only a stale job of the step was asked about, or the step is not part of
                # this call (which jobs a poll asks about altogether is the monitors' business)
            jid = owner_to_job[name]
            if WORLD.ledger.get(jid) in TERMINAL and code == JobStatusCode.OK:
                # a job that has ended stays ended: asked again about it, the scheduler repeats
                # itself whatever the scenario would like to say next
                st = WORLD.ledger[jid]
            status[jid] = None if st is None else getattr(State, st)
            if st in TERMINAL and code == JobStatusCode.OK:
                WORLD.ledger[jid] = st
        if WORLD.via:
            # the graph gets what the real adapter reads out of the corresponding scheduler output
            import viasched
            return viasched.ask(WORLD.via, WORLD.via_rng, list(joblist), code, status, list(WORLD.job_owner))
        return code, status

    def cancel_jobs(self, joblist):
        WORLD.emit(("cancel", tuple(sorted(WORLD.job_owner.get(j, "?job:%s" % j) for j in joblist)),
                    tuple(sorted(int(j) for j in joblist))))
        code = getattr(CancelCode, WORLD.cancel_code)
        return CancellationRecord(code, 0 if code == CancelCode.OK else 1)


TERMINAL = ("FINISHED", "FAILED", "TIMEDOUT", "HWFAILURE", "UNKNOWN",
            "CANCELLED")


class ScriptedLocalAdapter(ScriptedAdapter):
    """Stands in for LocalScriptAdapter: 'runs' a step by consuming the next
    submission outcome; no process is started."""

    key = "local"

    def submit(self, step, path, cwd, job_map=None, env=None):
        k, ok = WORLD.outcome()
        name = step.real_name
        if ok:
            WORLD.emit(("local", name, _kind(path), "ok", k + 1, cwd))
            return SubmissionRecord(SubmissionCode.OK, 0, k + 1)
        WORLD.emit(("local", name, _kind(path), "fail", 0, cwd))
        return SubmissionRecord(SubmissionCode.ERROR, 1, k + 1)


_saved_local = ScriptAdapterFactory.factories.get("local")


def make_counting(real_cls, calls):
    """the real adapter, with its scheduler-facing calls recorded"""
    class Counting(real_cls):
        def submit(self, step, path, cwd, job_map=None, env=None):
            calls.append(("submit", step.real_name))
            return super(Counting, self).submit(step, path, cwd, job_map, env)

        def check_jobs(self, joblist):
            calls.append(("check_jobs", tuple(joblist)))
            return super(Counting, self).check_jobs(joblist)

        def cancel_jobs(self, joblist):
            calls.append(("cancel_jobs", tuple(joblist)))
            return super(Counting, self).cancel_jobs(joblist)
    Counting.__name__ = "Counting" + real_cls.__name__
    return Counting


def make_scripted(real_cls, calls):
    """the real adapter's script generation with an all-success scripted scheduler"""
    state = {"n": 0}

    class AllSuccess(real_cls):
        def submit(self, step, path, cwd, job_map=None, env=None):
            state["n"] += 1
            calls.append(("submit", step.real_name))
            return SubmissionRecord(SubmissionCode.OK, 0, str(state["n"]))

        def check_jobs(self, joblist):
            calls.append(("check_jobs", tuple(joblist)))
            return JobStatusCode.OK, {j: State.FINISHED for j in joblist}

        def cancel_jobs(self, joblist):
            calls.append(("cancel_jobs", tuple(joblist)))
            return CancellationRecord(CancelCode.OK, 0)
    AllSuccess.__name__ = "AllSuccess" + real_cls.__name__
    return AllSuccess


def install():
    ScriptAdapterFactory.factories["scripted"] = ScriptedAdapter
    ScriptAdapterFactory.factories["local"] = ScriptedLocalAdapter


def uninstall():
    ScriptAdapterFactory.factories.pop("scripted", None)
    if _saved_local is not None:
        ScriptAdapterFactory.factories["local"] = _saved_local


# how the instances of an execution scenario are called: "s" -> s1, s2, ...; "short" -> the even ones
# a single letter (b, d, ... would be too regular: a, b, c, d for 2, 4, 6, 8), the odd ones a long name
# that holds every one of those letters (seeded change C02-m: a visited set seeded with the
# *characters* of the failing step's name).  Set by `build_graph` from the scenario.
NAME_STYLE = "s"


def sname(i):
    if i == 0:
        return SOURCE
    if NAME_STYLE == "short":
        if i % 2 == 0 and i // 2 <= 26:
            return chr(96 + i // 2)
        return "abcdefgh%d" % i
    return "s%d" % i


def sidx(name):
    """the index behind an instance name - read off the shape of the name, so that a graph named in
    one style can still be printed while another style is in force"""
    if name == SOURCE:
        return 0
    if len(name) == 1 and name.isalpha():
        return 2 * (ord(name) - 96)
    if name.startswith("abcdefgh") and name[8:].isdigit():
        return int(name[8:])
    return int(name[1:])


def build_graph(scn, root):
    """Build a real ExecutionGraph for scenario `scn` (see gen_exec.py)."""
    global NAME_STYLE
    NAME_STYLE = scn.get("names", "s")
    n = scn["n"]
    g = ExecutionGraph(submission_attempts=scn["attempts"],
                       submission_throttle=scn["throttle"],
                       use_tmp=False, dry_run=bool(scn["dry"]))
    g.add_description(name="scn", description="scripted scenario")
    # Same override as Study.stage(): the execution graph is built from an
    # acyclic study, the cycle check is disabled there.
    from types import MethodType
    g.detect_cycle = MethodType(lambda self: None, g)
    g.add_node(SOURCE, None)
    sched = {}
    restart = {}
    for i in range(1, n + 1):
        step = StudyStep()
        step.name = sname(i)
        step.run["cmd"] = "echo %d" % i
        has_r = bool(scn["restart"][i - 1])
        if has_r:
            step.run["restart"] = "echo restart %d" % i
        sched[sname(i)] = bool(scn["sched"][i - 1])
        restart[sname(i)] = has_r
        rl = scn["rlimit"] if has_r else 0
        g.add_step(sname(i), step, os.path.join(root, sname(i)), rl)
    for p, c in scn["edges"]:
        g.add_connection(sname(p), sname(c))
    g.set_adapter({"type": "scripted"})
    WORLD.reset(subs=scn.get("subs"), sched=sched, restart=restart,
                write_files=scn.get("write_files", False))
    return g


def canon_events(events):
    out = []
    for ev in events:
        if ev[0] in ("check", "cancel"):
            out.append("%s[%s]" % (ev[0], ",".join(
                str(sidx(x)) for x in sorted(ev[1], key=sidx))))
        elif ev[0] == "gen":
            out.append("gen(%d)" % sidx(ev[1]))
        elif ev[0] in ("submit", "local"):
            out.append("%s(%d,%s,%s,%d)" % (ev[0], sidx(ev[1]), ev[2], ev[3],
                                           ev[4]))
        else:
            out.append(str(ev))
    return ";".join(out)


def dump_state(g, n):
    """Canonical one-line dump of the real graph's state."""
    def sset(s):
        return ",".join(str(i) for i in sorted(sidx(x) for x in s))
    st = []
    for i in range(1, n + 1):
        r = g.values[sname(i)]
        job = r.jobid[-1] if r.jobid else 0
        deps = sset(g._dependencies[sname(i)])
        st.append("%d:%s:%s:%d:[%s]" % (i, r.status.name, job, r.restarts,
                                        deps))
    return ("st=%s done={%s} prog={%s} fail={%s} canc={%s} ready=[%s] cflag=%d"
            % (" ".join(st), sset(g.completed_steps), sset(g.in_progress),
               sset(g.failed_steps), sset(g.cancelled_steps),
               ",".join(str(sidx(x)) for x in g.ready_steps),
               1 if g.is_canceled else 0))


def do_poll(g, code, reports):
    """Run one real execute_ready_steps with the scripted answers.
    Returns (verdict name | 'RAISE:<cls>', canonical event string)."""
    WORLD.events = []
    WORLD.poll_code = code
    WORLD.poll_calls = 0
    WORLD.poll_reports = [(sname(i), st) for i, st in reports]
    try:
        v = g.execute_ready_steps()
        ret = v.name
    except RuntimeError as e:
        ret = "RAISE:RuntimeError"
    return ret, canon_events(WORLD.events)


def do_cancel(g, code="OK"):
    """`code`: the scheduler's answer to the cancel request (the study is
    flagged as cancelled whatever it is)"""
    WORLD.events = []
    WORLD.cancel_code = code
    try:
        g.cancel_study()
        ret = "ok"
    except Exception as e:  # noqa
        ret = "RAISE:%s" % type(e).__name__
    return ret, canon_events(WORLD.events)
