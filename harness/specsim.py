"""Specification-level machinery for C13: generator of valid specifications over
the range of values the schema admits, structural mutations, the real
load -> convert -> Study -> stage pipeline with outcome classification."""
import copy
import io
import os

import yaml

PRIORITIES = None


def schema():
    import json
    import maestrowf.specification as m
    p = os.path.join(os.path.dirname(m.__file__), "schemas", "yamlspecification.json")
    return json.load(open(p))


def priorities():
    global PRIORITIES
    if PRIORITIES is None:
        run = schema()["STUDY_STEP"]["properties"]["run"]["properties"]
        PRIORITIES = run["priority"]["anyOf"][0]["enum"]
    return PRIORITIES


STEP_NAMES = ["pre", "run", "post", "sim", "ana", "merge", "a", "b",
              # names are data: blanks at either end, a line break from a block scalar
              "run ", " run", "post\n", "a  "]
PARAMS = ["P", "SIZE", "ITER", "T"]


def count(rng, params, lo=1):
    r = rng.random()
    if r < 0.6 or not params:
        return rng.randint(lo, 4)
    return "$(%s)" % rng.choice(params)


def gen_valid(rng, root):
    """a valid specification (as the parsed document) ranging over what the
    schema admits for each key"""
    params = rng.sample(PARAMS, rng.choice([0, 1, 2, 2, 3]))
    rows = rng.randint(1, 3)
    doc = {"description": {"name": rng.choice(["study", "my study", "s-1"]),
                           "description": rng.choice(["generated", "A study."])}}
    if rng.random() < 0.15:
        doc["description"]["extra"] = rng.choice(["descriptions may carry other keys", datetime.date(2024, 5, 17)])
    env = {}
    variables = {}
    if rng.random() < 0.8:
        variables["OUTPUT_PATH"] = root
    for v in rng.sample(["VAR1", "CODE", "N", "OPT"], rng.randint(0, 3)):
        variables[v] = rng.choice(["val", 7, "/usr/bin/x", "a b", 2.5, 0])
    if variables or rng.random() < 0.5:
        env["variables"] = variables
    if rng.random() < 0.3:
        env["labels"] = {"LBL": "pre-$(%s)-post" % (rng.choice(list(variables)) if variables else "X")}
    if rng.random() < 0.15:
        env["sources"] = rng.choice([[], ["source /etc/profile"]])
    if rng.random() < 0.3:
        deps = {}
        if rng.random() < 0.8:
            deps["paths"] = [{"name": "DEP%d" % i, "path": root} for i in range(rng.randint(0, 2))]
        if rng.random() < 0.15:
            deps["git"] = []
        env["dependencies"] = deps
    if env or rng.random() < 0.5:
        doc["env"] = env
    if rng.random() < 0.4:
        doc["batch"] = rng.choice([{"type": "local"}, {"type": "slurm", "host": "h", "bank": "b", "queue": "q"},
                                   {"type": "lsf", "host": "h", "bank": "b", "queue": "q", "nodes": 1}, {}])
    steps = []
    names = rng.sample(STEP_NAMES, rng.randint(1, 5))
    for i, nm in enumerate(names):
        run = {"cmd": rng.choice(["echo hi", "echo $(%s)" % params[0] if params else "ls",
                                  "$(LAUNCHER) ./app\n", "cp a b && ls"])}
        deps = []
        for p in names[:i]:
            r = rng.random()
            if r < 0.3:
                deps.append(p)
            elif r < 0.4:
                deps.append(p + "_*")
        if deps or rng.random() < 0.1:
            run["depends"] = deps
        if rng.random() < 0.2:
            run["restart"] = "echo again"
        if rng.random() < 0.1:
            run["pre"] = "module load x"
        if rng.random() < 0.1:
            run["post"] = "echo done"
        for key, lo in (("nodes", 1), ("procs", 1), ("gpus", 0), ("cores per task", 1), ("tasks per rs", 1),
                        ("rs per node", 1), ("cpus per rs", 1)):
            if rng.random() < 0.15:
                run[key] = count(rng, params, lo)
        if rng.random() < 0.1:
            run["bind"] = rng.choice(["rs", "$(P)" if "P" in params else "none"])
        if rng.random() < 0.05:
            run["bind gpus"] = "rs"
        if rng.random() < 0.25:
            run["walltime"] = rng.choice(["00:10:00", 30, 0, "$(T)" if "T" in params else "5"])
        if rng.random() < 0.1:
            run["reservation"] = "res1"
        if rng.random() < 0.15:
            run["exclusive"] = rng.choice([True, False, "$(P)" if "P" in params else True])
        if rng.random() < 0.05:
            run["nested"] = rng.choice([True, False])
        if rng.random() < 0.05:
            run["waitable"] = rng.choice([True, False])
        if rng.random() < 0.3:
            run["priority"] = rng.choice(priorities() + [0.0, 0.5, 1.0, 1, 0])
        if rng.random() < 0.1:
            run["qos"] = "standby"
        steps.append({"name": nm, "description": "step %s" % nm, "run": run})
    doc["study"] = steps
    if params:
        gp = {}
        for k in params:
            vals = [rng.choice([1, 2, 4, "a", 0.5, "x y", True, None, datetime.date(2024, 1, 1 + 0)])
                    if rng.random() < 0.15 else rng.choice([1, 2, 4, "a", 0.5, "x y"]) for _ in range(rows)]
            gp[k] = {"values": vals, "label": rng.choice(["%s.%%%%" % k, "%%"])}
        doc["global.parameters"] = gp
    return doc


# --------------------------------------------------------------------------
# structural mutation

import datetime

# (the last three: what YAML itself makes of `2024-01-01`, of a timestamp and of `!!binary`)
RETYPES = [None, True, False, 0, 5, -1, 2.5, "", "text", "$(X)", [], ["x"], {}, {"k": "v"},
           datetime.date(2024, 1, 1), datetime.datetime(2024, 1, 1, 12, 30), b"\x00bin"]


def paths_of(node, prefix=()):
    """all (path, parent, key) positions of the document tree"""
    out = []
    if isinstance(node, dict):
        for k, v in node.items():
            out.append((prefix + (k,), node, k))
            out.extend(paths_of(v, prefix + (k,)))
    elif isinstance(node, list):
        for i, v in enumerate(node):
            out.append((prefix + (i,), node, i))
            out.extend(paths_of(v, prefix + (i,)))
    return out


def mutate(rng, doc):
    """one structural mutation; returns (mutated document, description).  A
    mutation that does not apply to the shape at hand (the document may already
    have been mutated) is a no-op."""
    try:
        return _mutate(rng, doc)
    except (TypeError, AttributeError, KeyError, IndexError, ValueError):
        return copy.deepcopy(doc), "noop"


def _mutate(rng, doc):
    d = copy.deepcopy(doc)
    pos = paths_of(d)
    r = rng.random()
    if r < 0.08:
        # top-level block operations
        k = rng.choice(["description", "env", "study", "global.parameters", "batch"])
        op = rng.choice(["delete", "retype"])
        if op == "delete":
            d.pop(k, None)
            return d, "delete top-level %s" % k
        d[k] = copy.deepcopy(rng.choice(RETYPES))
        return d, "retype top-level %s to %r" % (k, d[k])
    if r < 0.2 and d.get("study") and isinstance(d["study"], list):
        # name-level rules the schema cannot express
        steps = [s for s in d["study"] if isinstance(s, dict)]
        if steps:
            s = rng.choice(steps)
            op = rng.choice(["dup-step", "self-dep", "undefined-dep", "dup-dep", "forward-dep", "self-dep-star",
                             "reserved-name"])
            if op == "dup-step":
                t = copy.deepcopy(s)
                if rng.random() < 0.5 and isinstance(t.get("run"), dict):
                    t["run"]["cmd"] = "echo other"
                d["study"].insert(rng.randint(0, len(d["study"])), t)
            elif op == "reserved-name":
                s["name"] = "_source"
            elif not isinstance(s.get("run", {}), dict) or not isinstance(s.get("run", {}).get("depends", []), list):
                op = "name-rule(noop)"
            elif op == "self-dep":
                s.setdefault("run", {}).setdefault("depends", []).append(s.get("name"))
            elif op == "self-dep-star":
                # every spelling the study builder resolves to the step itself
                # (it removes each "_*" and "*" wherever they occur)
                nm = str(s.get("name"))
                spelled = rng.choice(["%s_*" % nm, "%s*" % nm, "*%s" % nm, nm[:1] + "*" + nm[1:],
                                      nm[:1] + "_*" + nm[1:], "%s_*_*" % nm])
                s.setdefault("run", {}).setdefault("depends", []).append(spelled)
            elif op == "undefined-dep":
                other = str(rng.choice(steps).get("name"))
                s.setdefault("run", {}).setdefault("depends", []).append(
                    rng.choice(["nosuch", "nosuch_*", "nosuch*", "*",
                                # names that differ from a defined step only by underscores / a prefix
                                other + "__*", other + "_", "_" + other + "_*", other + "x_*", other[:-1] + "_*"]))
            elif op == "dup-dep":
                dep = s.setdefault("run", {}).setdefault("depends", [])
                if dep:
                    dep.append(dep[0])
                else:
                    op = "dup-dep(noop)"
            elif op == "forward-dep":
                later = [t["name"] for t in d["study"][d["study"].index(s) + 1:] if isinstance(t, dict) and "name" in t]
                if later:
                    s.setdefault("run", {}).setdefault("depends", []).append(later[0])
                else:
                    op = "forward-dep(noop)"
            return d, "%s on step %r" % (op, s.get("name"))
    if r < 0.3 and isinstance(d.get("global.parameters"), dict) and d["global.parameters"]:
        k = rng.choice(list(d["global.parameters"]))
        p = d["global.parameters"][k]
        op = rng.choice(["len-mismatch", "label-list", "label-list-short", "empty-values", "name-key"])
        if isinstance(p, dict) and isinstance(p.get("values"), list):
            if op == "len-mismatch":
                if rng.random() < 0.5:
                    p["values"] = p["values"] + [9]
                else:
                    # lengthen every *other* parameter instead (the odd one out comes first, last or between)
                    for k2, p2 in d["global.parameters"].items():
                        if k2 != k and isinstance(p2, dict) and isinstance(p2.get("values"), list):
                            p2["values"] = p2["values"] + [9]
            elif op == "label-list":
                p["label"] = ["l%d" % i for i in range(len(p["values"]))]
            elif op == "label-list-short":
                p["label"] = ["only"]
            elif op == "empty-values":
                p["values"] = []
            elif op == "name-key":
                p["name"] = "custom"
        return d, "%s on parameter %s" % (op, k)
    if r < 0.36 and isinstance(d.get("env"), dict):
        env = d["env"]
        op = rng.choice(["dup-var-dep", "dup-dep-names", "empty-var-name", "dup-label-var", "spack", "git-item",
                         "path-key", "odd-var-name", "dup-path-git", "dup-git-names", "dup-var-git"])
        git_item = {"name": "LIB", "path": "/tmp", "url": "https://example.invalid/lib.git"}
        if op == "dup-var-dep":
            env.setdefault("variables", {})["DEP0"] = "v"
            env.setdefault("dependencies", {}).setdefault("paths", []).append({"name": "DEP0", "path": "/tmp"})
        elif op == "dup-dep-names":
            env.setdefault("dependencies", {}).setdefault("paths", []).extend(
                [{"name": "D", "path": "/tmp"}, {"name": "D", "path": "/"}])
        elif op == "dup-path-git":
            # the same name once as a path and once as a repository (either block may come first)
            deps = env.setdefault("dependencies", {})
            if rng.random() < 0.5 and "paths" not in deps:
                deps["git"] = deps.get("git", []) + [dict(git_item)]
                deps["paths"] = [{"name": "LIB", "path": "/tmp"}]
            else:
                deps.setdefault("paths", []).append({"name": "LIB", "path": "/tmp"})
                deps["git"] = (deps.get("git") or []) + [dict(git_item)]
        elif op == "dup-git-names":
            env.setdefault("dependencies", {})["git"] = [dict(git_item), dict(git_item, path="/")]
        elif op == "dup-var-git":
            env.setdefault("variables", {})["LIB"] = "v"
            env.setdefault("dependencies", {})["git"] = [dict(git_item)]
        elif op == "odd-var-name":
            # names outside \w+ are names too; their values obey the same rules
            env.setdefault("variables", {})[rng.choice(["RUN-DIR", "run.dir", "RUN DIR", "N+1", "CODE/V", "a\\d",
                                                        "x\\1", "g\\g<0>", "back\\"])] = \
                copy.deepcopy(rng.choice([None, "", ["x"], {"k": "v"}, True, "ok", 3]))
        elif op == "empty-var-name":
            env.setdefault("variables", {})[""] = "v"
        elif op == "dup-label-var":
            env.setdefault("variables", {})["LBL"] = "v"
            env.setdefault("labels", {})["LBL"] = "w"
        elif op == "spack":
            env.setdefault("dependencies", {})["spack"] = {"type": "t", "package_name": "p"}
        elif op == "git-item":
            env.setdefault("dependencies", {})["git"] = [rng.choice(["str", {"name": "g"}, 5])]
        elif op == "path-key":
            env.setdefault("dependencies", {})["path"] = [{"name": "q"}]
        if not isinstance(env.get("variables", {}), dict) or not isinstance(env.get("dependencies", {}), dict):
            return d, "noop"
        return d, op
    if not pos:
        return d, "noop"
    path, parent, key = rng.choice(pos)
    op = rng.choice(["delete", "rename", "retype", "retype", "duplicate", "empty"])
    where = "/".join(str(p) for p in path)
    if op == "delete":
        if isinstance(parent, dict):
            del parent[key]
        else:
            parent.pop(key)
        return d, "delete %s" % where
    if op == "rename" and isinstance(parent, dict):
        # (a key may hold a quote; keys that are not strings are outside the modelled documents)
        new = rng.choice(["unknown", "Name", "cmds", key + "x" if isinstance(key, str) else "k",
                          "it's", "'", "a'b'c", "q\"r"])
        parent[new] = parent.pop(key)
        return d, "rename %s to %s" % (where, new)
    if op == "retype":
        new = copy.deepcopy(rng.choice(RETYPES))
        parent[key] = new
        return d, "retype %s to %r" % (where, new)
    if op == "duplicate" and isinstance(parent, list):
        parent.insert(key, copy.deepcopy(parent[key]))
        return d, "duplicate item %s" % where
    if op == "empty":
        v = parent[key]
        parent[key] = "" if isinstance(v, str) else ([] if isinstance(v, list) else ({} if isinstance(v, dict) else None))
        return d, "empty %s" % where
    return d, "noop"


# --------------------------------------------------------------------------
# the real pipeline

DIAGNOSTIC = ("ValidationError", "ValueError")


def run_pipeline(doc, root, stage=True):
    """The path `maestro run` takes, phase by phase.
    Returns (outcome, info): outcome = 'accepted' | 'rejected:<cls>@<phase>' |
    'crash:<cls>@<phase>'; info = staged step data when accepted."""
    import jsonschema
    from maestrowf.specification.yamlspecification import YAMLSpecification
    from maestrowf.datastructures.core import Study
    from maestrowf.datastructures.environment import Variable
    text = yaml.safe_dump(doc, sort_keys=False)
    phase = "load"
    try:
        yspec = YAMLSpecification.load_specification_from_stream(io.StringIO(text))
        phase = "environment"
        environment = yspec.get_study_environment()
        phase = "steps"
        steps = yspec.get_study_steps()
        import copy
        converted = [(s.real_name, s.description, copy.deepcopy(dict(s.run))) for s in steps]
        phase = "environment"
        environment.remove("OUTPUT_PATH")
        environment.add(Variable("OUTPUT_PATH", root))
        environment.add(Variable("SPECROOT", root))
        phase = "parameters"
        parameters = yspec.get_parameters()
        phase = "study"
        study = Study(yspec.name, yspec.description, studyenv=environment, parameters=parameters,
                      steps=steps, out_path=root)
        info = {"steps": [s for s in study.values if s != "_source"], "converted": converted,
                "runs": {n: dict(study.values[n].run) for n in study.values if n != "_source"},
                "edges": sorted((a, b) for a in study.adjacency_table for b in study.adjacency_table[a])}
        if stage:
            # staging is reported separately: it depends on the file system
            # (dependency paths must exist), which the model does not see
            try:
                study.setup_workspace()
                study.configure_study()
                # a repository cannot be cloned here (no network): the git dependencies are taken out of the
                # environment before it is set up, the rest of the study is staged as it is
                for name_, dep in list(environment.dependencies.items()):
                    if type(dep).__name__ == "GitDependency":
                        environment.remove(name_)
                study.setup_environment()
                _, dag = study.stage()
                info["instances"] = len(dag.values) - 1
                info["stage"] = "ok"
            except Exception as e:      # noqa
                info["stage"] = "%s: %s" % (type(e).__name__, str(e)[:80])
        return "accepted", info
    except jsonschema.ValidationError:
        return "rejected:ValidationError@" + phase, None
    except ValueError:
        return "rejected:ValueError@" + phase, None
    except Exception as e:      # noqa: the class is the observable
        return "crash:%s@%s" % (type(e).__name__, phase), None


def doc_step_names(doc):
    return [s.get("name") for s in doc.get("study", []) if isinstance(s, dict)]
