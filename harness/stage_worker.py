"""Worker for C11 / C18: runs in a fresh interpreter (its own PYTHONHASHSEED),
loads and stages each specification read from stdin under its own output root,
and prints the canonical serialisation with the root replaced by <ROOT>.

modes:  stage            load + stage (C11)
        store            load, Conductor.store_study / store_batch, then stage in memory (C18 a)
        load             Conductor.load_study / load_batch from the root, stage (C18 b)
"""
import json
import logging
import os
import sys
import time

time.sleep = lambda *_a, **_k: None
logging.disable(logging.CRITICAL)
HERE = os.path.dirname(os.path.abspath(__file__))
sys.path.insert(0, HERE)
import studysim as SS  # noqa: E402


def listing(dag, root):
    ser = SS.serialize(dag)
    out = {"ser": ser.replace(SS.hx(root), "<ROOT>") if False else ser,
           "order": [k for k in dag.values if k != "_source"],
           "status_order": list(dag.status_subtree),
           "params": {k: list(r.params.items()) for k, r in dag.values.items() if k != "_source"}}
    return out


def submit_order(dag, throttle):
    """the order in which the real execution loop hands the instances to the
    scheduler (every job succeeds at once), observed on a copy of the graph"""
    import copy
    import scripted as S
    S.install()
    try:
        order = []
        # three scheduler histories, each told in the order of the instance list (which does not
        # depend on the hash seed): every job succeeds at once; every job of the first round is lost
        # to a hardware failure once and is resubmitted; every job of the first round runs into its
        # time limit once (restarted where the step has a restart command)
        for history in ("success", "hwfailure-once", "timeout-once"):
            d2 = copy.deepcopy(dag)
            d2._submission_throttle = throttle
            d2.set_adapter({"type": "scripted"})
            names = [k for k in d2.values if k != "_source"]
            S.WORLD.reset(subs=[], sched={k: True for k in names},
                          restart={k: bool(d2.values[k].step.run.get("restart")) for k in names})
            order.append("#" + history)
            hit = set()
            for _poll in range(4 * len(names) + 4):
                S.WORLD.events = []
                S.WORLD.poll_code = "OK"
                reps = []
                for k in names:
                    if k in d2.in_progress:
                        if history != "success" and k not in hit:
                            hit.add(k)
                            reps.append((k, "HWFAILURE" if history == "hwfailure-once" else "TIMEDOUT"))
                        else:
                            reps.append((k, "FINISHED"))
                S.WORLD.poll_reports = reps
                v = d2.execute_ready_steps()
                order.extend(ev[1] for ev in S.WORLD.events if ev[0] == "submit")
                if v.name != "RUNNING":
                    break
        return order
    finally:
        S.uninstall()


def cli_store(j, root):
    """the study as the real command stores it: `maestro run -n --pgen FILE -o root spec.yaml` (staged and
    stored, the launch question answered with no); returns the study object the command held in memory"""
    import contextlib
    import io
    import yaml
    import maestrowf.maestro as mmod
    from maestrowf.conductor import Conductor
    os.makedirs(os.path.dirname(root), exist_ok=True)
    spec_path, gen_path = root + ".yaml", root + "_custom_gen.py"
    with open(spec_path, "w") as f:
        yaml.safe_dump(dict(j["spec"], batch=j.get("batch", {"type": "local"})), f, sort_keys=False)
    with open(gen_path, "w") as f:
        f.write(j["cli_pgen"])
    held = {}
    orig = Conductor.store_study

    def store(study):
        held["study"] = study
        return orig(study)
    argv = sys.argv
    sys.argv = ["maestro", "run", "-n", "-o", root, "--pgen", gen_path, "-r", str(j["rlimit"])] + \
               (["--hashws"] if j["hash_ws"] else []) + [spec_path]
    Conductor.store_study = staticmethod(store)
    try:
        with contextlib.redirect_stdout(io.StringIO()), contextlib.redirect_stderr(io.StringIO()):
            try:
                mmod.main()
            except SystemExit:
                pass
    finally:
        sys.argv = argv
        Conductor.store_study = orig
    return held["study"]


def main():
    mode = sys.argv[1]
    base = sys.argv[2]
    jobs = json.load(sys.stdin)
    res = []
    from maestrowf.conductor import Conductor
    for j in jobs:
        root = os.path.join(base, j["id"])
        if j.get("symlink"):
            # the output directory as the user names it goes through a symbolic link
            real, link = os.path.join(base, "real-dirs"), os.path.join(base, "linked")
            os.makedirs(real, exist_ok=True)
            if not os.path.islink(link):
                os.symlink(real, link)
            root = os.path.join(link, j["id"])
        try:
            if mode == "store" and j.get("cli_pgen"):
                study = cli_store(j, root)
            elif mode in ("stage", "store"):
                _y, study = SS.load_study(j["spec"], root, hash_ws=j["hash_ws"], rlimit=j["rlimit"],
                                          throttle=j.get("throttle", 0), attempts=j.get("attempts", 1))
                if j.get("pgen"):
                    import random
                    SS.pgen_variant(random.Random(j["pgen"]), study)
                if mode == "store" and not j.get("cli_pgen"):
                    Conductor.store_study(study)
                    Conductor.store_batch(root, j.get("batch", {"type": "local"}))
            else:
                # the conductor is told where the study is in the user's words: another spelling of the
                # same directory (a trailing slash, a doubled slash, a detour through `..`, a relative
                # path) names the same study (seeded change C18-p rewrote the study's output path with it)
                spell = sum(map(ord, j["id"])) % 5
                alt = root
                if spell == 1:
                    alt = root + "/"
                elif spell == 2:
                    alt = os.path.dirname(root) + "//" + os.path.basename(root)
                elif spell == 3:
                    alt = os.path.join(root, "..", os.path.basename(root))
                elif spell == 4:
                    alt = os.path.relpath(root)
                study = Conductor.load_study(alt)
                batch = Conductor.load_batch(alt)
            out, dag = SS.stage_real(study)
            item = {"id": j["id"], "out": out.split(" ")[0]}
            if dag is not None:
                l = listing(dag, root)
                item["order"] = l["order"]
                item["status_order"] = l["status_order"]
                item["params"] = l["params"]
                item["ser"] = _neutral(dag, root)
                if mode == "load":
                    item["batch"] = batch
                if j.get("submit_order"):
                    item["submit_order"] = submit_order(dag, j.get("throttle", 0))
                # script texts with the real local adapter
                if j.get("scripts"):
                    import scripted as S
                    S.uninstall()
                    batch_block = j.get("script_batch") or {"type": "local"}
                    if batch_block["type"] == "flux":
                        import fakeenv
                        fakeenv.install_flux()
                    dag.set_adapter(batch_block)
                    try:
                        dag.generate_scripts()
                        scripts = {}
                        for k, r in dag.values.items():
                            if k != "_source":
                                scripts[k] = [open(r.script).read().replace(root, "<ROOT>"),
                                              os.path.relpath(r.script, root),
                                              open(r.restart_script).read().replace(root, "<ROOT>")
                                              if r.restart_script else None, bool(r.to_be_scheduled)]
                        item["scripts"] = scripts
                    except (ValueError, TypeError, KeyError, ZeroDivisionError) as e:
                        # a refused step must be refused the same way everywhere
                        item["scripts"] = "SCRIPTFAIL:%s:%s" % (type(e).__name__, str(e)[:120].replace(root, "<ROOT>"))
            res.append(item)
        except Exception as e:  # noqa
            res.append({"id": j["id"], "out": "LOADFAIL:%s:%s" % (type(e).__name__, str(e)[:80])})
    json.dump(res, sys.stdout)


def _neutral(dag, root):
    """root-independent serialisation: names, edges, relative workspaces, texts, limits"""
    insts = []
    for key, r in dag.values.items():
        if key == "_source":
            continue
        insts.append([r.name, r.step.name, os.path.relpath(r.workspace.value, root),
                      r.step.run["cmd"].replace(root, "<ROOT>"),
                      (r.step.run["restart"] or "").replace(root, "<ROOT>"), r.restart_limit,
                      [[str(k), str(v)] for k, v in r.params.items()],
                      [[k, v.replace(root, "<ROOT>")] for k, v in SS.extras_of(r.step.run)]])
    adj = [[k, list(v)] for k, v in dag.adjacency_table.items()]
    deps = [[k, sorted(v)] for k, v in dag._dependencies.items()]
    return {"insts": insts, "adj": adj, "deps": deps}


if __name__ == "__main__":
    main()
