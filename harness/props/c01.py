"""C01 - A step is never launched before all of its dependencies succeeded

Execution-graph correspondence (real ExecutionGraph driven by the scripted
scheduler vs Model/Exec.lean, state compared after every operation), the C01
monitor of harness/execsim.py evaluated on the real traces, and study-level
runs: generated parameterised specifications are staged by the real
Study.stage / Conductor.initialize and run through the real monitor loop, each
launch being checked against the parents in the staged graph's adjacency
table."""
import os
import shutil

import condsim
import execprop
from corr import Case, compare, judge, account

LEVEL = "proof"
RULE = (execprop.RULE + "; plus study-level runs of staged parameterised specifications; plus real local "
        "processes (exit codes and deaths by signal) through `maestro run -fg` as in C19")


def declared_gating_case(ctx, k):
    """Every dependency the specification declares - the same-combination instance of an ordinary parent, every
    instance of a `_*` parent - must gate the launch.  Generated specifications are staged; where the staged
    graph does not wait for a declared parent, the real graph is driven through the history that shows it
    (everything else finishes, that parent keeps running) and judged by whether the child is launched."""
    import expprop
    import scripted as S
    import studysim as SS
    c = expprop.one_case(ctx, "dg%d" % k, adversarial=False, pgen=False,
                         monitor=lambda spec, study, params, steps, dag, hash_ws, root:
                         SS.expansion_monitor(params, steps, dag, hash_ws))
    if c is None or c.dag is None or SS.LAST_DECLARED["edges"] is None:
        return None
    if any("instance-name-collision" in d for _cl, d in c.monitor):
        return None
    dag = c.dag
    names = [n for n in dag.values if n != "_source"]
    gaps = sorted((p, ch) for p, ch in SS.LAST_DECLARED["edges"]
                  if p != "_source" and ch in dag.values and p in dag.values and p not in dag._dependencies[ch])
    data = {"kind": "declared-gating", "spec": c.data["spec"], "hash_ws": c.data["hash_ws"], "gaps": gaps[:3]}
    if not gaps:
        return Case(data, [], [], [], False)
    p, ch = gaps[0]
    S.install()
    try:
        dag.set_adapter({"type": "scripted"})
        S.WORLD.reset(sched={nm: True for nm in names})
        history, mon = [], []
        for _poll in range(3 * len(names) + 12):
            reports = [(nm, "RUNNING" if nm in (p, ch) else "FINISHED") for nm in list(dag.in_progress)]
            S.WORLD.poll_code, S.WORLD.poll_calls, S.WORLD.poll_reports = "OK", 0, reports
            S.WORLD.events = []
            try:
                verdict = dag.execute_ready_steps().name
            except Exception as e:      # noqa
                verdict = "RAISE:%s" % type(e).__name__
            history.append({"reports": reports, "returned": verdict})
            launched = [ev[1] for ev in S.WORLD.events if ev[0] in ("submit", "local")]
            if ch in launched and dag.values[p].status.name != "FINISHED":
                mon.append(("launch-after-deps", "staged study: the specification makes %s depend on %s; %s was "
                            "launched while %s was still %s" % (ch, p, ch, p, dag.values[p].status.name)))
                break
            if verdict != "RUNNING" or not dag.in_progress - {p}:
                break
        data["history"] = history
        return Case(data, [], [], mon, True)
    finally:
        S.install()


def run(ctx, escalated=False):
    quick = ctx.tier == "quick" and not escalated
    cases = execprop.run(ctx, "C01", escalated, finish=False)
    extra = []
    for k in range(60 if quick else 2000):
        r = condsim.run(ctx, ctx.rng, k)
        if r is None:
            continue
        extra.append(Case({"kind": "conductor", "spec": r["spec"], "polls": r["polls"], "returned": r["ret"]},
                          [], [], r["mon"]["C01"][:3], r["polls"] > 1))
        ctx.count("conductor:" + r["ret"])
        if k % 30 == 29:
            shutil.rmtree(os.path.join(ctx.scratch, "cond"), ignore_errors=True)
    # directed: a real run in a study directory that holds the leftovers of an earlier *dry* run of the
    # same study, stopped early under throttle 1 (seeded change C01-m carried "completed" steps over
    # from the old graph pickle - steps a dry run never executed)
    for k in range(4 if quick else 40):
        n_ = ctx.rng.choice([3, 4])
        study = [{"name": "st0", "description": "d", "run": {"cmd": "echo $(X) 0"}}]
        for j in range(1, n_):
            study.append({"name": "st%d" % j, "description": "d",
                          "run": {"cmd": "echo $(X) %d" % j, "depends": ["st%d" % (j - 1)]}})
        spec = {"description": {"name": "redo", "description": "a dry run first, then the real thing"},
                "study": study, "global.parameters": {"X": {"values": [1, 2], "label": "X.%%"}}}
        r0 = condsim.run(ctx, ctx.rng, "redo%d" % k, spec=spec, max_polls=ctx.rng.choice([1, 2, 3]),
                         force={"dry": True, "throttle": 1, "use_tmp": False, "hash_ws": False})
        r = condsim.run(ctx, ctx.rng, "redo%d" % k, spec=spec,
                        force={"dry": False, "use_tmp": False, "hash_ws": False, "_world": "benign"})
        if r is None:
            continue
        extra.append(Case({"kind": "conductor-after-a-dry-run", "spec": r["spec"], "polls": r["polls"],
                           "returned": r["ret"], "dry_run_first": None if r0 is None else r0["polls"]},
                          [], [], r["mon"]["C01"][:3], True))
        ctx.count("conductor-after-a-dry-run:" + r["ret"])
    shutil.rmtree(os.path.join(ctx.scratch, "cond"), ignore_errors=True)
    import scripted as S
    # "... or run locally": real processes through the real local adapter (`maestro run -fg`), with scripts
    # that exit non-zero or are killed by a signal - a child must not start after such a parent
    import c19
    S.uninstall()
    for k in range(10 if quick else 150):
        c = c19.one_study(ctx, 1000 + k)
        mon = [("launch-after-deps", d) for cl, d in c.monitor if cl == "order"]
        extra.append(Case(dict(c.data, kind="local-processes"), [], [], mon, c.nontrivial))
        ctx.count("local-process-studies")
    S.install()
    for k in range(500 if quick else 8000):
        c = declared_gating_case(ctx, k)
        if c is not None:
            extra.append(c)
            ctx.count("declared-gating:" + ("gap" if c.data["gaps"] else "closed"))
        if k % 40 == 39:
            shutil.rmtree(os.path.join(ctx.scratch, "st"), ignore_errors=True)
    S.install()
    cases = cases + extra
    diffs = compare([c for c in cases if c.lines])
    account(ctx, extra)
    judge(ctx, cases, diffs, "execution-graph+study-level", shrink=execprop.shrink_factory(ctx, "C01"))
