"""C01 - A step is never launched before all of its dependencies succeeded

Execution-graph correspondence (real ExecutionGraph driven by the scripted
scheduler vs Model/Exec.lean, state compared after every operation) and the
C01 monitor of harness/execsim.py evaluated on the real traces."""
import execprop

LEVEL = "proof"
RULE = execprop.RULE


def run(ctx, escalated=False):
    execprop.run(ctx, "C01", escalated)
