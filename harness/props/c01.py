"""C01 - A step is never launched before all of its dependencies succeeded

Execution-graph correspondence (real ExecutionGraph driven by the scripted
scheduler vs Model/Exec.lean, state compared after every operation), the C01
monitor of harness/execsim.py evaluated on the real traces, and study-level
runs: generated parameterised specifications are staged by the real
Study.stage / Conductor.initialize and run through the real monitor loop, each
launch being checked against the parents in the staged graph's adjacency
table."""
import os
import shutil

import condsim
import execprop
from corr import Case, compare, judge, account

LEVEL = "proof"
RULE = (execprop.RULE + "; plus study-level runs of staged parameterised specifications; plus real local "
        "processes (exit codes and deaths by signal) through `maestro run -fg` as in C19")


def run(ctx, escalated=False):
    quick = ctx.tier == "quick" and not escalated
    cases = execprop.run(ctx, "C01", escalated, finish=False)
    extra = []
    for k in range(60 if quick else 2000):
        r = condsim.run(ctx, ctx.rng, k)
        if r is None:
            continue
        extra.append(Case({"kind": "conductor", "spec": r["spec"], "polls": r["polls"], "returned": r["ret"]},
                          [], [], r["mon"]["C01"][:3], r["polls"] > 1))
        ctx.count("conductor:" + r["ret"])
        if k % 30 == 29:
            shutil.rmtree(os.path.join(ctx.scratch, "cond"), ignore_errors=True)
    import scripted as S
    # "... or run locally": real processes through the real local adapter (`maestro run -fg`), with scripts
    # that exit non-zero or are killed by a signal - a child must not start after such a parent
    import c19
    S.uninstall()
    for k in range(10 if quick else 150):
        c = c19.one_study(ctx, 1000 + k)
        mon = [("launch-after-deps", d) for cl, d in c.monitor if cl == "order"]
        extra.append(Case(dict(c.data, kind="local-processes"), [], [], mon, c.nontrivial))
        ctx.count("local-process-studies")
    S.install()
    cases = cases + extra
    diffs = compare([c for c in cases if c.lines])
    account(ctx, extra)
    judge(ctx, cases, diffs, "execution-graph+study-level", shrink=execprop.shrink_factory(ctx, "C01"))
