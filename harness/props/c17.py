"""C17 - A dry run generates everything and executes nothing.

(1) execution-graph correspondence and the C17 monitor on scripted scenarios
    (dry runs among them);
(2) dry-vs-real differential at conductor level: every generated study
    (parameterised, +-hashws, throttle 0/1/2, restart commands) is run through the
    real `Conductor.monitor_study` - half of the time by way of the real command
    (`maestro run -fg [--dry]` with the batch block in the specification) - once with
    --dry and the real adapter, and once
    for real with the same adapter's script generation but a scripted all-success
    scheduler; compared: calls received by the adapter (none in the dry run),
    the directory tree and the byte content of every script, status.csv (all
    DRYRUN), the returned verdict (FINISHED) and termination."""
import os

import execprop
import expprop
import scripted as S
import studysim as SS
from corr import Case, compare, judge, account

LEVEL = "proof"
RULE = execprop.RULE + ("; plus generated studies (as C08) x adapter in {local, slurm, lsf} x hashws x "
                        "throttle in {0,1,2}: dry run vs real run with an all-success scripted scheduler")


class Stop(Exception):
    pass


def _tree(root):
    files, dirs = {}, set()
    for d, ds, fs in os.walk(root):
        rel = os.path.relpath(d, root)
        if rel.split(os.sep)[0] in ("logs", "meta"):
            continue
        dirs.add(rel)
        for f in fs:
            if f.endswith(".sh"):
                files[os.path.join(rel, f)] = open(os.path.join(d, f)).read().replace(root, "<ROOT>")
    return dirs, files


def _run_conductor(study, batch, calls):
    import maestrowf.conductor as cmod
    from maestrowf.conductor import Conductor
    n = [0]

    def sleep(_t):
        n[0] += 1
        if n[0] > 60:
            raise Stop()
    saved = cmod.sleep
    cmod.sleep = sleep
    try:
        c = Conductor(study)
        c.initialize(batch, 0)
        try:
            ret = c.monitor_study().name
        except Stop:
            ret = "NONTERMINATION"
        finally:
            c.cleanup()
        return ret, c._exec_dag
    finally:
        cmod.sleep = saved


def _run_cli(spec, root, batch, opts, dry, extra=None, prompt="-y", background=False):
    """the same through the real command: `maestro run -fg -y [--dry] ...` (maestrowf.maestro.main())"""
    import contextlib
    import io
    import logging
    import sys
    import yaml
    import maestrowf.conductor as cmod
    import maestrowf.maestro as mmod
    from maestrowf.conductor import Conductor
    n = [0]
    seen = {}

    def sleep(_t):
        n[0] += 1
        if n[0] > 60:
            raise Stop()
    orig_init, orig_mon = Conductor.initialize, Conductor.monitor_study

    def init(self, *a, **kw):
        r = orig_init(self, *a, **kw)
        seen["dag"] = self._exec_dag
        return r

    def mon(self):
        r = orig_mon(self)
        seen["ret"] = r.name
        return r
    doc = dict(spec)
    doc["batch"] = dict(batch)
    os.makedirs(os.path.dirname(root), exist_ok=True)
    path = root + ".yaml"
    with open(path, "w") as f:
        yaml.safe_dump(doc, f, sort_keys=False)
    # `prompt`: how the launch question is answered (-y, -n, or not at all: a dry run does not ask)
    # `background`: the default way - `maestro run` starts `nohup conductor ...`; the command line it builds is
    # taken at its word and the real `conductor` entry point runs on its arguments
    args = ["maestro", "run"] + ([] if background else ["-fg"]) + ([prompt] if prompt else []) + \
           ["-s", "1", "-o", root, "-r", str(opts["rlimit"]), "-t", str(opts["throttle"])]
    if opts["hash_ws"]:
        args.append("--hashws")
    if opts["use_tmp"]:
        args.append("--usetmp")
    if dry:
        args.append("--dry")
    args += list(extra or [])
    saved_sleep, argv = cmod.sleep, sys.argv
    root_logger = logging.getLogger()
    handlers = list(root_logger.handlers)
    cmod.sleep = sleep
    Conductor.initialize, Conductor.monitor_study = init, mon
    sys.argv = args + [path]
    launched = []
    saved_sp = mmod.start_process
    if background:
        mmod.start_process = lambda cmd, *a, **kw: launched.append(cmd)
    try:
        try:
            with contextlib.redirect_stdout(io.StringIO()), contextlib.redirect_stderr(io.StringIO()):
                mmod.main()
        except SystemExit:
            pass
        except Stop:
            seen["ret"] = "NONTERMINATION"
        if background and len(launched) == 1:
            import shlex
            words = shlex.split(launched[0].split(">")[0])
            if words[:2] == ["nohup", "conductor"]:
                seen.pop("dag", None)
                sys.argv = words[1:]
                try:
                    with contextlib.redirect_stdout(io.StringIO()), contextlib.redirect_stderr(io.StringIO()):
                        cmod.main()
                except SystemExit as e:
                    if e.code not in (0, None) and "dag" not in seen:
                        raise RuntimeError("the conductor started by `maestro run` exited with %r on the command "
                                           "line %r" % (e.code, " ".join(words[1:])))
                except Stop:
                    seen["ret"] = "NONTERMINATION"
    finally:
        mmod.start_process = saved_sp
        cmod.sleep, sys.argv = saved_sleep, argv
        Conductor.initialize, Conductor.monitor_study = orig_init, orig_mon
        for h in list(root_logger.handlers):
            if h not in handlers:
                root_logger.removeHandler(h)
                try:
                    h.close()
                except Exception:  # noqa
                    pass
    if "dag" not in seen:
        raise RuntimeError("the command did not get as far as the conductor")
    return seen.get("ret", "NONE"), seen["dag"]


def batch_of(which):
    if which == "local":
        return {"type": "local"}
    if which == "slurm":
        return {"type": "slurm", "host": "h", "bank": "b", "queue": "q"}
    return {"type": "lsf", "host": "h", "bank": "b", "queue": "q", "nodes": "1"}


def dry_vs_real(ctx, k):
    from maestrowf.interfaces import ScriptAdapterFactory
    from maestrowf.conductor import Conductor
    rng = ctx.rng
    root_d = os.path.join(ctx.scratch, "dv", "d%d" % k)
    root_r = os.path.join(ctx.scratch, "dv", "r%d" % k)
    spec = SS.gen_spec(rng, root_d, adversarial=False, dep_dir=None)
    # resource keys are C15's subject: keep the steps schedulable without surprises
    for s in spec["study"]:
        for key in ("nodes", "procs", "walltime"):
            s["run"].pop(key, None)
    which = rng.choice(["local", "local", "slurm", "lsf"])
    if which != "local":
        for s in spec["study"]:
            if rng.random() < 0.6:
                s["run"]["nodes"] = 1
                s["run"]["procs"] = 1
                s["run"]["walltime"] = "00:10:00"
    hash_ws = rng.random() < 0.4
    throttle = rng.choice([0, 1, 2])
    rlimit = rng.choice([0, 1, 2])
    use_tmp = rng.random() < 0.3       # scripts in one temporary directory, for the dry and the real run alike
    S.uninstall()
    real_cls = ScriptAdapterFactory.factories[which]
    calls = []
    counting = S.make_counting(real_cls, calls)
    scripted = S.make_scripted(real_cls, calls)
    mon = []
    # half of the pairs go through the real command (`maestro run [--dry] -fg`), the other half
    # through Study + Conductor directly
    entry = "maestro run" if rng.random() < 0.5 else "conductor"
    opts = {"hash_ws": hash_ws, "rlimit": rlimit, "throttle": throttle, "use_tmp": use_tmp}
    try:
        if entry == "conductor":
            try:
                _y, study_d = SS.load_study(spec, root_d, hash_ws=hash_ws, rlimit=rlimit, throttle=throttle, dry=True,
                                            use_tmp=use_tmp)
            except Exception:  # noqa
                return None
        ScriptAdapterFactory.factories[which] = counting
        ScriptAdapterFactory.factories["local"] = counting if which == "local" else S.make_counting(
            S._saved_local, calls)
        dry_failed = None
        prompt = rng.choice(["-y", "-y", "-n", None])
        try:
            if entry == "conductor":
                ret_d, dag_d = _run_conductor(study_d, batch_of(which), calls)
            else:
                background = prompt != "-n" and rng.random() < 0.4
                ret_d, dag_d = _run_cli(spec, root_d, batch_of(which), opts, True, prompt=prompt,
                                        background=background)
        except Exception as e:  # noqa  (a staging error such as workspace-before-generated is not C17's:
            # the real run below then fails the same way; if it does not, the dry run is at fault)
            dry_failed = "%s: %s" % (type(e).__name__, e)
            if entry == "conductor":
                return None
        calls_d = list(calls)
        del calls[:]
        spec_r = dict(spec)
        spec_r["env"] = {k_: dict(v) if isinstance(v, dict) else v for k_, v in spec["env"].items()}
        spec_r["env"]["variables"]["OUTPUT_PATH"] = root_r
        ScriptAdapterFactory.factories[which] = scripted
        ScriptAdapterFactory.factories["local"] = scripted if which == "local" else S.make_scripted(
            S._saved_local, calls)
        if entry == "conductor":
            _y, study_r = SS.load_study(spec_r, root_r, hash_ws=hash_ws, rlimit=rlimit, throttle=throttle, dry=False,
                                        use_tmp=use_tmp)
            ret_r, dag_r = _run_conductor(study_r, batch_of(which), calls)
        else:
            try:
                ret_r, dag_r = _run_cli(spec_r, root_r, batch_of(which), opts, False)
            except Exception:  # noqa
                if dry_failed is not None:
                    return None
                raise
    finally:
        ScriptAdapterFactory.factories[which] = real_cls
        ScriptAdapterFactory.factories["local"] = S._saved_local
    if dry_failed is not None:
        if entry == "conductor":
            return None
        return Case({"kind": "dry-vs-real", "spec": spec, "adapter": which, "hash_ws": hash_ws, "throttle": throttle,
                     "use_tmp": use_tmp, "entry": entry, "prompt": prompt, "dry_return": dry_failed,
                     "real_return": ret_r},
                    [], [], [("all-generated", "`maestro run --dry %s` generated nothing (%s) although the same study "
                              "is staged and run by `maestro run -y`" % (prompt or "", dry_failed))],
                    bool(spec.get("global.parameters")))
    side = [c for c in calls_d if c[0] in ("submit", "check_jobs", "cancel_jobs")]
    if side:
        mon.append(("no-side-effects", "the dry run called the adapter: %s" % side[:4]))
    if ret_d != "FINISHED":
        mon.append(("terminates-successfully", "the dry run returned %s (hashws=%s throttle=%d adapter=%s)"
                    % (ret_d, hash_ws, throttle, which)))
    states = {k_: r.status.name for k_, r in dag_d.values.items() if k_ != "_source"}
    if any(v != "DRYRUN" for v in states.values()):
        mon.append(("all-dryrun", "after the dry run: %s" % {k_: v for k_, v in states.items() if v != "DRYRUN"}))
    table = Conductor.get_status(root_d)
    if table and any(s != "DRYRUN" for s in table.get("State", [])):
        mon.append(("all-dryrun", "status.csv after the dry run: %s" % table.get("State")))
    if ret_r == "FINISHED":
        dd, fd = _tree(root_d)
        dr, fr = _tree(root_r)
        if dd != dr:
            mon.append(("all-generated", "directories differ: only dry %s, only real %s"
                        % (sorted(dd - dr)[:4], sorted(dr - dd)[:4])))
        elif fd != fr:
            diff = [p for p in set(fd) | set(fr) if fd.get(p) != fr.get(p)]
            mon.append(("all-generated", "scripts differ from the real run: %s" % sorted(diff)[:4]))
    data = {"kind": "dry-vs-real", "spec": spec, "adapter": which, "hash_ws": hash_ws, "throttle": throttle,
            "use_tmp": use_tmp, "entry": entry,
            "dry_return": ret_d, "real_return": ret_r}
    return Case(data, [], [], mon[:4], bool(spec.get("global.parameters")))


def run(ctx, escalated=False):
    quick = ctx.tier == "quick" and not escalated
    cases = execprop.run(ctx, "C17", escalated, finish=False)
    n = 120 if quick else 3000
    extra = []
    for k in range(n):
        c = dry_vs_real(ctx, k)
        if c is not None:
            extra.append(c)
            ctx.count("dry-vs-real:%s:%s" % (c.data["entry"], c.data["adapter"]))
        if k % 40 == 39:
            import shutil
            shutil.rmtree(os.path.join(ctx.scratch, "dv"), ignore_errors=True)
    S.install()
    # a long dry run: 1100 independent steps let through one at a time (-t 1), i.e. 1100 passes of the conductor
    # loop; every one of them is generated, none is submitted (monitors only, see execprop.wide_cases)
    n_deep = 1100
    deep = {"n": n_deep, "edges": [[0, i] for i in range(1, n_deep + 1)], "sched": [1] * n_deep,
            "restart": [0] * n_deep, "rlimit": 1, "throttle": 1, "attempts": 1, "dry": 1, "subs": []}
    c = execprop.run_one(ctx, "C17", deep, ops=[{"op": "poll", "code": "OK", "reports": []}] * (n_deep + 2))
    c.lines, c.impl_out = [], []
    c.data = {"kind": "deep-dry-run", "scenario": dict(deep, edges="0>i for every i"), "ops": "%d polls" % (n_deep + 2)}
    extra.append(c)
    ctx.count("deep-dry-run")
    # directed: a dry run in a study directory that holds the leftovers of an interrupted *real* run of
    # the same study (seeded change C17-n let `Conductor.initialize` resume from the graph pickle it
    # finds there - a graph that is not in dry-run mode)
    import condsim
    from maestrowf.conductor import Conductor
    chain = {"description": {"name": "again", "description": "a real run first, then a dry run"},
             "study": [{"name": "prep", "description": "d", "run": {"cmd": "echo p"}},
                       {"name": "sim", "description": "d", "run": {"cmd": "echo s", "depends": ["prep"]}},
                       {"name": "post", "description": "d", "run": {"cmd": "echo t", "depends": ["sim"]}}]}
    for k in range(3 if quick else 30):
        script = [{}, {"prep": "RUNNING"}, {"prep": "FINISHED"}, {"sim": "RUNNING"}, {"sim": "RUNNING"}]
        condsim.run(ctx, ctx.rng, "again%d" % k, spec=chain, max_polls=ctx.rng.choice([1, 2, 3]),
                    force={"_script": script, "throttle": 0, "rlimit": 1, "attempts": 1, "use_tmp": False,
                           "hash_ws": False})
        r = condsim.run(ctx, ctx.rng, "again%d" % k, spec=chain,
                        force={"dry": True, "throttle": 0, "rlimit": 1, "attempts": 1, "use_tmp": False,
                               "hash_ws": False})
        if r is None:
            continue
        mon = []
        touched = [ev for ev in S.WORLD.all_events if ev[0] in ("submit", "check", "cancel", "local")]
        if touched:
            mon.append(("no-side-effects", "a dry run in a directory that holds an earlier real run reached "
                        "the scheduler: %s" % (touched[:4],)))
        table = Conductor.get_status(os.path.join(ctx.scratch, "cond", "cagain%d" % k))
        if any(x != "DRYRUN" for x in table.get("State", [])) or len(table.get("State", [])) != 3:
            mon.append(("states", "a dry run in a directory that holds an earlier real run reports %s"
                        % (list(zip(table.get("Step Name", []), table.get("State", []))),)))
        if r["ret"] != "FINISHED":
            mon.append(("terminates-successfully", "the dry run returned %s" % r["ret"]))
        extra.append(Case({"kind": "dry-run-after-a-real-run", "spec": r["spec"], "returned": r["ret"]}, [], [],
                          mon[:3], True))
        ctx.count("dry-run-after-a-real-run")
    cases = cases + extra
    diffs = compare([c for c in cases if c.lines])
    account(ctx, extra)
    judge(ctx, cases, diffs, "execution-graph+dry-vs-real", shrink=execprop.shrink_factory(ctx, "C17"))
