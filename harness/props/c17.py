"""C17 - A dry run generates everything and executes nothing

Execution-graph correspondence (real ExecutionGraph driven by the scripted
scheduler vs Model/Exec.lean, state compared after every operation) and the
C17 monitor of harness/execsim.py evaluated on the real traces."""
import execprop

LEVEL = "proof"
RULE = execprop.RULE


def run(ctx, escalated=False):
    execprop.run(ctx, "C17", escalated)
