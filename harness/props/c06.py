"""C06 - Timed-out steps are restarted only as configured and within budget

Execution-graph correspondence (real ExecutionGraph driven by the scripted
scheduler vs Model/Exec.lean, state compared after every operation) and the
C06 monitor of harness/execsim.py evaluated on the real traces; then whole
commands: generated studies (a third of the steps with a restart command) run
through Conductor / `maestro run -fg -r N` / `maestro run -r N` + `conductor`
with time-outs among the scheduler's answers - the limit the user asked for is
the one that must bound every instance's restart rounds."""
import os
import shutil

import condsim
import execprop
from corr import Case, compare, judge, account

LEVEL = "proof"
RULE = (execprop.RULE + "; plus conductor-level runs of generated studies (restart limit in {0,1,2}) entered through "
        "Conductor / `maestro run -fg` / `maestro run`+`conductor`")


def run(ctx, escalated=False):
    quick = ctx.tier == "quick" and not escalated
    cases = execprop.run(ctx, "C06", escalated, finish=False)
    extra = []
    for k in range(120 if quick else 3000):
        r = condsim.run(ctx, ctx.rng, k, entry=("direct", "fg", "bg")[k % 3], timeouts=0.45, max_polls=80)
        if r is None:
            continue
        extra.append(Case({"kind": "conductor", "spec": r["spec"], "polls": r["polls"], "returned": r["ret"],
                           "entry": r["entry"], "options": r["options"]}, [], [], r["mon"]["C06"][:3],
                          r["options"]["rlimit"] > 0))
        ctx.count("conductor-rlimit:%d" % r["options"]["rlimit"])
        if k % 30 == 29:
            shutil.rmtree(os.path.join(ctx.scratch, "cond"), ignore_errors=True)
    import scripted as S
    S.install()
    cases = cases + extra
    diffs = compare([c for c in cases if c.lines])
    account(ctx, extra)
    judge(ctx, cases, diffs, "execution-graph+conductor", shrink=execprop.shrink_factory(ctx, "C06"))
