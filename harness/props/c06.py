"""C06 - Timed-out steps are restarted only as configured and within budget

Execution-graph correspondence (real ExecutionGraph driven by the scripted
scheduler vs Model/Exec.lean, state compared after every operation) and the
C06 monitor of harness/execsim.py evaluated on the real traces; then whole
commands: generated studies (a third of the steps with a restart command) run
through Conductor / `maestro run -fg -r N` / `maestro run -r N` + `conductor`
with time-outs among the scheduler's answers - the limit the user asked for is
the one that must bound every instance's restart rounds."""
import os
import shutil

import condsim
import execprop
from corr import Case, compare, judge, account

LEVEL = "proof"
RULE = (execprop.RULE + "; plus conductor-level runs of generated studies (restart limit in {0,1,2}) entered through "
        "Conductor / `maestro run -fg` / `maestro run`+`conductor`")


def run(ctx, escalated=False):
    quick = ctx.tier == "quick" and not escalated
    cases = execprop.run(ctx, "C06", escalated, finish=False)
    extra = []
    for k in range(120 if quick else 3000):
        # every fourth study keeps all its scripts in one temporary directory under hashed names (--usetmp
        # --hashws): instances of different steps then share script file names, and a restart must still
        # be submitted with the step's own restart script
        r = condsim.run(ctx, ctx.rng, k, entry=("direct", "fg", "bg")[k % 3], timeouts=0.45, max_polls=80,
                        force={"use_tmp": True, "hash_ws": True} if k % 4 == 3 else None)
        if r is None:
            continue
        extra.append(Case({"kind": "conductor", "spec": r["spec"], "polls": r["polls"], "returned": r["ret"],
                           "entry": r["entry"], "options": r["options"]}, [], [], r["mon"]["C06"][:3],
                          r["options"]["rlimit"] > 0))
        ctx.count("conductor-rlimit:%d" % r["options"]["rlimit"])
        if k % 30 == 29:
            shutil.rmtree(os.path.join(ctx.scratch, "cond"), ignore_errors=True)
    # two independent steps expanded over the same parameter, both with a restart command, scripts in one
    # temporary directory under hashed names: the two share their script file names; whichever times out
    # is resubmitted with its own restart command
    shared = {"description": {"name": "shared", "description": "script names shared between steps"},
              "global.parameters": {"X": {"values": [1, 2], "label": "X.%%"}},
              "study": [{"name": nm, "description": "d",
                         "run": {"cmd": "%s $(X)" % nm, "restart": "%s --again $(X)" % nm}}
                        for nm in ("sim", "scan", "probe")]}
    for k in range(6 if quick else 60):
        r = condsim.run(ctx, ctx.rng, "sh%d" % k, entry=("direct", "fg", "bg")[k % 3], timeouts=0.6, max_polls=80,
                        force={"use_tmp": True, "hash_ws": True, "rlimit": 2}, spec=shared)
        if r is None:
            continue
        extra.append(Case({"kind": "conductor-shared-script-names", "spec": r["spec"], "polls": r["polls"],
                           "returned": r["ret"], "entry": r["entry"], "options": r["options"]}, [], [],
                          r["mon"]["C06"][:3], True))
        ctx.count("conductor-shared-script-names")
    # a restart command that is nothing but a parameter: empty for the first combination, a command for
    # the later ones - the limit asked for bounds those (seeded change C06-p let the first, empty,
    # expansion switch the limit off for the rest of the step)
    tok = {"description": {"name": "tok", "description": "restart given by a parameter"},
           "global.parameters": {"R": {"values": ["", "again --now", "again"], "label": "R.%%"},
                                 "N": {"values": [1, 2, 3], "label": "N.%%"}},
           "study": [{"name": "sim", "description": "d", "run": {"cmd": "sim $(N)", "restart": "$(R)"}},
                     {"name": "post", "description": "d", "run": {"cmd": "post $(N)", "depends": ["sim"]}}]}
    for k in range(6 if quick else 60):
        r = condsim.run(ctx, ctx.rng, "tok%d" % k, entry=("direct", "fg", "bg")[k % 3], timeouts=0.9, max_polls=60,
                        force={"rlimit": ctx.rng.choice([1, 2]), "use_tmp": False, "hash_ws": False}, spec=tok)
        if r is None:
            continue
        extra.append(Case({"kind": "conductor-restart-from-a-parameter", "spec": r["spec"], "polls": r["polls"],
                           "returned": r["ret"], "entry": r["entry"], "options": r["options"]}, [], [],
                          r["mon"]["C06"][:3], True))
        ctx.count("conductor-restart-from-a-parameter")
    import scripted as S
    S.install()
    cases = cases + extra
    diffs = compare([c for c in cases if c.lines])
    account(ctx, extra)
    judge(ctx, cases, diffs, "execution-graph+conductor", shrink=execprop.shrink_factory(ctx, "C06"))
