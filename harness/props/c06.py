"""C06 - Timed-out steps are restarted only as configured and within budget

Execution-graph correspondence (real ExecutionGraph driven by the scripted
scheduler vs Model/Exec.lean, state compared after every operation) and the
C06 monitor of harness/execsim.py evaluated on the real traces."""
import execprop

LEVEL = "proof"
RULE = execprop.RULE


def run(ctx, escalated=False):
    execprop.run(ctx, "C06", escalated)
