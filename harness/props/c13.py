"""C13 - malformed specifications are rejected cleanly; accepted ones are usable.

Structural-mutation correspondence: valid specifications over the range of
values the schema admits, and documents obtained from them by structural
mutation, go through the real load -> convert -> Study -> stage path; the
outcome class (accepted / diagnostic / internal error) and the accepted step
list are compared with Model/Spec.lean evaluated over the schema term
regenerated from the JSON file.  Primitive correspondence: Draft7 validity of
each section and the parameter-reference pattern.  Monitor: independent
declarative reading of the documented rules.
"""
import os
import re
import shutil
import tempfile
import traceback

import specsim
from corr import Case, compare, judge, account

LEVEL = "proof"
RULE = ("valid specifications are generated over the range of values the schema admits for each key (every run key, "
        "counts as integers or $(P) references, every priority name and numeric priority, env variables / labels / "
        "sources / path dependencies, 0-3 parameters); each is mutated structurally (delete / rename / retype / "
        "duplicate / empty at a random tree position, top-level block operations, name-level rules: duplicate step, "
        "every spelling of a self dependency, undefined / forward / duplicate dependency, reserved name, parameter "
        "length / label / values rules, environment name clashes, spack / git / path blocks), sometimes twice; plus a "
        "deterministic corpus and per-section Draft7 validity cases; non-trivial = the real pipeline did not simply "
        "accept (rejections, internal errors) or the document is an unmutated valid one; distinct = distinct documents")


def hx(s):
    return "_".join("%x" % ord(c) for c in s) if s else "-"


def enc(v):
    """document tree -> the driver's token encoding; None when a value is
    outside the model (non-string key, float that is not a multiple of 0.1)"""
    if v is None:
        return "n"
    if v is True:
        return "t"
    if v is False:
        return "f"
    if isinstance(v, int):
        return "i%d;" % v
    if isinstance(v, float):
        t = v * 10
        if int(t) != t:
            return None
        return "d%d;" % int(t)
    if isinstance(v, str):
        return "s%s;" % hx(v)
    if isinstance(v, list):
        parts = [enc(x) for x in v]
        if any(p is None for p in parts):
            return None
        return "[" + "".join(parts) + "]"
    if isinstance(v, dict):
        out = []
        for k, x in v.items():
            e = enc(x)
            if e is None or not isinstance(k, str):
                return None
            out.append("%s:%s" % (hx(k), e))
        return "{" + "".join(out) + "}"
    return None


# ---------------------------------------------------------------------------
# independent reading of the documented rules (the monitor's oracle)

STR1 = "nonempty-str"
COUNT = "count"
RUN_KEYS = {
    "cmd": STR1, "depends": "list", "pre": STR1, "post": STR1, "restart": STR1,
    "nodes": COUNT, "procs": COUNT, "gpus": COUNT, "cores per task": COUNT, "tasks per rs": COUNT,
    "rs per node": COUNT, "cpus per rs": COUNT, "bind": STR1, "bind gpus": STR1, "walltime": "walltime",
    "reservation": STR1, "exclusive": "bool-or-ref", "nested": "bool", "waitable": "bool",
    "priority": "priority", "qos": STR1,
}
REF = re.compile(r"^\$\(\w+\)$")


def is_int(v):
    return isinstance(v, int) and not isinstance(v, bool)


def type_ok(kind, v):
    if kind == STR1:
        return isinstance(v, str) and len(v) >= 1
    if kind == "list":
        return isinstance(v, list)
    if kind == COUNT:
        return is_int(v) or (isinstance(v, float) and v.is_integer()) or (isinstance(v, str) and bool(REF.search(v)))
    if kind == "walltime":
        return (isinstance(v, str) and len(v) >= 1) or is_int(v) or (isinstance(v, float) and v.is_integer())
    if kind == "bool":
        return isinstance(v, bool)
    if kind == "bool-or-ref":
        return isinstance(v, bool) or (isinstance(v, str) and bool(REF.search(v)))
    if kind == "priority":
        return (isinstance(v, str) and v in specsim.priorities()) or \
            ((is_int(v) or isinstance(v, float)) and 0 <= v <= 1)
    return True


def broken_rules(doc):
    """the documented rules `doc` violates (names of rules); only rules that can
    be read off the document without the validator"""
    out = []
    if not isinstance(doc, dict):
        return ["document-not-mapping"]
    desc = doc.get("description", {})
    if not isinstance(desc, dict):
        out.append("type:description")
    else:
        for k in ("name", "description"):
            if k not in desc:
                out.append("missing:description.%s" % k)
            elif not type_ok(STR1, desc[k]):
                out.append("type-or-empty:description.%s" % k)
    study = doc.get("study", [])
    if not isinstance(study, list) or not study:
        out.append("study-empty-or-not-list")
        study = []
    names = []
    for s in study:
        if not isinstance(s, dict):
            out.append("type:step")
            continue
        for k in ("name", "description", "run"):
            if k not in s:
                out.append("missing:step.%s" % k)
        for k in s:
            if k not in ("name", "description", "run"):
                out.append("unknown:step.%s" % k)
        for k in ("name", "description"):
            if k in s and not type_ok(STR1, s[k]):
                out.append("type-or-empty:step.%s" % k)
        run = s.get("run", {})
        if not isinstance(run, dict):
            out.append("type:step.run")
            run = {}
        elif "run" in s and "cmd" not in run:
            out.append("missing:run.cmd")
        for k, v in run.items():
            if k not in RUN_KEYS:
                out.append("unknown:run.%s" % k)
            elif not type_ok(RUN_KEYS[k], v):
                out.append("type-or-empty:run.%s" % k)
        nm = s.get("name")
        if isinstance(nm, str):
            if nm == "_source":
                out.append("reserved-step-name")        # the root the study graph adds itself
            if nm in names:
                out.append("duplicate-step-name")
            deps = run.get("depends", [])
            if isinstance(deps, list):
                if len(set(map(repr, deps))) != len(deps):
                    out.append("duplicate-dependency")
                for d in deps:
                    if not isinstance(d, str):
                        out.append("type:run.depends.item")
                        continue
                    base = re.sub(r"_\*|\*", "", d)
                    if base == nm:
                        out.append("self-dependency")
                    elif base not in names and base != "_source":
                        out.append("undefined-dependency")
            names.append(nm)
    gp = doc.get("global.parameters", {})
    if not isinstance(gp, dict):
        out.append("type:global.parameters")
        gp = {}
    lens = set()
    for k, p in gp.items():
        if not isinstance(p, dict):
            out.append("type:parameter")
            continue
        for r in ("values", "label"):
            if r not in p:
                out.append("missing:parameter.%s" % r)
        for r in p:
            if r not in ("values", "label"):
                out.append("unknown:parameter.%s" % r)
        if "values" in p:
            if not isinstance(p["values"], list):
                out.append("type:parameter.values")
            else:
                lens.add(len(p["values"]))
                if not p["values"]:
                    out.append("empty:parameter.values")
        if "label" in p and not type_ok(STR1, p["label"]):
            out.append("type-or-empty:parameter.label")
    if len(lens) > 1:
        out.append("parameter-length-mismatch")
    env = doc.get("env", {})
    if not isinstance(env, dict):
        out.append("type:env")
        env = {}
    for k in env:
        if k not in ("variables", "labels", "sources", "dependencies"):
            out.append("unknown:env.%s" % k)
    seen = []
    variables = env.get("variables", {})
    if not isinstance(variables, dict):
        out.append("type:env.variables")
        variables = {}
    for k, v in variables.items():
        if not k:
            out.append("empty:variable-name")
        if not ((isinstance(v, str) and v) or is_int(v) or isinstance(v, float)):
            out.append("type-or-empty:variable-value")
        seen.append(k)
    labels = env.get("labels", {})
    if not isinstance(labels, dict) and "labels" in env:
        out.append("type:env.labels")
    deps = env.get("dependencies", {})
    if not isinstance(deps, dict):
        out.append("type:env.dependencies")
        deps = {}
    for kind, req in (("paths", ("name", "path")), ("git", ("name", "path", "url"))):
        items = deps.get(kind, [])
        if not isinstance(items, list):
            out.append("type:dependencies.%s" % kind)
            continue
        for it in items:
            if not isinstance(it, dict):
                if kind == "paths":
                    out.append("type:dependencies.paths.item")
                continue
            for r in req:
                if r not in it:
                    out.append("missing:dependencies.%s.%s" % (kind, r))
                elif not type_ok(STR1, it[r]):
                    out.append("type-or-empty:dependencies.%s.%s" % (kind, r))
            if kind == "paths":
                for r in it:
                    if r not in req:
                        out.append("unknown:dependencies.paths.%s" % r)
            if isinstance(it.get("name"), str):
                seen.append(it["name"])
    if len(set(seen)) != len(seen):
        out.append("duplicate-variable-or-dependency-name")      # the validator's own rule
    elif isinstance(labels, dict) and (set(labels) & set(seen)):
        out.append("duplicate-label-name")      # a label named like a variable or dependency: refused
        # when the environment is built (the validator does not look at labels)
    if isinstance(labels, dict):
        seen.extend(labels.keys())
    if "SPECROOT" in seen:
        out.append("reserved-variable-name")        # maestro defines $(SPECROOT) itself
    if isinstance(labels, dict):
        for k, v in labels.items():
            if not k or v is None:
                out.append("empty:label")
    sources = env.get("sources", [])
    if isinstance(sources, list):
        for src in sources:
            if isinstance(src, str) and not re.search(r"\w", src):
                out.append("empty:source")
            elif not isinstance(src, str):
                out.append("type:env.sources.item")     # a validator rule since the schema repair
    elif "sources" in env:
        out.append("type:env.sources")
    return out


LATE_RULES = {"undefined-dependency", "duplicate-label-name", "reserved-variable-name",
              "empty:label", "empty:source", "type:env.sources", "type:env.labels"}


def crash_site(doc, root):
    """file:function of the innermost maestrowf frame of the internal error"""
    import io
    import yaml
    from maestrowf.specification.yamlspecification import YAMLSpecification
    from maestrowf.datastructures.core import Study
    from maestrowf.datastructures.environment import Variable
    try:
        y = YAMLSpecification.load_specification_from_stream(io.StringIO(yaml.safe_dump(doc, sort_keys=False)))
        env = y.get_study_environment()
        steps = y.get_study_steps()
        env.remove("OUTPUT_PATH")
        env.add(Variable("OUTPUT_PATH", root))
        env.add(Variable("SPECROOT", root))
        params = y.get_parameters()
        st = Study(y.name, y.description, studyenv=env, parameters=params, steps=steps, out_path=root)
        st.setup_workspace()
        st.configure_study()
        st.stage()
    except Exception as e:  # noqa
        tb = traceback.extract_tb(e.__traceback__)
        frames = [f for f in tb if "maestrowf" in f.filename]
        if frames:
            f = frames[-1]
            return "%s:%s" % (os.path.basename(f.filename), f.name)
    return "?"


def monitor(doc, desc, out, info, root):
    mon = []
    broken = broken_rules(doc)
    if out.startswith("crash"):
        mon.append(("internal-error", "site=%s %s after mutation '%s'" % (crash_site(doc, root), out, desc)))
        return mon
    if out.startswith("rejected") and not out.endswith("@load") and not broken:
        # the validator let it through, no documented rule is violated, and a
        # consumer (environment / steps / parameters / Study) refused it
        # classify the input, so that a known finding matches its own class only
        tokened = isinstance(doc, dict) and isinstance(doc.get("study"), list) and any(
            isinstance(st_, dict) and isinstance(st_.get("name"), str) and "$(" in st_["name"] for st_ in doc["study"])
        cause = "cause=variable-token-in-a-step-name " if tokened and out == "rejected:ValueError@study" else ""
        mon.append(("accepted-convertible", "%svalidated specification refused by a consumer: %s after mutation '%s'"
                    % (cause, out, desc)))
    # rules the validator itself checks: a document that only breaks such rules
    # must be refused by the validator (phase "load"), not later by a consumer
    if out.startswith("rejected") and not out.endswith("@load") and broken and \
            not any(r.split(":")[0] in LATE_RULES or r in LATE_RULES for r in broken):
        mon.append(("rejected-by-validator", "rule=%s is a validator rule but the document got as far as %s "
                    "(mutation '%s')" % (broken[0], out, desc)))
    if out == "accepted":
        if broken:
            mon.append(("malformed-accepted", "rule=%s violated after mutation '%s' but the specification was accepted"
                        % (broken[0], desc)))
        names = specsim.doc_step_names(doc)
        if sorted(map(str, info["steps"])) != sorted(map(str, names)):
            mon.append(("steps-preserved", "cause=%s document steps %s, study has %s"
                        % ("reserved-name-_source" if "_source" in names else "other", names, info["steps"])))
        elif converted_differs(doc, info.get("converted")):
            mon.append(("steps-preserved", "cause=entry-altered %s" % converted_differs(doc, info.get("converted"))))
        elif info.get("stage", "ok") != "ok":
            if "specified path" not in info["stage"] and "does not exist" not in info["stage"].lower():
                mon.append(("accepted-usable", "accepted specification cannot be staged: %s" % info["stage"]))
        elif "instances" in info and info["instances"] < len(names):
            mon.append(("steps-preserved", "cause=zero-instances %d steps staged to %d instances"
                        % (len(names), info["instances"])))
    return mon


def converted_differs(doc, converted):
    """the steps YAMLSpecification.get_study_steps made of the document: name, description and every
    entry of `run` as written (no defaulting, dropping or retyping of what the document says)"""
    if converted is None:
        return ""
    steps = [s for s in doc.get("study", []) if isinstance(s, dict)]
    if len(steps) != len(converted):
        return "document has %d steps, %d were converted" % (len(steps), len(converted))
    for s, (name, descr, run) in zip(steps, converted):
        if name != s.get("name") or descr != s.get("description"):
            return "step %r/%r was converted to %r/%r" % (s.get("name"), s.get("description"), name, descr)
        for key, value in (s.get("run") or {}).items():
            if key not in run:
                return "step %r: run entry %r: %r of the document is missing after conversion" % (name, key, value)
            if run[key] != value or type(run[key]) is not type(value):
                return "step %r: run entry %r: %r became %r" % (name, key, value, run[key])
    return ""


def jsonable(v):
    """the document with keys that are not strings spelled out (JSON objects have string keys only)"""
    if isinstance(v, dict):
        return {(k if isinstance(k, str) else "<%s %r>" % (type(k).__name__, k)): jsonable(x) for k, x in v.items()}
    if isinstance(v, list):
        return [jsonable(x) for x in v]
    if v is None or isinstance(v, (str, int, float, bool)):
        return v
    return "<%s %s>" % (type(v).__name__, v)      # a date, a timestamp, bytes


def make_case(doc, desc, root):
    import common
    common.next_logging()
    os.makedirs(root, exist_ok=True)
    out, info = specsim.run_pipeline(doc, root)
    shutil.rmtree(root, ignore_errors=True)
    os.makedirs(root, exist_ok=True)
    mon = monitor(doc, desc, out, info, root)
    cls = out.split(":")[0]
    e = enc(doc)
    lines, impl = [], []
    # Model/Spec.lean takes step names as written: what `Study.add_step` does to a name that holds a
    # `$(VAR)` token (node under the raw name, edges under the substituted one - known finding
    # C13-variable-in-step-name) is outside the model; such documents are judged by the monitor only
    tokened = isinstance(doc, dict) and isinstance(doc.get("study"), list) and any(
        isinstance(st_, dict) and isinstance(st_.get("name"), str) and "$(" in st_["name"] for st_ in doc["study"])
    if e is not None and not tokened:
        lines = ["spec.load %s" % e]
        if cls == "accepted":
            impl = ["accepted steps=%s" % ",".join(hx(str(n)) for n in info["steps"])]
        else:
            impl = [cls]
    data = {"doc": jsonable(doc), "mutation": desc, "outcome": out, "broken_rules": broken_rules(doc)[:4]}
    if data["doc"] != doc:
        import yaml
        data["yaml"] = yaml.safe_dump(doc, sort_keys=False)     # keys that are not strings: the exact document
    return Case(data, lines, impl, mon, cls != "accepted" or desc == "valid")


def validity_cases(rng, doc):
    """Draft7 validity of single sections (the real validator) vs the model"""
    import jsonschema
    sch = specsim.schema()
    cases = []
    sections = []
    if isinstance(doc.get("description"), dict) or "description" in doc:
        sections.append(("description", "DESCRIPTION", doc.get("description")))
    if "env" in doc:
        sections.append(("env", "ENV", doc["env"]))
    study = doc.get("study")
    if isinstance(study, list):
        for s in study[:3]:
            sections.append(("step", "STUDY_STEP", s))
    gp = doc.get("global.parameters")
    if isinstance(gp, dict):
        for p in list(gp.values())[:2]:
            sections.append(("param", "PARAM", p))
    for which, key, inst in sections:
        e = enc(inst)
        if e is None:
            continue
        ok = jsonschema.Draft7Validator(sch[key]).is_valid(inst)
        cases.append(Case({"section": which, "instance": inst}, ["spec.valid %s %s" % (which, e)],
                          ["valid" if ok else "invalid"], [], not ok))
    return cases


PATTERN_SAMPLES = ["$(X)", "$(abc_1)", "$(X)\n", "$()", "$(a b)", "x$(X)", "$(X)y", "$(X", "(X)", "$(é)", "",
                   "$(X)\n\n", "$(A)$(B)", "$(_)", " $(X)"]


def pattern_cases():
    pat = specsim.schema()["STUDY_STEP"]["properties"]["run"]["properties"]["nodes"]["anyOf"][1]["pattern"]
    cases = []
    for s in PATTERN_SAMPLES:
        if any(ord(c) > 127 for c in s):
            continue        # the model's \w is ASCII
        ok = re.search(pat, s) is not None
        cases.append(Case({"pattern": pat, "string": s}, ["spec.paramref %s" % hx(s)], ["1" if ok else "0"], [], True))
    return cases


def priority_monitor():
    """every priority value the schema admits is understood by its consumers"""
    import fakeenv
    fakeenv.install_flux()
    from maestrowf.abstracts.enums import StepPriority
    from maestrowf.interfaces.script import FluxFactory
    mon = []
    for v in specsim.priorities() + [0, 1, 0.0, 0.5, 1.0]:
        if isinstance(v, str):
            try:
                StepPriority.from_str(v)
            except Exception as e:  # noqa
                mon.append(("priority-understood", "StepPriority.from_str(%r) raised %s" % (v, type(e).__name__)))
        for ver in FluxFactory.get_valid_interfaces():
            try:
                iface = FluxFactory.get_interface(ver)
            except Exception:  # interface module not importable here
                continue
            try:
                u = iface.get_flux_urgency(v)
                if not (isinstance(u, int) and 0 <= u <= 31):
                    mon.append(("priority-understood", "flux %s urgency of %r is %r" % (ver, v, u)))
            except Exception as e:  # noqa
                mon.append(("priority-understood", "flux %s get_flux_urgency(%r) raised %s"
                            % (ver, v, type(e).__name__)))
    return mon


def _rename_with_variable(d):
    """the first step is called `<name>-$(STAGE)`; whoever depends on it says so under that name"""
    old = d["study"][0]["name"]
    new = old + "-$(STAGE)"
    d["env"] = {"variables": {"STAGE": "build"}}
    d["study"][0]["name"] = new
    for st in d["study"][1:]:
        deps = st.get("run", {}).get("depends")
        if isinstance(deps, list):
            st["run"]["depends"] = [new if x == old else (new + x[len(old):] if isinstance(x, str) and x.startswith(old + "_*") else x)
                                    for x in deps]


CORPUS_MUTATIONS = [
    ("delete step name", lambda d: d["study"][0].pop("name")),
    ("retype run.cmd to []", lambda d: d["study"][0]["run"].__setitem__("cmd", [])),
    ("duplicate step", lambda d: d["study"].append(dict(d["study"][0]))),
    ("self dependency", lambda d: d["study"][0]["run"].__setitem__("depends", [d["study"][0]["name"]])),
    ("self dependency (all combos)", lambda d: d["study"][0]["run"].__setitem__("depends", [d["study"][0]["name"] + "_*"])),
    ("self dependency (bare star)", lambda d: d["study"][1]["run"].__setitem__("depends", ["a", d["study"][1]["name"] + "*"])),
    ("variable with value 0", lambda d: d.__setitem__("env", {"variables": {"SEED": 0, "F": 0.0}})),
    ("odd variable name, null value", lambda d: d.__setitem__("env", {"variables": {"RUN-DIR": None}})),
    ("odd variable name, list value", lambda d: d.__setitem__("env", {"variables": {"run.dir": ["x"]}})),
    ("parameter lengths 1 then 2", lambda d: d.__setitem__("global.parameters", {
        "P": {"values": [1], "label": "P.%%"}, "Q": {"values": [1, 2], "label": "Q.%%"}})),
    ("undefined dependency", lambda d: d["study"][0]["run"].__setitem__("depends", ["nosuch"])),
    ("delete description block", lambda d: d.pop("description")),
    ("study is a scalar", lambda d: d.__setitem__("study", 5)),
    ("global.parameters is null", lambda d: d.__setitem__("global.parameters", None)),
    ("empty parameter values", lambda d: d.__setitem__("global.parameters", {"P": {"values": [], "label": "P.%%"}})),
    ("parameter length mismatch", lambda d: d.__setitem__("global.parameters", {
        "P": {"values": [1, 2], "label": "P.%%"}, "Q": {"values": [1], "label": "Q.%%"}})),
    ("depends entry is an int", lambda d: d["study"][0]["run"].__setitem__("depends", [5])),
    ("spack dependency", lambda d: d.__setitem__("env", {"dependencies": {"spack": {"type": "t", "package_name": "p"}}})),
    ("git item is a string", lambda d: d.__setitem__("env", {"dependencies": {"git": ["x"]}})),
    ("source is an int", lambda d: d.__setitem__("env", {"sources": [5]})),
    ("step named _source", lambda d: d["study"][1].__setitem__("name", "_source")),
    ("leaf step named _source", lambda d: (d["study"][1].__setitem__("name", "_source"),
                                           d["study"][1]["run"].pop("depends"))),
    ("variable SPECROOT", lambda d: d.__setitem__("env", {"variables": {"SPECROOT": "x"}})),
    ("unknown run key", lambda d: d["study"][0]["run"].__setitem__("cmds", "x")),
    ("empty cmd", lambda d: d["study"][0]["run"].__setitem__("cmd", "")),
    ("nodes is a word", lambda d: d["study"][0]["run"].__setitem__("nodes", "two")),
    ("priority unknown", lambda d: d["study"][0]["run"].__setitem__("priority", "urgent")),
    ("priority 2.0", lambda d: d["study"][0]["run"].__setitem__("priority", 2.0)),
    # every finding of the seeded rounds that needed one particular document gets it here
    ("undefined dependency spelled around a defined name (x__*)",
     lambda d: d["study"][1]["run"].__setitem__("depends", [d["study"][0]["name"] + "__*"])),
    ("undefined dependency spelled around a defined name (x_)",
     lambda d: d["study"][1]["run"].__setitem__("depends", [d["study"][0]["name"] + "_"])),
    ("undefined dependency spelled around a defined name (_x_*)",
     lambda d: d["study"][1]["run"].__setitem__("depends", ["_" + d["study"][0]["name"] + "_*"])),
    ("unknown run key with a quote", lambda d: d["study"][0]["run"].__setitem__("it's", "x")),
    ("unknown step key that is a quote", lambda d: d["study"][0].__setitem__("'", "x")),
    ("variable name with a backslash, list value", lambda d: d.__setitem__("env", {"variables": {"a\\d": []}})),
    ("variable name with a group reference, null value", lambda d: d.__setitem__("env", {"variables": {"x\\1": None}})),
    ("same name as a path and as a repository", lambda d: d.__setitem__("env", {"dependencies": {
        "paths": [{"name": "LIB", "path": "/tmp"}],
        "git": [{"name": "LIB", "path": "/tmp", "url": "https://example.invalid/lib.git"}]}})),
    ("a step beside its twin with a trailing blank", lambda d: d["study"].append(
        {"name": d["study"][0]["name"] + " ", "description": "d", "run": {"cmd": "echo twin"}})),
    ("a step named '_source '", lambda d: d["study"][1].__setitem__("name", "_source ")),
    ("a dependency on 'a' where only 'a ' is defined", lambda d: (
        d["study"][0].__setitem__("name", "a "), d["study"][1]["run"].__setitem__("depends", ["a"]))),
    ("a variable in a step name", lambda d: _rename_with_variable(d)),
    ("a date where a command belongs", lambda d: d["study"][0]["run"].__setitem__("cmd", __import__("datetime").date(2024, 1, 1))),
    ("a date as a parameter value", lambda d: d.__setitem__("global.parameters", {
        "DAY": {"values": [__import__("datetime").date(2024, 1, 1), __import__("datetime").date(2024, 1, 2)],
                "label": "DAY.%%"}})),
]


def corpus(base):
    import copy
    out = []
    for desc, mut in CORPUS_MUTATIONS:
        d = copy.deepcopy(base)
        try:
            mut(d)
        except Exception:  # noqa
            continue
        out.append((d, desc))
    return out


def run(ctx, escalated=False):
    quick = ctx.tier == "quick" and not escalated
    n = 250 if quick else 6000
    base = tempfile.mkdtemp(prefix="c13_", dir=ctx.scratch)
    cases = []
    try:
        first = {"description": {"name": "s", "description": "d"},
                 "study": [{"name": "a", "description": "d", "run": {"cmd": "ls"}},
                           {"name": "b", "description": "d", "run": {"cmd": "ls", "depends": ["a"]}}]}
        for i, (d, desc) in enumerate(corpus(first)):
            cases.append(make_case(d, desc, os.path.join(base, "c%d" % i)))
        for i in range(n):
            root = os.path.join(base, "r%d" % i)
            doc = specsim.gen_valid(ctx.rng, root)
            cases.append(make_case(doc, "valid", root))
            for j in range(4):
                m, desc = specsim.mutate(ctx.rng, doc)
                if desc.startswith("noop") or "(noop)" in desc:
                    continue
                cases.append(make_case(m, desc, root))
                if ctx.rng.random() < 0.3:
                    cases.extend(validity_cases(ctx.rng, m))
                if ctx.rng.random() < 0.25:
                    m2, desc2 = specsim.mutate(ctx.rng, m)
                    cases.append(make_case(m2, desc + " + " + desc2, root))
            shutil.rmtree(root, ignore_errors=True)
        cases.extend(pattern_cases())
    finally:
        shutil.rmtree(base, ignore_errors=True)
    pm = priority_monitor()
    cases.append(Case({"priorities": specsim.priorities()}, [], [], pm, True))
    for c in cases:
        d = c.data
        if "outcome" in d:
            ctx.count("outcome:" + d["outcome"].split("@")[0])
            ctx.count("mutation:" + d["mutation"].split(" ")[0])
        elif "section" in d:
            ctx.count("validity:" + d["section"] + ":" + c.impl_out[0])
    diffs = compare(cases)
    account(ctx, cases)
    judge(ctx, cases, diffs, "specification-loading", max_report=4)
