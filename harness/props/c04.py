"""C04 - One live job per step; resolved steps stay resolved; no orphaned jobs

Execution-graph correspondence (real ExecutionGraph driven by the scripted
scheduler vs Model/Exec.lean, state compared after every operation) and the
C04 monitor of harness/execsim.py evaluated on the real traces."""
import execprop

LEVEL = "proof"
RULE = execprop.RULE


def run(ctx, escalated=False):
    execprop.run(ctx, "C04", escalated)
