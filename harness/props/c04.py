"""C04 - One live job per step; resolved steps stay resolved; no orphaned jobs

Execution-graph correspondence (real ExecutionGraph driven by the scripted
scheduler vs Model/Exec.lean, state compared after every operation) and the
C04 monitor of harness/execsim.py evaluated on the real traces; the adapter side of
"which job is live": the real Slurm / LSF `submit` on scripted `sbatch` / `bsub`
answers (documented success lines, multi-cluster lines, warnings before them, failures)
compared with Model/Sched.lean `submitResult` - the job the scheduler accepted must be the
job Maestro tracks, and an accepted job is never reported as a failed submission."""
import os

import execprop
import fakeenv
from corr import Case, compare, judge, account

LEVEL = "proof"
RULE = (execprop.RULE + "; plus submit() of the Slurm / LSF adapters on generated sbatch / bsub outputs "
        "(documented shapes and a malformed stream) x exit codes, and of the Flux adapter on a recording "
        "flux.job that accepts (f58 ids) or refuses (exceptions of the bindings)")


def hx(s):
    return "_".join("%x" % ord(c) for c in s) or "-"


class _Step:
    name = "s"
    real_name = "s"
    run = {}


def submit_cases(ctx, n):
    import c16
    rng = ctx.rng
    ad = c16.adapters()
    cases = []
    for k in range(n):
        which = ("slurm", "lsf")[k % 2]
        jid = str(rng.choice([7, 42, 99999, 100000, 4100001, rng.randint(1, 10 ** 7)]))
        documented = rng.random() < 0.8
        if documented:
            if which == "slurm":
                line = rng.choice(["Submitted batch job %s", "Submitted batch job %s on cluster alpha",
                                   "Submitted batch job %s on cluster c2"]) % jid
            else:
                line = rng.choice(["Job <%s> is submitted to queue <batch>.",
                                   "Job <%s> is submitted to default queue <normal>."]) % jid
            pre = rng.choice(["", "", "sbatch: lua: Submitted job\n", "warning: account defaults applied\n",
                              "  "])
            post = rng.choice(["\n", "", "\n\n", " \n"])
            out = pre + line + post
        else:
            out = rng.choice(["", "\n", "no job here", "Submitted batch job", "error: Batch job submission failed",
                              "Job <> is submitted"])
        rc = rng.choice([0, 0, 0, 0, 1, 2, 127, 255]) if documented else rng.choice([0, 1, 255])
        fakeenv.SUB.set(sbatch=(out, "", rc), bsub=(out, "", rc))
        mon = []
        try:
            rec = ad[which].submit(_Step(), "/w/s.sh", "/w")
            code = rec.submission_code.name
            got = str(rec.job_identifier) if code == "OK" else "-"
            res = "%s %s" % (code, hx(got) if code == "OK" else "-")
        except AttributeError:
            code, got, res = "RAISE", None, "RAISE:AttributeError"
        cmd = fakeenv.SUB.calls[0] if fakeenv.SUB.calls else ""
        if "/w/s.sh" not in cmd or "/w" not in cmd.replace("/w/s.sh", ""):
            mon.append(("submit-command", "%s submit ran %r: script or working directory missing" % (which, cmd)))
        if documented:
            if rc == 0 and (code != "OK" or got != jid):
                mon.append(("submitted-job-tracked", "%s accepted the job (exit 0, output %r) but submit() "
                            "reported %s / job id %r - the live job %s is not the one Maestro tracks"
                            % ({"slurm": "sbatch", "lsf": "bsub"}[which], out, code, got, jid)))
            if rc != 0 and code == "OK":
                mon.append(("submitted-job-tracked", "%s failed (exit %d) but submit() reported OK" % (which, rc)))
        cases.append(Case({"kind": "submit", "adapter": which, "output": out, "rc": rc},
                          ["sched.submit rc=%d out=%s" % (rc, hx(out))], [res], mon, documented,
                          key="submit:%s:%s:%d" % (which, out, rc)))
    return cases


def flux_submit_cases(ctx, n):
    """Flux hands back a job id object; the record must hold its f58 spelling, and a submission Flux
    refuses (any exception of the bindings) must be reported as failed (monitor only: nothing is parsed)"""
    import c16
    from maestrowf.datastructures.core.study import StudyStep
    rng = ctx.rng
    ad = c16.adapters()["flux"]
    cases = []
    for k in range(n):
        jid = rng.choice(["\u01922Nq8mT", "\u0192A", "f%d" % rng.randint(1, 10 ** 6), "\u0192" + "".join(
            rng.choice("123456789ABCDEFGHJKLMNPQRSTUVWXYZabcdefghijkmnopqrstuvwxyz") for _ in range(rng.randint(2, 11)))])
        refuse = rng.choice([None, None, None, ConnectionResetError("broker gone"), RuntimeError("job rejected"),
                             OSError(2, "no broker"), ValueError("bad jobspec")])
        step = StudyStep()
        step.name = "s%d" % k
        step.run.update({"cmd": "x", "nodes": rng.choice([1, 2, "2"]), "procs": rng.choice([1, 4, "4"])})
        if rng.random() < 0.3:
            step.run["nested"] = True
        fakeenv.FLUX.submitted = []
        fakeenv.FLUX.next_id = jid
        fakeenv.FLUX.submit_raises = refuse
        mon = []
        try:
            rec = ad.submit(step, "/w/s.sh", "/w")
            code, got = rec.submission_code.name, rec.job_identifier
        except Exception as e:      # noqa
            code, got = "RAISE:" + type(e).__name__, None
        finally:
            fakeenv.FLUX.submit_raises = None
        if refuse is None:
            if code != "OK" or str(got) != jid:
                mon.append(("submitted-job-tracked", "Flux accepted the job as %r but submit() reported %s / job id %r"
                            % (jid, code, got)))
        elif code == "OK" or code.startswith("RAISE"):
            mon.append(("submitted-job-tracked", "Flux refused the job (%s) but submit() reported %s"
                        % (type(refuse).__name__, code)))
        ctx.count("flux-submit:" + ("accepted" if refuse is None else "refused"))
        cases.append(Case({"kind": "flux-submit", "jobid": jid, "refused": type(refuse).__name__ if refuse else None,
                           "run": dict(step.run)}, [], [], mon, True,
                          key="flux-submit:%s:%s" % (jid, type(refuse).__name__)))
    return cases


def run(ctx, escalated=False):
    quick = ctx.tier == "quick" and not escalated
    cases = execprop.run(ctx, "C04", escalated, finish=False)
    sub = submit_cases(ctx, 300 if quick else 5000) + flux_submit_cases(ctx, 80 if quick else 1500)
    ctx.count("submit-cases", len(sub))
    cases = cases + sub
    diffs = compare(cases)
    account(ctx, sub)
    judge(ctx, cases, diffs, "execution-graph+submit", shrink=execprop.shrink_factory(ctx, "C04"))
