"""C07 - After a cancel request nothing new is submitted and live jobs are cancelled.

(1) execution-graph correspondence with cancel operations at arbitrary points and
    the C07 monitor on the real trace;
(2) conductor level: the request arrives the way `maestro cancel` delivers it (through the real
    `maestro cancel <dirs>` command or Conductor.mark_cancelled; the .cancel.lock file appears
    before the first poll or between two polls of the real Conductor.monitor_study, entered
    directly, through `maestro run -fg` or through `maestro run` + `conductor`): the lock must be
    consumed, cancel_jobs called, nothing submitted afterwards, and the study must return CANCELLED;
(3) adapter side: the real Slurm / LSF / Flux / local cancel_jobs for empty and
    non-empty lists (shared with the scheduler model, see c16.cancel_cases)."""
import os
import shutil

import c16
import condsim
import execprop
from corr import Case, compare, judge, account

LEVEL = "proof"
RULE = execprop.RULE + "; plus conductor-level runs with the cancel lock file and the adapters' cancel_jobs"


def run(ctx, escalated=False):
    quick = ctx.tier == "quick" and not escalated
    cases = execprop.run(ctx, "C07", escalated, finish=False)
    extra = c16.cancel_cases(ctx.rng)
    for k in range(90 if quick else 2000):
        r = condsim.run(ctx, ctx.rng, k, cancel_prob=0.2, entry=("direct", "fg", "bg")[k % 3])
        if r is None:
            continue
        if r["cancelled"] is not None:
            ctx.count("cancel-request:%s:%s" % ("before the first poll" if r["cancelled"] == 0 else "between polls",
                                                (r["cancel_how"] or "").split(" <")[0]))
        extra.append(Case({"kind": "conductor", "spec": r["spec"], "polls": r["polls"], "returned": r["ret"],
                           "entry": r["entry"], "options": r["options"], "cancel_how": r["cancel_how"],
                           "cancel_at_poll": r["cancelled"]}, [r["loop"][0]] if r["loop"] else [],
                          [r["loop"][1]] if r["loop"] else [], r["mon"]["C07"][:3],
                          r["cancelled"] is not None))
        ctx.count("conductor:" + r["ret"])
        if k % 30 == 29:
            shutil.rmtree(os.path.join(ctx.scratch, "cond"), ignore_errors=True)
    # a request that arrives while the only live jobs are restarts still waiting in the queue (their steps read
    # TIMEDOUT in the status table until the new job is seen running): jobs that keep timing out, unlimited
    # restarts, the request delivered by the real `maestro cancel` or by the call it ends in
    waiting = {"description": {"name": "waiting", "description": "restarts in the queue"},
               "study": [{"name": nm, "description": "d", "run": {"cmd": nm, "restart": nm + " --again"}}
                         for nm in ("sim", "post")]}
    for k in range(24 if quick else 400):
        r = condsim.run(ctx, ctx.rng, "w%d" % k, cancel_prob=0.4, entry=("direct", "fg", "bg")[k % 3], timeouts=0.8,
                        max_polls=60, force={"rlimit": 0, "throttle": 0}, spec=waiting)
        if r is None:
            continue
        extra.append(Case({"kind": "conductor-restarts-in-queue", "spec": r["spec"], "polls": r["polls"],
                           "returned": r["ret"], "entry": r["entry"], "options": r["options"],
                           "cancel_how": r["cancel_how"], "cancel_at_poll": r["cancelled"]},
                          [r["loop"][0]] if r["loop"] else [], [r["loop"][1]] if r["loop"] else [],
                          r["mon"]["C07"][:3], r["cancelled"] is not None))
        ctx.count("conductor-restarts-in-queue:" + str(r["ret"]))
    import scripted as S
    S.install()
    cases = cases + extra
    diffs = compare([c for c in cases if c.lines])
    account(ctx, extra)
    judge(ctx, cases, diffs, "execution-graph+conductor-cancel", shrink=execprop.shrink_factory(ctx, "C07"))
