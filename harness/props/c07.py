"""C07 - After a cancel request nothing new is submitted and live jobs are cancelled

Execution-graph correspondence (real ExecutionGraph driven by the scripted
scheduler vs Model/Exec.lean, state compared after every operation) and the
C07 monitor of harness/execsim.py evaluated on the real traces."""
import execprop

LEVEL = "proof"
RULE = execprop.RULE


def run(ctx, escalated=False):
    execprop.run(ctx, "C07", escalated)
