"""C03 - The number of in-flight jobs never exceeds the throttle

Execution-graph correspondence (real ExecutionGraph driven by the scripted
scheduler vs Model/Exec.lean, state compared after every operation) and the
C03 monitor of harness/execsim.py evaluated on the real traces."""
import execprop

LEVEL = "proof"
RULE = execprop.RULE


def run(ctx, escalated=False):
    execprop.run(ctx, "C03", escalated)
