"""C03 - The number of in-flight jobs never exceeds the throttle

Execution-graph correspondence (real ExecutionGraph driven by the scripted
scheduler vs Model/Exec.lean, state compared after every operation) and the
C03 monitor of harness/execsim.py evaluated on the real traces; then whole
commands: generated (mostly parameterised) studies run through the real
Conductor, `maestro run -fg -t N` and `maestro run -t N` + `conductor`, with the
scripted scheduler counting the jobs that are live at once - the throttle the
user asked for is the one that must hold, however many instances the study
expands to."""
import os
import shutil

import condsim
import execprop
from corr import Case, compare, judge, account

LEVEL = "proof"
RULE = (execprop.RULE + "; plus conductor-level runs of generated studies (0-4 parameters, 1-6 steps, "
        "throttle in {0,1,2,3}) entered through Conductor / `maestro run -fg` / `maestro run`+`conductor`")


def run(ctx, escalated=False):
    quick = ctx.tier == "quick" and not escalated
    cases = execprop.run(ctx, "C03", escalated, finish=False)
    extra = []
    for k in range(120 if quick else 3000):
        r = condsim.run(ctx, ctx.rng, k, entry=("direct", "fg", "bg")[k % 3])
        if r is None:
            continue
        extra.append(Case({"kind": "conductor", "spec": r["spec"], "polls": r["polls"], "returned": r["ret"],
                           "entry": r["entry"], "options": r["options"]}, [], [], r["mon"]["C03"][:3],
                          r["options"]["throttle"] > 0))
        ctx.count("conductor-throttle:%d" % r["options"]["throttle"])
        if k % 30 == 29:
            shutil.rmtree(os.path.join(ctx.scratch, "cond"), ignore_errors=True)
    import scripted as S
    S.install()
    # throttled scenarios with the real Slurm / LSF `check_jobs` in the loop: a job the scheduler's
    # listing leaves out for a poll is still live and still occupies its slot
    cases += execprop.via_cases(ctx, "C03", 300 if quick else 6000, faulty=False, throttled=True)
    cases = cases + extra
    diffs = compare([c for c in cases if c.lines])
    account(ctx, extra)
    judge(ctx, cases, diffs, "execution-graph+conductor", shrink=execprop.shrink_factory(ctx, "C03"))
