"""C03 - The number of in-flight jobs never exceeds the throttle

Execution-graph correspondence (real ExecutionGraph driven by the scripted
scheduler vs Model/Exec.lean, state compared after every operation) and the
C03 monitor of harness/execsim.py evaluated on the real traces; then whole
commands: generated (mostly parameterised) studies run through the real
Conductor, `maestro run -fg -t N` and `maestro run -t N` + `conductor`, with the
scripted scheduler counting the jobs that are live at once - the throttle the
user asked for is the one that must hold, however many instances the study
expands to."""
import os
import shutil

import condsim
import execprop
from corr import Case, compare, judge, account

LEVEL = "proof"
RULE = (execprop.RULE + "; plus conductor-level runs of generated studies (0-4 parameters, 1-6 steps, "
        "throttle in {0,1,2,3}) entered through Conductor / `maestro run -fg` / `maestro run`+`conductor`")


def run(ctx, escalated=False):
    quick = ctx.tier == "quick" and not escalated
    cases = execprop.run(ctx, "C03", escalated, finish=False)
    extra = []
    for k in range(120 if quick else 3000):
        r = condsim.run(ctx, ctx.rng, k, entry=("direct", "fg", "bg")[k % 3])
        if r is None:
            continue
        extra.append(Case({"kind": "conductor", "spec": r["spec"], "polls": r["polls"], "returned": r["ret"],
                           "entry": r["entry"], "options": r["options"]}, [], [], r["mon"]["C03"][:3],
                          r["options"]["throttle"] > 0))
        ctx.count("conductor-throttle:%d" % r["options"]["throttle"])
        if k % 30 == 29:
            shutil.rmtree(os.path.join(ctx.scratch, "cond"), ignore_errors=True)
    # directed: a parameterised step whose children inherit its parameters without naming them,
    # launched the way a user does (`maestro run [-fg] -t N`) with a throttle between the number of
    # steps-as-written and the number of instances (seeded change C03-l dropped such a throttle on
    # the way from the command line to the study)
    for k in range(12 if quick else 200):
        c_, k_ = ctx.rng.choice([3, 4, 5]), ctx.rng.choice([2, 3])
        n_ = ctx.rng.randint(c_ + k_, c_ * k_ - 1)
        study = [{"name": "sim", "description": "d", "run": {"cmd": "echo $(X) > out"}}]
        for j in range(k_):
            study.append({"name": "post-%s" % "abc"[j], "description": "d",
                          "run": {"cmd": "echo post%d" % j, "depends": ["sim"]}})
        spec = {"description": {"name": "wide", "description": "children that inherit parameters"},
                "study": study,
                "global.parameters": {"X": {"values": list(range(1, c_ + 1)), "label": "X.%%"}}}
        r = condsim.run(ctx, ctx.rng, "w%d" % k, entry=("fg", "bg")[k % 2], spec=spec,
                        force={"throttle": n_, "rlimit": 0, "attempts": 1, "_world": "benign"})
        if r is None:
            continue
        extra.append(Case({"kind": "conductor-wide", "spec": r["spec"], "polls": r["polls"], "returned": r["ret"],
                           "entry": r["entry"], "options": r["options"]}, [], [], r["mon"]["C03"][:3], True))
        ctx.count("conductor-wide-inheriting")
    shutil.rmtree(os.path.join(ctx.scratch, "cond"), ignore_errors=True)
    import scripted as S
    S.install()
    # throttled scenarios with the real Slurm / LSF `check_jobs` in the loop: a job the scheduler's
    # listing leaves out for a poll is still live and still occupies its slot
    cases += execprop.via_cases(ctx, "C03", 300 if quick else 6000, faulty=False, throttled=True)
    cases = cases + extra
    diffs = compare([c for c in cases if c.lines])
    account(ctx, extra)
    judge(ctx, cases, diffs, "execution-graph+conductor", shrink=execprop.shrink_factory(ctx, "C03"))
