"""Shared runner for the expansion properties (C08, C09, C10, C11)."""
import os

import studysim as SS
from corr import Case, compare, judge, account


def one_case(ctx, k, adversarial=False, hash_ws=None, monitor=None, pgen=True, spec=None, odd_root=False):
    rng = ctx.rng
    import common
    common.next_logging()
    root = os.path.join(ctx.scratch, "st", "s%s" % k)
    if odd_root and rng.random() < 0.25:
        # the user's own choice of output directory (-o / OUTPUT_PATH) is not Maestro's to rename
        root += rng.choice([" out", "+v2", ",b", " é", " (copy)", "'s"])
    dep = os.path.join(ctx.scratch, "depdir")
    os.makedirs(dep, exist_ok=True)
    if spec is None:
        spec = SS.gen_spec(rng, root, adversarial=adversarial, dep_dir=dep)
    else:
        spec = dict(spec)
        if "env" not in spec:
            spec["env"] = {"variables": {"OUTPUT_PATH": root}}
    if hash_ws is None:
        hash_ws = rng.random() < 0.3
    rlimit = rng.choice([0, 1, 2, 3])
    try:
        yspec, study = SS.load_study(spec, root, hash_ws=hash_ws, rlimit=rlimit)
    except Exception as e:  # noqa  (a generated spec the validator rejects: not this property)
        return None
    if pgen and rng.random() < 0.3:
        SS.pgen_variant(rng, study)
    steps = SS.abstract_steps(study)
    params = SS.abstract_params(study)
    md5 = SS.md5_table(study) if hash_ws else {}
    out, dag = SS.stage_real(study)
    lines = SS.model_lines(root, hash_ws, rlimit, params, steps, md5)
    mon = []
    judged = False
    if dag is not None and monitor is not None:
        mon, judged = monitor(spec, study, params, steps, dag, hash_ws, root)
    data = {"spec": spec, "hash_ws": hash_ws, "rlimit": rlimit, "params": params,
            "pgen_variant": any(p["tmpl"] is None or p["name"] != p["key"] for p in params)}
    # the staging tables as well (what `stageSS` of the model ends with)
    lines = lines + ["exp.tables"]
    c = Case(data, lines, ["ok"] * (len(lines) - 2) + [out, SS.tables_real(study, out)], mon,
             bool(params) and dag is not None and len(dag.values) > 2)
    c.dag, c.study, c.judged = dag, study, judged
    return c
