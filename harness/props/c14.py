"""C14 - The workflow graph stays acyclic and its orderings are exact.

Correspondence: random and bounded-exhaustive operation sequences on the real
`maestrowf.datastructures.dag.DAG` versus `Model/Dag.lean`, compared after
every operation.  Monitor: the property stated directly on the real graph."""
import itertools
import re

from corr import Case, compare, judge, account

LEVEL = "proof"
RULE = ("operation sequences (add_node / add_edge / remove_edge; valid, "
        "duplicate, dangling, self and cycle-creating edges) over <=6 names; "
        "non-trivial = at least one edge operation on existing nodes; "
        "distinct = distinct operation sequences")


def _reach(adj, s):
    seen = [s]
    stack = [s]
    while stack:
        x = stack.pop()
        for y in adj.get(x, []):
            if y not in seen:
                seen.append(y)
                stack.append(y)
    return seen


def _has_cycle(adj):
    for s in adj:
        for y in adj[s]:
            if s in _reach(adj, y):
                return True
    return False


def fmt_list(l):
    return "[" + ",".join(str(x) for x in l) + "]"


def dump(g):
    nodes = list(g.values.keys())
    adj = ";".join("%s:%s" % (n, fmt_list(g.adjacency_table[n])) for n in nodes)
    try:
        cyc = "1" if g.detect_cycle() else "0"
    except RecursionError:
        cyc = "X"
    try:
        topo = fmt_list(g.topological_sort())
    except RecursionError:
        topo = "X"
    bfs = ";".join("%s:%s" % (n, fmt_list(g.bfs_subtree(n)[0])) for n in nodes)
    dfs = ";".join("%s:%s" % (n, fmt_list(g.dfs_subtree(n)[0])) for n in nodes)
    return "nodes=%s adj=%s cyc=%s topo=%s bfs=%s dfs=%s" % (
        fmt_list(nodes), adj, cyc, topo, bfs, dfs)


def ledger_step(ledger, op, outcome):
    """what the accepted operations so far amount to, kept apart from the graph's own tables:
    a node once inserted stays with the edges accepted out of it (inserting it again changes
    nothing), an accepted edge between two present, different nodes is there until it is
    removed, a refused operation changes nothing"""
    if outcome != "ok":
        return
    if op[0] == "node":
        ledger.setdefault(op[1], [])
    elif op[0] == "edge":
        a, b = op[1], op[2]
        if a != b and a in ledger and b in ledger and b not in ledger[a]:
            ledger[a].append(b)
    else:
        a, b = op[1], op[2]
        if a in ledger and b in ledger and b in ledger[a]:
            ledger[a].remove(b)


def monitor(g, before_adj, op, outcome, mon, ledger=None):
    adj = {k: list(v) for k, v in g.adjacency_table.items()}
    if ledger is not None and outcome != "OutOfFuel":
        want = {k: sorted(v) for k, v in ledger.items()}
        got = {k: sorted(v) for k, v in adj.items()}
        if want != got:
            mon.append(("insertions-kept",
                        "after %s the graph holds %s but the accepted insertions are %s"
                        % (op, adj, ledger)))
            # the orderings are owed to the accepted insertions, not to what is left of them
            if _has_cycle(ledger):
                mon.append(("acyclic", "the accepted insertions contain a cycle after %s: %s"
                            % (op, ledger)))
            else:
                try:
                    topo = g.topological_sort()
                    for u in ledger:
                        for v in ledger[u]:
                            if u in topo and v in topo and topo.index(u) >= topo.index(v):
                                mon.append(("toposort", "accepted edge (%s,%s) out of order in %s"
                                            % (u, v, topo)))
                    for n in ledger:
                        if n in g.values:
                            want_r = sorted(_reach(ledger, n))
                            for nm, walk in (("bfs", g.bfs_subtree(n)[0]), ("dfs", g.dfs_subtree(n)[0])):
                                if sorted(walk) != want_r:
                                    mon.append(("%s-exact" % nm,
                                                "%s_subtree(%s) = %s, reachable over the accepted edges = %s"
                                                % (nm, n, walk, want_r)))
                except (RecursionError, KeyError):
                    pass
    if _has_cycle(adj):
        mon.append(("acyclic", "graph contains a cycle after %s: %s" % (op, adj)))
    if outcome != "ok" and adj != before_adj:
        mon.append(("refused-unchanged",
                    "%s raised %s but changed the graph: %s -> %s"
                    % (op, outcome, before_adj, adj)))
    if outcome == "Exception" and op[0] == "edge":
        # a refused edge must really create a cycle: dest reaches src
        if op[1] not in _reach(before_adj, op[2]):
            mon.append(("no-valid-edge-refused",
                        "%s refused although it creates no cycle in %s"
                        % (op, before_adj)))
    if op[0] == "edge" and outcome == "ok" and op[1] != op[2] \
            and op[1] in before_adj and op[2] in before_adj \
            and op[1] not in _reach(before_adj, op[2]) \
            and op[2] not in adj.get(op[1], []):
        mon.append(("valid-edge-added", "%s accepted but edge missing" % (op,)))
    if _has_cycle(adj):
        return
    nodes = list(g.values.keys())
    topo = g.topological_sort()
    if sorted(topo) != sorted(nodes):
        mon.append(("toposort", "not a permutation of the nodes: %s" % topo))
    else:
        for u in adj:
            for v in adj[u]:
                if topo.index(u) >= topo.index(v):
                    mon.append(("toposort", "edge (%s,%s) out of order in %s"
                                % (u, v, topo)))
    for n in nodes:
        want = sorted(_reach(adj, n))
        for nm, walk in (("bfs", g.bfs_subtree(n)[0]),
                         ("dfs", g.dfs_subtree(n)[0])):
            if sorted(walk) != want:
                mon.append(("%s-exact" % nm,
                            "%s_subtree(%s) = %s, reachable = %s"
                            % (nm, n, walk, want)))


def run_case(ops):
    from maestrowf.datastructures.dag import DAG
    import common
    common.next_logging()
    g = DAG()
    lines = ["dag.reset"]
    out = ["ok"]
    mon = []
    ledger = {}
    nontrivial = False
    for op in ops:
        before = {k: list(v) for k, v in g.adjacency_table.items()}
        outcome = "ok"
        try:
            if op[0] == "node":
                g.add_node(op[1], None)
                lines.append("dag.node %d" % op[1])
            elif op[0] == "edge":
                lines.append("dag.edge %d %d" % (op[1], op[2]))
                if op[1] in before and op[2] in before:
                    nontrivial = True
                g.add_edge(op[1], op[2])
            else:
                lines.append("dag.rmedge %d %d" % (op[1], op[2]))
                g.remove_edge(op[1], op[2])
        except ValueError:
            outcome = "ValueError"
        except RecursionError:
            outcome = "OutOfFuel"
        except Exception:
            outcome = "Exception"
        if outcome == "OutOfFuel":
            ledger = {k: list(v) for k, v in g.adjacency_table.items()}
        else:
            ledger_step(ledger, op, outcome)
        monitor(g, before, op, outcome, mon, ledger)
        out.append("out=%s %s" % (outcome, dump(g)))
    return Case({"ops": [list(o) for o in ops]}, lines, out, mon, nontrivial)


def run_study_case(ops):
    """the other insertion route: `Study.add_step` (a node and one edge per `depends` entry, or the
    edge from `_source`).  `ops`: (object index, name, depends): an index seen before hands the SAME
    step object to `add_step` again, with its `depends` as edited meanwhile; a new index is a new
    object, possibly under a name that is taken.  Judged by the same monitor against the ledger of
    accepted insertions; no model lines (the model of this route is `buildFlow`, tied by C08 / C13)."""
    from maestrowf.datastructures.core import Study, StudyStep, StudyEnvironment, ParameterGenerator
    import common
    common.next_logging()
    g = Study("s", "d", studyenv=StudyEnvironment(), parameters=ParameterGenerator(), steps=[], out_path="/nonexistent")
    objs = {}
    mon = []
    ledger = {"_source": []}
    nontrivial = False
    for oi, name, deps in ops:
        st = objs.get(oi)
        if st is None:
            st = StudyStep()
            st.name = name
            st.description = "d"
            objs[oi] = st
        else:
            nontrivial = True
        st.run["cmd"] = "echo"
        st.run["depends"] = list(deps)
        name = st.real_name
        before = {k: list(v) for k, v in g.adjacency_table.items()}
        outcome = "ok"
        try:
            g.add_step(st)
        except ValueError:
            outcome = "ValueError"
        except RecursionError:
            outcome = "OutOfFuel"
        except Exception:
            outcome = "Exception"
        # what the call amounts to, edge by edge, on the ledger
        ledger.setdefault(name, [])
        want = "ok"
        for d in ([re.sub(r"_\*|\*", "", x) for x in deps] or ["_source"]):
            if d == name:
                continue
            if d not in ledger:
                want = "ValueError"
                break
            if name in ledger[d]:
                continue
            if d in _reach(ledger, name):
                want = "Exception"
                break
            ledger[d].append(name)
        op = ("step", name, tuple(deps), "again" if oi in objs and nontrivial else "new")
        if outcome != "OutOfFuel" and want != outcome:
            mon.append(("refusal-exact" if want != "ok" else "no-valid-edge-refused",
                        "add_step(%s, depends=%s) -> %s, the accepted insertions so far (%s) call for %s"
                        % (name, list(deps), outcome, ledger, want)))
        adj = {k: list(v) for k, v in g.adjacency_table.items()}
        if _has_cycle(adj):
            mon.append(("acyclic", "graph contains a cycle after %s: %s" % (op, adj)))
        monitor(g, before, op, "ok", mon, ledger)
        if mon:
            break
    return Case({"study_ops": [[oi, n, list(d)] for oi, n, d in ops]}, [], [], mon[:3], nontrivial)


def gen_study_ops(rng, length):
    names = ["a", "b", "c", "d", "e"]
    ops = []
    known = []
    nobj = 0
    for _ in range(length):
        r = rng.random()
        if known and r < 0.3:
            oi, name = rng.choice(known)           # the same object again, depends edited
        else:
            oi, name = nobj, rng.choice(names)
            nobj += 1
            known.append((oi, name))
        pool = [n for _o, n in known] + (["zz"] if rng.random() < 0.05 else [])
        k = rng.choice([0, 1, 1, 2])
        deps = [rng.choice(pool) + ("_*" if rng.random() < 0.15 else "") for _ in range(k)]
        ops.append((oi, name, tuple(deps)))
    return ops


def gen_ops(rng, maxn, length):
    ops = []
    names = list(range(maxn))
    present = []
    for _ in range(length):
        r = rng.random()
        if r < 0.3 or len(present) < 2:
            n = rng.choice(names)
            ops.append(("node", n))
            if n not in present:
                present.append(n)
        elif r < 0.88:
            if rng.random() < 0.9:
                a, b = rng.choice(present), rng.choice(present)
            else:
                a, b = rng.choice(names), rng.choice(names)
            ops.append(("edge", a, b))
        else:
            a, b = rng.choice(names), rng.choice(names)
            ops.append(("rmedge", a, b))
    return ops


def exhaustive(names, length):
    alphabet = [("node", n) for n in names]
    alphabet += [("edge", a, b) for a in names for b in names]
    alphabet += [("rmedge", a, b) for a in names for b in names if a != b]
    for L in range(1, length + 1):
        for seq in itertools.product(alphabet, repeat=L):
            yield list(seq)


def exhaustive_edges(names, length):
    """every sequence of <= `length` edge insertions / removals on a graph that
    already has the nodes `names` (cycles of every length <= len(names), diamonds,
    shared descendants, duplicates, self loops)"""
    prefix = [("node", n) for n in names]
    alphabet = [("edge", a, b) for a in names for b in names]
    alphabet += [("rmedge", a, b) for a in names for b in names if a != b]
    for L in range(1, length + 1):
        for seq in itertools.product(alphabet, repeat=L):
            yield prefix + list(seq)


def shrink_factory():
    def shrink(case, clause):
        if "study_ops" in case.data:
            sops = [(o[0], o[1], tuple(o[2])) for o in case.data["study_ops"]]
            cur, changed = case, True
            while changed:
                changed = False
                for i in range(len(sops)):
                    cand = sops[:i] + sops[i + 1:]
                    c = run_study_case(cand)
                    if any(cl == clause for cl, _ in c.monitor):
                        sops, cur, changed = cand, c, True
                        break
            return cur
        ops = [tuple(o) for o in case.data["ops"]]

        def bad(c):
            if clause is None:
                return bool(compare([c]))
            return any(cl == clause for cl, _ in c.monitor)
        cur = case
        changed = True
        while changed:
            changed = False
            for i in range(len(ops)):
                cand = ops[:i] + ops[i + 1:]
                c = run_case(cand)
                if bad(c):
                    ops, cur, changed = cand, c, True
                    break
        if clause is None:
            compare([cur])
        return cur
    return shrink


def corpus_cases():
    # hand-written seeds: the histories of the repaired defects D5, D6 and the
    # classic shapes
    yield [("node", 0), ("node", 1), ("node", 2), ("edge", 0, 1), ("edge", 1, 2),
           ("edge", 2, 0), ("edge", 0, 2), ("node", 3), ("edge", 2, 3)]
    yield [("node", 0), ("node", 1), ("node", 2), ("node", 3), ("edge", 0, 1),
           ("edge", 0, 2), ("edge", 1, 3), ("edge", 2, 3), ("edge", 3, 0)]
    yield [("node", 0), ("edge", 0, 0), ("edge", 0, 5), ("edge", 5, 0),
           ("rmedge", 0, 5), ("node", 1), ("rmedge", 0, 1)]
    yield [("node", i) for i in range(6)] + \
        [("edge", a, b) for a in range(6) for b in range(6) if a < b] + \
        [("edge", 5, 0), ("rmedge", 0, 5), ("edge", 5, 0)]


def run(ctx, escalated=False):
    quick = ctx.tier == "quick" and not escalated
    cases = [run_case(ops) for ops in corpus_cases()]
    n_random = 600 if quick else 6000
    for _ in range(n_random):
        maxn = ctx.rng.choice([2, 3, 4, 5, 6])
        cases.append(run_case(gen_ops(ctx.rng, maxn, ctx.rng.randint(3, 16))))
    # bounded-exhaustive small scope: all sequences over 2 names (quick: <=3
    # operations, thorough: <=4) -- validation of the model, not a proof
    ex_len = 3 if quick else 4
    ex = [run_case(ops) for ops in exhaustive([0, 1], ex_len)]
    ctx.cov["exhaustive_small_scope"] = {
        "names": 2, "max_ops": ex_len, "sequences": len(ex)}
    cases.extend(ex)
    # the same over edge operations on pre-populated graphs (quick: 3 nodes, <=3
    # edge operations; thorough: 3 nodes <=4 and 4 nodes <=3)
    scopes = [([0, 1, 2], 3)] if quick else [([0, 1, 2], 4), ([0, 1, 2, 3], 3)]
    total = 0
    for names, L in scopes:
        ex2 = [run_case(ops) for ops in exhaustive_edges(names, L)]
        total += len(ex2)
        cases.extend(ex2)
    ctx.cov["exhaustive_edge_sequences"] = {"scopes": [[len(nm), L] for nm, L in scopes], "sequences": total}
    # the Study.add_step route
    study_cases = [run_study_case(gen_study_ops(ctx.rng, ctx.rng.randint(3, 10)))
                   for _ in range(300 if quick else 5000)]
    ctx.cov["study_add_step_sequences"] = {"sequences": len(study_cases),
                                           "with_a_step_object_added_again": sum(1 for c in study_cases if c.nontrivial)}
    for c in cases:
        ctx.count("ops", len(c.lines) - 1)
        for o in c.impl_out[1:]:
            ctx.count("outcome:" + o.split(" ")[0][4:])
    diffs = compare(cases)
    account(ctx, cases)
    account(ctx, study_cases)
    judge(ctx, cases + study_cases, diffs, "dag-operations", shrink=shrink_factory())
