"""C10 - Every step instance has its own workspace inside the study directory.

(1) pure-function correspondence: `utils.make_safe_path` vs Model/Expand
    (sanitize / makeSafePath) on arbitrary printable strings (ASCII + unicode);
(2) study-expansion correspondence with adversarial parameter values and labels
    (spaces, slashes, dots, signs, quotes, unicode), with and without --hashws;
(3) script generation with the real local / Slurm / LSF adapters (+-usetmp): the
    workspace / script-path monitor evaluated on the real tree, then the graph is run to
    the end (recording `submit`) and every launch's working directory is compared with
    the instance's workspace."""
import os
import shutil

import expprop
import scripted as S
import studysim as SS
from corr import Case, compare, judge, account

LEVEL = "proof"
RULE = ("(1) random printable strings (ASCII punctuation, blanks, slashes, dots, "
        "unicode) as path components; (2) generated specifications whose parameter "
        "values / labels are adversarial strings, +-hashws; (3) generate_scripts with "
        "local/slurm/lsf adapters, +-usetmp; non-trivial = >=2 parameterised "
        "instances / string with a stripped character; distinct = distinct inputs")

CHARS = "abzAZ09-_.() /\\+*'\"$%&:;,<>?!#@[]{}|~`^=\t\né中 "


def hx(s):
    return "_".join("%x" % ord(c) for c in s) or "-"


def pure_cases(ctx, n):
    from maestrowf.utils import make_safe_path
    cases = []
    for _ in range(n):
        k = ctx.rng.randint(1, 3)
        args = ["".join(ctx.rng.choice(CHARS) for _ in range(ctx.rng.choice([0, 1, 2, 3, 5, 9])))
                for _ in range(k)]
        base = ctx.rng.choice(["/out/study", "/out/", "rel", ""])
        got = make_safe_path(base, *args)
        mon = []
        # the property on this function: no component can leave / split the path
        comps = got[len(base):].lstrip("/").split("/") if base else got.split("/")
        if base and not base.endswith("/") and len([c for c in comps]) > k:
            mon.append(("component-safe", "make_safe_path(%r, %r) = %r has more levels than arguments"
                        % (base, args, got)))
        cases.append(Case({"kind": "pure", "base": base, "args": args},
                          ["exp.safepath %s %s" % (hx(base), ",".join(hx(a) for a in args))],
                          [hx(got)], mon, any(ch not in "abzAZ09-_.()" for a in args for ch in a)))
    # where the local adapter puts the captured stdout / stderr: the real `submit` with the process
    # and the files it opens replaced, against `localCapturePaths` of the model
    import maestrowf.interfaces.script.localscriptadapter as LSA
    from maestrowf.datastructures.core.study import StudyStep

    class _P(object):
        def __init__(self, pid):
            self.pid = pid

        def communicate(self):
            return "o", "e"

        def wait(self):
            return 0

    class _Sink(object):
        def write(self, _t):
            pass

        def __enter__(self):
            return self

        def __exit__(self, *a):
            return False

    for _ in range(max(30, n // 40)):
        cwd = ctx.rng.choice(["/out/study/run/X.1", "/out/study/run/", "/tmp/t", "rel/ws", "/"])
        name = "".join(ctx.rng.choice("abX1._-() ") for _ in range(ctx.rng.randint(0, 9)))
        pid = ctx.rng.randint(1, 99999)
        opened = []

        def _open(fp, mode="r", *a, **k):
            opened.append(str(fp))
            return _Sink()
        saved = (LSA.__dict__.get("start_process"), LSA.__dict__.get("open"))
        LSA.start_process = lambda *a, **k: _P(pid)
        LSA.open = _open
        try:
            st = StudyStep()
            st.name = name
            LSA.LocalScriptAdapter().submit(st, "/scripts/x.sh", cwd)
        finally:
            LSA.start_process = saved[0]
            if saved[1] is None:
                del LSA.open
            else:
                LSA.open = saved[1]
        mon = []
        for fp in opened:
            if "/" not in name and os.path.dirname(fp).rstrip("/") != cwd.rstrip("/"):
                mon.append(("writes-inside", "the local adapter writes %s for a step launched in %s" % (fp, cwd)))
        cases.append(Case({"kind": "pure-capture", "cwd": cwd, "name": name, "pid": pid},
                          ["exp.capture %s %s %s" % (hx(cwd), hx(name), hx(str(pid)))],
                          [" ".join(hx(x) for x in opened)], mon, True))
    # long combination strings (many parameters with descriptive labels): two
    # names made only of characters the sanitiser keeps, differing in one
    # position anywhere, must stay distinct whatever their length
    safe = "abcxyzABC0189-_.()"
    for _ in range(max(20, n // 60)):
        ln = ctx.rng.choice([40, 100, 127, 128, 129, 160, 255, 256, 300, 600])
        a = "".join(ctx.rng.choice(safe) for _ in range(ln))
        pos = ctx.rng.choice([0, ln // 2, ln - 1, ctx.rng.randrange(ln)])
        b = a[:pos] + ("q" if a[pos] != "q" else "r") + a[pos + 1:]
        base = "/out/study"
        ga, gb = make_safe_path(base, "step", a), make_safe_path(base, "step", b)
        mon = []
        if ga == gb:
            mon.append(("distinct-workspaces", "hashws=False cause=long-name: two safe names of length %d "
                        "differing at position %d share the directory %s" % (ln, pos, ga[:60])))
        cases.append(Case({"kind": "pure-long", "base": base, "args": ["step", a], "other": b},
                          ["exp.safepath %s %s" % (hx(base), ",".join(hx(x) for x in ("step", a))),
                           "exp.safepath %s %s" % (hx(base), ",".join(hx(x) for x in ("step", b)))],
                          [hx(ga), hx(gb)], mon, True))
    # names of kept characters only that differ in the length of a run of dots / underscores / dashes
    for _ in range(max(20, n // 60)):
        x = "".join(ctx.rng.choice("abc019") for _ in range(ctx.rng.randint(1, 3)))
        y = "".join(ctx.rng.choice("xyz5") for _ in range(ctx.rng.randint(0, 3)))
        ch = ctx.rng.choice("..._-")
        k, m = ctx.rng.sample([1, 2, 3, 4], 2)
        a, b = x + ch * k + y, x + ch * m + y
        base = "/out/study"
        ga, gb = make_safe_path(base, "step", a), make_safe_path(base, "step", b)
        mon = []
        if ga == gb:
            mon.append(("distinct-workspaces", "hashws=False cause=run-length: the names %r and %r (kept characters "
                        "only) share the directory %s" % (a, b, ga)))
        cases.append(Case({"kind": "pure-runs", "base": base, "args": ["step", a], "other": b},
                          ["exp.safepath %s %s" % (hx(base), ",".join(hx(x_) for x_ in ("step", a))),
                           "exp.safepath %s %s" % (hx(base), ",".join(hx(x_) for x_ in ("step", b)))],
                          [hx(ga), hx(gb)], mon, True))
    return cases


def adapter_batch(which):
    if which == "local":
        return {"type": "local"}
    if which == "slurm":
        return {"type": "slurm", "host": "h", "bank": "b", "queue": "q"}
    if which == "flux":
        import fakeenv
        fakeenv.install_flux()
        return {"type": "flux", "host": "h", "bank": "b", "queue": "q"}
    return {"type": "lsf", "host": "h", "bank": "b", "queue": "q"}


def _step(name, cmd, depends=None):
    run = {"cmd": cmd}
    if depends:
        run["depends"] = depends
    return {"name": name, "description": "d", "run": run}


# hand-written seeds: one per known finding (run first, on every run)
CORPUS = [
    ("collision", {"description": {"name": "s", "description": "d"},
                   "study": [_step("run", "echo $(V)")],
                   "global.parameters": {"V": {"values": ["+1", "1", "a b", "a_b"], "label": "%%"}}},
     False, False, "local"),
    ("collision-hashed", {"description": {"name": "s", "description": "d"},
                          "study": [_step("run", "echo $(V)")],
                          "global.parameters": {"V": {"values": ["+1", "1", "a b", "a_b", "é", "ü"],
                                                      "label": "%%"}}},
     True, False, "local"),
    ("degenerate", {"description": {"name": "s", "description": "d"},
                    "study": [_step("run", "echo $(V)")],
                    "global.parameters": {"V": {"values": ["..", "é"], "label": "%%"}}},
     False, False, "local"),
    ("slash", {"description": {"name": "s", "description": "d"},
               "study": [_step("run", "echo $(V)")],
               "global.parameters": {"V": {"values": ["p/q", "r"], "label": "%%"}}},
     False, False, "local"),
    ("hash-tmp", {"description": {"name": "s", "description": "d"},
                  "study": [_step("pre", "echo $(V)"), _step("post", "echo $(V)", ["pre"])],
                  "global.parameters": {"V": {"values": [1, 2], "label": "V.%%"}}},
     True, True, "local"),
]
# steps and labels that already look like script files: each instance has a script path of its own, in its
# workspace and in the one temporary directory of --usetmp alike (no known finding here: these must hold)
for _which, _ext in (("local", ".sh"), ("slurm", ".slurm.sh"), ("lsf", "lsf.sh"), ("lsf", ".lsf.sh")):
    _run = {} if _which == "local" else {"nodes": 1, "procs": 1, "walltime": "00:10:00"}
    _steps = [dict(_step(n, "echo %d" % i), run=dict(_run, cmd="echo %d" % i, restart="echo again"))
              for i, n in enumerate(["setup", "setup" + _ext, "setup.restart", "post", "post" + _ext.lstrip(".")])]
    for _tmp in (False, True):
        CORPUS.append(("script-like-names-%s%s-%s" % (_which, _ext.replace(".", "-"), "tmp" if _tmp else "ws"), {"description": {"name": "s", "description": "d"}, "study": _steps,
                                             "global.parameters": {"V": {"values": ["v", "v" + _ext], "label": "%%"}}},
                       False, _tmp, _which))
    _steps[3]["run"]["cmd"] = "echo $(V)"


# labels that differ only in how many blanks they hold, and where: every blank is kept (as `_`), so
# they stay apart (seeded change C10-n collapsed and trimmed blank runs)
CORPUS.append(("blank-runs", {"description": {"name": "s", "description": "d"},
                              "study": [_step("run", "echo $(V)")],
                              "global.parameters": {"V": {"values": ["case A", "case  A", "case A ", " case A"],
                                                          "label": "%%"}}},
               False, False, "local"))

# instance names near the file-name limit that differ in their last character only, scripts in one
# temporary directory (seeded change C10-m cut the Flux script names to fit `.restart.flux.sh`)
for _which in ("local", "slurm", "lsf", "flux"):
    _long = "L" * 241
    CORPUS.append(("long-names-%s-tmp" % _which,
                   {"description": {"name": "s", "description": "d"},
                    "study": [{"name": "s", "description": "d", "run": {"cmd": "echo $(V)", "nodes": 1, "procs": 1}}],
                    "global.parameters": {"V": {"values": [_long + "1", _long + "2"], "label": "%%"}}},
                   False, True, _which))


def launch_monitor(dag2, which, scripts, hash_ws, use_tmp):
    """Runs the staged graph to the end through the real ExecutionGraph with the real
    adapter classes, whose `submit` / `check_jobs` are replaced by recorders (every job
    succeeds): the working directory each launch is given must be the instance's own
    workspace (that is where the local adapter writes the captured stdout/stderr and
    where the schedulers run the script)."""
    from maestrowf.abstracts.enums import JobStatusCode, State, SubmissionCode
    from maestrowf.interfaces import ScriptAdapterFactory
    from maestrowf.interfaces.script import SubmissionRecord
    launches = []
    written = []       # (instance, file the local adapter opened for writing)
    local_cls = ScriptAdapterFactory.get_adapter("local")
    classes = {ScriptAdapterFactory.get_adapter(which), local_cls}
    saved = [(c, c.__dict__.get("submit"), c.__dict__.get("check_jobs")) for c in classes]
    real_local_submit = local_cls.__dict__.get("submit")
    import maestrowf.interfaces.script.localscriptadapter as LSA

    class _Proc(object):
        def __init__(self, pid):
            self.pid = pid

        def communicate(self):
            return "", ""

        def wait(self):
            return 0

    class _Sink(object):
        def write(self, _t):
            pass

        def __enter__(self):
            return self

        def __exit__(self, *a):
            return False

    def submit(self, step, path, cwd, job_map=None, env=None):
        launches.append((step.real_name, path, cwd))
        if isinstance(self, local_cls) and real_local_submit is not None:
            # the real local `submit`, with the process and the files it opens replaced: where the
            # captured stdout / stderr of this instance would be written
            def _open(fp, mode="r", *a, **k):
                if any(ch in mode for ch in "wax+"):
                    written.append((step.real_name, str(fp)))
                    return _Sink()
                return open(fp, mode, *a, **k)
            old = (LSA.__dict__.get("start_process"), LSA.__dict__.get("open"))
            LSA.start_process = lambda *a, **k: _Proc(4000 + len(launches))
            LSA.open = _open
            try:
                real_local_submit(self, step, path, cwd, job_map=job_map, env=env)
            except Exception:  # noqa   (what a failing launch does is C19's)
                pass
            finally:
                LSA.start_process = old[0]
                if old[1] is None:
                    del LSA.open
                else:
                    LSA.open = old[1]
        return SubmissionRecord(SubmissionCode.OK, 0, len(launches))

    def check_jobs(self, joblist):
        return JobStatusCode.OK, {j: State.FINISHED for j in joblist}

    mon = []
    try:
        for c in classes:
            c.submit, c.check_jobs = submit, check_jobs
        for _ in range(3 * len(dag2.values) + 3):
            if dag2.execute_ready_steps().name != "RUNNING":
                break
    except Exception:  # noqa   (execution problems are other properties')
        pass
    finally:
        for c, sub, chk in saved:
            for nm, fn in (("submit", sub), ("check_jobs", chk)):
                if fn is None:
                    delattr(c, nm)
                else:
                    setattr(c, nm, fn)
    tag = "hashws=%s usetmp=%s" % (bool(hash_ws), bool(use_tmp))
    for name, path, cwd in launches:
        if name not in scripts:
            continue
        ws = scripts[name][0]
        if os.path.normpath(cwd) != os.path.normpath(ws):
            mon.append(("writes-inside", "%s: instance %r is launched (script %s) with working directory %s; "
                        "its workspace is %s" % (tag, name, path, cwd, ws)))
    for name, fp in written:
        if name not in scripts:
            continue
        ws = os.path.normpath(scripts[name][0])
        if os.path.dirname(os.path.normpath(os.path.join(ws, fp))) != ws:
            mon.append(("writes-inside", "%s: the local adapter writes %s for instance %r, outside its "
                        "workspace %s" % (tag, fp, name, ws)))
    return mon[:3]


def monitor_factory(ctx, force=None):
    def monitor(spec, study, params, steps, dag, hash_ws, root):
        mon = SS.workspace_monitor(root, dag, hash_ws=hash_ws)
        nbase = len(mon)
        # script generation with a real adapter
        which = ctx.rng.choice(["local", "local", "slurm", "lsf", "flux"])
        use_tmp = ctx.rng.random() < 0.3
        if force is not None:
            use_tmp, which = force
        S.uninstall()
        scripts = {}
        try:
            yspec2, study2 = SS.load_study(spec, root, hash_ws=hash_ws, rlimit=1, use_tmp=use_tmp)
            old_tmp = os.environ.get("TMPDIR")
            os.environ["TMPDIR"] = ctx.scratch
            import tempfile
            tempfile.tempdir = None
            try:
                _p, dag2 = study2.stage()
            finally:
                if old_tmp is None:
                    os.environ.pop("TMPDIR", None)
                else:
                    os.environ["TMPDIR"] = old_tmp
                tempfile.tempdir = None
            dag2.set_adapter(adapter_batch(which))
            try:
                dag2.generate_scripts()
                for key, r in dag2.values.items():
                    if key != "_source":
                        scripts[key] = (r.workspace.value, r.script, use_tmp)
                mon += launch_monitor(dag2, which, scripts, hash_ws, use_tmp)
            except FileNotFoundError as e:
                slash = any("/" in k for k in dag2.values)
                mon.append(("writes-inside", "cause=%s: script generation failed: %s"
                            % ("slash-in-instance-name" if slash else "other", str(e)[:100])))
            except (ValueError, TypeError, RuntimeError, AttributeError):
                pass     # resource / launcher problems are C15's
            finally:
                dag2.cleanup()
        except Exception:  # noqa
            pass
        if scripts:
            mon += SS.workspace_monitor(root, dag, scripts, hash_ws=hash_ws)[nbase:]
        return mon[:6], True
    return monitor


def run(ctx, escalated=False):
    quick = ctx.tier == "quick" and not escalated
    cases = pure_cases(ctx, 3000 if quick else 100000)
    for tag, spec, hws, utmp, which in CORPUS:
        c = expprop.one_case(ctx, "c-" + tag, hash_ws=hws, monitor=monitor_factory(ctx, (utmp, which)),
                             pgen=False, spec=spec)
        if c is not None:
            c.data["kind"] = "corpus:" + tag
            cases.append(c)
    mon = monitor_factory(ctx)
    n = 250 if quick else 6000
    for k in range(n):
        adv = ctx.rng.random() < 0.6
        c = expprop.one_case(ctx, k, adversarial=adv, monitor=mon, pgen=False, odd_root=True)
        if c is not None:
            c.data["kind"] = "study"
            cases.append(c)
        if k % 50 == 49:
            shutil.rmtree(os.path.join(ctx.scratch, "st"), ignore_errors=True)
    for c in cases:
        ctx.count("kind:" + c.data.get("kind", "study"))
        for cl, _ in c.monitor:
            ctx.count("monitor:" + cl)
    diffs = compare(cases)
    account(ctx, cases)
    judge(ctx, cases, diffs, "paths-and-expansion", max_report=6)
