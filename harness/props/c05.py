"""C05 - The study terminates and its final verdict and exit code are truthful

Execution-graph correspondence (real ExecutionGraph driven by the scripted
scheduler vs Model/Exec.lean, state compared after every operation), the C05
monitor of harness/execsim.py evaluated on the real traces, and conductor-level
runs (real Conductor.monitor_study, cancel requests through the lock file,
studies made of locally executed steps only), a third of them each entered through
Conductor directly, through maestrowf.maestro.main() (`maestro run -fg`) and through
`maestro run` + maestrowf.conductor.main() (`conductor`), whose exit codes are compared
with the verdict the final status table prescribes."""
import os
import shutil

import condsim
import execprop
from corr import Case, compare, judge, account

LEVEL = "proof"
RULE = (execprop.RULE + "; plus conductor-level runs with cancel requests, 40% of them with local steps only, "
        "entered through Conductor / `maestro run -fg` / `maestro run`+`conductor` in turn (exit codes compared)")


def run(ctx, escalated=False):
    quick = ctx.tier == "quick" and not escalated
    cases = execprop.run(ctx, "C05", escalated, finish=False)
    extra = []
    for k in range(150 if quick else 3000):
        # a cancel request decides the verdict by itself: the entry-point runs keep it rare so that
        # verdicts decided by what the scheduler reported (a job cancelled from outside, a failure) dominate
        entry = ("direct", "fg", "bg")[k % 3]
        r = condsim.run(ctx, ctx.rng, k, cancel_prob=0.25 if entry == "direct" else 0.04,
                        local_prob=0.4 if entry == "direct" else 0.15, entry=entry)
        if r is None:
            continue
        ctx.count("entry:" + r["entry"])
        extra.append(Case({"kind": "conductor", "spec": r["spec"], "polls": r["polls"], "returned": r["ret"],
                           "entry": r["entry"], "exit_code": r["exit"], "options": r["options"],
                           "cancel_at_poll": r["cancelled"], "cancel_how": r["cancel_how"]},
                          [r["loop"][0]] if r["loop"] else [], [r["loop"][1]] if r["loop"] else [],
                          r["mon"]["C05"][:3],
                          r["cancelled"] is not None or r["nontrivial"]))
        ctx.count("conductor:" + r["ret"])
        if r["entry"] != "direct":
            ctx.count("exit:%s:%s%s" % (r["entry"], r["exit"], ":cancel-requested" if r["cancelled"] is not None else ""))
        if k % 30 == 29:
            shutil.rmtree(os.path.join(ctx.scratch, "cond"), ignore_errors=True)
    # directed: the cancel request is already there when the conductor starts to poll - issued while
    # `maestro run` was staging or waiting at its prompt (seeded change C05-n removed such a "stale"
    # request in the -fg branch) - through each entry point in turn
    for k in range(9 if quick else 90):
        entry = ("direct", "fg", "bg")[k % 3]
        r = condsim.run(ctx, ctx.rng, "pc%d" % k, cancel_prob=0.0, local_prob=0.2, entry=entry,
                        force={"_cancel_at_init": True})
        if r is None:
            continue
        extra.append(Case({"kind": "conductor-cancel-before-first-poll", "spec": r["spec"], "polls": r["polls"],
                           "returned": r["ret"], "entry": r["entry"], "exit_code": r["exit"], "options": r["options"],
                           "cancel_at_poll": r["cancelled"], "cancel_how": r["cancel_how"]},
                          [r["loop"][0]] if r["loop"] else [], [r["loop"][1]] if r["loop"] else [],
                          r["mon"]["C05"][:3], True))
        ctx.count("cancel-before-first-poll:%s:%s" % (r["entry"], r["ret"]))
    shutil.rmtree(os.path.join(ctx.scratch, "cond"), ignore_errors=True)
    import scripted as S
    S.install()
    cases = cases + extra
    diffs = compare([c for c in cases if c.lines])
    account(ctx, extra)
    judge(ctx, cases, diffs, "execution-graph+conductor", shrink=execprop.shrink_factory(ctx, "C05"))
