"""C05 - The study terminates and its final verdict and exit code are truthful

Execution-graph correspondence (real ExecutionGraph driven by the scripted
scheduler vs Model/Exec.lean, state compared after every operation), the C05
monitor of harness/execsim.py evaluated on the real traces, and conductor-level
runs (real Conductor.monitor_study, cancel requests through the lock file,
studies made of locally executed steps only)."""
import os
import shutil

import condsim
import execprop
from corr import Case, compare, judge, account

LEVEL = "proof"
RULE = execprop.RULE + "; plus conductor-level runs with cancel requests, 40% of them with local steps only"


def run(ctx, escalated=False):
    quick = ctx.tier == "quick" and not escalated
    cases = execprop.run(ctx, "C05", escalated, finish=False)
    extra = []
    for k in range(60 if quick else 2000):
        r = condsim.run(ctx, ctx.rng, k, cancel_prob=0.25, local_prob=0.4)
        if r is None:
            continue
        extra.append(Case({"kind": "conductor", "spec": r["spec"], "polls": r["polls"], "returned": r["ret"],
                           "cancel_at_poll": r["cancelled"]}, [], [], r["mon"]["C05"][:3],
                          r["cancelled"] is not None or r["nontrivial"]))
        ctx.count("conductor:" + r["ret"])
        if k % 30 == 29:
            shutil.rmtree(os.path.join(ctx.scratch, "cond"), ignore_errors=True)
    import scripted as S
    S.install()
    cases = cases + extra
    diffs = compare([c for c in cases if c.lines])
    account(ctx, extra)
    judge(ctx, cases, diffs, "execution-graph+conductor", shrink=execprop.shrink_factory(ctx, "C05"))
