"""C05 - The study terminates and its final verdict and exit code are truthful

Execution-graph correspondence (real ExecutionGraph driven by the scripted
scheduler vs Model/Exec.lean, state compared after every operation) and the
C05 monitor of harness/execsim.py evaluated on the real traces."""
import execprop

LEVEL = "proof"
RULE = execprop.RULE


def run(ctx, escalated=False):
    execprop.run(ctx, "C05", escalated)
