"""C09 - Every defined token is substituted with the right value, and only those.

(1) primitive correspondence: `str.replace`, `StudyEnvironment.apply_environment`
    and `re.findall(WSREGEX, ...)` against Model/Subst on generated texts;
(2) pipeline correspondence: the study-expansion correspondence compares the
    final cmd / restart / resource texts of every instance with the model;
(3) monitor: an independent tokenizer-based *simultaneous* substitution of the
    ORIGINAL specification text (environment, labels, dependencies, parameters,
    WORKSPACE and <step>.workspace) compared with the text the real pipeline
    produced (record texts and the script files written by the local adapter);
    inputs outside the documented domain are compared model-vs-code only."""
import os
import re

import expprop
import scripted as S
import studysim as SS
from corr import Case, compare, judge, account

LEVEL = "proof"
RULE = ("(1) random texts over words, defined / undefined / look-alike tokens; "
        "(2)+(3) generated specifications with every token form at random positions "
        "of cmd / restart / resource keys; non-trivial = text contains >=2 defined "
        "tokens; distinct = distinct inputs")

TOKEN = re.compile(r"\$\(([^()$]*)\)")


def hx(s):
    return "_".join("%x" % ord(c) for c in s) or "-"


def simultaneous(text, sigma):
    def rep(m):
        name = m.group(1)
        if name in sigma:
            v = sigma[name]
            return v
        return m.group(0)
    return TOKEN.sub(rep, text)


def primitive_cases(ctx, n):
    from maestrowf.datastructures.core import StudyEnvironment
    from maestrowf.datastructures.environment import Variable
    from maestrowf.datastructures.core.study import WSREGEX
    rng = ctx.rng
    cases = []
    words = SS.WORDS + ["$(A)", "$(B)", "$(AB)", "$(A.label)", "$(L)", "$(a.workspace)", "$(", ")", "$",
                        "$(b-1.workspace)/x", "$(a.workspace)/$(b.workspace)", "$(WORKSPACE)"]
    for _ in range(n):
        text = rng.choice(["", " "]).join(rng.choice(words) for _ in range(rng.randint(0, 8)))
        r = rng.random()
        if r < 0.4:
            old = rng.choice(["$(A)", "$(AB)", "$(A.label)", "ab", "a", "$(", "))", "aa"])
            new = rng.choice(["", "x", "$(A)", "a", "aa", "1 2"])
            cases.append(Case({"kind": "replace", "text": text, "old": old, "new": new},
                              ["subst.replace %s %s %s" % (hx(text), hx(old), hx(new))],
                              [hx(text.replace(old, new))], [], old in text))
        elif r < 0.7:
            cases.append(Case({"kind": "findws", "text": text}, ["subst.findws %s" % hx(text)],
                              [",".join(hx(m) for m in re.findall(WSREGEX, text))], [],
                              ".workspace)" in text))
        else:
            env = StudyEnvironment()
            vals = {"A": rng.choice(["va", 1, 2.5, "x y"]), "B": rng.choice(["vb", "/p/q"]),
                    "AB": rng.choice(["vab", 3])}
            for k, v in vals.items():
                if rng.random() < 0.8:
                    env.add(Variable(k, v))
            if rng.random() < 0.6 and env.substitutions:
                env.add(Variable("L", "<%s>" % rng.choice(["$(%s)" % k for k in env.substitutions] + ["lit"])))
            got = env.apply_environment(text)
            def kvs(d):
                return ",".join("%s:%s" % (hx(k), hx(str(v.value))) for k, v in d.items())
            cases.append(Case({"kind": "env", "text": text},
                              ["subst.env text=%s labels=%s deps=%s vars=%s" % (
                                  hx(text), kvs(env.labels), "", kvs(env.substitutions))],
                              [hx(got)], [], "$(" in text))
    return cases


def documented(spec):
    """the documented domain of the property (DESIGN C09): variables, labels that refer to variables and
    parameters, path dependencies, parameters.  A label that refers to a path dependency is inside it only
    in so far as the environment has a variable (see Correction 18: without one the first label is
    filed as a substitution and the dependency token stays - observed, outside the stated domain)"""
    env = spec["env"]
    if not env.get("variables"):
        depnames = [d.get("name") for d in (env.get("dependencies") or {}).get("paths", [])]
        for v in (env.get("labels") or {}).values():
            if any(("$(%s)" % d) in str(v) for d in depnames):
                return False
    for v in spec["env"].get("variables", {}).values():
        if "$" in str(v):
            return False
    for p in (spec.get("global.parameters") or {}).values():
        if any("$" in str(v) for v in p["values"]) or "$" in str(p["label"]):
            return False
    return True


def monitor_factory(ctx):
    def monitor(spec, study, params, steps, dag, hash_ws, root):
        mon = []
        if not documented(spec):
            return mon, False
        env = study.environment
        sigma0 = {}
        # what the specification calls a label is a label, wherever the environment filed it
        spec_labels = spec["env"].get("labels", {})
        for k, v in env.substitutions.items():
            if k not in spec_labels:
                sigma0[k] = str(v.value)
        for k, d in env.dependencies.items():
            sigma0[k] = d.value
        orig = {s["name"]: s for s in spec["study"]}
        pkeys = [p["key"] for p in params]
        nrows = len(params[0]["values"]) if params else 0

        def plabel(p, r):
            return p["labels"][r] if p["tmpl"] is None else p["tmpl"].replace("%%", p["values"][r])
        insts_of = {k: set(v) for k, v in study.step_combos.items()}
        step_of = {}
        for st, names in insts_of.items():
            for nm in names:
                step_of.setdefault(nm, st)
        for key, rec in dag.values.items():
            if key == "_source":
                continue
            stname = step_of.get(key)
            if stname not in orig:
                continue
            # the row(s) of this instance
            rows = [r for r in range(nrows)
                    if all(str(v) == SS.ps_val(params, str(k), r) for k, v in rec.params.items())] or [0]
            r = rows[0]
            sigma = dict(sigma0)
            for p in params:
                if nrows:
                    sigma[p["key"]] = p["values"][r]
                    sigma[p["key"] + ".label"] = plabel(p, r)
                    sigma[p["key"] + ".name"] = p["name"]
            # labels: their value *as the specification defines it*, with its own
            # tokens resolved against the values in force for this run
            for k, v in env.labels.items():
                if k not in spec_labels:
                    sigma[k] = simultaneous(str(v.value), sigma)
            for k, v in spec_labels.items():
                sigma[k] = simultaneous(str(v), sigma)
            sigma["WORKSPACE"] = rec.workspace.value
            # workspace references
            dep = orig[stname]["run"].get("depends", [])
            hub = set(d.replace("_*", "") for d in dep if "*" in d)
            ok = True
            for other, names in insts_of.items():
                if other in ("_source",):
                    continue
                if other in hub:
                    # "that step's root directory": the directory that holds the parent's instances
                    # (the parent's own workspace when it has a single, unparameterised instance),
                    # read off the real graph rather than rebuilt from the name
                    held = [n for n in names if n in dag.values]
                    if not held:
                        continue
                    dirs = set(dag.values[n].workspace.value if n == other
                               else os.path.dirname(dag.values[n].workspace.value) for n in held)
                    if len(dirs) == 1:
                        sigma[other + ".workspace"] = dirs.pop()
                else:
                    cand = [n for n in names if n in dag.values and all(
                        str(rec.params.get(k, v)) == str(v) for k, v in dag.values[n].params.items())]
                    if len(cand) == 1:
                        sigma[other + ".workspace"] = dag.values[cand[0]].workspace.value
            if not params and any(k in pkeys for k in []):
                ok = False
            for field in ("cmd", "restart"):
                src = orig[stname]["run"].get(field)
                if not src:
                    continue
                # documented domain: every referenced workspace is resolvable and
                # no workspace token is glued to another token
                refs = re.findall(r"\$\(([-!\$%\^&\*\(\)_\+\|~=`{}\[\]:;<>\?,\.\/\w]+)\.workspace\)", src)
                if any((x + ".workspace") not in sigma for x in refs):
                    ok = False
                    continue
                if re.search(r"\.workspace\)[^\s]*\$\(", src):
                    continue
                want = simultaneous(src, sigma)
                got = rec.step.run[field]
                if want != got:
                    mon.append(("simultaneous-substitution",
                                "%s.%s: pipeline gives %r, simultaneous substitution of %r gives %r"
                                % (key, field, got[:120], src[:120], want[:120])))
                for m in TOKEN.finditer(got):
                    if m.group(1) in sigma and m.group(1) not in ("WORKSPACE",) and "$" not in sigma[m.group(1)]:
                        mon.append(("no-defined-token-survives",
                                    "%s.%s still contains %s: %r" % (key, field, m.group(0), got[:120])))
                        break
            for k, v in SS.extras_of(orig[stname]["run"]):
                want = simultaneous(v, sigma)
                got = rec.step.run.get(k)
                if isinstance(got, str) and want != got:
                    mon.append(("simultaneous-substitution",
                                "%s.%s: %r vs expected %r" % (key, k, got, want)))
        return mon[:3], True
    return monitor


def label_first_corpus(dep_dir):
    """the specification of Correction 18 (no variables block, a label below a path dependency): outside
    the stated domain, not judged; model and implementation are compared on it on every run"""
    return {"description": {"name": "lbl", "description": "a label that refers to a path dependency"},
            "env": {"variables": {}, "labels": {"TOOL": "$(DEPDIR)/bin/tool"},
                    "dependencies": {"paths": [{"name": "DEPDIR", "path": dep_dir}]}},
            "study": [{"name": "use", "description": "uses the label", "run": {"cmd": "$(TOOL) --version"}}]}


ODD_STEP_NAMES = ["sim:fast", "stage+0", "a=b", "x,y", "t~1", "run;2", "q!", "p%c"]


def odd_name_funnel_corpus(rng):
    """funnel parents whose names hold characters that workspace directories do not keep (`:` `+` `=`
    `,` `~` `;` `!` `%`): `$(<step>.workspace)` in the collector must name the directory that really
    holds the parent's instances (seeded change C09-k rebuilt it from the raw name)"""
    odd = rng.choice(ODD_STEP_NAMES)
    plain = rng.choice(["mesh", "prep"])
    use_param = rng.random() < 0.8
    study = [{"name": plain, "description": "d", "run": {"cmd": "echo $(X) > m.out"}},
             {"name": odd, "description": "d",
              "run": {"cmd": ("echo $(X) $(Y)" if use_param else "echo flat") + " > sim.out",
                      "depends": [plain] if rng.random() < 0.5 else []}},
             {"name": "collect", "description": "d",
              "run": {"cmd": "cat $(%s.workspace)/*/sim.out $(%s.workspace)/*/m.out > $(WORKSPACE)/all" % (odd, plain),
                      "restart": "ls $(%s.workspace)" % odd,
                      "depends": [odd + "_*", plain + "_*"]}}]
    return {"description": {"name": "oddfunnel", "description": "funnel parents with odd names"},
            "study": study,
            "global.parameters": {"X": {"values": [1, 2], "label": "X.%%"},
                                  "Y": {"values": ["a", "b"], "label": "Y.%%"}}}


def empty_value_corpus():
    """a token whose value is the empty string, in fields that hold nothing else: the field becomes empty,
    the token does not stay (seeded change C09-n: `func(item) or item` in `apply_function`)"""
    return {"description": {"name": "blank", "description": "values that are empty"},
            "study": [{"name": "hook", "description": "d",
                       "run": {"cmd": "$(HOOK)", "restart": "$(HOOK)", "reservation": "$(RES)"}},
                      {"name": "mixed", "description": "d",
                       "run": {"cmd": "run $(HOOK)$(RES) --tag=$(RES.label)", "depends": ["hook"]}}],
            "global.parameters": {"HOOK": {"values": ["", "echo hi", ""], "label": "HOOK.%%"},
                                  "RES": {"values": ["", "", "debugq"], "label": "RES.%%"}}}


def envadd_cases(ctx, n):
    """`StudyEnvironment.add` item by item - which definitions become labels, what a repeated name does -
    and `apply_environment` on the result, against Model/Env.lean"""
    from maestrowf.datastructures.core import StudyEnvironment
    from maestrowf.datastructures.environment import Variable, PathDependency
    rng = ctx.rng
    cases = []
    words = SS.WORDS + ["$(A)", "$(B)", "$(N)", "$(L)", "$(M)", "$(DEP)", "$(L)/x", "[$(M)]", "$(", "$"]
    for _ in range(n):
        items = []
        for _k in range(rng.randint(0, 5)):
            if rng.random() < 0.2:
                items.append(("d", rng.choice(["DEP", "D2", "A"]), rng.choice(["/tmp", "/usr", "/usr/lib"])))
            else:
                items.append(("v", rng.choice(["A", "B", "N", "L", "M", "DEP"]),
                              rng.choice(["va", "x y", "/p/q", "<$(A)>", "pre-$(N)-post", "$HOME/x", "$(B)/$(A)",
                                          "$(DEP)/bin", "$(L)+", 1, 2.5, 0, 7])))
        text = " ".join(rng.choice(words) for _ in range(rng.randint(0, 6)))
        env = StudyEnvironment()
        try:
            for it in items:
                env.add(PathDependency(it[1], it[2]) if it[0] == "d" else Variable(it[1], it[2]))
            out = "labels=%s deps=%s subs=%s reg=%d out=%s" % (
                ",".join(hx(k) for k in env.labels), ",".join(hx(k) for k in env.dependencies),
                ",".join(hx(k) for k in env.substitutions), int("$" in env._tokens),
                hx(env.apply_environment(text)))
        except ValueError:
            out = "ValueError"
        enc = ",".join("d:%s:%s" % (hx(it[1]), hx(it[2])) if it[0] == "d" else
                       "v:%s:%s:%s" % (hx(it[1]), hx(str(it[2])), "s" if isinstance(it[2], str) else "n")
                       for it in items)
        cases.append(Case({"kind": "envadd", "items": [list(map(str, it)) for it in items], "text": text},
                          ["subst.envadd items=%s text=%s" % (enc, hx(text))], [out], [],
                          any(isinstance(it[2], str) and "$" in it[2] for it in items), key="envadd:%s:%s" % (enc, text)))
    return cases


def cli_output_path_case(ctx, k):
    """The environment as the real command assembles it (`maestro run --dry -fg -o DIR`): OUTPUT_PATH is the
    directory given with -o whatever the specification wrote for it - also when it wrote a path built on
    another variable and placed it after that variable - and labels built on it resolve to that directory."""
    import c17
    import scripted as S
    rng = ctx.rng
    root = os.path.join(ctx.scratch, "cli-env", "o%d" % k)
    variables = {}
    written = rng.choice(["$(BASE)/studies", "$(BASE)/studies", "./studies", "$HOME/studies"])
    order = rng.choice([("BASE", "OUTPUT_PATH", "N"), ("N", "BASE", "OUTPUT_PATH"), ("OUTPUT_PATH", "BASE", "N")])
    for name in order:
        variables[name] = {"BASE": "/lustre/base", "OUTPUT_PATH": written, "N": rng.choice([4, "four"])}[name]
    spec = {"description": {"name": "outpath", "description": "labels built on the output path"},
            "env": {"variables": variables, "labels": {"SHARED": "$(OUTPUT_PATH)/shared", "LOG": "$(SHARED)/log.$(N)"}},
            "study": [{"name": "make", "description": "d",
                       "run": {"cmd": "mkdir -p $(SHARED) && touch $(OUTPUT_PATH)/made.$(N)",
                               "restart": "ls $(SHARED) $(BASE)"}},
                      {"name": "use", "description": "d",
                       "run": {"cmd": "cat $(SHARED)/x > $(WORKSPACE)/y; echo $(make.workspace)", "depends": ["make"]}}]}
    if rng.random() < 0.5:
        spec["global.parameters"] = {"X": {"values": [1, 2], "label": "X.%%"}}
        spec["study"][0]["run"]["cmd"] += " $(X)"
    S.uninstall()
    try:
        _ret, dag = c17._run_cli(spec, root, {"type": "local"}, {"hash_ws": False, "rlimit": 1, "throttle": 0,
                                                                  "use_tmp": False}, True)
    except Exception as e:      # noqa
        return Case({"kind": "cli-env", "spec": spec}, [], [],
                    [("no-defined-token-survives", "`maestro run --dry -o %s` failed on the specification: %s: %s"
                      % (root, type(e).__name__, e))], True)
    finally:
        S.install()
    mon = []
    defined = ["OUTPUT_PATH", "BASE", "N", "SHARED", "LOG", "WORKSPACE", "make.workspace", "X"]
    for key, rec in dag.values.items():
        if key == "_source":
            continue
        for field in ("cmd", "restart"):
            text = rec.step.run.get(field) or ""
            left = [t for t in defined if "$(%s)" % t in text]
            if left:
                mon.append(("no-defined-token-survives", "maestro run -o: %s.%s still contains %s: %r (OUTPUT_PATH "
                            "written as %r, variables in the order %s)" % (key, field, left, text[:120], written, order)))
            elif "$(SHARED)" in spec["study"][0 if key.startswith("make") else 1]["run"].get(field, "") and \
                    (root + "/shared") not in text:
                mon.append(("simultaneous-substitution", "maestro run -o %s: %s.%s is %r: $(SHARED) is not "
                            "<-o directory>/shared" % (root, key, field, text[:120])))
    return Case({"kind": "cli-env", "spec": spec, "written": written, "order": list(order)}, [], [], mon[:3], True)


def run(ctx, escalated=False):
    quick = ctx.tier == "quick" and not escalated
    cases = primitive_cases(ctx, 2500 if quick else 80000)
    cases += envadd_cases(ctx, 1500 if quick else 40000)
    mon = monitor_factory(ctx)
    import os as _os
    depdir = _os.path.join(ctx.scratch, "depdir")
    _os.makedirs(depdir, exist_ok=True)
    c = expprop.one_case(ctx, "lbl", adversarial=False, monitor=mon, pgen=False, spec=label_first_corpus(depdir),
                         hash_ws=False)
    if c is not None:
        c.data["kind"] = "study"
        cases.append(c)
        ctx.count("label-first-corpus")
    for hw in (False, True):
        c = expprop.one_case(ctx, "blank%d" % int(hw), adversarial=False, monitor=mon, pgen=False,
                             spec=empty_value_corpus(), hash_ws=hw)
        if c is not None:
            c.data["kind"] = "study"
            c.nontrivial = True
            cases.append(c)
            ctx.count("empty-value-corpus" + ("" if c.judged else "-unjudged"))
        else:
            ctx.count("empty-value-corpus-rejected")
    for k in range(6 if quick else 60):
        c = expprop.one_case(ctx, "odd%d" % k, adversarial=False, monitor=mon, pgen=False,
                             spec=odd_name_funnel_corpus(ctx.rng))
        if c is not None:
            c.data["kind"] = "study"
            c.nontrivial = True
            cases.append(c)
            ctx.count("odd-name-funnel" + ("" if c.judged else "-unjudged"))
        else:
            ctx.count("odd-name-funnel-rejected")
    n = 500 if quick else 15000
    judged = 0
    for k in range(n):
        c = expprop.one_case(ctx, k, adversarial=False, monitor=mon, pgen=False)
        if c is not None:
            c.data["kind"] = "study"
            judged += int(c.judged)
            toks = sum(len(TOKEN.findall(s["run"].get("cmd", ""))) for s in c.data["spec"]["study"])
            c.nontrivial = toks >= 2
            cases.append(c)
    ctx.cov["monitor_judged"] = judged
    import shutil
    for k in range(12 if quick else 300):
        cases.append(cli_output_path_case(ctx, k))
        ctx.count("cli-env")
    shutil.rmtree(os.path.join(ctx.scratch, "cli-env"), ignore_errors=True)
    for c in cases:
        ctx.count("kind:" + c.data.get("kind", "study"))
    diffs = compare(cases)
    account(ctx, cases)
    judge(ctx, cases, diffs, "substitution-pipeline")
