"""C20 - Scheduler query faults never corrupt step states

Execution-graph correspondence (real ExecutionGraph driven by the scripted
scheduler vs Model/Exec.lean, state compared after every operation) and the
C20 monitor of harness/execsim.py evaluated on the real traces; then the same
with the real Slurm / LSF adapter in the loop (harness/viasched.py): the scripted
scheduler's answer is written down as squeue / sacct / bjobs output and exit
codes (every combination that means "no jobs" or "the query failed", partial
listings), read by the real `check_jobs`, and the graph gets the adapter's
answer - faults are injected in a third of these polls."""
import execprop
import execsim as E
from corr import compare, judge, account

LEVEL = "proof"
RULE = (execprop.RULE + "; plus the same scenarios with the real Slurm / LSF `check_jobs` between the scripted "
        "scheduler and the graph (all steps scheduled, 20% NOJOBS and 15% ERROR polls, every exit-code "
        "combination of squeue/sacct/bjobs with that meaning)")


def run(ctx, escalated=False):
    quick = ctx.tier == "quick" and not escalated
    cases = execprop.run(ctx, "C20", escalated, finish=False)
    cases += execprop.via_cases(ctx, "C20", 600 if quick else 12000)
    diffs = compare(cases)
    account(ctx, cases)
    judge(ctx, cases, diffs, "execution-graph+adapters", shrink=execprop.shrink_factory(ctx, "C20"))
