"""C20 - Scheduler query faults never corrupt step states

Execution-graph correspondence (real ExecutionGraph driven by the scripted
scheduler vs Model/Exec.lean, state compared after every operation) and the
C20 monitor of harness/execsim.py evaluated on the real traces."""
import execprop

LEVEL = "proof"
RULE = execprop.RULE


def run(ctx, escalated=False):
    execprop.run(ctx, "C20", escalated)
