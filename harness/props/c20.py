"""C20 - Scheduler query faults never corrupt step states

Execution-graph correspondence (real ExecutionGraph driven by the scripted
scheduler vs Model/Exec.lean, state compared after every operation) and the
C20 monitor of harness/execsim.py evaluated on the real traces; then the same
with the real Slurm / LSF adapter in the loop (harness/viasched.py): the scripted
scheduler's answer is written down as squeue / sacct / bjobs output and exit
codes (every combination that means "no jobs" or "the query failed", partial
listings), read by the real `check_jobs`, and the graph gets the adapter's
answer - faults are injected in a third of these polls."""
import execprop
import execsim as E
from corr import compare, judge, account

LEVEL = "proof"
RULE = (execprop.RULE + "; plus the same scenarios with the real Slurm / LSF `check_jobs` between the scripted "
        "scheduler and the graph (all steps scheduled, 20% NOJOBS and 15% ERROR polls, every exit-code "
        "combination of squeue/sacct/bjobs with that meaning)")


def run(ctx, escalated=False):
    quick = ctx.tier == "quick" and not escalated
    cases = execprop.run(ctx, "C20", escalated, finish=False)
    cases += execprop.via_cases(ctx, "C20", 600 if quick else 12000)
    # the adapters' half of "a job the answer omits keeps its state and stays tracked": generated squeue /
    # sacct / bjobs / flux listings (job ids that outgrow the id column included) through the real
    # `check_jobs`; a job that is not listed must come back without a state
    import c16
    import scripted as S
    for k in range(500 if quick else 10000):
        r = ctx.rng.random()
        c = c16.run_slurm(ctx.rng) if r < 0.4 else (c16.run_lsf(ctx.rng) if r < 0.85 else c16.run_flux(ctx.rng))
        c.monitor = [("omitted-stays-unknown", d) for cl, d in c.monitor if cl == "absent-is-none"]
        c.data["kind"] = "adapter-listing"
        cases.append(c)
        ctx.count("adapter-listings")
    S.install()
    diffs = compare(cases)
    account(ctx, cases)
    judge(ctx, cases, diffs, "execution-graph+adapters", shrink=execprop.shrink_factory(ctx, "C20"))
