"""C20 - Scheduler query faults never corrupt step states

Execution-graph correspondence (real ExecutionGraph driven by the scripted
scheduler vs Model/Exec.lean, state compared after every operation) and the
C20 monitor of harness/execsim.py evaluated on the real traces; then the same
with the real Slurm / LSF adapter in the loop (harness/viasched.py): the scripted
scheduler's answer is written down as squeue / sacct / bjobs output and exit
codes (every combination that means "no jobs" or "the query failed", partial
listings), read by the real `check_jobs`, and the graph gets the adapter's
answer - faults are injected in a third of these polls."""
import execprop
import execsim as E
from corr import compare, judge, account

LEVEL = "proof"
RULE = (execprop.RULE + "; plus the same scenarios with the real Slurm / LSF `check_jobs` between the scripted "
        "scheduler and the graph (all steps scheduled, 20% NOJOBS and 15% ERROR polls, every exit-code "
        "combination of squeue/sacct/bjobs with that meaning)")


def run(ctx, escalated=False):
    quick = ctx.tier == "quick" and not escalated
    cases = execprop.run(ctx, "C20", escalated, finish=False)
    for k in range(600 if quick else 12000):
        scn = E.gen_scenario(ctx.rng, maxn=6)
        scn["dry"] = 0
        scn["sched"] = [1] * scn["n"]
        scn["faulty"] = 1
        scn["via"] = ("slurm", "lsf")[k % 2]
        scn["via_seed"] = ctx.rng.randint(0, 10 ** 9)
        c = execprop.run_one(ctx, "C20", scn, rng=ctx.rng)
        cases.append(c)
        ctx.count("via:" + scn["via"])
        for o in c.trace:
            if o.op["op"] == "poll":
                ctx.count("via-code:%s:%s" % (scn["via"], o.op["code"]))
    diffs = compare(cases)
    account(ctx, cases)
    judge(ctx, cases, diffs, "execution-graph+adapters", shrink=execprop.shrink_factory(ctx, "C20"))
