"""C12 - The status table is complete, consistent and always readable.

1. round-trip correspondence: `csvtable_to_dict` (real reader, real text-mode
   file) vs `Model/Csv.readCsv` on tables built the way `write_status` builds
   them, over arbitrary printable fields (clean stream + a stream with commas,
   newlines, carriage returns, quotes, unicode);
2. conductor-level runs: after every poll of an execution scenario the real
   `write_status` output is (a) compared byte for byte with `Model/Csv.writeCsv`
   of the rows expected from the step records, (b) read back with the real
   `Conductor.get_status`, (c) monitored: every step instance exactly once,
   state / job id / restart count / params consistent with the scripted
   scheduler's ledger; the three renderers must accept the table;
3. lock protocol correspondence: the order of lock / file operations recorded
   from the real writer and reader must be the programs of `Model/Lock.lean`.
"""
import builtins
import io
import os

import execsim as E
import scripted as S
from corr import Case, compare, judge, account

LEVEL = "proof"
RULE = ("(1) tables of 2-11 columns x 0-6 rows of printable fields; (2) execution "
        "scenarios with parameterised records whose status file is checked after "
        "every poll; (3) recorded lock/file operation order of writer and reader; "
        "non-trivial = table has >=1 row / history has a non-success report; "
        "distinct = distinct tables / scenarios")

HEADER = ["Step Name", "Job ID", "Workspace", "State", "Run Time", "Elapsed Time",
          "Start Time", "Submit Time", "End Time", "Number Restarts", "Params"]


def hx(s):
    return "_".join("%x" % ord(c) for c in s) or "-"


CLEAN = ("abcdefghijklmnopqrstuvwxyzABCXYZ0123456789 _-.:;()[]{}+=*/\\'\"!?@#$%^&|<>~` é中"
         # characters that some line-splitting primitives (str.splitlines) treat as row ends although
         # the file's rows end in "\n" only: ordinary field content for the writer and the reader
         "\t\x0b\x0c\x1c\x1d\x1e\x85\u2028\u2029")
DIRTY = ",\n\r"


def gen_field(rng, dirty):
    n = rng.choice([0, 1, 1, 2, 3, 5, 8])
    chars = CLEAN + (DIRTY * 6 if dirty else "")
    return "".join(rng.choice(chars) for _ in range(n))


def fmt_table(t):
    return "ok " + ";".join("%s=%s" % (hx(k), ",".join(hx(v) for v in vs))
                            for k, vs in t.items())


def real_read(ctx, content):
    from maestrowf.utils import csvtable_to_dict
    path = os.path.join(ctx.scratch, "rt.csv")
    with open(path, "w+", newline="") as f:   # bytes as write_status would leave them
        f.write(content)
    try:
        with open(path, "r") as f:
            return fmt_table(csvtable_to_dict(f))
    except KeyError:
        return "RAISE:KeyError"
    except IndexError:
        return "RAISE:IndexError"


def roundtrip_case(ctx, dirty):
    rng = ctx.rng
    ncol = rng.randint(2, 6) if rng.random() < 0.7 else 11
    if ncol == 11:
        header = list(HEADER)
    else:
        header = []
        while len(header) < ncol:
            h = gen_field(rng, False) or "c%d" % len(header)
            if h not in header and "," not in h:
                header.append(h)
    rows = [[gen_field(rng, dirty) for _ in range(ncol)] for _ in range(rng.randint(0, 6))]
    content = "\n".join(",".join(r) for r in [header] + rows)
    out = real_read(ctx, content)
    mon = []
    clean = not any(ch in f for r in rows for f in r for ch in DIRTY)
    if clean:
        # the property: what the writer emits is read back into the same table
        want = "ok " + ";".join("%s=%s" % (hx(h), ",".join(hx(r[i]) for r in rows))
                                for i, h in enumerate(header))
        if out != want:
            mon.append(("roundtrip", "table %r is read back as %s" % ([header] + rows, out)))
    else:
        want = "ok " + ";".join("%s=%s" % (hx(h), ",".join(hx(r[i]) for r in rows))
                                for i, h in enumerate(header))
        if out != want:
            which = "comma" if any("," in f for r in rows for f in r) else "newline"
            mon.append(("roundtrip-" + which,
                        "fields with %s are not read back: %s" % (which, out[:80])))
    data = {"kind": "roundtrip", "header": header, "rows": rows}
    return Case(data, ["csv.read %s" % hx(content)], [out], mon, bool(rows))


# --------------------------------------------------------------------------
# conductor-level: write_status / get_status after every poll


class frozen_clock:
    """`datetime.now()` inside executiongraph.py returns one fixed instant"""

    def __enter__(self):
        import datetime as _dt
        import maestrowf.datastructures.core.executiongraph as egmod
        self.mod = egmod
        self.saved = egmod.datetime
        instant = _dt.datetime.now()

        class Frozen(_dt.datetime):
            @classmethod
            def now(cls, tz=None):
                return instant
        egmod.datetime = Frozen
        return self

    def __exit__(self, *exc):
        self.mod.datetime = self.saved
        return False


def expected_rows(g, n):
    rows = []
    for key in g.status_subtree:
        r = g.values[key]
        jobid = str(r.jobid[-1]) if r.jobid else "--"
        if list(r.params.items()):
            ws = os.path.join(*os.path.normpath(r.workspace.value).split(os.sep)[-2:])
        else:
            ws = os.path.split(r.workspace.value)[1]
        rows.append([r.name, jobid, ws, r.status.name, r.run_time, r.elapsed_time,
                     r.time_start, r.time_submitted, r.time_end, str(r.restarts),
                     ";".join("%s:%s" % kv for kv in r.params.items())])
    return rows


# records that have ended once and change again: time-outs with restarts, a hardware failure with a
# resubmission, and a join whose one input fails and whose other input is cancelled a poll later (the join
# is marked FAILED, then CANCELLED) - and the same the other way round
DIRECTED = [({"n": 3, "edges": [[0, 1], [0, 2], [1, 3]], "sched": [1, 1, 1], "restart": [1, 1, 0], "rlimit": 3,
              "throttle": 0, "attempts": 1, "subs": []},
             [[], [[1, "TIMEDOUT"], [2, "RUNNING"]], [[1, "RUNNING"], [2, "HWFAILURE"]], [[1, "TIMEDOUT"], [2, "RUNNING"]],
              [[1, "PENDING"], [2, "TIMEDOUT"]], [[1, "RUNNING"], [2, "RUNNING"]], [[1, "FINISHED"], [2, "FINISHED"]],
              [[3, "RUNNING"]], [[3, "FINISHED"]]])]
for _first, _second in (("FAILED", "CANCELLED"), ("CANCELLED", "FAILED"), ("UNKNOWN", "CANCELLED")):
    DIRECTED.append(({"n": 5, "edges": [[0, 1], [0, 2], [0, 3], [1, 4], [2, 4], [4, 5]], "sched": [1] * 5,
                      "restart": [0] * 5, "rlimit": 1, "throttle": 0, "attempts": 1, "subs": []},
                     [[], [[1, "RUNNING"], [2, "RUNNING"], [3, "RUNNING"]], [[1, _first], [2, "RUNNING"]],
                      [[2, _second], [3, "RUNNING"]], [[3, "FINISHED"]], [[3, "FINISHED"]]]))


def status_case(ctx, dirty_params, directed=None):
    from maestrowf.conductor import Conductor
    from maestrowf import status_renderer_factory
    import common
    common.next_logging()
    rng = ctx.rng
    scn = E.gen_scenario(rng, maxn=6) if directed is None else dict(directed[0])
    scn["dry"] = 0
    root = E.fresh_root(ctx)
    S.install()
    g = S.build_graph(scn, root)
    n = scn["n"]
    # parameterised records
    for i in range(1, n + 1):
        if rng.random() < 0.5:
            k = rng.randint(1, 2)
            g.values[S.sname(i)].add_params(
                [("P%d" % j, gen_field(rng, dirty_params) or "v") for j in range(k)])
    lines, out, mon = [], [], []
    ledger_job = {}
    polls = 0
    fair_from = rng.randint(2, 10)
    for k in range(30):
        inflight = sorted(S.sidx(x) for x in g.in_progress)
        if directed is not None:
            if k >= len(directed[1]):
                break
            op = {"op": "poll", "code": "OK", "reports": [r for r in directed[1][k] if r[0] in inflight]}
        else:
            op = E.gen_op(rng, inflight, k >= fair_from, scn, None)
        if op["op"] == "cancel":
            S.do_cancel(g)
            continue
        ret, _ev = S.do_poll(g, op["code"], [tuple(r) for r in op["reports"]])
        for ev in S.WORLD.events:
            if ev[0] == "submit" and ev[3] == "ok":
                ledger_job[S.sidx(ev[1])] = ev[4]
            if ev[0] == "local" and ev[3] == "ok":
                ledger_job[S.sidx(ev[1])] = ev[4]
        polls += 1
        # the duration columns of a running step are computed from the clock:
        # the clock is frozen while the table is written and the expected rows
        # are read off the records, so that both see the same instant
        with frozen_clock():
            g.write_status(root)
            with open(os.path.join(root, "status.csv"), newline="") as f:
                content = f.read()
            rows = expected_rows(g, n)
        # (a) writer text
        lines.append("csv.write header=%s rows=%s" % (
            ",".join(hx(h) for h in HEADER), ";".join(",".join(hx(f) for f in r) for r in rows)))
        out.append(hx(content))
        # (b) reader
        try:
            table = Conductor.get_status(root)
            got = fmt_table(table)
        except KeyError:
            table, got = None, "RAISE:KeyError"
        lines.append("csv.read %s" % hx(content))
        out.append(got)
        # (c) monitor
        has_dirty = any(ch in v for i in range(1, n + 1)
                        for v in map(str, g.values[S.sname(i)].params.values()) for ch in DIRTY)
        if table is None:
            mon.append(("roundtrip-comma" if has_dirty else "readable",
                        "get_status raised KeyError on the table written after poll %d" % k))
        else:
            names = table.get("Step Name", [])
            want_names = [S.sname(i) for i in range(1, n + 1)]
            if not has_dirty:
                if sorted(names) != sorted(want_names):
                    mon.append(("rows-complete",
                                "poll %d: status lists %s, instances are %s" % (k, names, want_names)))
                else:
                    for idx, nm in enumerate(names):
                        i = S.sidx(nm)
                        r = g.values[nm]
                        if table["State"][idx] != r.status.name:
                            mon.append(("rows-consistent", "poll %d: %s State %s vs record %s"
                                        % (k, nm, table["State"][idx], r.status.name)))
                        want_job = str(ledger_job[i]) if i in ledger_job else "--"
                        if table["Job ID"][idx] != want_job:
                            mon.append(("rows-consistent", "poll %d: %s Job ID %s, scheduler ledger says %s"
                                        % (k, nm, table["Job ID"][idx], want_job)))
                        if table["Number Restarts"][idx] != str(r.restarts):
                            mon.append(("rows-consistent", "poll %d: %s restarts column %s vs %d"
                                        % (k, nm, table["Number Restarts"][idx], r.restarts)))
                        want_params = ";".join("%s:%s" % kv for kv in r.params.items())
                        if table["Params"][idx] != want_params:
                            mon.append(("rows-consistent", "poll %d: %s Params %r vs %r"
                                        % (k, nm, table["Params"][idx], want_params)))
                # renderers accept what the reader returns
                if polls <= 2:
                    for layout in ("flat", "narrow", "legacy"):
                        try:
                            rend = status_renderer_factory.get_renderer(layout, True, True)
                            rend.layout(status_data=table, study_title="t")
                            if hasattr(rend, "render_to_str"):
                                rend.render_to_str()
                        except Exception as e:  # noqa
                            mon.append(("renderers-accept", "layout %s raised %s: %s"
                                        % (layout, type(e).__name__, str(e)[:80])))
        if ret in ("FINISHED", "FAILURE", "CANCELLED"):
            break
    data = {"kind": "status", "scenario": scn, "polls": polls, "dirty_params": dirty_params}
    return Case(data, lines, out, mon[:4], polls > 1)


# --------------------------------------------------------------------------
# lock protocol correspondence


class _RecFile:
    def __init__(self, f, log, mode):
        self._f, self._log = f, log
        log.append("open:" + mode)

    def write(self, s):
        self._log.append("write")
        return self._f.write(s)

    def readlines(self):
        self._log.append("read")
        return self._f.readlines()

    def read(self, *a):
        self._log.append("read")
        return self._f.read(*a)

    def __enter__(self):
        return self

    def __exit__(self, *a):
        self._log.append("close")
        self._f.close()
        return False

    def __iter__(self):
        self._log.append("read")
        return iter(self._f)


def lock_cases(ctx):
    import filelock
    import maestrowf.datastructures.core.executiongraph as egmod
    import maestrowf.conductor as cmod
    from maestrowf.conductor import Conductor
    log = []
    real_lock = filelock.FileLock

    lock_paths = []

    class RecLock:
        def __init__(self, path, *a, **k):
            self._l = real_lock(path, *a, **k)
            lock_paths.append(os.path.realpath(path))

        held_elsewhere = False      # the other side holds the lock for longer than the time-out

        def acquire(self, *a, **k):
            if RecLock.held_elsewhere:
                log.append("timeout")
                raise filelock.Timeout(getattr(self._l, "lock_file", "status.lock"))
            proxy = self._l.acquire(*a, **k)
            log.append("acquire")
            outer = self

            class P:
                def __enter__(s):
                    return outer

                def __exit__(s, *exc):
                    log.append("release")
                    outer._l.release()
                    return False
            return P()

    def rec_open(path, mode="r", *a, **k):
        return _RecFile(builtins.open(path, mode, *a, **k), log, mode)

    real_exists = os.path.exists

    class _OS:
        def __getattr__(self, name):
            return getattr(os, name)

        def remove(self, p):
            if str(p).endswith(".lock") or str(p).endswith("status.csv"):
                log.append("unlink:" + os.path.basename(str(p)))
            return os.remove(p)

        unlink = remove

    class _Path:
        def __getattr__(self, name):
            return getattr(os.path, name)

        def exists(self, p):
            if p.endswith("status.csv"):
                log.append("exists")
            return real_exists(p)

    S.install()
    scn = {"n": 2, "edges": [[0, 1], [1, 2]], "sched": [1, 1], "restart": [0, 0], "rlimit": 0,
           "throttle": 0, "attempts": 1, "dry": 0}
    root = E.fresh_root(ctx)
    g = S.build_graph(scn, root)
    S.do_poll(g, "OK", [])
    cases = []
    saved = (egmod.FileLock, cmod.FileLock)
    try:
        egmod.FileLock = RecLock
        cmod.FileLock = RecLock
        egmod.open = rec_open
        cmod.open = rec_open
        fake_os = _OS()
        fake_os.path = _Path()
        cmod.os = fake_os
        for rep in range(8):
            # rounds 2 and 3: the lock cannot be had within the time-out; rounds 4 and 5: the graph keeps its
            # scripts in a temporary directory (--usetmp) - the table and its lock stay where the reader looks
            RecLock.held_elsewhere = rep in (2, 3)
            sfx = "-timeout" if rep in (2, 3) else ""
            if rep == 4:
                import tempfile
                g._tmp_dir = tempfile.mkdtemp(dir=ctx.scratch)
            if rep == 6:
                # rounds 6 and 7: nothing is running any more (the table of a finished study is read as any other)
                g._tmp_dir = ""
                S.do_poll(g, "OK", [(1, "FINISHED")])
                S.do_poll(g, "OK", [(2, "TIMEDOUT")])
            del log[:]
            del lock_paths[:]
            g.write_status(root)
            w = list(log)
            wl = list(lock_paths)
            del log[:]
            del lock_paths[:]
            table = Conductor.get_status(root)
            r = list(log)
            rl = list(lock_paths)
            for who, tr in (("writer" + sfx, w), ("reader" + sfx, r)):
                mon = []
                if who.startswith("reader") and wl != rl:
                    mon.append(("no-torn-read", "writer and reader do not exclude each other: the writer locks %s, "
                                "the reader %s%s" % (wl, rl, " (graph with a temporary directory)" if rep >= 4 else "")))
                if who == "reader-timeout" and table:
                    mon.append(("no-torn-read", "the reader could not get the lock but returned a table with "
                                "%d columns: it read status.csv while a writer may be rewriting it" % len(table)))
                want = {"writer": ["acquire", "open:w+", "write", "close", "release"],
                        "reader": ["exists", "acquire", "open:r", "read", "close", "release"],
                        "writer-timeout": ["timeout"], "reader-timeout": ["exists", "timeout"]}[who]
                gone = [o_ for o_ in tr if o_.startswith("unlink:")]
                if gone:
                    mon.append(("no-torn-read", "%s removes %s: whoever holds the lock at that moment and the next "
                                "one to ask for it no longer exclude each other (%s)" % (who, gone, tr)))
                if tr != want:
                    # which clause of the property is at stake: the file is
                    # touched outside the lock
                    def outside(t):
                        depth = 0
                        for o in t:
                            if o == "acquire":
                                depth += 1
                            elif o == "release":
                                depth -= 1
                            elif o.startswith(("open", "write", "read")) and depth <= 0:
                                return o
                        return None
                    o = outside(tr)
                    if o:
                        mon.append(("no-torn-read",
                                    "%s performs '%s' on status.csv without holding the lock: %s"
                                    % (who, o, tr)))
                cases.append(Case({"kind": "lock", "who": who, "trace": tr},
                                  ["lock.trace %s %s" % (who, " ".join(tr))], ["accept"], mon, True,
                                  key="lock:%s:%d" % (who, rep)))
    finally:
        RecLock.held_elsewhere = False
        egmod.FileLock, cmod.FileLock = saved
        for m in (egmod, cmod):
            if "open" in m.__dict__:
                del m.__dict__["open"]
        cmod.os = os
    return cases


def stress(ctx, seconds):
    """multi-process stress run: 1 writer, 3 readers on the real functions;
    supports (does not prove) the runtime half.  Returns (reads, bad)."""
    import multiprocessing as mp
    root = E.fresh_root(ctx)
    S.install()
    scn = {"n": 6, "edges": [[0, i] for i in range(1, 7)], "sched": [1] * 6, "restart": [0] * 6,
           "rlimit": 0, "throttle": 0, "attempts": 1, "dry": 0}
    g = S.build_graph(scn, root)
    S.do_poll(g, "OK", [])
    g.write_status(root)
    stop = mp.Event()
    q = mp.Queue()

    def reader():
        from maestrowf.conductor import Conductor
        n = bad = 0
        while not stop.is_set():
            try:
                t = Conductor.get_status(root)
                if t and (len(t.get("Step Name", [])) != 6 or len(set(map(len, t.values()))) != 1):
                    bad += 1
            except Exception:
                bad += 1
            n += 1
        q.put((n, bad))

    procs = [mp.Process(target=reader) for _ in range(3)]
    for p in procs:
        p.start()
    import time
    t0 = time.time()
    writes = 0
    while time.time() - t0 < seconds:
        g.write_status(root)
        writes += 1
    stop.set()
    res = [q.get(timeout=30) for _ in procs]
    for p in procs:
        p.join(10)
    return writes, sum(r[0] for r in res), sum(r[1] for r in res)


def renderer_cases(ctx):
    """what `maestro status --layout narrow` shows of a table the reader returned: every parameter of every
    step exactly once and in the row's order, for steps with no parameter up to seven (the other layouts do
    not show parameters: they must accept the table)"""
    from maestrowf import status_renderer_factory
    rng = ctx.rng
    cases = []
    for rep in range(6):
        counts = [0, 1, 2, 3, 4, 5, 7]
        rng.shuffle(counts)
        names = ["step%d" % i for i in range(len(counts))]
        params = [[("P%d" % j, rng.choice(["1", "2.5", "abc", "x-%d" % j])) for j in range(n_)] for n_ in counts]
        table = {"Step Name": names, "Job ID": [str(100 + i) for i in range(len(names))],
                 "Workspace": ["ws%d" % i for i in range(len(names))],
                 "State": [rng.choice(["FINISHED", "RUNNING", "FAILED"]) for _ in names]}
        for col in ("Run Time", "Elapsed Time", "Start Time", "Submit Time", "End Time"):
            table[col] = ["--"] * len(names)
        table["Number Restarts"] = ["0"] * len(names)
        table["Params"] = [";".join("%s:%s" % kv for kv in ps) for ps in params]
        mon = []
        for layout in ("flat", "legacy", "narrow"):
            try:
                rend = status_renderer_factory.get_renderer(layout, True, True)
                rend.layout(status_data={k: list(v) for k, v in table.items()}, study_title="t")
                text = rend.render_to_str() if hasattr(rend, "render_to_str") else ""
            except Exception as e:      # noqa
                mon.append(("renderers-accept", "layout %s raised %s: %s" % (layout, type(e).__name__, str(e)[:80])))
                continue
            if layout != "narrow" or not text:
                continue
            blocks = text.split("STEP:")[1:]
            if len(blocks) != len(names):
                mon.append(("renderers-show-params", "narrow layout shows %d steps of %d" % (len(blocks), len(names))))
                continue
            for nm, ps, block in zip(names, params, blocks):
                shown = []
                if "Step Parameters" in block:
                    for line in block.split("Step Parameters", 1)[1].split("\n")[1:]:
                        toks = line.split()
                        if toks and not set(line.strip()) <= set("\u2500\u2501-"):
                            shown.extend(toks)
                want = [x for kv in ps for x in kv]
                if shown != want:
                    mon.append(("renderers-show-params", "narrow layout, %s with %d parameters: the table row says %s, "
                                "the display shows %s" % (nm, len(ps), want, shown)))
                    break
        cases.append(Case({"kind": "renderers", "params_per_step": counts, "table": table}, [], [], mon[:3], True,
                          key="renderers:%d:%s" % (rep, counts)))
    return cases


def run(ctx, escalated=False):
    quick = ctx.tier == "quick" and not escalated
    cases = lock_cases(ctx)
    cases += renderer_cases(ctx)
    n_rt = 1500 if quick else 40000
    n_st = 150 if quick else 3000
    for _ in range(n_rt):
        cases.append(roundtrip_case(ctx, ctx.rng.random() < 0.25))
    for _ in range(n_st):
        cases.append(status_case(ctx, ctx.rng.random() < 0.15))
    for d_ in DIRECTED:
        cases.append(status_case(ctx, False, directed=d_))
    import condsim
    import shutil
    # directed: a job lost to a hardware failure while it is still pending, and nothing else moves - the
    # table must show the new job id after that very poll (seeded change C12-o rewrote the table only
    # when a state or a restart count changed, or something was running)
    two = {"description": {"name": "two", "description": "two independent steps"},
           "study": [{"name": "left", "description": "d", "run": {"cmd": "echo l"}},
                     {"name": "right", "description": "d", "run": {"cmd": "echo r"}}]}
    for k, entry in enumerate(("direct", "fg", "bg")):
        script = [{}, {"left": "PENDING", "right": "PENDING"}, {"left": "HWFAILURE", "right": "PENDING"},
                  {"left": "PENDING", "right": "PENDING"}, {"left": "PENDING", "right": "PENDING"},
                  {"left": "RUNNING", "right": "FINISHED"}]
        r = condsim.run(ctx, ctx.rng, "hw%d" % k, entry=entry, spec=two,
                        force={"_script": script, "throttle": 0, "rlimit": 1, "attempts": 1, "use_tmp": False})
        if r is None:
            continue
        cases.append(Case({"kind": "conductor-hardware-failure-while-pending", "spec": r["spec"], "polls": r["polls"],
                           "entry": entry}, [], [], r["mon"]["C12"][:3], True))
        ctx.count("conductor-hardware-failure-while-pending")
    for k in range(40 if quick else 1000):
        r = condsim.run(ctx, ctx.rng, k)
        if r is None:
            continue
        cases.append(Case({"kind": "conductor", "spec": r["spec"], "polls": r["polls"]}, [], [],
                          r["mon"]["C12"][:3], r["nontrivial"]))
        if k % 30 == 29:
            shutil.rmtree(os.path.join(ctx.scratch, "cond"), ignore_errors=True)
    for c in cases:
        ctx.count("kind:" + c.data["kind"])
        for o in c.impl_out:
            if o.startswith("RAISE"):
                ctx.count(o)
    if not quick:
        w, r, bad = stress(ctx, 20)
        ctx.cov["stress"] = {"writes": w, "reads": r, "torn_or_failed_reads": bad}
        if bad:
            cases.append(Case({"kind": "stress", "writes": w, "reads": r}, [], [],
                              [("no-torn-read", "%d of %d concurrent reads returned a torn/partial table" % (bad, r))],
                              True))
    diffs = compare(cases)
    account(ctx, cases)
    judge(ctx, cases, diffs, "status-table")
