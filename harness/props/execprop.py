"""Shared runner of the execution-graph properties (C01-C07, C17, C20)."""
import json
import os
import random

import execsim as E
from corr import Case, compare, judge, account

RULE = ("scenarios = DAG (1-8 instances; chains, fans, funnels, diamonds, "
        "layered/random DAGs) x scheduled/local x restart command x throttle x "
        "attempts x restart limit x dry-run x submission-outcome stream, driven "
        "by operations generated against the running implementation (per in-flight "
        "job a report from the full State vocabulary or omitted/None; code OK / "
        "NOJOBS / ERROR; cancel requests; then a fair tail); non-trivial = the "
        "history contains a non-success report, a fault code or a cancel; "
        "distinct = distinct (scenario, operation list)")


def corpus_dir():
    from common import VERIF
    return os.path.join(VERIF, "corpus", "exec")


def load_corpus():
    d = corpus_dir()
    out = []
    if os.path.isdir(d):
        for f in sorted(os.listdir(d)):
            if f.endswith(".json"):
                out.append(json.load(open(os.path.join(d, f))))
    return out


def run_one(ctx, prop, scn, rng=None, ops=None, max_ops=40):
    import common
    common.next_logging()
    root = E.fresh_root(ctx)
    done, trace = E.run_scenario(scn, root, rng=rng, ops=ops, max_ops=max_ops)
    return E.make_case(scn, done, trace, prop)


def shrink_factory(ctx, prop):
    def shrink(case, clause):
        scn = case.data["scenario"]
        ops = case.data["ops"]

        def bad(c):
            if clause is None:
                return bool(compare([c]))
            return any(cl == clause for cl, _ in c.monitor)
        cur = case
        changed = True
        rounds = 0
        while changed and rounds < 200:
            changed = False
            rounds += 1
            # drop operations from the end, then single operations
            for i in list(range(len(ops) - 1, -1, -1)):
                cand = ops[:i] + ops[i + 1:]
                c = run_one(ctx, prop, scn, ops=cand)
                if bad(c):
                    ops, cur, changed = c.data["ops"], c, True
                    break
            if changed:
                continue
            # drop single reports
            for i, op in enumerate(ops):
                if op["op"] != "poll":
                    continue
                for j in range(len(op["reports"])):
                    op2 = dict(op)
                    op2["reports"] = op["reports"][:j] + op["reports"][j + 1:]
                    cand = ops[:i] + [op2] + ops[i + 1:]
                    c = run_one(ctx, prop, scn, ops=cand)
                    if bad(c):
                        ops, cur, changed = c.data["ops"], c, True
                        break
                if changed:
                    break
        if clause is None:
            compare([cur])
        return cur
    return shrink


def via_cases(ctx, prop, n, faulty=True, throttled=False):
    """the same kind of scenario with a real scheduler adapter's `check_jobs` between the scripted
    scheduler and the graph (harness/viasched.py): what the scheduler says is written down as
    squeue / sacct / bjobs output, and the graph gets what the real adapter reads out of it"""
    out = []
    for k in range(n):
        scn = E.gen_scenario(ctx.rng, maxn=6)
        scn["dry"] = 0
        scn["sched"] = [1] * scn["n"]
        if faulty:
            scn["faulty"] = 1
        if throttled:
            scn["throttle"] = ctx.rng.choice([1, 2, 3])
        scn["via"] = ("slurm", "lsf")[k % 2]
        scn["via_seed"] = ctx.rng.randint(0, 10 ** 9)
        c = run_one(ctx, prop, scn, rng=ctx.rng)
        out.append(c)
        ctx.count("via:" + scn["via"])
        for o in c.trace:
            if o.op["op"] == "poll":
                ctx.count("via-code:%s:%s" % (scn["via"], o.op["code"]))
    return out


def wide_cases(ctx, prop, count):
    """parameter sweeps: one or two hundred independent scheduled steps in flight at once, then a failing
    status query, a cancel request, time-outs and a drain - whatever holds for eight jobs holds for 257"""
    rng = ctx.rng
    out = []
    for k in range(count):
        n = rng.choice([101, 130, 257, 300]) if k else 257
        restart = [1 if rng.random() < 0.3 else 0 for _ in range(n)]
        scn = {"n": n, "edges": [[0, i] for i in range(1, n + 1)], "sched": [1] * n, "restart": restart,
               "rlimit": 1, "throttle": rng.choice([0, 0, n + 5]), "attempts": 1, "dry": 0, "subs": []}
        every = list(range(1, n + 1))
        some = [i for i in every if rng.random() < 0.5]
        ops = [{"op": "poll", "code": "OK", "reports": []},
               {"op": "poll", "code": "OK", "reports": [[i, "RUNNING"] for i in some]},
               {"op": "poll", "code": "ERROR", "reports": [[i, rng.choice(["FINISHED", "FAILED", "RUNNING"])] for i in every]},
               {"op": "poll", "code": "OK", "reports": [[i, "TIMEDOUT"] for i in some[:7]] + [[i, "FINISHED"] for i in some[7:40]]}]
        if k % 2 == 0:
            ops += [{"op": "cancel", "rc": rng.choice(["OK", "ERROR"])},
                    {"op": "poll", "code": "OK", "reports": [[i, "CANCELLED"] for i in every]},
                    {"op": "poll", "code": "OK", "reports": [[i, "CANCELLED"] for i in every]}]
        else:
            ops += [{"op": "poll", "code": "NOJOBS", "reports": [[i, "FAILED"] for i in every]},
                    {"op": "poll", "code": "OK", "reports": [[i, "FINISHED"] for i in every]},
                    {"op": "poll", "code": "OK", "reports": [[i, "FINISHED"] for i in every]}]
        c = run_one(ctx, prop, scn, ops=ops)
        # the monitors judge these runs; the Lean model is not asked (its list-based bookkeeping is
        # quadratic and worse in the number of steps: minutes for one such scenario)
        c.lines, c.impl_out = [], []
        c.data["kind"] = "wide"
        out.append(c)
        ctx.count("wide-scenarios")
    return out


# histories that a particular finding needed, replayed on every run: (scenario, reports per poll, the verdict
# the study must have reached by the end)
DIRECTED = [
    # a node that fails eight times in a row under one step with dependents: the step is resubmitted each time
    # and the study still ends
    ({"n": 3, "edges": [[0, 1], [1, 2], [2, 3]], "sched": [1, 1, 1], "restart": [0, 0, 0], "rlimit": 1, "throttle": 0,
      "attempts": 1, "dry": 0, "subs": []},
     [[]] + [[[1, "HWFAILURE"]]] * 8 + [[[1, "RUNNING"]], [[1, "FINISHED"]], [[2, "FINISHED"]], [[3, "FINISHED"]], []],
     "FINISHED"),
]


def directed_cases(ctx, prop):
    out = []
    for scn, polls, verdict in DIRECTED:
        ops = [{"op": "poll", "code": "OK", "reports": r} for r in polls]
        c = run_one(ctx, prop, scn, ops=ops)
        rets = [o.ret for o in c.trace]
        if verdict not in rets:
            c.monitor.append(("terminates", "directed history (%d polls, every job reported finished in the end): the "
                              "study never returned %s; verdicts %s, final states %s"
                              % (len(polls), verdict, rets[-3:], c.trace[-1].state if c.trace else None)))
        c.data["kind"] = "directed"
        out.append(c)
        ctx.count("directed-histories")
    return out


def run(ctx, prop, escalated=False, finish=True):
    quick = ctx.tier == "quick" and not escalated
    n_random = 2500 if quick else 40000
    cases = []
    for item in load_corpus():
        cases.append(run_one(ctx, prop, item["scenario"], ops=item["ops"]))
    cases.extend(wide_cases(ctx, prop, 2 if quick else 12))
    if prop == "C05":
        cases.extend(directed_cases(ctx, prop))
    for _ in range(n_random):
        scn = E.gen_scenario(ctx.rng, maxn=8 if quick else 10)
        cases.append(run_one(ctx, prop, scn, rng=ctx.rng))
    # distribution
    for c in cases:
        ctx.count("dag_size:%d" % c.data["scenario"]["n"])
        for o in c.trace:
            if o.op["op"] == "poll":
                ctx.count("polls")
                ctx.count("code:" + o.op["code"])
                for _, st in o.op["reports"]:
                    ctx.count("report:" + str(st))
            elif o.op["op"] == "cancel":
                ctx.count("cancels")
            if o.ret in ("FINISHED", "FAILURE", "CANCELLED", "RAISE:RuntimeError"):
                ctx.count("verdict:" + o.ret)
        if c.data["scenario"]["dry"]:
            ctx.count("dry_runs")
    if not finish:
        account(ctx, cases)
        return cases
    diffs = compare(cases)
    account(ctx, cases)
    judge(ctx, cases, diffs, "execution-graph", shrink=shrink_factory(ctx, prop))
    return cases
