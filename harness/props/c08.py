"""C08 - Parameter expansion creates exactly the right instances and edges.

Correspondence: generated specifications are loaded and staged by the real code
path of `maestro run` (YAML -> YAMLSpecification -> Study -> stage) and by
Model/Expand.lean; compared: ordered instance list, names, workspaces, expanded
cmd/restart/resource texts, attached parameters, restart limits, adjacency lists
in order, dependency sets.  Monitor: the declarative expansion (used-parameter
closure, instance naming, ordinary / funnel / source edges) evaluated
independently on the real graph."""
import expprop
import studysim as SS
from corr import compare, judge, account

LEVEL = "proof"
RULE = ("specifications: 1-6 steps in dependency order, ordinary and funnel (_*) "
        "dependencies, 0-4 parameters (names that are prefixes of one another, int / "
        "float / string / repeated values, default and custom labels, per-row label "
        "lists and custom names through a generator), tokens in cmd / restart / "
        "description / resource keys, workspace references, environment variables, "
        "labels and path dependencies; non-trivial = parameterised and >=2 "
        "instances; distinct = distinct specifications")


def monitor(spec, study, params, steps, dag, hash_ws, root):
    mon, judged = SS.expansion_monitor(params, steps, dag, hash_ws)
    # `maestro run` stages the study, stores it, and the conductor it starts stages the stored study
    # again: what holds of the first expansion holds of the next one of the same Study
    first = SS.serialize(dag)
    again, dag2 = SS.stage_real(study)
    if again != first:
        mon = mon + [("restaging", "the same study staged a second time: %d instances, then %s"
                      % (len(dag.values) - 1, "%d instances" % (len(dag2.values) - 1) if dag2 is not None else again))]
        judged = True
    return mon, judged


PGEN = '''from maestrowf.datastructures.core import ParameterGenerator

TABLE = %r


def get_custom_generator(env, **kwargs):
    """the table of the specification, built by a custom generator; the --pargs reach it as strings"""
    assert kwargs.get("TAG") == "a b" and kwargs.get("N") == "3", kwargs
    assert "OUTPUT_PATH" in kwargs and "SPECROOT" in kwargs, kwargs
    p_gen = ParameterGenerator()
    for key, values, label in TABLE:
        p_gen.add_parameter(key, values, label)
    return p_gen
'''


def pgen_cli_case(ctx, k):
    """the same parameter table once in the specification and once handed over by a custom generator
    file (`maestro run --pgen FILE --pargs ...`, the real command, dry): the two expansions must
    produce the same directories and scripts"""
    import copy
    import os
    import c17
    from corr import Case
    rng = ctx.rng
    base = os.path.join(ctx.scratch, "pg", "p%d" % k)
    spec = SS.gen_spec(rng, base + "-a", adversarial=False)
    params = spec.get("global.parameters")
    if not params:
        return None
    spec_b = copy.deepcopy(spec)
    spec_b.pop("global.parameters")
    os.makedirs(base, exist_ok=True)
    pgen_path = os.path.join(base, "pgen.py")
    with open(pgen_path, "w") as f:
        f.write(PGEN % [(key, p["values"], p["label"]) for key, p in params.items()])
    opts = {"hash_ws": rng.random() < 0.3, "rlimit": 1, "throttle": 0, "use_tmp": False}
    import scripted as S
    S.uninstall()
    try:
        c17._run_cli(spec, base + "-a", {"type": "local"}, opts, True)
        c17._run_cli(spec_b, base + "-b", {"type": "local"}, opts, True,
                     extra=["--pgen", pgen_path, "--pargs", "TAG: a b", "--pargs", "N:3"])
    except Exception as e:  # noqa  (staging problems of the generated study are other properties')
        return None
    da, fa = c17._tree(base + "-a")
    db, fb = c17._tree(base + "-b")
    mon = []
    if da != db:
        mon.append(("pgen-equivalent", "directories differ: only with the table in the specification %s, only "
                    "with the generator %s" % (sorted(da - db)[:3], sorted(db - da)[:3])))
    elif fa != fb:
        diff = sorted(p_ for p_ in set(fa) | set(fb) if fa.get(p_) != fb.get(p_))
        mon.append(("pgen-equivalent", "scripts differ between the two ways of supplying the table: %s" % diff[:3]))
    return Case({"kind": "pgen-cli", "spec": spec, "hash_ws": opts["hash_ws"]}, [], [], mon, True)


def collision_corpus():
    """the witnesses of the known finding C08-name-collision, run first on every run: joined label
    strings that cannot be told apart, a label without the value marker, a step named like an instance"""
    def spec(params, steps):
        return {"description": {"name": "collide", "description": "instance names that collide"},
                "global.parameters": params,
                "study": [{"name": n, "description": n, "run": dict(cmd=c, **({"depends": d} if d else {}))}
                          for n, c, d in steps]}
    return [
        spec({"A": {"values": ["1.2", "1"], "label": "%%"}, "B": {"values": ["3", "2.3"], "label": "%%"}},
             [("pa", "echo $(A)", []), ("both", "echo $(A) $(B)", ["pa"])]),
        spec({"A": {"values": [1, 2], "label": "A"}}, [("pa", "echo $(A)", [])]),
        spec({"A": {"values": [1, 2], "label": "A.%%"}},
             [("pa", "echo $(A)", []), ("pa_A.1", "echo flat", [])]),
    ]


def run(ctx, escalated=False):
    quick = ctx.tier == "quick" and not escalated
    n = 700 if quick else 20000
    cases = []
    for j, sp in enumerate(collision_corpus()):
        c = expprop.one_case(ctx, "cx%d" % j, adversarial=False, monitor=monitor, spec=sp, hash_ws=False,
                             pgen=False)
        if c is not None:
            cases.append(c)
            ctx.count("collision-corpus")
    for k in range(30 if quick else 600):
        c = pgen_cli_case(ctx, k)
        if c is not None:
            c.judged = False
            c.dag = None
            c.impl_out = ["pgen-cli"]
            c.data.setdefault("params", [])
            cases.append(c)
            ctx.count("pgen-cli")
        if k % 20 == 19:
            import shutil
            import os
            shutil.rmtree(os.path.join(ctx.scratch, "pg"), ignore_errors=True)
    for k in range(n):
        c = expprop.one_case(ctx, k, adversarial=False, monitor=monitor)
        if c is not None:
            cases.append(c)
    judged = sum(1 for c in cases if c.judged)
    ctx.cov["monitor_judged"] = judged
    for c in cases:
        ctx.count("steps:%d" % len(c.data["spec"]["study"]))
        ctx.count("params:%d" % len(c.data["params"]))
        ctx.count("outcome:" + c.impl_out[-1].split(" ")[0])
        if c.data["hash_ws"]:
            ctx.count("hashws")
        if c.dag is not None:
            ctx.count("instances", len(c.dag.values) - 1)
    diffs = compare(cases)
    account(ctx, cases)
    judge(ctx, cases, diffs, "study-expansion")
