"""C08 - Parameter expansion creates exactly the right instances and edges.

Correspondence: generated specifications are loaded and staged by the real code
path of `maestro run` (YAML -> YAMLSpecification -> Study -> stage) and by
Model/Expand.lean; compared: ordered instance list, names, workspaces, expanded
cmd/restart/resource texts, attached parameters, restart limits, adjacency lists
in order, dependency sets.  Monitor: the declarative expansion (used-parameter
closure, instance naming, ordinary / funnel / source edges) evaluated
independently on the real graph."""
import expprop
import studysim as SS
from corr import compare, judge, account

LEVEL = "proof"
RULE = ("specifications: 1-6 steps in dependency order, ordinary and funnel (_*) "
        "dependencies, 0-4 parameters (names that are prefixes of one another, int / "
        "float / string / repeated values, default and custom labels, per-row label "
        "lists and custom names through a generator), tokens in cmd / restart / "
        "description / resource keys, workspace references, environment variables, "
        "labels and path dependencies; non-trivial = parameterised and >=2 "
        "instances; distinct = distinct specifications")


def monitor(spec, study, params, steps, dag, hash_ws, root):
    return SS.expansion_monitor(params, steps, dag, hash_ws)


def run(ctx, escalated=False):
    quick = ctx.tier == "quick" and not escalated
    n = 700 if quick else 20000
    cases = []
    for k in range(n):
        c = expprop.one_case(ctx, k, adversarial=False, monitor=monitor)
        if c is not None:
            cases.append(c)
    judged = sum(1 for c in cases if c.judged)
    ctx.cov["monitor_judged"] = judged
    for c in cases:
        ctx.count("steps:%d" % len(c.data["spec"]["study"]))
        ctx.count("params:%d" % len(c.data["params"]))
        ctx.count("outcome:" + c.impl_out[-1].split(" ")[0])
        if c.data["hash_ws"]:
            ctx.count("hashws")
        if c.dag is not None:
            ctx.count("instances", len(c.dag.values) - 1)
    diffs = compare(cases)
    account(ctx, cases)
    judge(ctx, cases, diffs, "study-expansion")
