"""C19 - Locally executed steps really run, once, in order, and their exit code decides.

The real `maestro run -fg -y` is started (a launcher that only stubs
time.sleep) on generated local-adapter studies whose step scripts append
start / end stamps with their cwd to a log and exit with the code a plan file
assigns to (instance, attempt).  The observed sequence of executions is compared
with the sequence Model/Exec.lean predicts for the staged DAG (run count per
instance, order, final states, verdict = process exit code); the monitor states
the property directly on the log, status.csv, the exit code and the captured
stdout/stderr files.  Real processes, pids and the file system are runtime:
this part is sampled (quick 20 studies, thorough 400)."""
import json
import os
import subprocess
import sys

import yaml

import scripted as S
from corr import Case, compare, judge, account
from common import VERIF

LEVEL = "proof"
RULE = ("local-adapter studies: 1-6 steps, chains / fans / funnels / diamonds with ordinary and "
        "funnel dependencies, 0-2 parameters, 40% of the steps with a restart command, attempts in {1,2,3}, an exit code per (instance, "
        "attempt) with ~25% non-zero; non-trivial = some attempt exits non-zero; distinct = distinct "
        "(specification, plan)")

SCRIPT = r'''W=$(pwd)
echo "S $W {name}" >> {log}
n=$(grep -c "^S $W " {log})
code=$(awk -v w="$W" -v n="$n" '$1==w && $2==n {{print $3}}' {plan})
echo "out-$n"
echo "err-$n" 1>&2
echo "E $W ${{code:-0}}" >> {log}
# plan code 9: the step's own process dies by a signal (no exit status at all)
if [ "${{code:-0}}" = "9" ]; then kill -9 $$; fi
{last}
'''
# how the script ends: an explicit exit, or a last command whose status is the script's status
LAST = ["exit ${code:-0}", "( exit ${code:-0} )", "sh -c \"exit ${code:-0}\""]


def gen_study(rng, root, shared=False):
    """`shared`: several steps expanded over the same parameter (under --hashws --usetmp their scripts
    get the same file name)"""
    names = rng.sample(["pre", "run", "post", "sim", "ana", "merge"], rng.randint(3, 5) if shared else rng.randint(1, 6))
    params = {}
    if shared or rng.random() < 0.5:
        params["X"] = {"values": rng.choice([[1, 2], [1, 2, 3], ["a", "b"], ["Good morning", "x(1)"],
                                             ["a b", "c&d", "e;f"], ["$HOME", "q'r"]]), "label": "X.%%"}
        if rng.random() < 0.4:
            params["Y"] = {"values": [5] * len(params["X"]["values"]), "label": "Y.%%"}
    log = os.path.join(root, "RUNLOG")
    plan = os.path.join(root, "PLAN")
    steps = []
    # a quarter of the studies name their own shell (`batch: shell: /bin/sh`, dash here): the script is
    # run by the interpreter its first line names, and it is that interpreter's exit status which
    # decides - the endings below exit 0 under any bash, with the planned code otherwise (seeded
    # change C19-n ran every local script with the default adapter's `/bin/bash <script>`)
    own_shell = rng.random() < 0.25
    last_forms = LAST if not own_shell else [
        'if [ -n "$BASH_VERSION" ]; then exit 0; fi; exit ${code:-0}',
        'case "$(readlink /proc/$$/exe)" in *bash) exit 0;; esac; ( exit ${code:-0} )']
    for i, nm in enumerate(names):
        dep = []
        for p in names[:i]:
            r = rng.random()
            if r < 0.35:
                dep.append(p)
            elif r < 0.45 and params:
                dep.append(p + "_*")
        cmd = SCRIPT.format(log=log, plan=plan, last=rng.choice(last_forms), name=nm)
        if params and (shared or rng.random() < 0.6):
            cmd = "# uses $(%s)\n" % rng.choice(list(params)) + cmd
        run = {"cmd": cmd}
        if rng.random() < 0.4:
            # a restart command is for jobs that timed out; a local step never does, so it never runs
            run["restart"] = 'echo "R $(pwd)" >> %s\nexit 0\n' % log
        if dep:
            run["depends"] = dep
        steps.append({"name": nm, "description": "d", "run": run})
    spec = {"description": {"name": "cli", "description": "generated"},
            "env": {"variables": {"OUTPUT_PATH": root}}, "study": steps}
    if params:
        spec["global.parameters"] = params
    if own_shell:
        spec["batch"] = {"type": "local", "shell": "/bin/sh"}
    return spec, log, plan


def one_study(ctx, k):
    from maestrowf.datastructures.core.executiongraph import ExecutionGraph
    from maestrowf.conductor import Conductor
    rng = ctx.rng
    base = os.path.join(ctx.scratch, "cli%d" % k)
    os.makedirs(base, exist_ok=True)
    out = os.path.join(base, "out")
    shared = k % 10 == 0
    spec, log, plan = gen_study(rng, out, shared)
    attempts = rng.choice([1, 1, 2, 3])
    spec_path = os.path.join(base, "spec.yaml")
    with open(spec_path, "w") as f:
        yaml.safe_dump(spec, f, sort_keys=False)
    # stage once in-process to learn the instances and their workspaces
    import studysim as SS
    pre = os.path.join(base, "pre")
    spec2 = json.loads(json.dumps(spec))
    spec2["env"]["variables"]["OUTPUT_PATH"] = pre
    # --hashws names the workspaces (and, with --usetmp, the scripts) after a hash of the combination
    hashws = shared or rng.random() < 0.3
    _y, study = SS.load_study(spec2, pre, attempts=attempts, hash_ws=hashws)
    _ser, dag0 = SS.stage_real(study)
    insts = [key for key in dag0.values if key != "_source"]
    rel = {key: os.path.relpath(dag0.values[key].workspace.value, pre) for key in insts}
    # plan: exit code per (workspace, attempt)
    plan_map = {}
    lines = []
    for key in insts:
        for a in range(1, attempts + 1):
            code = rng.choice([0, 0, 0, 1, 2, 9]) if rng.random() < 0.45 else 0
            plan_map[(key, a)] = code
            lines.append("%s %d %d" % (os.path.join(out, rel[key]), a, code))
    os.makedirs(out, exist_ok=True)
    # the CLI removes an existing output path with -y; write the plan beside it
    plan_real = os.path.join(base, "PLAN")
    log_real = os.path.join(base, "RUNLOG")
    text = open(spec_path).read().replace(plan, plan_real).replace(log, log_real)
    open(spec_path, "w").write(text)
    open(plan_real, "w").write("\n".join(lines) + "\n")
    import shutil
    shutil.rmtree(out)
    env = dict(os.environ, PYTHONPATH=os.environ.get("PYTHONPATH", ""))
    # --usetmp writes the scripts into one temporary directory; every step must
    # still run in, and leave its captured output in, its own workspace
    usetmp = shared or rng.random() < 0.3
    p = subprocess.run([sys.executable, os.path.join(VERIF, "harness", "cli_launcher.py"),
                        "run", "-fg", "-y", spec_path, "-o", out, "-s", "1", "--attempts", str(attempts)]
                       + (["--usetmp"] if usetmp else []) + (["--hashws"] if hashws else []),
                       stdout=subprocess.PIPE, stderr=subprocess.PIPE, text=True, timeout=600, cwd=base)
    rc = p.returncode
    runlog = open(log_real).read().split("\n") if os.path.exists(log_real) else []
    ws_to_key = {os.path.join(out, rel[key]): key for key in insts}
    starts, ends = [], []
    mon = []
    open_run = None
    for ln in runlog:
        if not ln:
            continue
        parts = ln.split(" ")
        if parts[0] == "S":
            if open_run is not None:
                mon.append(("runs-to-completion", "%s started while %s had not ended" % (parts[1], open_run)))
            open_run = parts[1]
            if parts[1] not in ws_to_key:
                mon.append(("own-workspace", "a script ran in %s, which is no instance workspace" % parts[1]))
            starts.append(ws_to_key.get(parts[1], parts[1]))
            owner = ws_to_key.get(parts[1])
            if owner is not None and len(parts) > 2 and owner != parts[2] and not owner.startswith(parts[2] + "_"):
                mon.append(("own-script", "the command of step %s ran in the workspace of %s" % (parts[2], owner)))
        elif parts[0] == "R":
            mon.append(("run-count", "the restart script of %s was run (nothing timed out: every attempt "
                        "of a locally executed step runs the step's own script)" % ws_to_key.get(parts[1], parts[1])))
        elif parts[0] == "E":
            ends.append((ws_to_key.get(parts[1], parts[1]), int(parts[2])))
            open_run = None
    # model prediction
    idx = {key: i + 1 for i, key in enumerate(insts)}
    edges = []
    for par, chs in dag0.adjacency_table.items():
        for c in chs:
            edges.append((0 if par == "_source" else idx[par], idx[c]))
    edges.sort(key=lambda e: (e[1], e[0]))
    subs = [1 if code == 0 else 0 for _k, code in ends]
    n = len(insts)
    head = ("exec.graph n=%d edges=%s sched=%s restart=%s rlimit=1 throttle=0 attempts=%d dry=0 subs=%s"
            % (n, ",".join("%d>%d" % e for e in edges), "0" * n,
               "".join("1" if dag0.values[key].step.run.get("restart") else "0" for key in insts), attempts,
               "".join(map(str, subs))))
    # the implementation's side of the comparison, reconstructed from the log,
    # status.csv and the exit code; polls are replayed until the model finishes
    table = Conductor.get_status(out) if os.path.isdir(out) else {}
    states = dict(zip(table.get("Step Name", []), table.get("State", [])))
    verdict = {0: "FINISHED", 1: "RUNNING", 2: "FAILURE", 3: "CANCELLED"}.get(rc, "rc=%d" % rc)
    lines_m = [head] + ["exec.poll OK -"] * (n + 2)
    impl_final = "ret=%s runs=%s states=%s" % (
        verdict, ",".join("%d:%s" % (idx.get(k_, 0), "ok" if c == 0 else "fail") for k_, c in ends),
        " ".join("%d:%s" % (idx[key], states.get(key, "?")) for key in insts))
    # monitor: the property itself
    attempts_of = {}
    for key, code in ends:
        attempts_of.setdefault(key, []).append(code)
    desc = {}
    par_of = {key: set() for key in insts}
    for par, chs in dag0.adjacency_table.items():
        for c in chs:
            if par != "_source":
                par_of[c].add(par)
    first_start = {}
    for pos, key in enumerate(starts):
        first_start.setdefault(key, pos)
    last_end = {}
    for pos, (key, code) in enumerate(ends):
        last_end[key] = pos
    for key in insts:
        codes = attempts_of.get(key, [])
        parents_ok = all(attempts_of.get(p_, [1])[-1] == 0 and p_ in attempts_of for p_ in par_of[key])
        if not parents_ok:
            if codes:
                mon.append(("order", "%s ran although a dependency did not succeed" % key))
            if states.get(key) not in ("FAILED", "INITIALIZED", "CANCELLED") and rc != 0:
                pass
            continue
        want = []
        for a in range(1, attempts + 1):
            want.append(plan_map[(key, a)])
            if plan_map[(key, a)] == 0:
                break
        if codes != want:
            mon.append(("run-count", "%s ran with exit codes %s, plan/attempts say %s" % (key, codes, want)))
        ok = want[-1] == 0
        st = states.get(key)
        if ok and st != "FINISHED":
            mon.append(("exit-code-decides", "%s exited 0 but is %s" % (key, st)))
        if not ok and st != "FAILED":
            mon.append(("exit-code-decides", "%s failed every attempt but is %s" % (key, st)))
        for p_ in par_of[key]:
            if key in first_start and p_ in last_end and first_start[key] < last_end[p_]:
                mon.append(("order", "%s started before its dependency %s completed" % (key, p_)))
        # captured output
        ws = os.path.join(out, rel[key])
        outs = [f for f in os.listdir(ws) if f.endswith(".out")] if os.path.isdir(ws) else []
        errs = [f for f in os.listdir(ws) if f.endswith(".err")] if os.path.isdir(ws) else []
        if codes and (len(outs) != len(codes) or len(errs) != len(codes)):
            mon.append(("output-captured", "%s: %d runs but %d .out / %d .err files" % (key, len(codes), len(outs), len(errs))))
        for f in outs:
            if not open(os.path.join(ws, f)).read().startswith("out-"):
                mon.append(("output-captured", "%s/%s does not hold the script's stdout" % (key, f)))
    allok = all(attempts_of.get(k_, [1])[-1] == 0 and k_ in attempts_of for k_ in insts)
    if allok and rc != 0:
        mon.append(("exit-code-decides", "every step succeeded but maestro exited %d" % rc))
    if not allok and rc != 2:
        mon.append(("exit-code-decides", "some step failed but maestro exited %d\n%s" % (rc, p.stderr[-300:])))
    data = {"spec_steps": [(s["name"], s["run"].get("depends", []), "restart" in s["run"]) for s in spec["study"]],
            "params": spec.get("global.parameters"), "attempts": attempts,
            "plan": {"%s#%d" % k_: v for k_, v in plan_map.items()}, "exit_code": rc,
            "usetmp": usetmp, "hashws": hashws}
    c = Case(data, lines_m, None, mon[:4], any(v != 0 for v in plan_map.values()))
    c.impl_final = impl_final
    c.idx = idx
    c.n = n
    return c


def model_final(model_out, n):
    """condense the model's answers to the same shape as impl_final"""
    runs = []
    verdict = "RUNNING"
    states = ""
    for line in model_out[1:]:
        parts = dict(kv.split("=", 1) for kv in line.split(" ") if "=" in kv and not kv.startswith("st="))
        for ev in (parts.get("ev") or "").split(";"):
            if ev.startswith("local("):
                a = ev[6:-1].split(",")
                runs.append("%s:%s" % (a[0], a[2]))
        if verdict == "RUNNING":
            verdict = parts.get("ret", verdict)
            st = line.split(" st=")[1].split(" done=")[0]
            states = " ".join("%s:%s" % (x.split(":")[0], x.split(":")[1]) for x in st.split(" "))
    return "ret=%s runs=%s states=%s" % (verdict, ",".join(runs), states)


def graph_cases(ctx, n):
    """the same clauses on the execution graph alone (scripted local adapter: a 'run' consumes the next
    outcome of the stream, a third of them failures): many more shapes than real processes allow,
    compared state by state with Model/Exec.lean"""
    import execprop
    import execsim as E
    out = []
    for _ in range(n):
        scn = E.gen_scenario(ctx.rng, maxn=8)
        scn["dry"] = 0
        scn["sched"] = [1 if ctx.rng.random() < 0.15 else 0 for _ in range(scn["n"])]
        scn["subs"] = [0 if ctx.rng.random() < 0.35 else 1 for _ in range(ctx.rng.randint(5, 40))]
        c = execprop.run_one(ctx, "C19", scn, rng=ctx.rng)
        c.data["kind"] = "graph"
        out.append(c)
    return out


def run(ctx, escalated=False):
    from common import driver
    quick = ctx.tier == "quick" and not escalated
    n = 20 if quick else 400
    cases = [one_study(ctx, k) for k in range(n)]
    # run the model and condense
    for c in cases:
        out = driver(c.lines)
        mf = model_final(out, c.n)
        c.lines = []
        c.impl_out = []
        if mf != c.impl_final:
            c.monitor.append(("model-prediction", "real run: %s | model: %s" % (c.impl_final, mf)))
        ctx.count("instances", c.n)
        ctx.count("exit:%s" % c.data["exit_code"])
    gc = graph_cases(ctx, 800 if quick else 15000)
    ctx.count("graph-scenarios", len(gc))
    from corr import compare
    diffs = compare(gc)
    cases = cases + gc
    account(ctx, cases)
    judge(ctx, cases, diffs, "cli-local-execution+execution-graph")
