"""C02 - Failure and cancellation stop exactly the dependent sub-graph

Execution-graph correspondence (real ExecutionGraph driven by the scripted
scheduler vs Model/Exec.lean, state compared after every operation) and the
C02 monitor of harness/execsim.py evaluated on the real traces - with the scripted
adapter, and with the real Slurm / LSF `check_jobs` reading the scheduler's
answers (queue rows, accounting rows with their job-step rows) in between."""
import execprop
from corr import compare, judge, account

LEVEL = "proof"
RULE = execprop.RULE + "; plus the same with the real Slurm / LSF check_jobs in the loop (harness/viasched.py)"


def gating_gap_case(ctx, k):
    """Failure is propagated along the adjacency table, launches are gated by the dependency sets: a staged
    graph in which a step is a child of `p` without waiting for `p` can run that child to success before `p`
    fails.  Generated specifications are staged; where such a pair exists the real graph is driven through
    exactly that history (everything runs until the child is out, then `p` fails) and judged by its outcome."""
    import expprop
    import scripted as S
    from corr import Case
    import studysim as SS
    c = expprop.one_case(ctx, "gap%d" % k, adversarial=False, pgen=False,
                         monitor=lambda spec, study, params, steps, dag, hash_ws, root:
                         SS.expansion_monitor(params, steps, dag, hash_ws))
    if c is None or c.dag is None:
        return None
    if any("instance-name-collision" in d for _cl, d in c.monitor):
        return None      # two classes with one name (known finding of C08): the graph is not the study's
    dag = c.dag
    names = [n for n in dag.values if n != "_source"]
    gaps = [(p, ch) for p, chs in dag.adjacency_table.items() for ch in chs
            if p != "_source" and p not in dag._dependencies[ch]]
    data = {"kind": "staged-gating", "spec": c.data["spec"], "hash_ws": c.data["hash_ws"], "gaps": gaps[:3]}
    if not gaps:
        return Case(data, [], [], [], False)
    p, ch = gaps[0]
    S.install()
    try:
        dag.set_adapter({"type": "scripted"})
        S.WORLD.reset(sched={nm: True for nm in names})
        history, mon = [], []
        for _poll in range(3 * len(names) + 12):
            out = dag.values[ch].status.name != "INITIALIZED"
            reports = []
            p_live = p in dag.in_progress
            for nm in list(dag.in_progress):
                if nm == p:
                    reports.append((nm, "FAILED" if out else "RUNNING"))
                elif nm == ch:
                    # the child is still running when `p` fails and finishes in a later poll
                    reports.append((nm, "FINISHED" if out and not p_live else "RUNNING"))
                elif out:
                    reports.append((nm, "FINISHED"))
                else:
                    # everything else succeeds, so that the child is held back by `p` alone
                    reports.append((nm, "FINISHED"))
            S.WORLD.poll_code, S.WORLD.poll_calls, S.WORLD.poll_reports = "OK", 0, reports
            S.WORLD.events = []
            try:
                verdict = dag.execute_ready_steps().name
            except Exception as e:      # noqa
                verdict = "RAISE:%s" % type(e).__name__
            history.append({"reports": reports, "returned": verdict})
            if verdict != "RUNNING":
                break
        data["history"] = history
        if dag.values[p].status.name == "FAILED" and dag.values[ch].status.name == "FINISHED":
            mon.append(("no-dependent-runs", "staged study: %s is a child of %s in the adjacency table but does not "
                        "wait for it; with %s failing after %s was launched, %s ends FINISHED below a FAILED step"
                        % (ch, p, p, ch, ch)))
        return Case(data, [], [], mon, True)
    finally:
        S.install()


def run(ctx, escalated=False):
    quick = ctx.tier == "quick" and not escalated
    cases = execprop.run(ctx, "C02", escalated, finish=False)
    cases += execprop.via_cases(ctx, "C02", 400 if quick else 8000, faulty=False)
    # the same at the level of staged studies: generated parameterised specifications (funnels, shared
    # instances, repeated rows) through Study.stage and the real conductor loop with a scheduler that fails jobs
    import os
    import shutil
    import condsim
    import scripted as S
    from corr import Case
    extra = []
    for k in range(80 if quick else 2500):
        r = condsim.run(ctx, ctx.rng, k)
        if r is None:
            continue
        extra.append(Case({"kind": "conductor", "spec": r["spec"], "polls": r["polls"], "returned": r["ret"]},
                          [], [], r["mon"]["C02"][:3], r["ret"] == "FAILURE"))
        ctx.count("conductor:" + str(r["ret"]))
        if k % 30 == 29:
            shutil.rmtree(os.path.join(ctx.scratch, "cond"), ignore_errors=True)
    for k in range(900 if quick else 12000):
        c = gating_gap_case(ctx, k)
        if c is not None:
            extra.append(c)
            ctx.count("staged-gating:" + ("gap" if c.data["gaps"] else "closed"))
        if k % 40 == 39:
            shutil.rmtree(os.path.join(ctx.scratch, "st"), ignore_errors=True)
    S.install()
    cases = cases + extra
    diffs = compare([c for c in cases if c.lines])
    account(ctx, cases)
    judge(ctx, cases, diffs, "execution-graph+adapters", shrink=execprop.shrink_factory(ctx, "C02"))
