"""C02 - Failure and cancellation stop exactly the dependent sub-graph

Execution-graph correspondence (real ExecutionGraph driven by the scripted
scheduler vs Model/Exec.lean, state compared after every operation) and the
C02 monitor of harness/execsim.py evaluated on the real traces - with the scripted
adapter, and with the real Slurm / LSF `check_jobs` reading the scheduler's
answers (queue rows, accounting rows with their job-step rows) in between."""
import execprop
from corr import compare, judge, account

LEVEL = "proof"
RULE = execprop.RULE + "; plus the same with the real Slurm / LSF check_jobs in the loop (harness/viasched.py)"


def run(ctx, escalated=False):
    quick = ctx.tier == "quick" and not escalated
    cases = execprop.run(ctx, "C02", escalated, finish=False)
    cases += execprop.via_cases(ctx, "C02", 400 if quick else 8000, faulty=False)
    diffs = compare(cases)
    account(ctx, cases)
    judge(ctx, cases, diffs, "execution-graph+adapters", shrink=execprop.shrink_factory(ctx, "C02"))
