"""C02 - Failure and cancellation stop exactly the dependent sub-graph

Execution-graph correspondence (real ExecutionGraph driven by the scripted
scheduler vs Model/Exec.lean, state compared after every operation) and the
C02 monitor of harness/execsim.py evaluated on the real traces."""
import execprop

LEVEL = "proof"
RULE = execprop.RULE


def run(ctx, escalated=False):
    execprop.run(ctx, "C02", escalated)
