"""C16 - Scheduler output is interpreted per job id and never over-claims.

Correspondence: generated squeue / sacct / bjobs outputs and exit codes are fed
through a scripted subprocess to the *real* adapters' check_jobs (Flux through a
fake `flux` module) and to Model/Sched.lean; the state tables used by the model
are regenerated from the adapters' `_state` functions on every run and
cross-checked here on the documented vocabulary plus random strings.
Monitor: the property stated directly against the documented classification of
scheduler states (alive / success / terminal)."""
import fakeenv
from corr import Case, compare, judge, account
from translate import SCHED_VOCAB

LEVEL = "proof"
RULE = ("scheduler outputs: header + rows for queried / other / prefix-related "
        "/ array / job-step ids, random padding, blank lines, repeated rows, "
        "every documented state code and unknown codes, exit codes {0,1,127,255,"
        "other}; a separate malformed stream (short rows); non-trivial = output "
        "contains a row for a queried id; distinct = distinct (scheduler, ids, "
        "outputs, exit codes)")

TERMINAL = ("FINISHED", "FAILED", "TIMEDOUT", "HWFAILURE", "UNKNOWN", "CANCELLED")

# documented classification (mirrors Model/SchedVocab.lean)
ALIVE = {
    "slurm": ["CF", "CONFIGURING", "CG", "COMPLETING", "PD", "PENDING", "R",
              "RUNNING", "RD", "RESV_DEL_HOLD", "RF", "REQUEUE_FED", "RH",
              "REQUEUE_HOLD", "RQ", "REQUEUED", "RS", "RESIZING", "SI",
              "SIGNALING", "SE", "SPECIAL_EXIT", "SO", "STAGE_OUT", "ST",
              "STOPPED", "S", "SUSPENDED"],
    "lsf": ["PEND", "PROV", "PSUSP", "RUN", "USUSP", "SSUSP", "WAIT"],
    "flux": ["D", "P", "S", "R", "C"],
}
SUCCESS = {"slurm": ["CD", "COMPLETED"], "lsf": ["DONE"], "flux": ["CD"]}


def hx(s):
    return "_".join("%x" % ord(c) for c in s) or "-"


def fmt_status(st):
    return ",".join("%s:%s" % (hx(str(k)), "None" if v is None else v.name)
                    for k, v in st.items())


_adapters = {}


def adapters():
    if not _adapters:
        fakeenv.install_subprocess()
        fakeenv.install_flux()
        from maestrowf.interfaces.script.slurmscriptadapter import SlurmScriptAdapter
        from maestrowf.interfaces.script.lsfscriptadapter import LSFScriptAdapter
        from maestrowf.interfaces.script.fluxscriptadapter import FluxScriptAdapter
        from maestrowf.interfaces.script._flux.flux0_49_0 import FluxInterface_0490
        _adapters["slurm"] = SlurmScriptAdapter(host="h", bank="b", queue="q")
        _adapters["lsf"] = LSFScriptAdapter(host="h", bank="b", queue="q")
        _adapters["flux"] = FluxScriptAdapter(host="h", bank="b", queue="q")
        _adapters["fluxstate"] = FluxInterface_0490.state
    return _adapters


# --------------------------------------------------------------------------
# generators


def gen_ids(rng):
    base = str(rng.randint(1, 99999))
    if rng.random() < 0.2:
        base = str(rng.randint(1000000, 9999999))      # ids that outgrow a seven-character column
    pool = [base, base + "0", base[:-1] or "7", base + "1",
            str(rng.randint(1, 99999)), str(rng.randint(100000, 9999999))]
    k = rng.randint(1, 4)
    ids = []
    for _ in range(k):
        ids.append(rng.choice(pool))
    if rng.random() < 0.8:
        ids = list(dict.fromkeys(ids))
    return ids, pool


def pad(rng, s, width):
    r = rng.random()
    if r < 0.6:
        return s.rjust(width)
    if r < 0.8:
        return s.ljust(width)
    return s


def gen_state(rng, which):
    r = rng.random()
    if r < 0.9:
        return rng.choice(SCHED_VOCAB[which])
    return rng.choice(["XX", "running", "R+", "CANCELLED+", "??", "0"])


ODD_SEP = ["\x0b", "\x0c", "\x1c", "\x1d", "\x1e", "\x85", "\u2028", "\u2029", "\u00a0", "\u3000"]


def job_name(rng, jid, ids):
    """the free-text column.  Maestro names its own jobs after the step (no blanks); the jobs of other
    people's tools, which the same query lists, may be called anything - including text with the rarer
    line and word separators followed by something that looks like a row of its own"""
    if jid in ids or rng.random() < 0.75:
        return "name"
    other = rng.choice(ids) if ids else "77"
    return rng.choice(["my job", "a%s%s z" % (rng.choice(ODD_SEP), other),
                       "n%s%s x u %s" % (rng.choice(ODD_SEP), other, rng.choice(["CD", "F", "R"])),
                       "%s%s" % (rng.choice(ODD_SEP), other), "t\r%s" % other])


def gen_squeue(rng, ids, pool, malformed):
    rows = ["             JOBID     NAME     USER ST"]
    n = rng.randint(0, 7)
    listed = []
    for _ in range(n):
        r = rng.random()
        if r < 0.55 and ids:
            jid = rng.choice(ids)
        elif r < 0.8:
            jid = rng.choice(pool)
        elif r < 0.9:
            jid = rng.choice(pool) + "_%d" % rng.randint(0, 9)
        else:
            jid = ""
        if jid == "":
            rows.append(rng.choice(["", "   ", "\t"]))
            continue
        st = gen_state(rng, "slurm")
        if malformed and rng.random() < 0.4:
            rows.append("%s %s" % (pad(rng, jid, 18), "nm"))
            listed.append((jid, None))
            continue
        lead = rng.choice(["", " ", "  ", "\t"]) if rng.random() < 0.3 else ""
        trail = rng.choice(["", " ", "   "])
        rows.append(lead + "%s %s %s %s" % (pad(rng, jid, 18), pad(rng, job_name(rng, jid, ids), 8),
                                           pad(rng, "user", 8), pad(rng, st, 2)) + trail)
        listed.append((jid, st))
    return "\n".join(rows) + rng.choice(["", "\n"]), listed


def gen_sacct(rng, ids, pool, malformed):
    rows = ["JobID           JobName      State ExitCode ",
            "------------ ---------- ---------- -------- "]
    listed = []
    for _ in range(rng.randint(0, 7)):
        r = rng.random()
        if r < 0.5 and ids:
            jid = rng.choice(ids)
        elif r < 0.7:
            jid = rng.choice(pool)
        elif r < 0.9 and ids:
            jid = rng.choice(ids) + rng.choice([".batch", ".extern", ".0"])
            if rng.random() < 0.3:
                # a task of a job array whose id, read without the underscore, is a job Maestro asked about
                t = rng.choice(ids)
                if len(t) > 1:
                    jid = t[:-1] + "_" + t[-1]
        else:
            rows.append("")
            continue
        st = gen_state(rng, "slurm")
        if st in ("CA", "CANCELLED") and rng.random() < 0.3:
            st_txt = st + " by 1234"
        else:
            st_txt = st
        if malformed and rng.random() < 0.4:
            rows.append(jid)
            listed.append((jid, None))
            continue
        lead = " " if rng.random() < 0.1 else ""
        rows.append(lead + "%s %s %s %s " % (jid.ljust(12), job_name(rng, jid.split(".")[0], ids).rjust(10),
                                            st_txt.rjust(10), "0:0".rjust(8)))
        listed.append((None if lead else jid, st))
    return "\n".join(rows) + rng.choice(["", "\n"]), listed


def gen_bjobs(rng, ids, pool, malformed):
    if rng.random() < 0.08:
        return rng.choice(["No unfinished job found\n", "No job found", "No\tjobs",
                           "Nothing", "No"]), []
    rows = ["JOBID  |STAT |EXIT_CODE |EXIT_REASON"]
    listed = []
    for _ in range(rng.randint(0, 7)):
        r = rng.random()
        if r < 0.5 and ids:
            jid = rng.choice(ids)
        elif r < 0.75:
            jid = rng.choice(pool)
        elif r < 0.87 and ids:
            # an element of a job array whose number is a queried job's: another job
            jid = "%s[%d]" % (rng.choice(ids), rng.randint(1, 9))
        else:
            rows.append(rng.choice(["", "  ", "a|b"]))
            continue
        st = gen_state(rng, "lsf")
        reason = rng.choice(["-", "-", "TERM_RUNLIMIT: job killed after reaching LSF run time limit",
                             "TERM_OWNER: job killed by owner", "TERM_MEMLIMIT", ""])
        if malformed and rng.random() < 0.4:
            rows.append(rng.choice(["|||", " | | | ", "|%s|%s|-" % (jid, st)]))
            listed.append((jid, None))
            continue
        shown = jid
        if len(jid) > 7 and "[" not in jid and rng.random() < 0.6:
            shown = jid[:7]      # `bjobs -o "jobid:7 ..."` cuts a longer id to the column width: another string
        rows.append("%s|%s|%s|%s" % (pad(rng, shown, 7), pad(rng, st, 5), "-".ljust(10), reason))
        listed.append((shown, (st, reason)))
    return "\n".join(rows) + rng.choice(["", "\n"]), listed


def gen_rc(rng):
    return rng.choice([0, 0, 0, 0, 0, 0, 1, 127, 255, 2, 130])


# --------------------------------------------------------------------------
# running one case


def expected_slurm(ids, listed):
    last = {}
    for jid, st in listed:
        last[jid] = st
    return last


def classify_monitor(which, jid, row_state, result, mon):
    """row_state: scheduler state string of the last row for jid (or None)."""
    res = None if result is None else result.name
    if row_state is None:
        return
    if row_state in ALIVE[which] and res in TERMINAL:
        mon.append(("alive-never-terminal",
                    "%s job %s is reported %s (alive) but mapped to %s"
                    % (which, jid, row_state, res)))
    if res == "FINISHED" and row_state not in SUCCESS[which]:
        mon.append(("only-success-finishes",
                    "%s job %s is reported %s but mapped to FINISHED"
                    % (which, jid, row_state)))


def run_slurm(rng, malformed=False):
    import common
    common.next_logging()
    ids, pool = gen_ids(rng)
    sq, sq_listed = gen_squeue(rng, ids, pool, malformed)
    sa, sa_listed = gen_sacct(rng, ids, pool, malformed)
    sqrc, sarc = gen_rc(rng), gen_rc(rng)
    fakeenv.SUB.set(squeue=(sq, "", sqrc), sacct=(sa, "", sarc))
    fakeenv.SUB.filters["sacct"] = fakeenv.sacct_reply(ids)
    mon = []
    try:
        code, st = adapters()["slurm"].check_jobs(list(ids))
        out = "code=%s st=%s" % (code.name, fmt_status(st))
    except IndexError:
        out = "RAISE:IndexError"
        code, st = None, {}
    sacct_called = any(c.startswith("sacct") for c in fakeenv.SUB.calls)
    # monitor
    if code is not None:
        seen = {}
        if sqrc == 0:
            for jid, s in sq_listed:
                if jid in ids and s is not None:
                    seen[jid] = s
        in_queue = dict(seen)
        if sacct_called and sarc == 0:
            # the accounting record speaks only for the jobs the queue did not list
            for jid, s in sa_listed:
                if jid in ids and s is not None and jid not in in_queue:
                    seen[jid] = s
        if in_queue and not malformed:
            # what the queue says about a job stands: the same query with an accounting command
            # that knows nothing must give these jobs the same states
            fakeenv.SUB.set(squeue=(sq, "", sqrc), sacct=("\n\n", "", 0))
            try:
                _c2, st2 = adapters()["slurm"].check_jobs(list(ids))
            except IndexError:
                st2 = {}
            for jid in in_queue:
                if jid in st2 and st2[jid] is not None and st.get(jid) != st2[jid]:
                    mon.append(("queue-answer-kept", "slurm job %s is listed %s by squeue (-> %s) but is reported "
                                "%s after the accounting query (sacct row: %s)"
                                % (jid, in_queue[jid], st2[jid].name, getattr(st.get(jid), "name", None),
                                   [s for j, s in sa_listed if j == jid][-1:])))
        for jid in ids:
            res = st.get(jid)
            if jid not in seen:
                if res is not None and not malformed:
                    mon.append(("absent-is-none",
                                "slurm job %s does not appear in the output but is reported %s"
                                % (jid, res.name)))
            elif not malformed:
                classify_monitor("slurm", jid, seen[jid].split(" ")[0], res, mon)
        ok_possible = sqrc == 0 or (sacct_called and sarc == 0)
        if code.name == "OK" and not ok_possible:
            mon.append(("failing-query-not-ok",
                        "squeue rc=%d sacct rc=%d (called=%s) but code OK" % (sqrc, sarc, sacct_called)))
        if not ok_possible and any(v is not None for v in st.values()):
            mon.append(("failing-query-not-ok", "failing queries produced states %s" % fmt_status(st)))
    line = "sched.slurm ids=%s sqrc=%d sq=%s sarc=%d sa=%s" % (
        ",".join(hx(i) for i in ids), sqrc, hx(sq), sarc, hx(sa))
    data = {"scheduler": "slurm", "ids": ids, "squeue": sq, "squeue_rc": sqrc,
            "sacct": sa, "sacct_rc": sarc, "malformed": malformed}
    nontrivial = any(j in ids for j, _ in sq_listed + sa_listed)
    return Case(data, [line], [out], mon, nontrivial)


def run_lsf(rng, malformed=False):
    import common
    common.next_logging()
    ids, pool = gen_ids(rng)
    outp, listed = gen_bjobs(rng, ids, pool, malformed)
    rc = gen_rc(rng)
    fakeenv.SUB.set(bjobs=(outp, "", rc))
    mon = []
    try:
        code, st = adapters()["lsf"].check_jobs(list(ids))
        out = "code=%s st=%s" % (code.name, fmt_status(st))
    except IndexError:
        out = "RAISE:IndexError"
        code, st = None, {}
    if code is not None:
        seen = {}
        if rc == 0:
            for jid, s in listed:
                if jid in ids and s is not None:
                    seen[jid] = s
        for jid in ids:
            res = st.get(jid)
            if jid not in seen:
                if res is not None and not malformed:
                    mon.append(("absent-is-none",
                                "lsf job %s does not appear in the output but is reported %s"
                                % (jid, res.name)))
            elif not malformed:
                # (in the malformed stream the generator's own row list is not
                # the parser's: rows with stray separators are still rows)
                classify_monitor("lsf", jid, seen[jid][0], res, mon)
        if code.name == "OK" and rc != 0:
            mon.append(("failing-query-not-ok", "bjobs rc=%d but code OK" % rc))
        if rc != 0 and any(v is not None for v in st.values()):
            mon.append(("failing-query-not-ok", "failing bjobs produced states"))
    line = "sched.lsf ids=%s rc=%d out=%s" % (",".join(hx(i) for i in ids), rc, hx(outp))
    data = {"scheduler": "lsf", "ids": ids, "bjobs": outp, "rc": rc, "malformed": malformed}
    return Case(data, [line], [out], mon, any(j in ids for j, _ in listed))


def run_flux(rng):
    import common
    common.next_logging()
    ids, pool = gen_ids(rng)
    if rng.random() < 0.05:
        ids = []
    answers = []
    for j in ids + [rng.choice(pool)]:
        if rng.random() < 0.7:
            answers.append((j, gen_state(rng, "flux")))
    errs = rng.random() < 0.1
    fakeenv.FLUX.answers = answers
    fakeenv.FLUX.errors = ["rpc error"] if errs else []
    mon = []
    code, st = adapters()["flux"].check_jobs(list(ids))
    out = "code=%s st=%s" % (code.name, fmt_status(st))
    seen = dict(answers)
    for jid in ids:
        res = st.get(jid)
        if jid not in seen:
            if res is not None:
                mon.append(("absent-is-none", "flux job %s not answered but reported %s" % (jid, res.name)))
        else:
            classify_monitor("flux", jid, seen[jid], res, mon)
    line = "sched.flux ids=%s ans=%s errs=%d" % (
        ",".join(hx(i) for i in ids), ",".join("%s:%s" % (hx(a), hx(b)) for a, b in answers), int(errs))
    data = {"scheduler": "flux", "ids": ids, "answers": answers, "errors": errs}
    return Case(data, [line], [out], mon, bool(answers and ids))


def table_cases(rng, n_random):
    """translator cross-check: real _state vs generated Lean table"""
    cases = []
    ad = adapters()
    fns = {"slurm": ad["slurm"]._state, "lsf": ad["lsf"]._state, "flux": ad["fluxstate"]}
    for which, fn in fns.items():
        words = list(SCHED_VOCAB[which])
        for _ in range(n_random):
            w = rng.choice(SCHED_VOCAB[which])
            m = rng.random()
            if m < 0.3:
                w = w.lower()
            elif m < 0.5:
                w = w + rng.choice("+ _x")
            elif m < 0.7:
                w = "".join(rng.choice("ABCDEFGHIJKLMNOPQRSTUVWXYZ_") for _ in range(rng.randint(0, 4)))
            words.append(w)
        for w in words:
            res = fn(w).name
            mon = []
            classify_monitor(which, "-", w, fn(w), mon)
            cases.append(Case({"table": which, "state": w}, ["sched.state %s %s" % (which, hx(w))],
                              [res], mon, w in SCHED_VOCAB[which],
                              key="table:%s:%s" % (which, w)))
    return cases


def cancel_cases(rng):
    """C07 adapter side: cancel_jobs for empty and non-empty lists"""
    from maestrowf.interfaces.script import CancellationRecord
    cases = []
    ad = adapters()
    for which, cmd in (("slurm", "scancel"), ("lsf", "bkill")):
        for ids in ([], ["11"], ["11", "12"]):
            for rc in (0, 1, 255):
                fakeenv.SUB.set(**{cmd: ("", "", rc)})
                mon = []
                try:
                    rec = ad[which].cancel_jobs(list(ids))
                    if not isinstance(rec, CancellationRecord):
                        mon.append(("cancel-returns-record", "%s cancel_jobs(%s) returned %r" % (which, ids, rec)))
                        out = "NOT-A-RECORD"
                    else:
                        out = "%s %d" % (rec.cancel_status.name, rec.return_code)
                except Exception as e:  # noqa
                    out = "RAISE:%s" % type(e).__name__
                    mon.append(("cancel-returns-record", "%s cancel_jobs(%s) raised %r" % (which, ids, e)))
                cases.append(Case({"cancel": which, "ids": ids, "rc": rc},
                                  ["sched.cancel n=%d rc=%d" % (len(ids), rc)], [out], mon, True))
    # many live jobs: every id must reach the cancel command, whatever the size of the list
    for which, cmd in (("slurm", "scancel"), ("lsf", "bkill")):
        for n_ids in (7, 100, 130, rng.choice([101, 199, 257, 300])):
            ids = [str(5000 + i) for i in range(n_ids)]
            fakeenv.SUB.set(**{cmd: ("", "", 0)})
            mon = []
            try:
                rec = ad[which].cancel_jobs(list(ids))
                out = "%s %d" % (rec.cancel_status.name, rec.return_code)
            except Exception as e:  # noqa
                out = "RAISE:%s" % type(e).__name__
                mon.append(("cancel-returns-record", "%s cancel_jobs of %d ids raised %r" % (which, n_ids, e)))
            passed = set(w for call in fakeenv.SUB.calls for w in call.split())
            missing = [i for i in ids if i not in passed]
            if missing:
                mon.append(("cancel-covers-live", "%s cancel_jobs was given %d job ids but %d never reached %s "
                            "(e.g. %s)" % (which, n_ids, len(missing), cmd, missing[:3])))
            cases.append(Case({"cancel": which, "ids": n_ids, "rc": 0},
                              ["sched.cancel n=%d rc=0" % n_ids], [out], mon, True))
    for ids in ([], ["f1"]):
        mon = []
        fakeenv.FLUX.answers = [(i, "R") for i in ids]
        rec = ad["flux"].cancel_jobs(list(ids))
        if not isinstance(rec, CancellationRecord):
            mon.append(("cancel-returns-record", "flux cancel_jobs(%s) returned %r" % (ids, rec)))
            out = "NOT-A-RECORD"
        else:
            out = "%s %d" % (rec.cancel_status.name, rec.return_code)
        cases.append(Case({"cancel": "flux", "ids": ids}, ["sched.cancel n=%d rc=0" % len(ids)], [out], mon, True))
    # several Flux jobs, some of which refuse to be cancelled (they went inactive a moment ago):
    # every other job must still reach flux.job.cancel, whatever the order of the listing
    for _ in range(25):
        n_ids = rng.randint(2, 6)
        ids = ["f%d" % (100 + i) for i in range(n_ids)]
        rng.shuffle(ids)
        refusing = [i for i in ids if rng.random() < 0.35]
        fakeenv.FLUX.answers = [(i, "R") for i in ids]
        fakeenv.FLUX.cancelled = []
        fakeenv.FLUX.cancel_raises = set(int(fakeenv._JobID(i)) for i in refusing)
        mon = []
        try:
            rec = ad["flux"].cancel_jobs(list(ids))
            out = "%s %d" % (rec.cancel_status.name, rec.return_code)
        except Exception as e:  # noqa
            out = "RAISE:%s" % type(e).__name__
            mon.append(("cancel-returns-record", "flux cancel_jobs raised %r" % e))
        finally:
            fakeenv.FLUX.cancel_raises = set()
        reached = set(fakeenv.FLUX.cancelled)
        missing = [i for i in ids if i not in refusing and int(fakeenv._JobID(i)) not in reached]
        if missing:
            mon.append(("cancel-covers-live", "flux cancel_jobs was given %s; %s refused; %s never reached "
                        "flux.job.cancel" % (ids, refusing, missing)))
        cases.append(Case({"cancel": "flux", "ids": ids, "refusing": refusing},
                          ["sched.cancel n=%d rc=%d" % (n_ids, 1 if refusing else 0)], [out], mon, True))
    return cases


def run(ctx, escalated=False, props=("C16",)):
    quick = ctx.tier == "quick" and not escalated
    n = 1500 if quick else 60000
    cases = table_cases(ctx.rng, 60 if quick else 2000)
    cases += cancel_cases(ctx.rng)
    for k in range(n):
        r = ctx.rng.random()
        malformed = ctx.rng.random() < 0.1
        if r < 0.45:
            cases.append(run_slurm(ctx.rng, malformed))
        elif r < 0.8:
            cases.append(run_lsf(ctx.rng, malformed))
        else:
            cases.append(run_flux(ctx.rng))
    for c in cases:
        d = c.data
        ctx.count("kind:" + (d.get("scheduler") or ("table" if "table" in d else "cancel")))
        if c.impl_out[0].startswith("code="):
            ctx.count(c.impl_out[0].split(" ")[0])
        elif c.impl_out[0].startswith("RAISE"):
            ctx.count("raise:IndexError(malformed row)")
    diffs = compare(cases)
    account(ctx, cases)
    judge(ctx, cases, diffs, "scheduler-status-parsing")
