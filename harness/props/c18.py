"""C18 - The study handed from `maestro run` to the conductor is the same study.

Model-as-oracle differential through the real hand-off path:
(a) every generated study (custom-generator label lists / names, non-string
    values, every adapter configuration) is staged in memory in one fresh
    interpreter, stored with Conductor.store_study / store_batch, re-loaded with
    Conductor.load_study / load_batch in ANOTHER fresh interpreter (different
    hash seed) and staged again: both root-neutral serialisations must be equal,
    and equal to the model's expansion; the batch block must survive unchanged;
(b) after every poll of conductor-level execution scenarios the snapshot written
    with ExecutionGraph.pickle is loaded with ExecutionGraph.unpickle and must
    show the live state, which must equal the parsed status.csv.
dill / pickle fidelity is a library property: checked here, not proved."""
import json
import os

import c11
import execsim as E
import expprop
import scripted as S
import studysim as SS
from corr import Case, compare, judge, account

LEVEL = "other"
EXPLANATION = ("Differential through the real hand-off path with the Lean expansion model as oracle: "
               "store_study/store_batch in one interpreter, load_study/load_batch + stage in another, "
               "and ExecutionGraph.pickle/unpickle after every poll compared with the live state and the "
               "parsed status file. The Lean side proves only that staging is a function of the study's "
               "content (the model); serialisation fidelity (dill, yaml) is checked, not proved.")
RULE = ("(a) generated studies (as C08, incl. generator-made label lists, custom names, int/float/str "
        "values) x batch blocks (local/slurm/lsf/flux-like dicts); (b) execution scenarios with a "
        "snapshot after every poll; non-trivial = parameterised study / history with a non-success "
        "report; distinct = distinct studies / scenarios")

BATCHES = [{"type": "local"}, {"type": "slurm", "host": "h", "bank": "b", "queue": "q", "nodes": 2},
           {"type": "lsf", "host": "h", "bank": "b", "queue": "q", "reservation": "r1"},
           {"type": "flux", "host": "h", "bank": "b", "queue": "q", "args": {"mpi": "spectrum"}},
           {"type": "local", "shell": "/bin/sh"},
           # blank / falsy values are data too (an empty bank, zero nodes, a switch that is off)
           {"type": "slurm", "host": "h", "bank": "", "queue": "q", "nodes": 0, "reservation": ""},
           {"type": "lsf", "host": "", "bank": "b", "queue": "q", "exclusive": False, "qos": None},
           {"type": "flux", "host": "h", "bank": "b", "queue": "q", "args": {}, "uri": ""},
           # values are data, not shell text: nothing in them is expanded on the way
           {"type": "slurm", "host": "$HOSTNAME", "bank": "$HOME", "queue": "${PATH}", "reservation": "~"},
           {"type": "lsf", "host": "h", "bank": "$USER-$HOME", "queue": "%PATH%", "nodes": "$(NODES)"}]


PGEN_FILE = '''from maestrowf.datastructures.core import ParameterGenerator


class Sweep(ParameterGenerator):
    """the user's own generator class, defined in the file given to --pgen"""

    def get_metadata(self):
        meta = super().get_metadata()
        return meta


def label_of(template):
    return template


TABLE = %r
REFINE = %r


def get_custom_generator(env, **kwargs):
    p_gen = Sweep()
    p_gen.spell = label_of         # something else the file defines and the generator holds on to
    for key, values, label in TABLE:
        p_gen.add_parameter(key, values, p_gen.spell(label))
    if REFINE:
        # look at the coarse sweep, then refine its first parameter (overriding a parameter is documented)
        coarse = [dict(combo._params) for combo in p_gen]
        key, values, label = TABLE[0]
        p_gen.add_parameter(key, list(reversed(values)) if len(set(map(str, values))) > 1 else values,
                            p_gen.spell(label))
        p_gen.coarse_rows = len(coarse)
    return p_gen
'''


def snapshot_case(ctx):
    from maestrowf.datastructures.core.executiongraph import ExecutionGraph
    from maestrowf.conductor import Conductor
    rng = ctx.rng
    scn = E.gen_scenario(rng, maxn=6)
    scn["dry"] = 0
    root = E.fresh_root(ctx)
    S.install()
    g = S.build_graph(scn, root)
    n = scn["n"]
    for i in range(1, n + 1):
        if rng.random() < 0.4:
            g.values[S.sname(i)].add_params([("P", rng.choice([1, 2.5, "v"]))])
    mon = []
    polls = 0
    pkl = os.path.join(root, "scn.pkl")
    fair_from = rng.randint(2, 8)
    nontrivial = False
    for k in range(25):
        inflight = sorted(S.sidx(x) for x in g.in_progress)
        op = E.gen_op(rng, inflight, k >= fair_from, scn, None)
        if op["op"] == "cancel":
            S.do_cancel(g)
            nontrivial = True
            continue
        if any(st in ("FAILED", "TIMEDOUT", "HWFAILURE", "UNKNOWN", "CANCELLED") for _, st in op["reports"]):
            nontrivial = True
        ret, _ = S.do_poll(g, op["code"], [tuple(r) for r in op["reports"]])
        polls += 1
        # what monitor_study does after every poll
        g.pickle(pkl)
        g.write_status(root)
        try:
            g2 = ExecutionGraph.unpickle(pkl)
        except Exception as e:  # noqa
            mon.append(("snapshot-loads", "poll %d: unpickle raised %s: %s" % (k, type(e).__name__, str(e)[:80])))
            break
        live, snap = S.dump_state(g, n), S.dump_state(g2, n)
        if live != snap:
            mon.append(("snapshot-agrees", "poll %d: snapshot %s vs live %s" % (k, snap[:150], live[:150])))
        table = Conductor.get_status(root)
        names = table.get("Step Name", [])
        for idx, nm in enumerate(names):
            if nm in g2.values and table["State"][idx] != g2.values[nm].status.name:
                mon.append(("snapshot-vs-status", "poll %d: %s is %s in the snapshot, %s in status.csv"
                            % (k, nm, g2.values[nm].status.name, table["State"][idx])))
        if sorted(names) != sorted(S.sname(i) for i in range(1, n + 1)):
            mon.append(("snapshot-vs-status", "poll %d: status.csv lists %s" % (k, names)))
        if ret in ("FINISHED", "FAILURE", "CANCELLED"):
            break
    return Case({"kind": "snapshot", "scenario": scn, "polls": polls}, [], [], mon[:3], nontrivial)


def run(ctx, escalated=False):
    quick = ctx.tier == "quick" and not escalated
    n = 100 if quick else 2000
    cases, jobs = [], []
    for k in range(n):
        c = expprop.one_case(ctx, k, adversarial=False, pgen=False)
        if c is None or c.dag is None:
            continue
        c.data["id"] = "j%d" % k
        c.data["kind"] = "handoff"
        spec = json.loads(json.dumps(c.data["spec"]))
        spec["env"]["variables"].pop("OUTPUT_PATH", None)
        pg = ctx.rng.randint(1, 10 ** 6) if ctx.rng.random() < 0.4 else 0
        jobs.append({"id": c.data["id"], "spec": spec, "hash_ws": c.data["hash_ws"],
                     "rlimit": c.data["rlimit"], "pgen": pg, "batch": ctx.rng.choice(BATCHES),
                     "throttle": ctx.rng.choice([0, 2]), "attempts": ctx.rng.choice([1, 3]),
                     "symlink": ctx.rng.random() < 0.25})
        c.pgen = pg
        cases.append(c)
    # a sampling study: a parameter table of a few thousand rows (the stored study runs to a few hundred
    # KiB) of which the steps use a constant column or none, so that it stays a handful of instances
    for j in range(1 if quick else 8):
        rows = ctx.rng.randint(2500, 4000)
        big = {"description": {"name": "sampling", "description": "a large parameter table"},
               "global.parameters": {
                   "X": {"values": [round(ctx.rng.uniform(0, 1), 6) for _ in range(rows)], "label": "X.%%"},
                   "Y": {"values": [ctx.rng.randint(0, 10 ** 6) for _ in range(rows)], "label": "Y.%%"},
                   "MODE": {"values": ["fast"] * rows, "label": "MODE.%%"}},
               "study": [{"name": "prepare", "description": "no parameters", "run": {"cmd": "echo prepare"}},
                         {"name": "run", "description": "constant column",
                          "run": {"cmd": "echo $(MODE) $(prepare.workspace)", "depends": ["prepare"]}}]}
        c = expprop.one_case(ctx, "big%d" % j, adversarial=False, pgen=False, spec=big)
        if c is None or c.dag is None:
            continue
        c.data = {"id": "big%d" % j, "kind": "handoff-large", "rows": rows, "hash_ws": c.data["hash_ws"],
                  "rlimit": c.data["rlimit"], "spec": big}
        c.lines, c.impl_out = [], []
        spec = json.loads(json.dumps(big))
        spec["env"] = {"variables": {}}
        jobs.append({"id": c.data["id"], "spec": spec, "hash_ws": c.data["hash_ws"], "rlimit": c.data["rlimit"],
                     "pgen": 0, "batch": ctx.rng.choice(BATCHES), "throttle": 0, "attempts": 1, "symlink": False})
        c.pgen = 0
        cases.append(c)
    # a study whose stored form runs to more than a megabyte because of one step's command (a table
    # written by a here-document): seeded change C18-n compressed pickles above 1 MiB on the way out
    # and read them back uncompressed on the conductor's side
    for j in range(1 if quick else 4):
        nlines = ctx.rng.randint(30000, 60000)
        table = "\n".join("%d %0.6f %d" % (i, ctx.rng.random(), ctx.rng.randint(0, 10 ** 9)) for i in range(nlines))
        fat = {"description": {"name": "fat", "description": "a command that carries its own data"},
               "global.parameters": {"N": {"values": [1, 2], "label": "N.%%"}},
               "study": [{"name": "write", "description": "here-document",
                          "run": {"cmd": "cat > table.dat <<EOF\n%s\nEOF\necho $(N)" % table}},
                         {"name": "use", "description": "reads it",
                          "run": {"cmd": "wc -l $(write.workspace)/table.dat", "depends": ["write"]}}]}
        c = expprop.one_case(ctx, "fat%d" % j, adversarial=False, pgen=False, spec=fat)
        if c is None or c.dag is None:
            continue
        c.data = {"id": "fat%d" % j, "kind": "handoff-large-command", "lines": nlines, "hash_ws": c.data["hash_ws"],
                  "rlimit": c.data["rlimit"]}
        c.lines, c.impl_out = [], []
        spec = json.loads(json.dumps(fat))
        spec["env"] = {"variables": {}}
        jobs.append({"id": c.data["id"], "spec": spec, "hash_ws": c.data["hash_ws"], "rlimit": c.data["rlimit"],
                     "pgen": 0, "batch": ctx.rng.choice(BATCHES), "throttle": 0, "attempts": 1, "symlink": False})
        c.pgen = 0
        cases.append(c)
    # a generator of the user's own through the real command: `maestro run --pgen FILE`, where FILE defines
    # a subclass of ParameterGenerator - the conductor's interpreter has never seen that file
    for j in range(3 if quick else 40):
        sp = SS.gen_spec(ctx.rng, os.path.join(ctx.scratch, "unused"), adversarial=False)
        params = sp.pop("global.parameters", None)
        if not params:
            continue
        sp["env"]["variables"].pop("OUTPUT_PATH", None)
        c = expprop.one_case(ctx, "gen%d" % j, adversarial=False, pgen=False, spec=dict(sp, **{"global.parameters": params}))
        if c is None or c.dag is None:
            continue
        c.data = {"id": "gen%d" % j, "kind": "handoff-pgen-file", "hash_ws": c.data["hash_ws"],
                  "rlimit": c.data["rlimit"], "spec": sp, "table": params}
        c.lines, c.impl_out = [], []
        jobs.append({"id": c.data["id"], "spec": sp, "hash_ws": c.data["hash_ws"], "rlimit": c.data["rlimit"],
                     "pgen": 0, "batch": ctx.rng.choice(BATCHES[:5]), "throttle": 0, "attempts": 1, "symlink": False,
                     "cli_pgen": PGEN_FILE % ([(key, p_["values"], p_["label"]) for key, p_ in params.items()], j % 2 == 0)})
        c.pgen = 0
        cases.append(c)
    # the model comparison only applies to the studies without generator changes
    # (the model lines were built before pgen_variant); hand-off equality applies to all
    stored = c11.run_workers(ctx, jobs, [ctx.rng.choice([0, 5, 11])], mode="store")[0]
    # the loader runs in another interpreter on the same study directories
    loaded = c11.run_workers(ctx, jobs, [ctx.rng.choice([1, 3, 99])], mode="load", base_mode="store")[0]
    sb = {i["id"]: i for i in stored}
    lb = {i["id"]: i for i in loaded}
    jb = {j["id"]: j for j in jobs}
    for c in cases:
        a, b = sb[c.data["id"]], lb[c.data["id"]]
        for field in ("out", "ser", "order", "status_order", "params"):
            if a.get(field) != b.get(field):
                c.monitor.append(("handoff-identical",
                                  "'%s' differs between the in-memory study and the re-loaded one: %s | %s"
                                  % (field, json.dumps(a.get(field))[:200], json.dumps(b.get(field))[:200])))
                break
        if b.get("batch") is not None and b.get("batch") != jb[c.data["id"]]["batch"]:
            c.monitor.append(("handoff-identical", "batch block %r was re-loaded as %r"
                              % (jb[c.data["id"]]["batch"], b.get("batch"))))
        if str(a.get("out", "")).startswith("LOADFAIL") or str(b.get("out", "")).startswith("LOADFAIL"):
            c.monitor.append(("handoff-identical", "store/load failed: %s | %s" % (a.get("out"), b.get("out"))))
        if c.pgen:
            # model lines describe the YAML parameters, not the generator's: drop the model part
            c.lines, c.impl_out = [], []
    m = 150 if quick else 4000
    for _ in range(m):
        cases.append(snapshot_case(ctx))
    # the same through the real Conductor.monitor_study (what is on disk after each poll)
    import condsim
    import shutil
    for k in range(60 if quick else 1500):
        r = condsim.run(ctx, ctx.rng, k)
        if r is None:
            continue
        cases.append(Case({"kind": "conductor", "spec": r["spec"], "polls": r["polls"], "returned": r["ret"]},
                          [], [], r["mon"]["C18"][:3], r["nontrivial"]))
        if k % 30 == 29:
            shutil.rmtree(os.path.join(ctx.scratch, "cond"), ignore_errors=True)
    for c in cases:
        ctx.count("kind:" + c.data["kind"])
    diffs = compare(cases)
    account(ctx, cases)
    judge(ctx, cases, diffs, "handoff-expansion")
