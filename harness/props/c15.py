"""C15 - batch scripts request exactly the declared resources and launcher.

Resource-space correspondence: batch blocks x step resource dictionaries x
launcher token forms for the real Slurm, LSF, Flux (fake `flux` module) and
local adapters; the script text / exception class is compared with
Model/Launcher.lean, and an independent monitor reads the generated script
(header lines and launcher invocations) against the declared resources.  Flux
takes its resources from the job specification built at submission: every
scheduled Flux script is also submitted to a recording `flux.job` and the
specification (nodes, tasks or slots, cores, gpus, duration, command, working
directory, nested or not, the job id handed back) is read by the monitor
(clause flux-request; monitor only, the submission is not in the Lean model).
"""
import os
import re
import shutil
import tempfile

import fakeenv
from corr import Case, compare, judge, account

LEVEL = "proof"
RULE = ("random batch blocks (any subset of nodes / procs / reservation / qos / shell / flux uri and args) x step "
        "resource dictionaries (any subset of the schema's resource keys, integers or digit strings as a substituted "
        "parameter gives them, walltimes in every admitted spelling) x command texts with 0-3 lines of 0-2 launcher "
        "tokens each (bare, [Nn, Pp], [Pp, Nn], [Pp], legacy [N, P], nodes-only, within or beyond the step's totals) "
        "for the real Slurm / LSF / Flux / local adapters, 35% of the cases followed by 2-4 more steps through the "
        "same adapter instance; every scheduled Flux script is submitted to a recording flux.job (30% nested); "
        "a malformed stream (non-numeric counts, None, booleans, broken tokens, missing batch "
        "keys) is compared with the model but not judged by the monitor; non-trivial = a script was generated for a "
        "scheduled step; distinct = distinct (adapter, batch, step) triples")

_loaded = {}


def adapters():
    if not _loaded:
        import logging
        logging.disable(logging.CRITICAL)
        fakeenv.install_flux()
        from maestrowf.interfaces.script.slurmscriptadapter import SlurmScriptAdapter
        from maestrowf.interfaces.script.lsfscriptadapter import LSFScriptAdapter
        from maestrowf.interfaces.script.fluxscriptadapter import FluxScriptAdapter
        from maestrowf.interfaces.script.localscriptadapter import LocalScriptAdapter
        from maestrowf.datastructures.core.study import StudyStep
        _loaded.update(slurm=SlurmScriptAdapter, lsf=LSFScriptAdapter,
                       flux=FluxScriptAdapter, local=LocalScriptAdapter,
                       StudyStep=StudyStep)
    return _loaded


def hx(s):
    return "_".join("%x" % ord(c) for c in s) if s else "-"


def enc_val(v):
    if v is None:
        return "n"
    if isinstance(v, bool):
        return "bT" if v else "bF"
    if isinstance(v, int):
        return "i%d" % v
    if isinstance(v, str):
        return "s" + hx(v)
    return None


def enc_dict(d):
    out = []
    for k, v in d.items():
        e = enc_val(v)
        if e is not None:
            out.append("%s:%s" % (hx(k), e))
    return ",".join(out)


# ---------------------------------------------------------------------------
# generation

APPS = ["app", "./a.out -x 1", "echo hi > out.txt", "python run.py --n 3"]
COUNT_KEYS = ["gpus", "cores per task", "rs per node", "tasks per rs",
              "cpus per rs"]


def gen_count(rng, lo=1, hi=4, as_str_prob=0.3):
    v = rng.randint(lo, hi)
    return str(v) if rng.random() < as_str_prob else v


def _as_int(v, default):
    if isinstance(v, int) and not isinstance(v, bool) and v > 0:
        return v
    if isinstance(v, str) and re.fullmatch(r"[1-9][0-9]*", v):
        return int(v)
    return default


def gen_token(rng, nodes, procs, over_prob):
    """one launcher token; returns (text, form, n, p) with n/p the requested
    integers (None when the token does not give them)"""
    N = _as_int(nodes, 3)
    P = _as_int(procs, 6)
    over = rng.random() < over_prob
    n = rng.randint(1, N) if not (over and rng.random() < 0.5) else N + rng.randint(1, 2)
    p = rng.randint(1, max(1, P // 2)) if not (over and n <= N) else P + rng.randint(1, 3)
    r = rng.random()
    sp = rng.choice(["", " ", "  "])
    if r < 0.22:
        return "$(LAUNCHER)", "bare", None, None
    if r < 0.45:
        return "$(LAUNCHER)[%dn,%s%dp]" % (n, sp, p), "np", n, p
    if r < 0.6:
        return "$(LAUNCHER)[%dp,%s%dn]" % (p, sp, n), "pn", n, p
    if r < 0.8:
        return "$(LAUNCHER)[%dp]" % p, "p", None, p
    if r < 0.93:
        return "$(LAUNCHER)[%d,%s%d]" % (n, sp, p), "legacy", n, p
    return "$(LAUNCHER)[%dn]" % n, "n", n, None


MALFORMED_TOKENS = ["$(LAUNCHER)[]", "$(LAUNCHER)[x]", "$(LAUNCHER)[2p, 3p]",
                    "$(LAUNCHER)[1p", "$(LAUNCHER)[p]", "$(LAUNCHER)[1n, 2n, 1p]",
                    "$(LAUNCHER)[a1,2]", "$(LAUNCHER)[1 ,2]", "$(LAUNCHER)[1,2,3]",
                    "$(LAUNCHER)[12n3p]", "$(LAUNCHER)[1n 2p] ]"]


def gen_cmd(rng, nodes, procs, malformed, over_prob):
    """a command text; returns (text, tokens) where tokens are the documented
    forms used, in order (None when a malformed token was injected)"""
    lines = []
    toks = []
    bad = False
    nlines = rng.choice([1, 1, 2, 3])
    bare_only = rng.random() < 0.3     # a bare token cannot be mixed with [..] forms
    for _ in range(nlines):
        k = rng.choice([0, 1, 1, 1, 2])
        parts = []
        for _j in range(k):
            if malformed and rng.random() < 0.3:
                parts.append(rng.choice(MALFORMED_TOKENS) + " " + rng.choice(APPS))
                bad = True
                continue
            t = gen_token(rng, nodes, procs, over_prob)
            if bare_only and t[1] != "bare":
                t = ("$(LAUNCHER)", "bare", None, None)
            toks.append(t)
            parts.append(t[0] + " " + rng.choice(APPS))
        if not parts:
            parts.append(rng.choice(APPS))
        lines.append(rng.choice([" ; ", " && "]).join(parts))
    text = "\n".join(lines) + rng.choice(["", "\n"])
    forms = set(t[1] for t in toks)
    if "bare" in forms and len(forms) > 1:
        # mixing bare and bracketed tokens leaves the bare ones in place (the
        # code handles either style per command text) - outside the documented use
        bad = True
    return text, (None if bad else toks)


def gen_case(rng, malformed):
    adapter = rng.choice(["slurm", "slurm", "lsf", "flux", "flux", "local"])
    kw = {"type": adapter, "host": "quartz", "bank": "baasic", "queue": "pbatch"}
    if adapter == "local":
        kw = {"type": "local"}
    if rng.random() < 0.4 and adapter != "local":
        kw["nodes"] = gen_count(rng, 1, 4)
    if rng.random() < 0.3 and adapter == "slurm":
        kw["procs"] = gen_count(rng, 1, 8)
    if rng.random() < 0.3 and adapter != "local":
        kw["reservation"] = rng.choice(["", "resA"])
    if rng.random() < 0.2 and adapter == "slurm":
        kw["qos"] = rng.choice(["standby", "high"])
    if rng.random() < 0.3:
        kw["shell"] = rng.choice(["/bin/sh", "/bin/tcsh", "/usr/bin/env bash"])
    fargs = {}
    envuri = None
    if adapter == "flux":
        if rng.random() < 0.3:
            kw["uri"] = "local:///run/flux/local"
        if rng.random() < 0.2:
            envuri = "ssh://host/run/flux"
        if rng.random() < 0.3:
            fargs = dict(rng.sample([("mpi", "spectrum"), ("cpu-affinity", "per-task"),
                                     ("gpu-affinity", "off"), ("n", 3)], rng.randint(1, 2)))
            kw["args"] = fargs
    if malformed and rng.random() < 0.15 and adapter != "local":
        kw.pop(rng.choice(["host", "bank", "queue"]), None)

    run = {}
    r = rng.random()
    if r < 0.45:
        run["nodes"] = gen_count(rng, 1, 4)
        run["procs"] = gen_count(rng, 1, 12)
    elif r < 0.65:
        run["procs"] = gen_count(rng, 1, 12)
    elif r < 0.85:
        run["nodes"] = gen_count(rng, 1, 4)
    for k in COUNT_KEYS:
        if rng.random() < 0.2:
            run[k] = gen_count(rng, 0 if k == "gpus" else 1, 4)
    if rng.random() < 0.15:
        run["bind"] = rng.choice(["rs", "packed:2", "none"])
    if rng.random() < 0.1:
        run["bind gpus"] = rng.choice(["rs", "none"])
    if rng.random() < 0.6:
        run["walltime"] = rng.choice([
            "00:10:00", "01:30:00", "00:00:30", "02:59:59", "12:00", "00:45", "1:2:3",
            "00:10:01", "30", 30, 0, 90, "10:00:60", "00:59:30.5", "23:59:60"])
    if "walltime" in run and rng.random() < 0.3:
        # any time of day, not only the round ones: minutes that are about to carry, seconds that round up
        run["walltime"] = "%02d:%02d:%02d" % (rng.choice([0, 0, 1, 1, 2, 9, 11, 23, 47, 99, 100]),
                                              rng.choice([0, 1, 29, 58, 59, 59, 59]),
                                              rng.choice([0, 0, 1, 30, 59]))
    if adapter == "flux" and run.get("walltime") == "00:59:30.5":
        run["walltime"] = "00:59:30"      # float repr of fractional seconds is outside the model
    if adapter == "flux" and "walltime" in run and rng.random() < 0.12:
        run["walltime"] = "inf"           # Flux's spelling of "no limit"
    nested = adapter == "flux" and rng.random() < 0.3
    if rng.random() < 0.2:
        run["reservation"] = "stepres"
    if rng.random() < 0.25:
        run["exclusive"] = rng.choice([True, False])
    if rng.random() < 0.15:
        run["qos"] = "expedite"
    if malformed:
        r = rng.random()
        if r < 0.2:
            run[rng.choice(["nodes", "procs"])] = rng.choice(["abc", "", " 2", "2.5", "-1", 0, -2, None, True])
        elif r < 0.3:
            run["walltime"] = rng.choice(["abc", "1:x:3", "::", "1:-5:10", "-1:70:00", None, "inf", "1.5", True])
        elif r < 0.4:
            run[rng.choice(COUNT_KEYS)] = rng.choice(["x", "", 0, None, "0"])
        elif r < 0.45:
            run["exclusive"] = rng.choice(["True", "False", ""])
    cmd, toks = gen_cmd(rng, run.get("nodes"), run.get("procs"), malformed,
                        0.15)
    run["cmd"] = cmd
    rtoks = []
    if rng.random() < 0.3:
        rcmd, rtoks = gen_cmd(rng, run.get("nodes"), run.get("procs"), malformed, 0.1)
        run["restart"] = rcmd
    name = rng.choice(["step", "run sim", "post-proc_X.1", "a b c", "s_TRIAL.3.SIZE.10", "run{1}", "set_{a,b}"])
    desc = rng.choice(["d", "two\nlines", "say \"hi\"", "A longer description.", "writes to ${SCRATCH}/runs",
                       "{\"status\": \"ok\"}", "the pairs {{a, b}}", "100% of {0}", "}{"])
    return {"adapter": adapter, "kw": kw, "fargs": {k: str(v) for k, v in fargs.items()},
            "envuri": envuri, "name": name, "desc": desc, "run": run,
            "malformed": malformed, "tokens": toks, "rtokens": rtokens_or(rtoks), "nested": nested}


def rtokens_or(x):
    return x


# ---------------------------------------------------------------------------
# the real adapters

def run_real(case, root, shared=None):
    """`shared`: a dict in which the adapter instance is kept, so that several
    steps go through one adapter as they do in a study"""
    ad = adapters()
    if case["envuri"]:
        os.environ["FLUX_URI"] = case["envuri"]
    else:
        os.environ.pop("FLUX_URI", None)
    try:
        try:
            if shared is not None and "adapter" in shared:
                a = shared["adapter"]
            else:
                a = ad[case["adapter"]](**dict(case["kw"]))
                if shared is not None:
                    shared["adapter"] = a
        except KeyError:
            return "INIT-RAISE:KeyError", None
        step = ad["StudyStep"]()
        step.name = case["name"]
        step.description = case["desc"]
        step.run.update(case["run"])
        ws = tempfile.mkdtemp(dir=root)
        try:
            try:
                sched, path, rpath = a.write_script(ws, step)
            except Exception as e:      # the class is the observable
                return "RAISE:%s" % type(e).__name__, None
            with open(path) as f:
                main = f.read()
            if case["adapter"] == "flux" and sched:
                case["flux_request"] = flux_submit(a, step, path, ws, case)
            restart = None
            if rpath:
                with open(rpath) as f:
                    restart = f.read()
            return ("ok sched=%d main=%s restart=%s"
                    % (1 if sched else 0, hx(main), hx(restart) if restart is not None else "X"),
                    (bool(sched), main, restart))
        finally:
            shutil.rmtree(ws, ignore_errors=True)
    finally:
        os.environ.pop("FLUX_URI", None)


def flux_submit(a, step, path, ws, case):
    """Flux gets its resources from the job specification built at submission, not from the script's
    header: submit the script to the recording Flux and return what was asked for"""
    nested = case.get("nested", False)
    saved = dict(step.run)
    if nested:
        step.run["nested"] = True
    fakeenv.FLUX.submitted = []
    fakeenv.FLUX.submit_raises = None
    fakeenv.FLUX.next_id = "f%s" % (case["name"] or "x")
    try:
        try:
            rec = a.submit(step, path, ws)
        except Exception as e:
            return {"raised": type(e).__name__}
        req = dict(fakeenv.FLUX.submitted[-1]) if fakeenv.FLUX.submitted else {}
        req["code"] = rec.submission_code.name
        req["jobid"] = rec.job_identifier
        req["want_id"] = fakeenv.FLUX.next_id
        req["path"], req["cwd"] = path, ws
        return req
    finally:
        step.run.clear()
        step.run.update(saved)


def check_flux_request(case, mon):
    """the job specification asks for exactly the step's resources"""
    req = case.get("flux_request")
    if req is None:
        return
    run = case["run"]
    if "raised" in req:
        mon.append(("never-fails", "flux: submitting the generated script raised %s (run=%r)" % (req["raised"], run)))
        return
    if req["code"] != "OK" or "how" not in req:
        mon.append(("flux-request", "flux: the job specification was not submitted (%s)" % req["code"]))
        return
    if str(req["jobid"]) != req["want_id"]:
        mon.append(("flux-request", "flux: Flux answered job id %r, the submission record holds %r"
                    % (req["want_id"], req["jobid"])))
    args = req["args"]
    nested = req["how"] == "nest"
    if bool(case.get("nested", False)) != nested:
        mon.append(("flux-request", "flux: nested=%r but the job was built with from_%s"
                    % (case.get("nested", False), "nest_command" if nested else "command")))
    want = {"num_nodes": int(run["nodes"]) if declared(run.get("nodes")) else 1,
            "num_slots" if nested else "num_tasks": int(run["procs"]) if declared(run.get("procs")) else 1,
            "cores_per_slot" if nested else "cores_per_task":
                int(run["cores per task"]) if declared(run.get("cores per task")) else 1}
    for key, val in want.items():
        if args.get(key) != val:
            mon.append(("flux-request", "flux: step declares nodes=%r procs=%r cores per task=%r, the job "
                        "specification asks for %s=%r (wanted %r)"
                        % (run.get("nodes"), run.get("procs"), run.get("cores per task"), key, args.get(key), val)))
    gp = args.get("gpus_per_slot" if nested else "gpus_per_task")
    if ("gpus" in run and is_count(run["gpus"], 1)) != bool(gp):
        mon.append(("flux-request", "flux: step declares gpus=%r, the job specification asks for %r"
                    % (run.get("gpus"), gp)))
    if req["command"] != [req["path"]] or req["attrs"].get("cwd") != req["cwd"]:
        mon.append(("flux-request", "flux: the job runs %r in %r, the script is %r in %r"
                    % (req["command"], req["attrs"].get("cwd"), req["path"], req["cwd"])))
    wt = run.get("walltime")
    exp = flux_seconds(wt) if declared(wt) else 0.0
    got = req["attrs"].get("duration", 0)
    if float(got) != exp:
        mon.append(("flux-request", "flux: declared walltime %r (= %s s), the job specification's duration is %r"
                    % (wt, exp, got)))


def full_run(case):
    """step.run as the adapter sees it (StudyStep defaults + the case's keys)"""
    run = dict(adapters()["StudyStep"]().run)
    run.update(case["run"])
    return run


def model_line(case):
    run = full_run(case)
    return ("launch.script adapter=%s kw=%s fargs=%s envuri=%s fver=%s name=%s desc=%s run=%s"
            % (case["adapter"], enc_dict(case["kw"]),
               ",".join("%s:%s" % (hx(k), hx(v)) for k, v in case["fargs"].items()),
               enc_val(case["envuri"]), hx("0.49.0"), hx(case["name"]), hx(case["desc"]),
               enc_dict(run)))


# ---------------------------------------------------------------------------
# monitor: the property read off the generated script, independent of the model

def declared(v):
    """a resource the step (or batch block) declares: a positive integer or a
    non-empty string"""
    return v is not None and v != "" and v is not False and not (isinstance(v, int) and not isinstance(v, bool) and v == 0)


def is_count(v, lo=1):
    if isinstance(v, bool):
        return False
    if isinstance(v, int):
        return v >= lo
    return isinstance(v, str) and re.fullmatch(r"[1-9][0-9]*|0", v) is not None and int(v) >= lo


WALL_OK = re.compile(r"[0-9]{1,2}(:[0-9]{2}){1,2}")


def admitted(case):
    """inside the domain the property quantifies over: what the schema admits,
    with parameter strings substituted by numbers"""
    if case["malformed"]:
        return False
    run = case["run"]
    for k in ("nodes", "procs"):
        if k in run and not is_count(run[k]):
            return False
    for k in COUNT_KEYS:
        if k in run and not is_count(run[k], 0 if k == "gpus" else 1):
            return False
    wt = run.get("walltime")
    if wt == "inf" and case["adapter"] == "flux":
        wt = 0
    if wt is not None and not (isinstance(wt, int) and wt >= 0) and not (
            isinstance(wt, str) and (WALL_OK.fullmatch(wt) or re.fullmatch(r"[0-9]+", wt))):
        return False
    return True


def expected_reject(tokens, nodes, procs):
    """(must_reject, may_reject): per-command over-allocation must be rejected;
    a total over the step's is also rejected by the code (allowed either way)"""
    must = may = False
    tn = tp = 0
    for _t, form, n, p in tokens:
        if n is not None:
            tn += n
            if declared(nodes) and n > int(nodes):
                must = True
        if p is not None:
            tp += p
            if declared(procs) and p > int(procs):
                must = True
    if declared(nodes) and tn > int(nodes):
        may = True      # the documentation's own example sums nodes past the step's
    if declared(procs) and tp > int(procs):
        must = True     # the commands of one text share the step's task budget
    return must, may


LAUNCH_HEAD = {"slurm": "srun", "lsf": "jsrun", "flux": "flux run"}
FLAG_RE = re.compile(r" +(--nrs|-[nNcgobBar])(?= |$)")
VALUE_RE = re.compile(r" +([^ -][^ ]*)")


def parse_launcher(adapter, text, pos):
    """the launcher invocation at text[pos:]: (end, {flag: value}) or None;
    a flag that is not followed by a value maps to ''"""
    head = LAUNCH_HEAD[adapter]
    if not text.startswith(head, pos):
        return None
    cur = pos + len(head)
    flags = {}
    while True:
        m = FLAG_RE.match(text, cur)
        if not m:
            break
        cur = m.end()
        v = VALUE_RE.match(text, cur)
        if v:
            flags[m.group(1)] = v.group(1)
            cur = v.end()
        else:
            flags[m.group(1)] = ""
    return cur, flags


def check_launchers(case, which, tokens, out_text, mon):
    adapter = case["adapter"]
    run = case["run"]
    src = run[which]
    if "$(LAUNCHER)" in out_text:
        mon.append(("launcher-replaced", "%s %s script still contains $(LAUNCHER): %r"
                    % (adapter, which, out_text[-120:])))
        return
    # split the source at its tokens; the output must be the same literal
    # segments with one launcher invocation in place of each token
    segs = []
    pos = 0
    for t in tokens:
        i = src.index(t[0], pos)
        segs.append(src[pos:i])
        pos = i + len(t[0])
    segs.append(src[pos:])
    cur = 0
    for k, t in enumerate(tokens):
        seg = segs[k]
        if not out_text.startswith(seg, cur):
            mon.append(("launcher-replaced", "%s: text outside the launcher tokens changed near %r"
                        % (adapter, out_text[cur:cur + 60])))
            return
        cur += len(seg)
        m = parse_launcher(adapter, out_text, cur)
        if not m:
            mon.append(("launcher-replaced", "%s: token %s not replaced by the launcher: %r"
                        % (adapter, t[0], out_text[cur:cur + 60])))
            return
        inv = out_text[cur:m[0]]
        cur, flags = m
        _tok, form, n, p = t
        want_p = p if form != "bare" else (int(run["procs"]) if declared(run.get("procs")) else None)
        want_n = n if form != "bare" else (int(run["nodes"]) if declared(run.get("nodes")) else None)
        pflag = {"slurm": "-n", "lsf": "--nrs", "flux": "-n"}[adapter]
        got_p = flags.get(pflag)
        if want_p is not None:
            if got_p is None or not re.fullmatch(r"[0-9]+", got_p) or int(got_p) != want_p:
                mon.append(("launcher-counts", "%s: %s asks for %d tasks, launcher has %s %r (%r)"
                            % (adapter, t[0], want_p, pflag, got_p, inv)))
        elif got_p is not None and not re.fullmatch(r"[0-9]+", got_p):
            mon.append(("launcher-counts", "%s: %s gives no task count, launcher has %s %r (%r)"
                        % (adapter, t[0], pflag, got_p, inv)))
        if adapter in ("slurm", "flux"):
            got_n = flags.get("-N")
            if want_n is not None:
                if got_n is None or not re.fullmatch(r"[0-9]+", got_n) or int(got_n) != want_n:
                    mon.append(("launcher-counts", "%s: %s asks for %d nodes, launcher has -N %r (%r)"
                                % (adapter, t[0], want_n, got_n, inv)))
            elif got_n is not None and not re.fullmatch(r"[0-9]+", got_n):
                mon.append(("launcher-counts", "%s: %s gives no node count, launcher has -N %r"
                            % (adapter, t[0], got_n)))
        check_launcher_extras(adapter, run, t[0], flags, inv, mon)
    if not out_text.startswith(segs[-1], cur) or len(out_text) != cur + len(segs[-1]):
        mon.append(("launcher-replaced", "%s: text after the last launcher token changed: %r"
                    % (adapter, out_text[cur:cur + 80])))


def check_launcher_extras(adapter, run, tok, flags, inv, mon):
    """the launcher's other resource flags are the step's own declarations (not those of another
    step written through the same adapter): (flag, declared value or None, accepted when undeclared)"""
    def cnt(key, lo=1):
        v = run.get(key)
        return str(int(v)) if key in run and is_count(v, lo) else None
    if adapter == "slurm":
        table = [("-c", cnt("cores per task"), (None,))]
    elif adapter == "flux":
        table = [("-c", cnt("cores per task"), (None, "1")), ("-g", cnt("gpus"), (None,))]
    else:
        table = [("-a", cnt("tasks per rs"), ("1",)), ("-r", cnt("rs per node"), ("1",)),
                 ("-c", cnt("cpus per rs"), ("1",)), ("-g", cnt("gpus"), (None,)),
                 ("-b", run.get("bind") or None, ("rs",)), ("-B", run.get("bind gpus") or None, (None,))]
    for flag, want, undeclared in table:
        got = flags.get(flag)
        if flag == "-g" and "gpus" in run and is_count(run["gpus"], 0) and int(run["gpus"]) == 0:
            want, undeclared = None, (None, "0")      # `gpus: 0` may be spelled out or left out
        if (got != want) if want is not None else (got not in undeclared):
            mon.append(("launcher-counts", "%s: %s: the step declares %s, the launcher has %s %r (%r)"
                        % (adapter, tok, "%s" % want if want is not None else "nothing for " + flag, flag, got, inv)))


def lsf_walltime(wt):
    """HH:MM:SS -> HH:MM with the seconds rounded up into the minutes"""
    wt = str(wt)
    parts = wt.split(":")
    if len(parts) != 3:
        return wt
    h, m, s = int(parts[0]), int(parts[1]), int(parts[2])
    total = h * 60 + m + (s + 59) // 60
    return "%02d:%02d" % (total // 60, total % 60)


def flux_seconds(wt):
    if wt == "inf":
        return 0.0
    if isinstance(wt, int) or re.fullmatch(r"[0-9]+", wt):
        return float(int(wt) * 60)
    secs = 0
    for i, part in enumerate(reversed(wt.split(":"))):
        secs += int(part) * 60 ** i
    return float(secs)


def header_lines(text):
    head = text.split("\n\n", 1)[0]
    return head.split("\n")


def one(lines, prefix):
    got = [l[len(prefix):] for l in lines if l.startswith(prefix)]
    return got


def check_header(case, lines, mon):
    adapter = case["adapter"]
    kw = case["kw"]
    run = case["run"]

    def want(key, fallback=True):
        if declared(run.get(key)):
            return str(run[key])
        if fallback and declared(kw.get(key)):
            return str(kw[key])
        return None

    def expect(prefix, value, what, strip=""):
        got = one(lines, prefix)
        got = [g.strip(strip) if strip else g for g in got]
        if value is None:
            if got:
                mon.append(("header-exact", "%s header has %s%r but no %s is declared"
                            % (adapter, prefix, got[0], what)))
        elif got != [value]:
            mon.append(("header-exact", "%s header %s: declared %r, header has %r"
                        % (adapter, what, value, got)))

    shell = kw.get("shell", "/bin/bash") if adapter != "lsf" else "/bin/bash"
    if lines[0] != "#!" + shell:
        mon.append(("header-exact", "%s script starts with %r, not #!%s" % (adapter, lines[0], shell)))
    if adapter == "slurm":
        expect("#SBATCH --nodes=", want("nodes"), "nodes")
        nt = one(lines, "#SBATCH --ntasks=")
        procs = want("procs")
        if nt and nt != [procs]:
            mon.append(("header-exact", "slurm header tasks: declared %r, header has %r" % (procs, nt)))
        if not nt and want("nodes") is None:
            mon.append(("header-exact", "slurm header requests neither nodes nor tasks"))
        expect("#SBATCH --time=", want("walltime", False), "walltime")
        expect("#SBATCH --partition=", want("queue"), "queue")
        expect("#SBATCH --account=", want("bank"), "bank")
        expect("#SBATCH --reservation=", want("reservation"), "reservation", '"')
        expect("#SBATCH --gres=gpu:", want("gpus", False), "gpus")
        expect("#SBATCH --qos=", want("qos"), "qos")
        excl = [l for l in lines if l == "#SBATCH --exclusive"]
        if bool(excl) != bool(run.get("exclusive")):
            mon.append(("header-exact", "slurm header exclusive=%s but step declares %r"
                        % (bool(excl), run.get("exclusive"))))
        name = case["name"].replace(" ", "_")
        expect("#SBATCH --job-name=", name, "job name", '"')
    elif adapter == "lsf":
        expect("#BSUB -nnodes ", want("nodes"), "nodes")
        wt = run.get("walltime")
        if wt != 0:      # `walltime: 0` may be read as "none" or as "0": either is accepted
            expect("#BSUB -W ", lsf_walltime(wt) if declared(wt) else None, "walltime")
        expect("#BSUB -q ", want("queue"), "queue")
        expect("#BSUB -G ", want("bank"), "bank")
        expect("#BSUB -U ", want("reservation"), "reservation")
    elif adapter == "flux":
        n = want("nodes")
        expect("#INFO (nodes) ", n if n is not None else "1", "nodes")
        wt = run.get("walltime")
        got = one(lines, "#INFO (walltime) ")
        exp = flux_seconds(wt) if declared(wt) else 0.0
        if len(got) != 1 or float(got[0]) != exp:
            mon.append(("header-exact", "flux header walltime: declared %r (= %s s), header has %r"
                        % (wt, exp, got)))


def monitor(case, out, parsed):
    mon = []
    adapter = case["adapter"]
    run = case["run"]
    if not admitted(case) or out.startswith("INIT-"):
        return mon
    wants_sched = adapter != "local" and (declared(run.get("nodes")) or declared(run.get("procs")))
    toks = case["tokens"]
    rtoks = case["rtokens"] if "restart" in run else []
    shell = case["kw"].get("shell", "/bin/bash") if adapter != "lsf" else "/bin/bash"
    if not wants_sched:
        # a step declaring neither nodes nor procs: local, the command as it is
        if parsed is None:
            mon.append(("never-fails", "%s: script generation for a local step raised %s" % (adapter, out)))
            return mon
        sched, main, restart = parsed
        if sched:
            mon.append(("local-iff", "%s: step declares neither nodes nor procs but is to be scheduled" % adapter))
        for which, text in (("cmd", main), ("restart", restart)):
            if which == "restart" and "restart" not in run:
                if text is not None:
                    mon.append(("local-script", "%s: restart script written without a restart command" % adapter))
                continue
            if text is None:
                mon.append(("local-script", "%s: no %s script" % (adapter, which)))
                continue
            lines = header_lines(text)
            body = text.split("\n\n", 1)[1] if "\n\n" in text else None
            if lines[0] != "#!" + shell or any(not l.startswith("#") for l in lines) \
                    or body != run[which] + "\n":
                mon.append(("local-script", "%s: local %s script is not '#!%s' + the command: %r"
                            % (adapter, which, shell, text[:80])))
        return mon
    if toks is None or rtoks is None:
        return mon           # malformed / mixed tokens: outside the documented forms
    # each command text (cmd, restart) is budgeted on its own
    m1, y1 = expected_reject(toks, run.get("nodes"), run.get("procs"))
    m2, y2 = expected_reject(rtoks, run.get("nodes"), run.get("procs"))
    must, may = m1 or m2, y1 or y2
    if parsed is None:
        if out == "RAISE:ValueError" and (must or may):
            return mon
        forms = "+".join(sorted(set(t[1] for t in toks + rtoks))) or "none"
        shape = "%s:nodes%s:procs%s:forms=%s" % (
            adapter, "+" if declared(run.get("nodes")) else "-",
            "+" if declared(run.get("procs")) else "-", forms)
        mon.append(("never-fails", "shape=%s raised %s (nodes=%r procs=%r tokens=%s)"
                    % (shape, out, run.get("nodes"), run.get("procs"),
                       [t[0] for t in toks + rtoks])))
        return mon
    if must:
        mon.append(("overallocation-rejected",
                    "%s: a command allocates more than the step's nodes=%r procs=%r and was accepted: %s"
                    % (adapter, run.get("nodes"), run.get("procs"), [t[0] for t in toks + rtoks])))
    sched, main, restart = parsed
    if not sched:
        mon.append(("local-iff", "%s: step declares nodes=%r procs=%r but is not to be scheduled"
                    % (adapter, run.get("nodes"), run.get("procs"))))
        return mon
    for which, text, tk in (("cmd", main, toks), ("restart", restart, rtoks)):
        if which == "restart" and "restart" not in run:
            continue
        if text is None or "\n\n" not in text:
            mon.append(("launcher-replaced", "%s: no %s script text" % (adapter, which)))
            continue
        head, body = text.split("\n\n", 1)
        if not body.endswith("\n"):
            mon.append(("launcher-replaced", "%s: script body lost its final newline" % adapter))
            continue
        if not must:
            if tk:
                check_launchers(case, which, tk, body[:-1], mon)
            elif body[:-1] != run[which]:
                mon.append(("launcher-replaced", "%s: a command without launcher tokens was altered: %r"
                            % (adapter, body[:80])))
        check_header(case, head.split("\n"), mon)
    if adapter == "flux":
        check_flux_request(case, mon)
    return mon


def make_case(case, root, shared=None):
    import common
    common.next_logging()
    out, parsed = run_real(case, root, shared)
    mon = monitor(case, out, parsed)
    data = {k: case[k] for k in ("adapter", "kw", "fargs", "envuri", "name", "desc", "run", "malformed")}
    data["nth_step_of_adapter"] = case.get("nth", 1)
    if "flux_request" in case:
        data["flux_request"] = {k: v for k, v in case["flux_request"].items() if k != "attrs"}
        data["flux_request"]["attrs"] = {k: v for k, v in case["flux_request"].get("attrs", {}).items()
                                         if k != "environment"}
    data["tokens"] = None if case["tokens"] is None else [t[0] for t in case["tokens"]]
    data["impl"] = out if parsed is None else {"scheduled": parsed[0], "main": parsed[1], "restart": parsed[2]}
    nontrivial = parsed is not None and parsed[0]
    return Case(data, [model_line(case)], [out], mon, nontrivial)


# deterministic cases that are always run first (past findings and the
# combinations the property names)
def corpus():
    base = {"fargs": {}, "envuri": None, "name": "run sim", "desc": "d", "malformed": False}
    B = {"host": "h", "bank": "b", "queue": "q"}

    def c(adapter, run, toks, kw=None, rtoks=()):
        d = dict(base)
        k = dict(B, type=adapter)
        if adapter == "local":
            k = {"type": "local"}
        k.update(kw or {})
        d.update(adapter=adapter, kw=k, run=run, tokens=list(toks), rtokens=list(rtoks))
        return d
    bare = ("$(LAUNCHER)", "bare", None, None)
    out = []
    for ad in ("slurm", "lsf", "flux"):
        out.append(c(ad, {"cmd": "$(LAUNCHER) app", "nodes": 2, "procs": 4}, [bare]))
        out.append(c(ad, {"cmd": "$(LAUNCHER) app", "nodes": 2}, [bare]))
        out.append(c(ad, {"cmd": "$(LAUNCHER) app", "procs": 4}, [bare]))
        out.append(c(ad, {"cmd": "$(LAUNCHER)[1n, 2p] a\n$(LAUNCHER)[1n, 2p] b\n", "nodes": "2", "procs": "4"},
                     [("$(LAUNCHER)[1n, 2p]", "np", 1, 2), ("$(LAUNCHER)[1n, 2p]", "np", 1, 2)]))
        out.append(c(ad, {"cmd": "$(LAUNCHER)[1p] a; $(LAUNCHER)[2p] b", "nodes": 2, "procs": 4},
                     [("$(LAUNCHER)[1p]", "p", None, 1), ("$(LAUNCHER)[2p]", "p", None, 2)]))
        out.append(c(ad, {"cmd": "$(LAUNCHER)[1n, 2p] a", "procs": 4}, [("$(LAUNCHER)[1n, 2p]", "np", 1, 2)]))
        out.append(c(ad, {"cmd": "$(LAUNCHER)[3n, 2p] a", "nodes": 2, "procs": 4}, [("$(LAUNCHER)[3n, 2p]", "np", 3, 2)]))
        out.append(c(ad, {"cmd": "$(LAUNCHER)[1n, 9p] a", "nodes": 2, "procs": 4}, [("$(LAUNCHER)[1n, 9p]", "np", 1, 9)]))
        out.append(c(ad, {"cmd": "$(LAUNCHER)[2n] a", "nodes": 2, "procs": 4}, [("$(LAUNCHER)[2n]", "n", 2, None)]))
        out.append(c(ad, {"cmd": "$(LAUNCHER)[1,2] a", "nodes": 2, "procs": 4}, [("$(LAUNCHER)[1,2]", "legacy", 1, 2)]))
        out.append(c(ad, {"cmd": "app", "nodes": 1, "procs": 1, "walltime": 30}, []))
        out.append(c(ad, {"cmd": "app", "nodes": 1, "procs": 1, "walltime": "00:10:30"}, []))
        out.append(c(ad, {"cmd": "app", "nodes": 1, "procs": 1}, []))
        out.append(c(ad, {"cmd": "app", "restart": "app -r"}, []))
        out.append(c(ad, {"cmd": "$(LAUNCHER) app", "restart": "$(LAUNCHER) app -r"}, []))
    out.append(c("local", {"cmd": "$(LAUNCHER) app", "nodes": 2, "procs": 4, "restart": "r"}, []))
    out.append(c("slurm", {"cmd": "$(LAUNCHER) app", "procs": 4}, [bare], kw={"nodes": 3, "procs": 6, "qos": "x", "reservation": "r"}))
    return out


def run(ctx, escalated=False):
    quick = ctx.tier == "quick" and not escalated
    n = 3000 if quick else 80000
    root = tempfile.mkdtemp(prefix="c15_", dir=ctx.scratch)
    cases = []
    try:
        for d in corpus():
            cases.append(make_case(d, root))
        cases.extend(reuse_corpus(root))
        k = 0
        while k < n:
            d = gen_case(ctx.rng, ctx.rng.random() < 0.2)
            cases.append(make_case(d, root))
            k += 1
            if ctx.rng.random() < 0.35 and d["adapter"] != "local":
                # a study: several steps through one adapter instance (the
                # script of a step must not depend on the steps written before)
                shared = {}
                group = [d]
                for j in range(ctx.rng.randint(2, 4)):
                    e = gen_case(ctx.rng, False)
                    for key in ("adapter", "kw", "fargs", "envuri"):
                        e[key] = d[key]
                    if e["adapter"] == "flux" and e["run"].get("walltime") == "00:59:30.5":
                        e["run"]["walltime"] = "00:59:30"
                    e["nth"] = j + 1
                    group.append(e)
                for e in group[1:]:
                    cases.append(make_case(e, root, shared))
                    k += 1
                ctx.count("adapter-reuse-groups")
    finally:
        shutil.rmtree(root, ignore_errors=True)
    for c in cases:
        d = c.data
        ctx.count("adapter:" + d["adapter"])
        ctx.count("outcome:" + (c.impl_out[0].split(" ")[0] if not c.impl_out[0].startswith("ok")
                                else ("scheduled" if d["impl"]["scheduled"] else "local")))
        if d["tokens"]:
            ctx.count("tokens:%d" % min(len(d["tokens"]), 3))
        ctx.count("stream:" + ("malformed" if d["malformed"] else "admitted"))
        if "flux_request" in d:
            ctx.count("flux-job-specifications:" + d["flux_request"].get("how", "raised"))
    diffs = compare(cases)
    account(ctx, cases)
    judge(ctx, cases, diffs, "script-generation", max_report=4)


def reuse_corpus(root):
    """deterministic: a resource-heavy step followed by a light one through the
    same adapter instance"""
    out = []
    base = {"fargs": {}, "envuri": None, "desc": "d", "malformed": False, "rtokens": []}
    for ad in ("slurm", "lsf", "flux"):
        kw = {"type": ad, "host": "h", "bank": "b", "queue": "q"}
        heavy = dict(base, adapter=ad, kw=kw, name="heavy", tokens=[],
                     run={"cmd": "app", "nodes": 2, "procs": 8, "walltime": "02:00:00", "gpus": 2,
                          "reservation": "dat", "exclusive": True, "qos": "high"})
        light = dict(base, adapter=ad, kw=kw, name="light", tokens=[], nth=2,
                     run={"cmd": "app", "nodes": 1, "procs": 1})
        shared = {}
        out.append(make_case(heavy, root, shared))
        out.append(make_case(light, root, shared))
        out.append(make_case(dict(heavy, nth=3), root, shared))
    return out
