"""C11 - Expanding the same specification is repeatable.

Every generated specification is loaded and staged in >=4 fresh interpreter
processes with different PYTHONHASHSEED values and different output roots; the
root-neutral serialisations (instance order and names, adjacency lists in
order, dependency sets, relative workspaces, expanded texts, attached
parameters *in order*, status listing order, script texts) must be identical,
and equal to the model's expansion.  Hash randomisation is a runtime behaviour
the model abstracts as a permutation oracle: this part of the check samples it."""
import json
import os
import subprocess
import sys

import expprop
import studysim as SS
from corr import Case, compare, judge, account
from common import VERIF

LEVEL = "proof"
RULE = ("generated specifications (as for C08) staged in 4 (quick) / 8 (thorough) "
        "fresh processes with PYTHONHASHSEED in {0,1,2,...,random} and different "
        "output roots; non-trivial = >=2 used parameters or a funnel dependency; "
        "distinct = distinct specifications")


def run_workers(ctx, jobs, seeds, mode="stage", base_mode=None):
    outs = []
    procs = []
    for i, seed in enumerate(seeds):
        base = os.path.join(ctx.scratch, "w%d-%s" % (i, base_mode or mode))
        if i % 2 == 1 and base_mode is None:
            # output roots of very different lengths (the expansion may not depend on them)
            base = os.path.join(base, "deep" + "x" * 60, "er" + "y" * 60)
        os.makedirs(base, exist_ok=True)
        env = dict(os.environ, PYTHONHASHSEED=str(seed))
        p = subprocess.Popen([sys.executable, os.path.join(VERIF, "harness", "stage_worker.py"), mode, base],
                             stdin=subprocess.PIPE, stdout=subprocess.PIPE, stderr=subprocess.PIPE,
                             text=True, env=env)
        procs.append(p)
    for p in procs:
        o, e = p.communicate(json.dumps(jobs), timeout=3000)
        if p.returncode != 0:
            raise RuntimeError("stage worker failed: " + e[-800:])
        outs.append(json.loads(o))
    return outs


def decorate(rng, spec):
    """Half of the studies get their scripts from a scheduler adapter: the steps are given resource
    requests and a $(LAUNCHER) token so that batch headers and launcher lines (built from dicts and
    sets of keys) are part of what has to be repeatable.  Changes `spec` in place; returns the
    batch block."""
    which = rng.choice(["local", "local", "slurm", "slurm", "lsf", "flux"])
    if which == "local":
        return {"type": "local"}
    batch = {"type": which, "host": "h", "bank": "b", "queue": "q"}
    if rng.random() < 0.4:
        batch["nodes"] = 2
    for s in spec["study"]:
        run = s["run"]
        for key in ("nodes", "procs", "walltime"):
            if isinstance(run.get(key), str):
                run.pop(key)          # a parameter token as a count is C15's subject
        if rng.random() < 0.8:
            run["procs"] = rng.choice([1, 2, 4, 8])
            if rng.random() < 0.6:
                run["nodes"] = rng.choice([1, 2])
            for key, values in (("cores per task", [1, 2, 4]), ("gpus", [1, 2]), ("walltime", ["00:10:00", "30"]),
                                ("exclusive", [True]), ("reservation", ["r1"]), ("qos", ["standby"]),
                                ("tasks per rs", [1, 2]), ("rs per node", [1, 2]), ("bind", ["rs"])):
                if rng.random() < 0.4:
                    run[key] = rng.choice(values)
            if rng.random() < 0.7:
                run["cmd"] = "$(LAUNCHER) " + run["cmd"]
            if run.get("restart") and rng.random() < 0.7:
                run["restart"] = "$(LAUNCHER)[%dp] " % rng.choice([1, 2]) + run["restart"]
    return batch


def run(ctx, escalated=False):
    quick = ctx.tier == "quick" and not escalated
    n = 120 if quick else 2500
    seeds = [0, 1, 2, "random"] if quick else [0, 1, 2, 3, 7, 42, 12345, "random"]
    cases = []
    jobs = []
    import studysim as SS
    for k in range(n):
        SS.PARAM_REFS = True
        try:
            c = expprop.one_case(ctx, k, adversarial=False, pgen=False)
        finally:
            SS.PARAM_REFS = False
        if c is None or c.dag is None:
            continue
        c.data["id"] = "j%d" % k
        spec = json.loads(json.dumps(c.data["spec"]))
        spec["env"]["variables"].pop("OUTPUT_PATH", None)
        batch = decorate(ctx.rng, spec)
        c.data["script_batch"] = batch
        if batch["type"] != "local":
            c.data["staged_spec"] = spec
        ctx.count("scripts:" + batch["type"])
        jobs.append({"id": c.data["id"], "spec": spec, "hash_ws": c.data["hash_ws"],
                     "rlimit": c.data["rlimit"], "scripts": True, "submit_order": True,
                     "script_batch": batch, "throttle": ctx.rng.choice([0, 0, 1, 2, 3])})
        cases.append(c)
    outs = run_workers(ctx, jobs, seeds)
    byid = [{item["id"]: item for item in o} for o in outs]
    for c in cases:
        items = [b[c.data["id"]] for b in byid]
        ref = items[0]
        c.nontrivial = len(c.data["params"]) >= 2 or any(
            "_*" in d for s in c.data["spec"]["study"] for d in s["run"].get("depends", []))
        for i, it in enumerate(items[1:], 1):
            for field in ("out", "ser", "order", "status_order", "params", "scripts", "submit_order"):
                if it.get(field) != ref.get(field):
                    c.monitor.append(("repeatable",
                                      "PYTHONHASHSEED=%s vs %s: '%s' differs: %s | %s"
                                      % (seeds[0], seeds[i], field,
                                         json.dumps(ref.get(field))[:160], json.dumps(it.get(field))[:160])))
                    break
            if c.monitor:
                break
        ctx.count("instances", len(ref.get("order", [])))
        if isinstance(ref.get("scripts"), str):
            ctx.count("scripts-refused:" + ref["scripts"].split(":")[1])
        elif ref.get("scripts"):
            ctx.count("scripts-written", len(ref["scripts"]))
    ctx.cov["processes"] = len(seeds)
    ctx.cov["hash_seeds"] = [str(s) for s in seeds]
    diffs = compare(cases)
    account(ctx, cases)
    judge(ctx, cases, diffs, "study-expansion")
