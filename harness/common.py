"""Shared machinery of the checks: translate -> build -> audit -> correspondence
-> monitors -> verdict -> evidence (DESIGN.md section 2.2)."""
import hashlib
import json
import os
import random
import re
import shutil
import subprocess
import sys
import tempfile
import time

VERIF = os.path.dirname(os.path.dirname(os.path.abspath(__file__)))
LEAN = os.path.join(VERIF, "lean")
REPO = os.environ.get("VERIF_REPO", "/repo")
DRIVER_BIN = os.path.join(LEAN, ".lake", "build", "bin", "driver")
ALLOWED_AXIOMS = {"propext", "Classical.choice", "Quot.sound"}
FORBIDDEN = re.compile(
    r"\bsorry\b|\badmit\b|^axiom\s|native_decide|bv_decide|implemented_by|"
    r"\bunsafe\s|maxHeartbeats\s+0\b")

TRUSTED_BASE = [
    "Lean 4.33.0 kernel",
    "axioms allowed: propext, Classical.choice, Quot.sound (audited by "
    "#print axioms on every property theorem, every run)",
    "harness/translate.py (tables regenerated from /repo on every run)",
    "harness correspondence check (generators, scripted scheduler, "
    "canonicalisers, differ)",
]


class ToolFailure(Exception):
    """A tool (lake, lean, driver) failed for reasons that are not a property
    verdict: exit code 2."""


def scratch_dir():
    base = "/dev/shm" if os.path.isdir("/dev/shm") else None
    return tempfile.mkdtemp(prefix="mverif-", dir=base)


def debug_logging(on):
    """Half of the generated cases run with debug logging switched on for the `maestrowf` loggers (as
    `maestro -d 1` does), half with logging off: what the code does must not depend on what it logs.
    Nothing is printed either way: the records stop at a NullHandler on the package's logger."""
    import logging
    lg = logging.getLogger("maestrowf")
    if not any(isinstance(h, logging.NullHandler) for h in lg.handlers):
        lg.addHandler(logging.NullHandler())
    lg.propagate = False
    # `logging.info(...)` on the root logger configures a stderr handler when there is none: keep a silent one
    # there, and drop whatever stream handler a command-line run left behind
    root = logging.getLogger()
    if not any(isinstance(h, logging.NullHandler) for h in root.handlers):
        root.addHandler(logging.NullHandler())
    for h in list(root.handlers):
        if type(h) is logging.StreamHandler:
            root.removeHandler(h)
    if on:
        logging.disable(logging.NOTSET)
        lg.setLevel(logging.DEBUG)
        logging.getLogger().setLevel(logging.WARNING)
    else:
        lg.setLevel(logging.WARNING)
        logging.disable(logging.CRITICAL)


_LOG_TURN = [0]


def next_logging():
    """alternate: debug logging on for every other case"""
    _LOG_TURN[0] += 1
    debug_logging(_LOG_TURN[0] % 2 == 0)


class Ctx:
    def __init__(self, prop, tier, seed):
        self.prop = prop
        self.tier = tier
        self.seed = seed
        self.rng = random.Random(seed)
        self.t0 = time.time()
        self.cov = {}
        self.assumptions = []
        self.violations = []        # (replay_path, what, nofail)
        self.known_hits = []        # (finding id, what)
        self.samples = []
        self.evaluations = 0
        self.distinct = set()
        self.notes = []
        self.broken = []            # names of proof obligations / correspondences that no longer check
        self._scratch = None

    @property
    def scratch(self):
        if self._scratch is None:
            self._scratch = scratch_dir()
        return self._scratch

    def cleanup(self):
        if self._scratch and os.path.isdir(self._scratch):
            shutil.rmtree(self._scratch, ignore_errors=True)
        self._scratch = None

    def sample(self, obj, limit=6):
        if len(self.samples) < limit:
            self.samples.append(obj)

    def count(self, key, n=1):
        d = self.cov.setdefault("distribution", {})
        d[key] = d.get(key, 0) + n


# --------------------------------------------------------------------------
# Lean side


def _run(cmd, cwd=None, timeout=3600, input=None):
    p = subprocess.run(cmd, cwd=cwd, stdout=subprocess.PIPE,
                       stderr=subprocess.STDOUT, timeout=timeout, input=input,
                       text=True)
    return p.returncode, p.stdout


def lake_build(targets, timeout=3600):
    """Returns (ok, log)."""
    rc, out = _run(["lake", "build"] + list(targets), cwd=LEAN,
                   timeout=timeout)
    return rc == 0, out


def prop_theorems(prop):
    """Names of the property theorems (and proved counterexamples) in
    Props/<prop>.lean."""
    path = os.path.join(LEAN, "MaestroVerif", "Props", prop + ".lean")
    src = open(path).read()
    src_nc = strip_lean_comments(src)
    ns = re.search(r"^namespace\s+(\S+)", src_nc, re.M)
    prefix = (ns.group(1) + ".") if ns else ""
    names = re.findall(r"^theorem\s+([A-Za-z0-9_.']+)", src_nc, re.M)
    return [prefix + n for n in names]


def strip_lean_comments(src):
    # remove block comments (nested not handled beyond one level) and line comments
    out = []
    i = 0
    depth = 0
    n = len(src)
    while i < n:
        if src.startswith("/-", i):
            depth += 1
            i += 2
        elif depth and src.startswith("-/", i):
            depth -= 1
            i += 2
        elif depth:
            i += 1
        elif src.startswith("--", i):
            j = src.find("\n", i)
            i = n if j < 0 else j
        else:
            out.append(src[i])
            i += 1
    return "".join(out)


def grep_forbidden():
    """Grep the Lean tree (outside comments) for forbidden constructs."""
    hits = []
    for root, _dirs, files in os.walk(LEAN):
        if ".lake" in root:
            continue
        for f in files:
            if not f.endswith(".lean"):
                continue
            p = os.path.join(root, f)
            src = strip_lean_comments(open(p).read())
            for ln, line in enumerate(src.split("\n"), 1):
                if FORBIDDEN.search(line):
                    hits.append("%s:%d:%s" % (os.path.relpath(p, VERIF), ln,
                                              line.strip()[:80]))
    return hits


def audit(prop, thorough=False):
    """#print axioms for every property theorem of `prop`.
    Returns dict name -> sorted axiom list.  Raises ToolFailure if lean fails
    to elaborate the audit file (the build succeeded before)."""
    names = prop_theorems(prop)
    os.makedirs(os.path.join(LEAN, "Audit"), exist_ok=True)
    apath = os.path.join(LEAN, "Audit", prop + ".lean")
    body = ["import MaestroVerif.Props." + prop, ""]
    for n in names:
        body.append('#print axioms %s' % n)
    txt = "\n".join(body) + "\n"
    if not os.path.exists(apath) or open(apath).read() != txt:
        open(apath, "w").write(txt)
    rc, out = _run(["lake", "env", "lean", apath], cwd=LEAN)
    if rc != 0:
        raise ToolFailure("audit failed:\n" + out[-2000:])
    res = {}
    # output: "'X' depends on axioms: [a, b]" or "'X' does not depend on any axioms"
    for m in re.finditer(
            r"'([^']+)' (?:depends on axioms: \[([^\]]*)\]|does not depend on any axioms)",
            out.replace("\n", " ")):
        ax = [a.strip() for a in (m.group(2) or "").split(",") if a.strip()]
        res[m.group(1)] = sorted(ax)
    missing = [n for n in names if n not in res]
    if missing:
        raise ToolFailure("audit output lacks: %s\n%s" % (missing, out[-1500:]))
    if thorough:
        rc, out = _run(["lake", "env", "leanchecker",
                        "MaestroVerif.Props." + prop], cwd=LEAN, timeout=3600)
        res["__leanchecker__"] = ["rc=%d" % rc, out[-300:]]
    return res


def driver(lines, timeout=3600):
    """Pipe operation lines to the Lean model driver, return output lines."""
    data = "\n".join(lines) + "\n"
    if os.path.exists(DRIVER_BIN):
        cmd = [DRIVER_BIN]
    else:
        cmd = ["lake", "env", "lean", "--run", "Driver.lean"]
    p = subprocess.run(cmd, cwd=LEAN, input=data, stdout=subprocess.PIPE,
                       stderr=subprocess.PIPE, text=True, timeout=timeout)
    if p.returncode != 0:
        raise ToolFailure("driver failed: " + p.stderr[-2000:])
    out = p.stdout.split("\n")
    if out and out[-1] == "":
        out.pop()
    if len(out) != len(lines):
        raise ToolFailure("driver answered %d lines for %d operations"
                          % (len(out), len(lines)))
    return out


# --------------------------------------------------------------------------
# known findings, replays, verdicts


def load_known():
    p = os.path.join(VERIF, "known_findings.json")
    if not os.path.exists(p):
        return []
    return json.load(open(p))["findings"]


def write_replay(ctx, obj):
    os.makedirs(os.path.join(VERIF, "replays"), exist_ok=True)
    blob = json.dumps(obj, sort_keys=True, indent=1, default=str)
    h = hashlib.sha256(blob.encode()).hexdigest()[:12]
    rel = os.path.join("replays", "%s-%s.json" % (ctx.prop, h))
    open(os.path.join(VERIF, rel), "w").write(blob + "\n")
    return rel


def violation(ctx, what, replay_obj, nofail=False):
    """Report a violation (unless it matches a known finding, which the caller
    checks with `known_match` first)."""
    replay_obj = dict(replay_obj)
    replay_obj.setdefault("property", ctx.prop)
    replay_obj.setdefault("what", what)
    replay_obj.setdefault("seed", ctx.seed)
    rel = write_replay(ctx, replay_obj)
    line = "VIOLATION property=%s replay=%s" % (ctx.prop, rel)
    if nofail:
        line += " no-failing-input-found"
    print(line, flush=True)
    print("  " + what, flush=True)
    ctx.violations.append((rel, what, nofail))


def known_finding(ctx, fid, what):
    if fid not in [k for k, _ in ctx.known_hits]:
        print("KNOWN-FINDING: property=%s %s" % (ctx.prop, what), flush=True)
        ctx.known_hits.append((fid, what))


COMMON_ASSUMPTIONS = [
    "Lean 4.33 kernel; axioms of every property theorem printed on this run and required to be within "
    "{propext, Classical.choice, Quot.sound}; no sorry/admit/axiom/native_decide in the Lean tree (grep on this run)",
    "the theorems are about the hand-written executable models in lean/MaestroVerif/Model and the tables "
    "regenerated from /repo on this run (harness/translate.py); the models are tied to the code by the "
    "correspondence run of this check, which samples inputs - it validates, it does not prove, the models",
]
EXEC_ASSUMPTIONS = [
    "job ids returned by submit are unique among live jobs; status answers are keyed by queried jobs (WFPoll)",
    "Python set iteration order is abstracted (only observable in check/cancel argument lists, compared sorted); "
    "logging and timestamps are not modelled",
]
STUDY_ASSUMPTIONS = [
    "PyYAML, str(), md5 are oracles of the expansion model; regular expressions modelled for ASCII names",
]
PER_PROP = {
    "C05": ["termination is proved on acyclic configurations for polls that answer every tracked job with FINISHED / "
            "FAILED / UNKNOWN / CANCELLED, and - when every restartable step has a finite restart limit - also "
            "TIMEDOUT; answers that never end a job (RUNNING forever, lost jobs, endless HWFAILURE re-queues, "
            "unlimited restarts) are outside the theorems and monitored on the real code"],
    "C12": ["filelock / OS mutual exclusion and atomicity of a single write are trusted (sampled by the stress run)"],
    "C13": ["documents are parsed trees (PyYAML collapses duplicate mapping keys before the code sees them); "
            "jsonschema Draft 7 modelled for the keywords the schema file uses; file-system dependent failures "
            "(missing dependency paths) are outside the model"],
    "C15": ["Python str/int/float/format modelled for decimal ASCII spellings; fractional Flux walltimes are outside "
            "the model; the fake flux module only supplies a handle and a version string"],
    "C16": ["the vocabulary and alive/terminal classification of scheduler states is hand-entered from the "
            "schedulers' documentation (Model/SchedVocab.lean)",
            "`sacct --jobs=<ids>` returns accounting rows, among the conductor's own jobs, only for the ids asked "
            "about (hypothesis `Honest` of C16_squeue_answer_kept; the scripted sacct of the correspondence keeps "
            "it: C16_accounting_contract)"],
    "C11": ["set iteration orders are abstracted as arbitrary permutation oracles; the model's stage() is proved "
            "independent of the oracle (C11_stage_order_independent); that the real iteration orders are "
            "permutations and that nothing else in the real stage() depends on the hash seed is what the "
            "multi-interpreter comparison samples; script generation by the adapters is compared, not modelled here"],
    "C18": ["dill / pickle / yaml fidelity is a library property checked by differential runs, not proved"],
    "C19": ["/bin/bash, the OS process model and the file system are sampled by end-to-end CLI runs"],
}


def assumptions_for(prop):
    out = list(COMMON_ASSUMPTIONS)
    if prop in ("C01", "C02", "C03", "C04", "C05", "C06", "C07", "C17", "C19", "C20"):
        out += EXEC_ASSUMPTIONS
    if prop in ("C08", "C09", "C10", "C11", "C18"):
        out += STUDY_ASSUMPTIONS
    return out + PER_PROP.get(prop, [])


def finish(ctx, level="proof", obligations=None, discharged=None,
           checker_cmd=None, rule="", explanation=None, extra=None):
    cov = dict(ctx.cov)
    cov["evaluations"] = int(ctx.evaluations)
    cov["distinct_nontrivial"] = len(ctx.distinct)
    cov["rule"] = rule
    cov["samples"] = ctx.samples or ["(no sample recorded)"]
    if obligations is not None:
        cov["obligations"] = obligations
        cov["discharged"] = discharged if discharged is not None else 0
        cov["checker_cmd"] = checker_cmd or "cd lean && lake build MaestroVerif.Props.%s && lake env lean Audit/%s.lean" % (ctx.prop, ctx.prop)
        cov["trusted_base"] = TRUSTED_BASE + ctx.cov.get("trusted_extra", [])
    if explanation:
        cov["explanation"] = explanation
    cov["known_findings_hit"] = [k for k, _ in ctx.known_hits]
    cov["broken_obligations"] = ctx.broken
    cov["notes"] = ctx.notes
    cov.pop("trusted_extra", None)
    if extra:
        cov.update(extra)
    ev = {
        "property_id": ctx.prop,
        "tier": ctx.tier,
        "seed": int(ctx.seed),
        "level": level,
        "coverage": cov,
        "assumptions": ctx.assumptions or assumptions_for(ctx.prop),
        "wall_s": round(time.time() - ctx.t0, 2),
        "violations": len(ctx.violations),
    }
    os.makedirs(os.path.join(VERIF, "evidence"), exist_ok=True)
    with open(os.path.join(VERIF, "evidence", ctx.prop + ".json"), "w") as f:
        json.dump(ev, f, indent=1, default=str)
        f.write("\n")
    ctx.cleanup()
    return 1 if ctx.violations else 0


# --------------------------------------------------------------------------
# proof step shared by all checks


def lean_imports(module, seen=None):
    """transitive `import MaestroVerif.*` closure of a module of the library"""
    seen = set() if seen is None else seen
    if module in seen:
        return seen
    seen.add(module)
    path = os.path.join(LEAN, *module.split(".")) + ".lean"
    if os.path.exists(path):
        for m in re.findall(r"^import\s+(MaestroVerif\.[A-Za-z0-9_.]+)", open(path).read(), re.M):
            lean_imports(m, seen)
    return seen


def translation_breaks(ctx, tinfo):
    """a table that could not be regenerated from the source leaves a stale
    Gen file behind: every theorem that depends on it is no longer shown to
    hold for the current code"""
    deps = lean_imports("MaestroVerif.Props." + ctx.prop) | lean_imports("Driver")
    bad = []
    for name, info in (tinfo or {}).items():
        if isinstance(info, dict) and "error" in info and ("MaestroVerif.Gen." + name) in deps:
            bad.append("translation of Gen/%s.lean from the source failed (%s)" % (name, info["error"][:160]))
    return bad


def proof_step(ctx, extra_targets=()):
    """translate (done by caller) -> build -> grep -> audit.
    Returns (ok, info).  ok=False means a proof obligation no longer checks;
    the caller must then search for a failing input."""
    targets = ["MaestroVerif.Props." + ctx.prop, "driver"] + list(extra_targets)
    ok, log = lake_build(targets)
    info = {"build_ok": ok}
    if not ok:
        errs = re.findall(r"error: ([^\n]*)", log)
        files = sorted(set(re.findall(r"(MaestroVerif/[A-Za-z0-9_/]+\.lean):\d+:\d+: error", log)))
        info["errors"] = errs[:10]
        info["files"] = files
        ctx.broken.append("lake build MaestroVerif.Props.%s failed in %s: %s"
                          % (ctx.prop, files, errs[:3]))
        ctx.cov["proof"] = info
        return False, info
    hits = grep_forbidden()
    if hits:
        info["forbidden"] = hits
        ctx.broken.append("forbidden construct in Lean tree: %s" % hits[:3])
        ctx.cov["proof"] = info
        return False, info
    ax = audit(ctx.prop, thorough=(ctx.tier == "thorough"))
    bad = {n: a for n, a in ax.items()
           if not n.startswith("__") and not set(a) <= ALLOWED_AXIOMS}
    info["theorems"] = {n: a for n, a in ax.items() if not n.startswith("__")}
    if "__leanchecker__" in ax:
        info["leanchecker"] = ax["__leanchecker__"]
        if ax["__leanchecker__"][0] != "rc=0":
            ctx.broken.append("leanchecker rejected MaestroVerif.Props.%s" % ctx.prop)
            ctx.cov["proof"] = info
            return False, info
    if bad:
        info["bad_axioms"] = bad
        ctx.broken.append("theorems depend on unexpected axioms: %s" % bad)
        ctx.cov["proof"] = info
        return False, info
    ctx.cov["proof"] = info
    return True, info
