"""Scripted subprocess and fake `flux` module for driving the real scheduler
adapters without a scheduler (harness side only; nothing in /repo is touched)."""
import types


class FakeProc:
    def __init__(self, out, err, rc, binary=False, pid=4242):
        self._out, self._err, self._rc = out, err, rc
        self._binary = binary
        self.pid = pid

    def communicate(self):
        if self._binary:
            return self._out.encode("utf-8"), self._err.encode("utf-8")
        return self._out, self._err

    def wait(self):
        return self._rc


class Subprocess:
    """Answers `start_process(cmd, ...)` / `Popen(cmd, ...)` from a script:
    `answers` maps a command-name prefix to (stdout, stderr, rc)."""

    def __init__(self):
        self.answers = {}
        self.calls = []
        self.filters = {}

    def set(self, **answers):
        self.answers = answers
        self.calls = []
        self.filters = {}

    def _answer(self, cmd, binary):
        text = cmd if isinstance(cmd, str) else " ".join(cmd)
        self.calls.append(text)
        name = text.split()[0]
        out, err, rc = self.answers.get(name, ("", "no script for %s" % name, 127))
        if name in self.filters:
            out = self.filters[name](text, out)
        return FakeProc(out, err, rc, binary)

    def start_process(self, cmd, cwd=None, env=None, shell=True):
        return self._answer(cmd, False)

    def Popen(self, cmd, **kwargs):
        return self._answer(cmd, True)


SUB = Subprocess()


def sacct_reply(own_ids):
    """The `--jobs=<req>` contract of `sacct` (Model/Sched.lean `acctReply`): of the scripted
    accounting text, rows whose job field is one of the conductor's own job ids come back only
    for the ids the command line asks about; every other row is returned whatever the request."""
    import re
    own = set(own_ids)

    def reply(cmd, out):
        m = re.search(r"--jobs=(\S*)", cmd)
        req = set(m.group(1).split(",")) if m else set()
        rows = out.split("\n")
        keep = rows[:2]
        for r in rows[2:]:
            jid = re.split(r"\s+", r)[0]
            if jid in own and jid not in req:
                continue
            keep.append(r)
        return "\n".join(keep)
    return reply


def install_subprocess():
    import maestrowf.interfaces.script.slurmscriptadapter as slurm
    import maestrowf.interfaces.script.lsfscriptadapter as lsf
    slurm.start_process = SUB.start_process
    lsf.Popen = SUB.Popen
    slurm.getpass = types.SimpleNamespace(getuser=lambda: "user")
    lsf.getpass = types.SimpleNamespace(getuser=lambda: "user")


# ---------------------------------------------------------------------------
# fake flux


class _JobID:
    def __init__(self, jid):
        self.f58 = str(jid)
        self._int = abs(hash(str(jid))) % (10 ** 9)

    def __int__(self):
        return self._int

    def __str__(self):
        return self.f58


class _JobInfo:
    def __init__(self, jid, abbrev):
        self.id = _JobID(jid)
        self.status_abbrev = abbrev


class FluxWorld:
    def __init__(self):
        self.answers = []       # [(job id, status abbrev)]
        self.errors = []
        self.cancelled = []
        self.cancel_raises = set()
        self.queried = None
        self.submitted = []     # [{"how", "command", "args", "attrs", "waitable", "urgency"}]
        self.next_id = "f1"
        self.submit_raises = None


FLUX = FluxWorld()


class _JobList:
    def __init__(self, handle, ids=None):
        FLUX.queried = [str(i) for i in (ids or [])]
        self.errors = list(FLUX.errors)

    def jobs(self):
        return [_JobInfo(j, a) for j, a in FLUX.answers]


class _Handle:
    def attr_get(self, name):
        return "0.49.0"


def _cancel(handle, jobid):
    if jobid in FLUX.cancel_raises:
        raise RuntimeError("cannot cancel")
    FLUX.cancelled.append(jobid)


class _Jobspec:
    """records what the adapter asks Flux for"""

    def __init__(self, how, command, args):
        object.__setattr__(self, "rec", {"how": how, "command": list(command), "args": dict(args),
                                         "attrs": {}, "system": {}})

    @classmethod
    def from_nest_command(cls, command, **args):
        return cls("nest", command, args)

    @classmethod
    def from_command(cls, command, **args):
        return cls("command", command, args)

    def setattr(self, key, value):
        self.rec["system"][key] = value

    def __setattr__(self, key, value):
        self.rec["attrs"][key] = value


def _submit(handle, jobspec, waitable=False, urgency=16):
    if FLUX.submit_raises is not None:
        raise FLUX.submit_raises
    FLUX.submitted.append(dict(jobspec.rec, waitable=waitable, urgency=urgency))
    return _JobID(FLUX.next_id)


def make_flux():
    flux = types.ModuleType("flux")
    flux.Flux = _Handle
    job = types.ModuleType("flux.job")
    lst = types.ModuleType("flux.job.list")
    lst.JobList = _JobList
    job.list = lst
    job.JobID = _JobID
    job.cancel = _cancel
    job.JobspecV1 = _Jobspec
    job.submit = _submit
    flux.job = job
    return flux


def install_flux():
    import maestrowf.abstracts.interfaces.flux as aflux
    import maestrowf.interfaces.script._flux.flux0_49_0 as f49
    fake = make_flux()
    aflux.flux = fake
    f49.flux = fake
    f49.FluxInterface_0490.flux_handle = None
    return fake
