"""Study-level correspondence: specification generator, real loading/staging
path (the one `maestro run` takes), canonical serialisation of the staged
ExecutionGraph, model lines for Model/Expand.lean, and the declarative
expansion monitor (C08) / substitution oracle (C09) / workspace monitor (C10).
"""
import hashlib
import io
import itertools
import os
import re

import yaml

STEP_NAMES = ["pre", "run", "post", "sim", "ana", "merge", "a", "b", "c-1", "x_y",
              # names that already look like script files
              "run.sh", "a.sh", "b.slurm.sh", "pre.lsf.sh"]
PARAM_NAMES = ["P", "PRESSURE", "X", "XY", "SIZE", "ITER", "T", "MESH-SIZE", "DT-MAX",
               "P2", "P10", "P02", "RUN1", "RUN01"]
WORDS = ["echo", "cp", "out.txt", "-n", "4", "&&", "|", "ls", "./sim", "--flag", ">", "log", "'q'",
         "\"dq\"", "a/b", "x=1", "$HOME", "${P}", "$(date)", "$(PX)", "$(P_1)", "100%", "#c"]


def hx(s):
    return "_".join("%x" % ord(c) for c in s) or "-"


# --------------------------------------------------------------------------
# generation


def gen_value(rng, kind):
    if kind == "int":
        return rng.choice([1, 2, 3, 10, 42, 0, -1])
    if kind == "float":
        return rng.choice([0.5, 1.0, 2.25, 1e-3, 100.0, 3.14])
    if kind == "str":
        return rng.choice(["a", "b", "low", "high", "v1", "x.y", "A_B", "a.sh", "v1.sh", "low.slurm.sh"])
    if kind == "dots":
        # distinct values made of characters the path sanitiser keeps; they differ in their dot runs
        return rng.choice([".5", "5", "..5", "0.5", "0..5", "5.", "5..", "0...5"])
    return rng.choice(["a b", "+1", "1", "p/q", "pq", "é", "..", "a,b", "x;y", "q'r"])


PARAM_REFS = False      # C11 only: a parameter whose values mention another parameter's token


def gen_params(rng, adversarial):
    n = rng.choice([0, 0, 1, 1, 2, 2, 3, 4])
    if n == 0:
        return {}
    rows = rng.choice([1, 2, 2, 3, 4])
    names = rng.sample(PARAM_NAMES, n)
    long_labels = n >= 3 and rng.random() < 0.25
    params = {}
    for k in names:
        kind = rng.choice(["int", "float", "str", "str", "dots", "mixed", "nf"] + (["adv"] if adversarial else []))
        vals = [gen_value(rng, kind) for _ in range(rows)]
        if kind == "nf":
            # different strings that are canonically equivalent (composed / decomposed spellings)
            vals = rng.sample(["caf\u00e9", "cafe\u0301", "\u00c5ngstr\u00f6m", "A\u030angstro\u0308m", "cafe", "Angstrom"], 4)[:rows]
        if kind == "mixed":
            # one column holding values that are equal as Python objects but are written differently
            vals = rng.sample(rng.choice([[1, 1.0, 2, True], [0, 0.0, False, 3], [2, 2.0, "2", 2.5],
                                          [1, "1", 1.0, "1.0"]]), 4)[:rows]
        if kind == "dots":
            vals = rng.sample([".5", "5", "..5", "0.5", "0..5", "5.", "5..", "0...5"], rows)
        if rng.random() < 0.2:
            vals = [vals[0]] * rows
        r = rng.random()
        if long_labels:
            # descriptive labels: combination strings of a couple of hundred characters
            label = "%s_%s.%%%%" % ("descriptive_label_of_parameter" + "_" * 14, k)
        elif r < 0.6:
            label = "%s.%%%%" % k
        else:
            label = rng.choice(["%%", "L%%", "%s_%%%%" % k.lower(), "v-%%"])
        # (the schema admits only string labels and no `name`; label lists and
        # custom names are reachable through a custom generator, see pgen_variant)
        params[k] = {"values": vals, "label": label}
    if PARAM_REFS and n >= 2 and rng.random() < 0.35:
        # outside what C09 calls documented, but an expansion all the same: which of the two tokens is
        # replaced first is the code's choice - it has to be the same choice every time
        a, b = rng.sample(names, 2)
        params[a] = {"values": ["%s-$(%s)" % (rng.choice(["coarse", "fine", "x"]), b) + ("" if i == 0 else str(i))
                                for i in range(rows)], "label": "%s.%%%%" % a}
    if not long_labels and rng.random() < 0.12:
        # one parameter whose labels run to 70-130 characters (a long flag string or path as value)
        k = rng.choice(names)
        long_v = ["-O2 -g -fno-signed-zeros -ffast-math -funroll-loops -march=native -DNDEBUG -DVARIANT=%d" % i
                  + (" -DPAD=" + "x" * 40 if rng.random() < 0.3 else "") for i in range(rows)]
        params[k] = {"values": long_v, "label": "%s.%%%%" % k}
    return params


def pgen_variant(rng, study):
    """what a custom ParameterGenerator (pgen) may do and the YAML cannot:
    per-row label lists and custom names"""
    pg = study.parameters
    for k in list(pg.parameters.keys()):
        r = rng.random()
        n = len(pg.parameters[k])
        if r < 0.3:
            pg.labels[k] = ["l%d%s" % (i, rng.choice(["", "x", ".y"])) for i in range(n)]
        if rng.random() < 0.3:
            pg.names[k] = k.lower() + "_name"


def gen_text(rng, params, prev_steps, env_tokens, allow_ws=True):
    parts = []
    for _ in range(rng.randint(1, 7)):
        r = rng.random()
        if r < 0.35:
            parts.append(rng.choice(WORDS))
        elif r < 0.6 and params:
            k = rng.choice(list(params))
            parts.append(rng.choice(["$(%s)", "$(%s.label)", "$(%s.name)", "$(%s)", "x$(%s)y"]) % k)
        elif r < 0.72 and prev_steps and allow_ws:
            parts.append("$(%s.workspace)%s" % (rng.choice(prev_steps), rng.choice(["", "/out", "/x.dat"])))
        elif r < 0.8:
            parts.append("$(WORKSPACE)" + rng.choice(["", "/res"]))
        elif r < 0.92 and env_tokens:
            parts.append("$(%s)" % rng.choice(env_tokens))
        else:
            parts.append(rng.choice(WORDS))
        if "$(" in parts[-1] and rng.random() < 0.25:
            # a token inside shell syntax that itself uses `$(` / brackets (command substitution,
            # arithmetic, backticks, quoting): still a defined token, still to be replaced
            parts[-1] = rng.choice(["$(expr %s + 1)", "$(dirname %s)", "$((%s * 2))", "`cat %s`", "\"%s\"",
                                    "$(basename %s .dat)", "(%s)", "$(echo %s | wc -c)", "[%s]",
                                    "$(ls %s %s)"]).replace("%s", parts[-1])
    return " ".join(parts)


def gen_spec(rng, root, adversarial=False, dep_dir=None):
    params = gen_params(rng, adversarial)
    nsteps = rng.randint(1, 6)
    names = rng.sample(STEP_NAMES, nsteps)
    if nsteps >= 2 and rng.random() < 0.12:
        # a step named like another step's script file
        names[1] = names[0] + rng.choice([".sh", ".sh", ".slurm.sh", "lsf.sh"])
    variables = {"OUTPUT_PATH": root}
    labels = {}
    env_tokens = []
    for v in rng.sample(["VAR1", "CODE", "N", "OPT"], rng.randint(0, 3)):
        variables[v] = rng.choice(["val", 7, "/usr/bin/x", "a b", 2.5])
        env_tokens.append(v)
    if env_tokens and rng.random() < 0.5:
        labels["LBL"] = "pre-$(%s)-post" % rng.choice(env_tokens)
        env_tokens.append("LBL")
    if params and rng.random() < 0.3:
        labels["PLBL"] = "out.$(%s).dat" % rng.choice(list(params))
        env_tokens.append("PLBL")
    if rng.random() < 0.25:
        # a label built on the output path: `maestro run` replaces the path the
        # specification wrote by the real (absolute / -o) one before anything is expanded
        labels["OLBL"] = "$(OUTPUT_PATH)/shared"
        variables["OUTPUT_PATH"] = "./studies/as_written"
        env_tokens.append("OLBL")
    if "OLBL" not in labels and rng.random() < 0.3:
        # the output directory comes from `-o`: the specification does not mention OUTPUT_PATH, so the
        # environment may hold no string variable at all before its first label
        variables.pop("OUTPUT_PATH")
    deps = {}
    if dep_dir and rng.random() < 0.4:
        deps = {"paths": [{"name": "DEP", "path": dep_dir}]}
        env_tokens.append("DEP")
        if rng.random() < 0.4:
            # the documented use of a label: a path below a dependency
            labels["DLBL"] = "$(DEP)/bin/tool"
            env_tokens.append("DLBL")
    steps = []
    ancestors = {}
    for i, nm in enumerate(names):
        prev = names[:i]
        depends = []
        for p in prev:
            r = rng.random()
            if r < 0.3:
                depends.append(p)
            elif r < 0.45:
                depends.append(p + "_*")
            elif r < 0.5:
                # the same parent in both forms: its own combination's instance, and all of them
                depends.extend(rng.sample([p, p + "_*"], 2))
        # workspace references are only valid for steps staged earlier, i.e.
        # (transitive) dependencies; a few references to unrelated steps
        # exercise the "used before it would be generated" error
        anc = set()
        for d in depends:
            b = d.replace("_*", "")
            anc.add(b)
            anc |= ancestors.get(b, set())
        ancestors[nm] = anc
        refs = sorted(anc) if rng.random() < 0.93 else prev
        run = {"cmd": gen_text(rng, params, refs, env_tokens)}
        if depends:
            run["depends"] = depends
        if rng.random() < 0.35:
            run["restart"] = gen_text(rng, params, refs, env_tokens)
            if rng.random() < 0.12:
                run["restart"] = rng.choice([" ", "  \n", "\t"])      # a restart command all the same
        if rng.random() < 0.3:
            run["nodes"] = rng.choice([1, 2] + (["$(%s)" % rng.choice(list(params))] if params else []))
        if rng.random() < 0.3:
            run["procs"] = rng.choice([1, 4, 16] + (["$(%s)" % rng.choice(list(params))] if params else []))
        if rng.random() < 0.2:
            run["walltime"] = rng.choice(["00:10:00", "30", "$(%s)" % rng.choice(list(params)) if params else "1:00"])
        steps.append({"name": nm,
                      "description": rng.choice(["step %s" % nm, "uses $(%s)" % rng.choice(list(params))
                                                 if params and rng.random() < 0.3 else "d"]),
                      "run": run})
    spec = {"description": {"name": "study", "description": "generated"},
            "env": {"variables": variables},
            "study": steps}
    if labels:
        spec["env"]["labels"] = labels
    if deps:
        spec["env"]["dependencies"] = deps
    if params:
        spec["global.parameters"] = params
    return spec


# --------------------------------------------------------------------------
# the real path


def load_study(spec, root, hash_ws=False, rlimit=1, throttle=0, attempts=1, use_tmp=False, dry=False):
    """YAML text -> YAMLSpecification -> environment/steps/parameters -> Study,
    exactly as `maestro run` does (maestro.py:run_study)."""
    from maestrowf.specification.yamlspecification import YAMLSpecification
    from maestrowf.datastructures.core import Study
    from maestrowf.datastructures.environment import Variable
    text = yaml.safe_dump(spec, sort_keys=False)
    yspec = YAMLSpecification.load_specification_from_stream(io.StringIO(text))
    environment = yspec.get_study_environment()
    steps = yspec.get_study_steps()
    environment.remove("OUTPUT_PATH")
    environment.add(Variable("OUTPUT_PATH", root))
    environment.add(Variable("SPECROOT", root))
    parameters = yspec.get_parameters()
    study = Study(yspec.name, yspec.description, studyenv=environment, parameters=parameters,
                  steps=steps, out_path=root)
    study.setup_workspace()
    study.configure_study(throttle=throttle, submission_attempts=attempts, restart_limit=rlimit,
                          use_tmp=use_tmp, hash_ws=hash_ws, dry_run=dry)
    study.setup_environment()
    return yspec, study


def all_strings(obj, out):
    if isinstance(obj, str):
        if obj:
            out.append(obj)
    elif isinstance(obj, list):
        for x in obj:
            all_strings(x, out)
    elif isinstance(obj, dict):
        for x in obj.values():
            all_strings(x, out)


def extras_of(run):
    return [(k, v) for k, v in run.items()
            if k not in ("cmd", "restart", "depends") and isinstance(v, str) and v]


def abstract_steps(study):
    """the steps as Study.add_step left them (environment applied)"""
    out = []
    for name, st in study.values.items():
        if name == "_source":
            continue
        texts = []
        all_strings(st.__dict__, texts)
        dep = st.run.get("depends") or []
        out.append({"name": st.real_name, "cmd": st.run["cmd"], "restart": st.run["restart"] or "",
                    "depends": list(dep), "texts": texts, "extras": extras_of(st.run)})
    return out


def abstract_params(study):
    pg = study.parameters
    out = []
    for k in pg.parameters.keys():
        lab = pg.labels[k]
        out.append({"key": k, "name": str(pg.names[k]),
                    "tmpl": None if isinstance(lab, list) else lab,
                    "labels": [str(x) for x in lab] if isinstance(lab, list) else [],
                    "values": [str(v) for v in pg.parameters[k]]})
    return out


def md5_table(study):
    pg = study.parameters
    keys = list(pg.parameters.keys())
    table = {}
    for combo in pg.get_combinations():
        for r in range(1, len(keys) + 1):
            for sub in itertools.combinations(keys, r):
                s = combo.get_param_string(set(sub))
                table[s] = hashlib.md5(s.encode("utf-8")).hexdigest()
    return table


def serialize(dag):
    insts = []
    for key, r in dag.values.items():
        if key == "_source":
            continue
        ps = "&".join("%s=%s" % (hx(str(k)), hx(str(v))) for k, v in r.params.items())
        ex = "&".join("%s=%s" % (hx(k), hx(v)) for k, v in extras_of(r.step.run))
        insts.append("%s|%s|%s|%s|%s|%d|%s|%s" % (
            hx(r.name), hx(r.step.name), hx(r.workspace.value), hx(r.step.run["cmd"]),
            hx(r.step.run["restart"] or ""), r.restart_limit, ps, ex))
    adj = ";".join("%s:%s" % (hx(k), ",".join(hx(c) for c in v)) for k, v in dag.adjacency_table.items())
    deps = ";".join("%s:%s" % (hx(k), ",".join(hx(c) for c in sorted(v)))
                    for k, v in dag._dependencies.items())
    return "ok insts=%s adj=%s deps=%s" % (";".join(insts), adj, deps)


def stage_real(study):
    try:
        _path, dag = study.stage()
        return serialize(dag), dag
    except RecursionError:
        return "RAISE:RecursionError", None
    except KeyError:
        return "RAISE:KeyError", None
    except ValueError:
        return "RAISE:ValueError", None
    except Exception:  # noqa  (the two bare `Exception`s of study.py / dag.py)
        return "RAISE:Exception", None


def tables_real(study, staged_out):
    """the tables `_stage` leaves behind (`used_params`, `step_combos`, `hub_depends`, `depends`,
    `workspaces`), keys and members sorted; the staging error when there was one"""
    if not staged_out.startswith("ok"):
        return staged_out

    def by_key(d):
        return ";".join("%s:%s" % (hx(k), ",".join(hx(str(x)) for x in sorted(str(y) for y in d[k])))
                        for k in sorted(d))
    ws = ";".join("%s:%s" % (hx(k), hx(study.workspaces[k])) for k in sorted(study.workspaces))
    return "ok used=%s combos=%s hub=%s depends=%s ws=%s" % (
        by_key(study.used_params), by_key(study.step_combos), by_key(study.hub_depends),
        by_key(study.depends), ws)


def model_lines(root, hash_ws, rlimit, params, steps, md5):
    lines = ["exp.begin root=%s hash=%d rlimit=%d" % (hx(root), int(hash_ws), rlimit)]
    for p in params:
        if p["tmpl"] is None:
            lab = "labels=%s" % ",".join(hx(x) for x in p["labels"])
        else:
            lab = "tmpl=%s" % hx(p["tmpl"])
        lines.append("exp.param key=%s name=%s %s vals=%s" % (
            hx(p["key"]), hx(p["name"]), lab, ",".join(hx(v) for v in p["values"])))
    for s in steps:
        lines.append("exp.step name=%s cmd=%s restart=%s deps=%s texts=%s extras=%s" % (
            hx(s["name"]), hx(s["cmd"]), hx(s["restart"]), ",".join(hx(d) for d in s["depends"]),
            ",".join(hx(t) for t in s["texts"]),
            ",".join("%s:%s" % (hx(k), hx(v)) for k, v in s["extras"])))
    if md5:
        lines.append("exp.md5 " + ",".join("%s:%s" % (hx(k), hx(v)) for k, v in md5.items()))
    lines.append("exp.stage")
    return lines


# --------------------------------------------------------------------------
# monitors


SIMPLE_WS = re.compile(r"\$\(([\w.-]+)\.workspace\)")      # step names may hold dots (`run.sh`)


LAST_DECLARED = {"edges": None}       # the edges the specification declares (set by the last judged expansion)


def expansion_monitor(params, steps, dag, hash_ws):
    """C08: the declarative expansion evaluated independently on the real graph.
    Returns (violations, judged)."""
    mon = []
    LAST_DECLARED["edges"] = None
    keys = [p["key"] for p in params]
    nrows = len(params[0]["values"]) if params else 0

    def label(p, r):
        if p["tmpl"] is None:
            return p["labels"][r]
        return p["tmpl"].replace("%%", p["values"][r])
    byname = {s["name"]: s for s in steps}
    if len(byname) != len(steps):
        return mon, False
    used = {}
    order = [s["name"] for s in steps]   # specification order is a topological order here
    for nm in order:
        s = byname[nm]
        direct = set(k for k in keys if any(("$(%s)" % k) in t or ("$(%s.label)" % k) in t or
                                            ("$(%s.name)" % k) in t for t in s["texts"]))
        hub = set(d.replace("_*", "").replace("*", "") for d in s["depends"] if "*" in d)
        deps = [d for d in s["depends"] if "*" not in d]
        u = set(direct)
        for d in deps:
            if d not in used:
                return mon, False
            u |= used[d]
        for w in SIMPLE_WS.findall(s["cmd"] + " " + s["restart"]):
            if w not in used:
                return mon, False
            if w not in hub:
                u |= used[w]
        used[nm] = u

    def inst(nm, r):
        if not used[nm]:
            return nm
        ps = {p["key"]: p for p in params}
        return nm + "_" + ".".join(label(ps[k], r) for k in sorted(used[nm]))
    exp_nodes = {}
    for nm in order:
        rows = range(nrows) if used[nm] else [0]
        for r in rows:
            exp_nodes.setdefault(inst(nm, r), (nm, r))
    # NamesInjective: distinct value tuples give distinct names, no two (step, value tuple) classes
    # share a name.  Where they do, the code merges them into one node (known finding
    # C08-name-collision): reported as such, the rest of the expansion is then not judged.
    owners = {}
    for nm in order:
        if used[nm]:
            for r in range(nrows):
                t = tuple(ps_val(params, k, r) for k in sorted(used[nm]))
                owners.setdefault(inst(nm, r), set()).add((nm, t))
        else:
            owners.setdefault(nm, set()).add((nm, ()))
    clash = sorted((n, sorted(v, key=repr)) for n, v in owners.items() if len(v) > 1)
    if clash:
        n, who = clash[0]
        classes = sum(len(v) for v in owners.values())
        real = [k for k in dag.values if k != "_source"]
        if len(real) < classes:
            def show(c):
                return "%s%s" % (c[0], dict(zip(sorted(used[c[0]]), c[1])) if c[1] else "")
            mon.append(("sharing-exact", "cause=instance-name-collision: %s and %s are different (step, used-"
                        "parameter values) classes but are both called %r: %d nodes for %d classes"
                        % (show(who[0]), show(who[1]), n, len(real), classes)))
        return mon, True
    real_nodes = [k for k in dag.values if k != "_source"]
    if sorted(real_nodes) != sorted(exp_nodes):
        mon.append(("instances", "instances %s, expected %s" % (sorted(real_nodes), sorted(exp_nodes))))
        return mon, True
    exp_edges = set()
    for nm in order:
        s = byname[nm]
        hub = [d.replace("_*", "").replace("*", "") for d in s["depends"] if "*" in d]
        deps = [d for d in s["depends"] if "*" not in d]
        rows = range(nrows) if used[nm] else [0]
        for r in rows:
            me = inst(nm, r)
            if not hub and not deps:
                exp_edges.add(("_source", me))
            for d in deps:
                exp_edges.add((inst(d, r), me))
            for h in hub:
                hrows = range(nrows) if used[h] else [0]
                for r2 in hrows:
                    exp_edges.add((inst(h, r2), me))
    LAST_DECLARED["edges"] = set(exp_edges)
    real_edges = set((p, c) for p, cs in dag.adjacency_table.items() for c in cs)
    if real_edges != exp_edges:
        mon.append(("edges", "extra %s missing %s" % (sorted(real_edges - exp_edges)[:4],
                                                     sorted(exp_edges - real_edges)[:4])))
    for c in real_nodes:
        want = set(p for p, cc in exp_edges if cc == c)
        if set(dag._dependencies[c]) != want:
            mon.append(("dependencies", "%s waits for %s, expected %s"
                        % (c, sorted(dag._dependencies[c]), sorted(want))))
            break
    for c in real_nodes:
        nm, r = exp_nodes[c]
        want = {k: ps_val(params, k, r) for k in used[nm]}
        got = {str(k): str(v) for k, v in dag.values[c].params.items()}
        if got != want:
            mon.append(("params-attached", "%s carries %s, expected %s" % (c, got, want)))
            break
    return mon, True


def ps_val(params, k, r):
    for p in params:
        if p["key"] == k:
            return p["values"][r]
    return None


VALID = "-_.() " + "abcdefghijklmnopqrstuvwxyz" + "ABCDEFGHIJKLMNOPQRSTUVWXYZ" + "0123456789"


def _san(s):
    """the documented behaviour of make_safe_path on one component (monitor-side)"""
    return "".join(c for c in s if c in VALID).replace(" ", "_")


def workspace_monitor(root, dag, scripts=None, hash_ws=False):
    """C10: pairwise distinct workspaces strictly inside the root; script paths
    distinct and inside their workspace (when generated without --usetmp).
    The detail text classifies the cause so that known findings match only
    their own input class."""
    mon = []
    seen = {}
    rroot = os.path.normpath(root)
    tag = "hashws=%s" % bool(hash_ws)
    for key, r in dag.values.items():
        if key == "_source":
            continue
        raw = r.workspace.value
        ws = os.path.normpath(raw)
        if ws in seen:
            other = seen[ws]
            def degenerate(path):
                return any(c in ("", ".", "..") for c in path[len(root):].lstrip("/").split("/"))
            if _san(other) == _san(key):
                cause = "names-differ-only-in-stripped-characters"
            elif degenerate(raw) or degenerate(dag.values[other].workspace.value):
                # 'a/..' and 'b/..' both normalise to the study root
                cause = "component-sanitises-to-empty-or-dots"
            else:
                cause = "other"
            mon.append(("distinct-workspaces", "%s cause=%s: instances %r and %r share workspace %s"
                        % (tag, cause, other, key, ws)))
        seen[ws] = key
        rel = raw[len(root):].lstrip("/").split("/") if raw.startswith(root) else None
        if rel is None:
            mon.append(("inside-root", "%s cause=other: workspace of %r is %s, root %s" % (tag, key, raw, root)))
        elif any(c in ("", ".", "..") for c in rel) or len(rel) not in (1, 2):
            mon.append(("inside-root", "%s cause=component-sanitises-to-empty-or-dots: workspace of %r is %s"
                        % (tag, key, raw)))
        elif not (ws.startswith(rroot + os.sep) and ws != rroot):
            mon.append(("inside-root", "%s cause=other: workspace of %r is %s, root %s" % (tag, key, ws, rroot)))
    if scripts:
        sp = {}
        for key, (ws, script, tmp) in scripts.items():
            if script in sp:
                mon.append(("distinct-scripts", "%s usetmp=%s: instances %r and %r share script %s"
                            % (tag, bool(tmp), sp[script], key, script)))
            sp[script] = key
            if not tmp and os.path.dirname(os.path.normpath(script)) != os.path.normpath(ws):
                mon.append(("writes-inside", "%s: script of %r is %s, workspace %s" % (tag, key, script, ws)))
    return mon
