"""Starts the real `maestro` command line with time.sleep stubbed (nothing else
is touched): usage  cli_launcher.py <maestro args...>"""
import sys
import time

time.sleep = lambda *_a, **_k: None
import runpy  # noqa: E402

sys.argv = ["maestro"] + sys.argv[1:]
runpy.run_module("maestrowf.maestro", run_name="__main__")
