"""Execution-graph correspondence: scenario generator, real-code runner, model
lines, and the property monitors for C01-C07, C17, C20 (DESIGN.md section 6).

A scenario is generated *against the running implementation* (reports are
drawn for the steps that are in flight at that poll), recorded as a list of
operations, and then replayed on the Lean model.  Everything random comes from
the one PRNG passed in.
"""
import os
import shutil

import scripted as S
from corr import Case

TERMINAL = ("FINISHED", "FAILED", "TIMEDOUT", "HWFAILURE", "UNKNOWN",
            "CANCELLED")
NONTERMINAL = ("PENDING", "RUNNING", "FINISHING", "WAITING", "QUEUED",
               "NOTFOUND", "INCOMPLETE", "INITIALIZED")
UNSUCCESSFUL_STATES = ("FAILED", "CANCELLED", "UNKNOWN")


# --------------------------------------------------------------------------
# scenario generation


def gen_dag(rng, n):
    """Edges (parent, child) over 0.._n, 0 = _source; every node has a parent;
    acyclic (parents have smaller index)."""
    shape = rng.choice(["chain", "fan", "funnel", "diamond", "layered",
                        "random", "random", "forest"])
    edges = []
    if shape == "chain":
        for i in range(1, n + 1):
            edges.append((i - 1, i))
    elif shape == "fan":
        edges.append((0, 1))
        for i in range(2, n + 1):
            edges.append((1, i))
    elif shape == "funnel":
        for i in range(1, n):
            edges.append((0, i))
        if n >= 2:
            for i in range(1, n):
                edges.append((i, n))
        else:
            edges.append((0, 1))
    elif shape == "diamond" and n >= 4:
        edges += [(0, 1), (1, 2), (1, 3), (2, 4), (3, 4)]
        for i in range(5, n + 1):
            edges.append((rng.randint(1, i - 1), i))
    elif shape == "forest":
        for i in range(1, n + 1):
            edges.append((rng.choice([0, 0, max(0, i - 1)]), i))
    else:
        for i in range(1, n + 1):
            k = rng.choice([1, 1, 2, 3])
            ps = set()
            for _ in range(k):
                ps.add(rng.randint(0, i - 1))
            if 0 in ps and len(ps) > 1:
                ps.discard(0)
            for p in sorted(ps):
                edges.append((p, i))
    # Study.stage adds a step's edges when the step is processed (children in
    # processing order); keep that order
    edges.sort(key=lambda e: (e[1], e[0]))
    return edges


def gen_scenario(rng, maxn=8):
    n = rng.randint(1, maxn)
    scn = {
        "n": n,
        "edges": [list(e) for e in gen_dag(rng, n)],
        "sched": [1 if rng.random() < 0.8 else 0 for _ in range(n)],
        "restart": [1 if rng.random() < 0.4 else 0 for _ in range(n)],
        "rlimit": rng.choice([0, 1, 1, 2, 2, 3]),
        "throttle": rng.choice([0, 0, 1, 2, 2, 3]),
        "attempts": rng.choice([1, 1, 2, 3]),
        "dry": 1 if rng.random() < 0.05 else 0,
        "subs": [0 if rng.random() < 0.1 else 1 for _ in range(rng.randint(0, 40))],
    }
    if rng.random() < 0.25:
        scn["names"] = "short"      # single-letter names beside long names that hold those letters
    return scn


REPORT_WEIGHTS = [
    ("omit", 10), (None, 6), ("PENDING", 6), ("RUNNING", 14), ("FINISHING", 3),
    ("WAITING", 2), ("QUEUED", 2), ("FINISHED", 26), ("FAILED", 6),
    ("TIMEDOUT", 10), ("HWFAILURE", 5), ("UNKNOWN", 3), ("CANCELLED", 3),
    ("NOTFOUND", 1), ("INCOMPLETE", 1), ("INITIALIZED", 1), ("DRYRUN", 1),
]


def _weighted(rng, table):
    tot = sum(w for _, w in table)
    r = rng.random() * tot
    for v, w in table:
        r -= w
        if r <= 0:
            return v
    return table[-1][0]


def gen_op(rng, inflight, fair, scn, restarts):
    """Draw the next operation given the steps currently in flight."""
    if not fair and not scn["dry"] and rng.random() < 0.03:
        return {"op": "cancel", "rc": "OK" if rng.random() < 0.6 else "ERROR"}
    if fair:
        reports = []
        for i in inflight:
            choices = [("FINISHED", 14), ("FAILED", 2), ("CANCELLED", 1),
                       ("UNKNOWN", 1)]
            has_r = scn["restart"][i - 1]
            if not has_r or scn["rlimit"] > 0:
                choices.append(("TIMEDOUT", 3))
            reports.append([i, _weighted(rng, choices)])
        rng.shuffle(reports)
        return {"op": "poll", "code": "OK", "reports": reports}
    r = rng.random()
    code = "OK"
    nj, er = (0.2, 0.35) if scn.get("faulty") else (0.05, 0.07)
    if r < nj:
        code = "NOJOBS"
    elif r < er:
        code = "ERROR"
    reports = []
    for i in inflight:
        st = _weighted(rng, REPORT_WEIGHTS)
        if st == "omit":
            continue
        reports.append([i, st])
    rng.shuffle(reports)
    return {"op": "poll", "code": code, "reports": reports}


# --------------------------------------------------------------------------
# running a scenario on the real ExecutionGraph


class Obs:
    """Observable snapshot after an operation."""
    __slots__ = ("op", "ret", "events", "state", "jobs", "restarts", "dump",
                 "raw_events", "inflight_before")


def snapshot(g, n):
    state = {}
    jobs = {}
    restarts = {}
    for i in range(1, n + 1):
        r = g.values[S.sname(i)]
        state[i] = r.status.name
        jobs[i] = int(r.jobid[-1]) if r.jobid else 0
        restarts[i] = r.restarts
    return state, jobs, restarts


def run_scenario(scn, root, rng=None, ops=None, max_ops=40, fair_from=None):
    """Run on the real code.  Either `ops` (replay; reports for steps that are
    not in flight are dropped) or `rng` (generate) must be given.
    Returns (ops_executed, [Obs])."""
    S.install()
    g = S.build_graph(scn, root)
    # the order in which the status table lists the instances (`status_subtree`), for the first line
    try:
        S.WORLD.status_order = ",".join(str(S.sidx(k)) for k in g.status_subtree)
    except RecursionError:
        S.WORLD.status_order = "X"
    n = scn["n"]
    via = scn.get("via")
    if via:
        import random as _random
        import viasched
        S.WORLD.via = via
        S.WORLD.via_rng = _random.Random(scn.get("via_seed", 0))
        can_say = viasched.expressible(via)
    trace = []
    done_ops = []
    k = 0
    finished = False
    if fair_from is None and rng is not None:
        fair_from = rng.randint(0, max_ops - 8)
    fair_budget = None
    while not finished:
        inflight = sorted(S.sidx(x) for x in g.in_progress)
        if ops is not None:
            if k >= len(ops):
                break
            op = dict(ops[k])
            if op["op"] == "poll":
                op["reports"] = [r for r in op["reports"] if r[0] in inflight]
        else:
            fair = k >= fair_from
            if fair and fair_budget is None:
                # potential at the start of the fair tail (DESIGN C05)
                _, _, rs = snapshot(g, n)
                unresolved = [i for i in range(1, n + 1)
                              if S.sname(i) not in g.completed_steps
                              and S.sname(i) not in g.failed_steps
                              and S.sname(i) not in g.cancelled_steps]
                phi = len(unresolved)
                for i in unresolved:
                    if scn["restart"][i - 1] and scn["rlimit"] > 0:
                        phi += max(0, scn["rlimit"] - rs[i])
                fair_budget = 2 * phi + 3
            if fair:
                if fair_budget <= 0:
                    o = Obs()
                    o.op = {"op": "nonterminating"}
                    o.ret = "NONTERMINATION"
                    o.events = ""
                    o.raw_events = []
                    o.state, o.jobs, o.restarts = snapshot(g, n)
                    o.dump = ""
                    o.inflight_before = inflight
                    trace.append(o)
                    break
                fair_budget -= 1
            elif k >= max_ops:
                break
            restarts = None
            op = gen_op(rng, inflight, fair, scn, restarts)
            if via and op["op"] == "poll":
                # a state the scheduler has no word for cannot be reported: nothing is said about the job
                op["reports"] = [[i, st if st in can_say else None] for i, st in op["reports"]]
        if via and op["op"] == "poll":
            # a real adapter answers in the order it was asked (the graph's own iteration order over
            # the tracked steps), not in the order the scheduler listed the jobs
            asked = [S.sidx(x) for x in g.in_progress]
            op["reports"] = sorted(op["reports"], key=lambda r: asked.index(r[0]) if r[0] in asked else -1)
        o = Obs()
        o.op = op
        o.inflight_before = inflight
        if op["op"] == "poll":
            ret, ev = S.do_poll(g, op["code"], [tuple(r) for r in op["reports"]])
        else:
            ret, ev = S.do_cancel(g, op.get("rc", "OK"))
        o.ret = ret
        o.events = ev
        o.raw_events = list(S.WORLD.events)
        o.state, o.jobs, o.restarts = snapshot(g, n)
        o.dump = S.dump_state(g, n)
        trace.append(o)
        done_ops.append(op)
        k += 1
        if op["op"] == "poll" and ret in ("FINISHED", "FAILURE", "CANCELLED"):
            finished = True
        if ret.startswith("RAISE") and op["op"] == "poll":
            # the conductor dies on the RuntimeError; the graph object may
            # still be polled (e.g. a restarted conductor): keep going
            pass
    return done_ops, trace


def merge_calls(events):
    """an operation may put its question (or its cancel request) to the scheduler in several calls: what
    counts is what it asked about altogether.  All `check` events of the operation become one, at the
    place of the first; likewise the `cancel` events."""
    out, at = [], {}
    for ev in events:
        if ev[0] in ("check", "cancel"):
            if ev[0] in at:
                old = out[at[ev[0]]]
                out[at[ev[0]]] = (ev[0], tuple(sorted(set(old[1]) | set(ev[1])))) + (
                    (tuple(sorted(set(old[2]) | set(ev[2]))),) if len(old) > 2 and len(ev) > 2 else ())
                continue
            at[ev[0]] = len(out)
        out.append(ev)
    return out


def model_lines(scn, ops):
    def bits(l):
        return "".join(str(int(b)) for b in l)
    head = ("exec.graph n=%d edges=%s sched=%s restart=%s rlimit=%d throttle=%d "
            "attempts=%d dry=%d subs=%s" % (
                scn["n"], ",".join("%d>%d" % (p, c) for p, c in scn["edges"]),
                bits(scn["sched"]), bits(scn["restart"]), scn["rlimit"],
                scn["throttle"], scn["attempts"], scn["dry"],
                bits(scn.get("subs", []))))
    lines = [head]
    for op in ops:
        if op["op"] == "cancel":
            lines.append("exec.cancel")
        else:
            reps = ",".join("%d:%s" % (i, "-" if st is None else st)
                            for i, st in op["reports"]) or "-"
            lines.append("exec.poll %s %s" % (op["code"], reps))
    return lines


def impl_lines(trace):
    out = ["ok order=%s" % getattr(S.WORLD, "status_order", "")]
    for o in trace:
        if o.ret == "NONTERMINATION":
            continue
        out.append("ret=%s ev=%s %s" % (o.ret, o.events, o.dump))
    return out


# --------------------------------------------------------------------------
# monitors: the properties stated directly on the implementation's observable
# trace (adapter calls, reported answers, per-step state / job / restart
# columns, returned verdicts)


def descendants(scn):
    ch = {}
    for p, c in scn["edges"]:
        ch.setdefault(p, []).append(c)
    memo = {}

    def rec(i):
        if i in memo:
            return memo[i]
        out = set()
        for c in ch.get(i, []):
            out.add(c)
            out |= rec(c)
        memo[i] = out
        return out
    return {i: rec(i) for i in range(0, scn["n"] + 1)}


def parents(scn):
    pa = {i: set() for i in range(0, scn["n"] + 1)}
    for p, c in scn["edges"]:
        pa[c].add(p)
    return pa


def monitors(scn, trace):
    """Returns {property id: [(clause, detail), ...]}."""
    n = scn["n"]
    V = {p: [] for p in ("C01", "C02", "C03", "C04", "C05", "C06", "C07",
                         "C17", "C20")}

    def bad(p, clause, detail):
        if len(V[p]) < 4:
            V[p].append((clause, detail))

    desc = descendants(scn)
    par = parents(scn)
    anc = {i: set(a for a in range(1, n + 1) if i in desc[a])
           for i in range(1, n + 1)}
    throttle = scn["throttle"]
    dry = bool(scn["dry"])
    live = {}            # job -> step   (scheduler jobs submitted, not yet answered terminal)
    job_of = {}          # step -> latest scheduler job
    succeeded = set()    # steps observed successfully complete (FINISHED answer / local ok / dry)
    ever_submitted = set()
    unsuccessful_at = {}  # step -> op index at which it became unsuccessful
    cancel_requested_at = None
    restart_rounds = {i: 0 for i in range(1, n + 1)}
    requeued = set()     # reported HWFAILURE, waiting for resubmission
    root_causes = set()  # own bad report or failed submission attempt
    finished_state_at = {}
    resolved_bad_at = {}
    prev = None
    for k, o in enumerate(trace):
        op = o.op
        if o.ret == "NONTERMINATION":
            bad("C05", "terminates",
                "fair continuation did not terminate within the potential bound; "
                "states=%s live=%s" % (o.state, sorted(live.values())))
            if cancel_requested_at is None:
                for i in range(1, n + 1):
                    if not ((anc[i] | {i}) & set(unsuccessful_at)) and o.state[i] != "FINISHED" \
                            and not dry:
                        bad("C02", "unrelated-run-to-completion",
                            "step %d depends on no unsuccessful step but is left %s and the study "
                            "never completes (states %s)" % (i, o.state[i], o.state))
                        break
            break
        is_poll = op["op"] == "poll"
        code = op.get("code")
        reported = {}
        if is_poll and code == "OK" and not dry:
            for i, st in op["reports"]:
                reported[i] = st
        timedout_now = set(i for i, st in reported.items() if st == "TIMEDOUT")
        hw_now = set(i for i, st in reported.items() if st == "HWFAILURE")
        # ---- walk the events of this operation in order
        restart_round_seen = set()
        rounds_before = dict(restart_rounds)
        succeeded_at_stage = set(succeeded)
        for ev in merge_calls(o.raw_events):
            kind = ev[0]
            if kind == "check":
                # answers are delivered by this call: update the ledger
                queried = set(S.sidx(x) for x in ev[1])
                if dry:
                    bad("C17", "no-poll", "check_jobs called in a dry run")
                if set(live.values()) != queried:
                    bad("C04", "tracked-jobs",
                        "op %d: check_jobs queried steps %s but the live jobs belong to %s"
                        % (k, sorted(queried), sorted(set(live.values()))))
                elif len(ev) > 2 and set(ev[2]) != set(live):
                    bad("C04", "tracked-jobs",
                        "op %d: check_jobs asked about jobs %s but the live jobs are %s: %s"
                        % (k, sorted(ev[2]), sorted(live),
                           "; ".join("step %d has live job %d, Maestro follows job(s) %s" % (
                               s_, j_, [q for q in ev[2] if q not in live])
                               for j_, s_ in sorted(live.items()) if j_ not in ev[2])))
                for i, st in reported.items():
                    if st in TERMINAL:
                        j = job_of.get(i)
                        if j in live:
                            del live[j]
                    if st == "FINISHED":
                        succeeded.add(i)
                    if st == "HWFAILURE":
                        requeued.add(i)
                    if st in ("FAILED", "UNKNOWN", "CANCELLED", "TIMEDOUT"):
                        root_causes.add(i)
                succeeded_at_stage = set(succeeded)
            elif kind == "gen":
                pass
            elif kind in ("submit", "local"):
                i = S.sidx(ev[1])
                which, okfail, job = ev[2], ev[3], ev[4]
                if dry:
                    bad("C17", "no-submit", "op %d: %s in a dry run" % (k, ev[:5]))
                # C01
                for p in par[i]:
                    if p != 0 and p not in succeeded:
                        bad("C01", "deps-succeeded",
                            "op %d: step %d handed to %s although its parent %d has "
                            "not completed successfully" % (k, i, kind, p))
                # C02 (a)
                for a in anc[i]:
                    if a in unsuccessful_at:
                        bad("C02", "no-dependent-runs",
                            "op %d: step %d submitted although its ancestor %d ended "
                            "unsuccessfully at op %d" % (k, i, a, unsuccessful_at[a]))
                # C04 (b)
                if i in finished_state_at:
                    bad("C04", "resolved-final",
                        "op %d: step %d submitted again after it was FINISHED at op %d"
                        % (k, i, finished_state_at[i]))
                if i in resolved_bad_at:
                    bad("C04", "resolved-final",
                        "op %d: step %d submitted again after it failed/was cancelled at op %d"
                        % (k, i, resolved_bad_at[i]))
                # C07
                if cancel_requested_at is not None:
                    bad("C07", "no-submit-after-cancel",
                        "op %d: %s of step %d after the cancel request of op %d"
                        % (k, kind, i, cancel_requested_at))
                # C06
                if which == "restart":
                    if not scn["restart"][i - 1]:
                        bad("C06", "restart-only-with-cmd",
                            "op %d: restart script of step %d submitted but it has no restart command" % (k, i))
                    if i not in timedout_now:
                        bad("C06", "restart-after-timeout",
                            "op %d: restart of step %d without a TIMEDOUT report for it in this poll" % (k, i))
                    if i not in restart_round_seen:
                        restart_round_seen.add(i)
                        restart_rounds[i] += 1
                        lim = scn["rlimit"]
                        if lim > 0 and restart_rounds[i] > lim:
                            bad("C06", "budget",
                                "op %d: step %d restarted %d times, limit %d"
                                % (k, i, restart_rounds[i], lim))
                else:
                    if i in timedout_now and i in ever_submitted and i not in hw_now:
                        bad("C06", "main-script-otherwise",
                            "op %d: timed-out step %d resubmitted with its main script" % (k, i))
                ever_submitted.add(i)
                requeued.discard(i)
                if okfail == "fail":
                    root_causes.add(i)
                if kind == "submit" and okfail == "ok":
                    # C04 (a)
                    if i in live.values():
                        bad("C04", "one-live-job",
                            "op %d: step %d gets job %d while job(s) %s of it are still live"
                            % (k, i, job, [j for j, s in live.items() if s == i]))
                    live[job] = i
                    job_of[i] = job
                    if throttle > 0 and len(live) > throttle:
                        bad("C03", "throttle",
                            "op %d: %d scheduler jobs live (%s) with throttle %d"
                            % (k, len(live), sorted(live.items()), throttle))
                if kind == "local" and okfail == "ok":
                    succeeded.add(i)
            elif kind == "cancel":
                ids = set(S.sidx(x) for x in ev[1])
                if dry:
                    pass
                if ids != set(live.values()):
                    bad("C07", "cancel-args",
                        "op %d: cancel_jobs got steps %s, live jobs belong to %s"
                        % (k, sorted(ids), sorted(set(live.values()))))
                elif len(ev) > 2 and set(ev[2]) != set(live):
                    bad("C07", "cancel-args",
                        "op %d: cancel_jobs got jobs %s, the live jobs are %s" % (k, sorted(ev[2]), sorted(live)))
                    bad("C04", "tracked-jobs",
                        "op %d: cancel_jobs got jobs %s, the live jobs are %s" % (k, sorted(ev[2]), sorted(live)))
        if op["op"] == "cancel":
            if o.ret != "ok":
                bad("C07", "cancel-never-raises",
                    "op %d: cancel_study raised %s" % (k, o.ret))
            if not any(ev[0] == "cancel" for ev in o.raw_events) and o.ret == "ok":
                bad("C07", "cancel-args", "op %d: cancel_jobs was not called" % k)
            if cancel_requested_at is None:
                cancel_requested_at = k
        # ---- states after the operation
        st = o.state
        if dry and is_poll:
            for i in range(1, n + 1):
                if st[i] not in ("INITIALIZED", "DRYRUN"):
                    bad("C17", "all-dryrun", "op %d: step %d in state %s in a dry run" % (k, i, st[i]))
        for i in range(1, n + 1):
            s_i = st[i]
            if dry and s_i == "DRYRUN":
                succeeded.add(i)
            if s_i == "FINISHED" and i not in finished_state_at:
                finished_state_at[i] = k
                if i not in succeeded and not dry:
                    bad("C01", "finished-only-on-success",
                        "op %d: step %d is FINISHED without a FINISHED report / successful local run" % (k, i))
            if i in finished_state_at and s_i != "FINISHED":
                bad("C04", "resolved-final",
                    "op %d: step %d was FINISHED at op %d and is now %s"
                    % (k, i, finished_state_at[i], s_i))
            has_live = i in live.values()
            uns = s_i in ("FAILED", "CANCELLED") or \
                (s_i in ("TIMEDOUT", "UNKNOWN") and not has_live and i not in requeued)
            if uns and i not in unsuccessful_at:
                unsuccessful_at[i] = k
            if s_i in ("FAILED", "CANCELLED") and i not in resolved_bad_at:
                resolved_bad_at[i] = k
            if i in resolved_bad_at and s_i not in ("FAILED", "CANCELLED", "TIMEDOUT"):
                bad("C04", "resolved-final",
                    "op %d: step %d was failed/cancelled at op %d and is now %s"
                    % (k, i, resolved_bad_at[i], s_i))
        # C02 (b): closure, for runs without a study-wide cancel request
        if cancel_requested_at is None and is_poll and not o.ret.startswith("RAISE"):
            for i, at in unsuccessful_at.items():
                for d in desc[i]:
                    if st[d] not in ("FAILED", "CANCELLED"):
                        bad("C02", "descendants-reported",
                            "op %d: step %d ended unsuccessfully at op %d but its dependent %d is %s"
                            % (k, i, at, d, st[d]))
            # C02 (c): no collateral damage
            for i in range(1, n + 1):
                if st[i] in ("FAILED", "CANCELLED", "TIMEDOUT", "UNKNOWN"):
                    if not ((anc[i] | {i}) & root_causes):
                        bad("C02", "no-collateral",
                            "op %d: step %d is %s although neither it nor any ancestor got a bad "
                            "report or a failed submission" % (k, i, st[i]))
        # C03 unthrottled: ready steps are submitted in the poll in which they become ready
        if throttle == 0 and is_poll and not dry and cancel_requested_at is None \
                and not o.ret.startswith("RAISE"):
            for i in range(1, n + 1):
                if st[i] == "INITIALIZED" and i not in ever_submitted and \
                        all(p == 0 or p in succeeded_at_stage for p in par[i]):
                    bad("C03", "unthrottled-immediate",
                        "op %d: step %d has all parents complete but was not submitted (no throttle)" % (k, i))
        if is_poll and o.ret.startswith("RAISE") and (dry or code != "ERROR"):
            # a pass of the loop that raises although the status query did not fail: the conductor dies there
            bad("C17" if dry else "C05", "all-generated" if dry else "terminates",
                "op %d: execute_ready_steps raised (%s) %s" % (
                    k, o.ret, "in a dry run: the steps not yet reached are never generated" if dry else
                    "although the status query answered %s: no verdict is ever returned" % code))
        # C20
        if is_poll and not dry and prev is not None:
            if code == "ERROR":
                if not o.ret.startswith("RAISE"):
                    bad("C20", "error-aborts", "op %d: query error but execute_ready_steps returned %s" % (k, o.ret))
                if (o.state, o.jobs, o.restarts) != (prev.state, prev.jobs, prev.restarts):
                    bad("C20", "error-aborts", "op %d: query error changed step states: %s -> %s" % (k, prev.state, o.state))
                if any(ev[0] in ("submit", "local", "gen") for ev in o.raw_events):
                    bad("C20", "error-aborts", "op %d: query error but something was submitted/generated" % k)
            elif code in ("OK", "NOJOBS"):
                for i in o.inflight_before:
                    rep = reported.get(i) if code == "OK" else None
                    if rep is None or rep in NONTERMINAL or rep == "DRYRUN":
                        # no information / not terminal: must stay tracked, not resolved
                        exp = prev.state[i]
                        if rep == "RUNNING":
                            exp = "RUNNING"
                        if o.state[i] != exp or o.jobs[i] != prev.jobs[i] or o.restarts[i] != prev.restarts[i]:
                            bad("C20", "missing-keeps-state",
                                "op %d (code %s, report %s): step %d went %s/job %s -> %s/job %s"
                                % (k, code, rep, i, prev.state[i], prev.jobs[i], o.state[i], o.jobs[i]))
        # verdicts
        if is_poll and o.ret in ("FINISHED", "FAILURE", "CANCELLED"):
            if live:
                bad("C04", "no-orphans",
                    "op %d: study returned %s while jobs %s are still live" % (k, o.ret, sorted(live.items())))
            allok = all(st[i] in ("FINISHED", "DRYRUN") for i in range(1, n + 1))
            anycanc = any(st[i] == "CANCELLED" for i in range(1, n + 1))
            if o.ret == "FINISHED" and not allok:
                bad("C05", "verdict-truthful", "op %d: FINISHED but states are %s" % (k, st))
            if o.ret == "FINISHED" and not dry:
                # "FINISHED only when every step finished successfully": by the scheduler's word (or the
                # exit code of a local run), not by Maestro's own table
                unproven = [i for i in range(1, n + 1) if i not in succeeded]
                if unproven:
                    bad("C05", "verdict-truthful", "op %d: FINISHED although the jobs of steps %s were never "
                        "reported FINISHED by the scheduler" % (k, unproven[:5]))
            if o.ret == "FINISHED" and cancel_requested_at is not None:
                bad("C05", "verdict-truthful", "op %d: FINISHED although a cancel was requested at op %d" % (k, cancel_requested_at))
            if allok and cancel_requested_at is None and o.ret != "FINISHED":
                bad("C05", "verdict-truthful", "op %d: every step finished but the verdict is %s" % (k, o.ret))
            if (cancel_requested_at is not None or anycanc) and o.ret != "CANCELLED":
                bad("C05", "verdict-truthful", "op %d: cancel requested / a job was cancelled but the verdict is %s" % (k, o.ret))
            if o.ret == "CANCELLED" and cancel_requested_at is None and not anycanc:
                bad("C05", "verdict-truthful", "op %d: CANCELLED without a cancel request or cancelled job" % k)
            if cancel_requested_at is None:
                for i in range(1, n + 1):
                    if all(a in finished_state_at or (dry and st[a] == "DRYRUN") for a in anc[i]) \
                            and i not in ever_submitted and not dry:
                        bad("C05", "runs-everything-runnable",
                            "op %d: study ended %s but step %d, whose dependencies all succeeded, was never run" % (k, o.ret, i))
            if cancel_requested_at is None and not dry:
                for i in range(1, n + 1):
                    if not ((anc[i] | {i}) & set(unsuccessful_at)) and st[i] != "FINISHED":
                        bad("C02", "unrelated-run-to-completion",
                            "op %d: study ended %s but step %d, which depends on no unsuccessful "
                            "step, is %s" % (k, o.ret, i, st[i]))
                        break
            if dry:
                if o.ret != "FINISHED":
                    bad("C17", "terminates-successfully", "dry run returned %s" % o.ret)
                for i in range(1, n + 1):
                    if st[i] != "DRYRUN":
                        bad("C17", "all-dryrun", "dry run ended with step %d in state %s" % (i, st[i]))
                gens = [S.sidx(ev[1]) for oo in trace[:k + 1] for ev in oo.raw_events if ev[0] == "gen"]
                if sorted(gens) != list(range(1, n + 1)):
                    bad("C17", "all-generated", "dry run generated scripts for %s, expected every step once" % sorted(gens))
        elif is_poll and o.ret == "RUNNING":
            if cancel_requested_at is not None and not live:
                bad("C07", "ends-cancelled",
                    "op %d: cancel requested at op %d, no job is live any more, but the study is still RUNNING"
                    % (k, cancel_requested_at))
        # C06: a timed-out step with a restart command and budget left is restarted
        if cancel_requested_at is None or (op["op"] == "cancel"):
            for i in sorted(timedout_now):
                if not scn["restart"][i - 1] or i not in o.inflight_before:
                    continue
                lim = scn["rlimit"]
                if (lim == 0 or rounds_before[i] < lim) and i not in restart_round_seen:
                    bad("C06", "restarted-within-budget",
                        "op %d: step %d timed out with %d of %s restarts used but its restart script was not "
                        "submitted (state %s)" % (k, i, rounds_before[i], lim or "unlimited", o.state[i]))
        # C06: restart count column
        for i in range(1, n + 1):
            if o.restarts[i] != restart_rounds[i]:
                bad("C06", "count-exact",
                    "op %d: Number Restarts of step %d is %d but %d restart rounds were attempted"
                    % (k, i, o.restarts[i], restart_rounds[i]))
            lim = scn["rlimit"] if scn["restart"][i - 1] else 0
            if lim > 0 and o.restarts[i] > lim:
                bad("C06", "budget", "op %d: Number Restarts of step %d is %d > limit %d" % (k, i, o.restarts[i], lim))
        prev = o
    return V


# --------------------------------------------------------------------------


def local_monitor(scn, trace):
    """C19 on an execution-graph trace: a locally executed step is run once per attempt, at most
    `attempts` times and not again after a success; its exit code decides (FINISHED / FAILED with every
    dependent FAILED by the end of the same poll); it runs only after its dependencies finished."""
    out = []
    desc = descendants(scn)
    for k, o in enumerate(trace):
        runs = {}
        for ev in o.raw_events:
            if ev[0] == "local":
                runs.setdefault(S.sidx(ev[1]), []).append(ev[3])
        for i, seq in runs.items():
            want_len_ok = len(seq) <= scn["attempts"] and all(x == "fail" for x in seq[:-1])
            if not want_len_ok or (seq[-1] == "fail" and len(seq) != scn["attempts"]):
                out.append(("run-count", "op %d: step %d was run with outcomes %s (attempts=%d)"
                            % (k, i, seq, scn["attempts"])))
            if seq[-1] == "ok" and o.state[i] != "FINISHED":
                out.append(("exit-code-decides", "op %d: step %d exited 0 but is %s" % (k, i, o.state[i])))
            if seq[-1] == "fail":
                wrong = [(j, o.state[j]) for j in sorted({i} | desc[i]) if o.state[j] != "FAILED"]
                if wrong:
                    out.append(("exit-code-decides", "op %d: step %d failed every attempt; not FAILED afterwards: %s"
                                % (k, i, wrong[:4])))
    return out[:4]


def make_case(scn, ops, trace, prop):
    allmon = monitors(scn, trace)
    if prop == "C19":
        mon = (local_monitor(scn, trace) + allmon.get("C01", []) + allmon.get("C05", []))[:4]
    else:
        mon = allmon.get(prop, [])
    nontrivial = any(o.op.get("reports") and any(
        st in ("FAILED", "TIMEDOUT", "HWFAILURE", "UNKNOWN", "CANCELLED", None)
        for _, st in o.op["reports"]) for o in trace if o.op["op"] == "poll") \
        or any(o.op["op"] == "cancel" for o in trace) \
        or any(o.op.get("code") in ("ERROR", "NOJOBS") for o in trace)
    data = {"scenario": scn, "ops": ops}
    c = Case(data, model_lines(scn, ops), impl_lines(trace), mon, nontrivial)
    c.trace = trace
    return c


def fresh_root(ctx):
    d = os.path.join(ctx.scratch, "ws")
    if os.path.isdir(d):
        shutil.rmtree(d, ignore_errors=True)
    os.makedirs(d, exist_ok=True)
    return d
