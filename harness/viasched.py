"""A real scheduler adapter between the scripted scheduler and the execution graph.

The scripted scheduler decides what the scheduler's state is (query code OK / NOJOBS /
ERROR and a state or nothing per queried job); this module writes that down as the text and
exit codes the real `squeue` / `sacct` / `bjobs` would produce for it, lets the real
SlurmScriptAdapter / LSFScriptAdapter `check_jobs` read it, and hands the adapter's answer
to the execution graph.  The composition adapter + graph is thereby compared with the
composition of the two models (Model/Sched.lean decides what the text means, Model/Exec.lean
what the graph does with it): the same `exec.poll <code> <reports>` line describes both.
Used by C20 (query faults end to end) and C16."""
import fakeenv
from translate import SCHED_VOCAB

_real = {}
_reverse = {}

# exit-code combinations (squeue, sacct) by the meaning the adapter must give them;
# sacct is only run when squeue left some job unanswered
SLURM_CODES = {
    "NOJOBS": [(1, 1)],
    "ERROR": [(2, 2), (127, 127), (255, 1), (1, 2), (1, 127), (130, 255), (2, 1)],
}
LSF_CODES = {"NOJOBS": [255, "nojob-text"], "ERROR": [1, 2, 127, 130]}


def real(which):
    if which not in _real:
        fakeenv.install_subprocess()
        if which == "slurm":
            from maestrowf.interfaces.script.slurmscriptadapter import SlurmScriptAdapter
            _real[which] = SlurmScriptAdapter(host="h", bank="b", queue="q")
        else:
            from maestrowf.interfaces.script.lsfscriptadapter import LSFScriptAdapter
            _real[which] = LSFScriptAdapter(host="h", bank="b", queue="q")
    return _real[which]


def reverse(which):
    """Maestro state name -> scheduler spellings that the real `_state` maps to it"""
    if which not in _reverse:
        ad = real(which)
        table = {}
        for w in SCHED_VOCAB[which]:
            table.setdefault(ad._state(w).name, []).append((w, "-"))
        if which == "lsf":
            # EXIT rows are refined by the termination reason before `_state` sees them
            table.setdefault(ad._state("TIMEOUT").name, []).append(
                ("EXIT", "TERM_RUNLIMIT: job killed after reaching LSF run time limit"))
            table.setdefault(ad._state("CANCELLED").name, []).append(("EXIT", "TERM_OWNER: job killed by owner"))
        _reverse[which] = table
    return _reverse[which]


def expressible(which):
    return set(reverse(which))


def _slurm(rng, joblist, code, status, own):
    ad = real("slurm")
    rev = reverse("slurm")
    sq_rows = ["             JOBID     NAME     USER ST"]
    sa_rows = ["JobID           JobName      State ExitCode ", "------------ ---------- ---------- -------- "]
    noise = str(10 ** 6 + rng.randint(1, 999))
    if code == "OK":
        sqrc, sarc = rng.choice([(0, 0), (0, 0), (0, 0), (0, 1), (0, 127), (2, 0), (1, 0)])
    else:
        sqrc, sarc = rng.choice(SLURM_CODES[code])
    if not joblist:
        # nothing to ask sacct about: the queue command alone decides
        sqrc = {"OK": 0, "NOJOBS": 1}.get(code, rng.choice([2, 127, 255]))
    for jid in joblist:
        st = status.get(jid)
        if st is None:
            if rng.random() < 0.3:
                sa_rows.append("%s.batch %s %s %s " % (jid, "batch".rjust(10), "COMPLETED".rjust(10), "0:0".rjust(8)))
            continue
        word = rng.choice(rev[st.name])[0]
        in_queue = sqrc == 0 and (sarc != 0 or rng.random() < 0.6)
        if in_queue:
            sq_rows.append("%s %s %s %s" % (jid.rjust(18), "name".rjust(8), "user".rjust(8), word.rjust(2)))
        else:
            sa_rows.append("%s %s %s %s " % (jid.ljust(12), "name".rjust(10), word.rjust(10), "0:0".rjust(8)))
            # the accounting record lists the job's steps after the job: rows of their own, with their
            # own states (a job that failed after its srun step completed, ...)
            for step in rng.sample([".batch", ".extern", ".0", ".1"], rng.choice([0, 0, 1, 2])):
                sa_rows.append("%s %s %s %s " % ((jid + step).ljust(12), "step".rjust(10),
                                                 rng.choice(["COMPLETED", "COMPLETED", "FAILED", "CANCELLED"]).rjust(10),
                                                 "0:0".rjust(8)))
    if rng.random() < 0.5:
        sq_rows.insert(1, "%s %s %s %s" % (noise.rjust(18), "other".rjust(8), "them".rjust(8), " R"))
    fakeenv.SUB.set(squeue=("\n".join(sq_rows) + "\n", "", sqrc), sacct=("\n".join(sa_rows) + "\n", "", sarc))
    fakeenv.SUB.filters["sacct"] = fakeenv.sacct_reply(own)
    return ad.check_jobs(list(joblist))


def _lsf(rng, joblist, code, status, own):
    ad = real("lsf")
    rev = reverse("lsf")
    rows = ["JOBID  |STAT |EXIT_CODE |EXIT_REASON"]
    rc = 0
    if code != "OK":
        rc = rng.choice(LSF_CODES[code])
    for jid in joblist:
        st = status.get(jid)
        if st is None:
            # nothing is said about the job - or a row that names it but carries no state
            # (a truncated / still-being-written line): no information either
            if rng.random() < 0.4:
                rows.append(rng.choice(["%s", "%s    |", "|%s|", "%s|"]) % jid)
            continue
        word, reason = rng.choice(rev[st.name])
        rows.append("%s|%s|%s|%s" % (jid.ljust(7), word.ljust(5), "-".ljust(10), reason))
    if rng.random() < 0.5:
        rows.insert(1, "%s|%s|%s|%s" % (str(10 ** 6 + rng.randint(1, 999)).ljust(7), "RUN  ", "-".ljust(10), "-"))
    out = "\n".join(rows) + "\n"
    if rc == "nojob-text":
        rc, out = 0, "No unfinished job found\n"
    fakeenv.SUB.set(bjobs=(out, "", rc))
    return ad.check_jobs(list(joblist))


def ask(which, rng, joblist, code, status, own):
    """`code`: JobStatusCode the scripted scheduler means; `status`: job id -> State | None.
    Returns what the real adapter makes of the corresponding scheduler output."""
    name = code.name
    if which == "slurm":
        return _slurm(rng, joblist, name, status, own)
    return _lsf(rng, joblist, name, status, own)
