"""Generic correspondence runner: real implementation vs Lean model driver."""
import json
import time

from common import driver, violation, known_finding, load_known


class Case:
    """One correspondence case.
    lines      : operation lines sent to the Lean driver
    impl_out   : canonical answers of the real implementation (same length)
    monitor    : list of (clause, detail) property violations observed on the
                 implementation's own trace (independent of the model)
    data       : JSON-able description (for replays / samples)
    nontrivial : bool, counted into distinct_nontrivial
    judged     : monitor applies (input inside the documented domain)
    """

    def __init__(self, data, lines, impl_out, monitor=(), nontrivial=True,
                 key=None):
        self.data = data
        self.lines = lines
        self.impl_out = impl_out
        self.monitor = list(monitor)
        self.nontrivial = nontrivial
        self.key = key if key is not None else json.dumps(data, sort_keys=True, default=str)


def compare(cases):
    """Run the model on all cases in one driver process.
    Returns list of (case, index_of_first_diff, impl_line, model_line)."""
    all_lines = []
    for c in cases:
        all_lines.extend(c.lines)
    if not all_lines:
        return []
    out = driver(all_lines)
    diffs = []
    pos = 0
    for c in cases:
        mo = out[pos:pos + len(c.lines)]
        pos += len(c.lines)
        c.model_out = mo
        for i, (a, b) in enumerate(zip(c.impl_out, mo)):
            if a != b:
                diffs.append((c, i, a, b))
                break
    return diffs


def match_known(prop, clause, detail, data):
    """Return the known finding entry matching this violation, if any."""
    for k in load_known():
        if k.get("kind") != "known" or k.get("property") != prop:
            continue
        m = k.get("match", {})
        if "clause" in m and m["clause"] != clause:
            continue
        if "detail_contains" in m and not all(
                s in detail for s in _aslist(m["detail_contains"])):
            continue
        if "detail_regex" in m:
            import re
            if not re.search(m["detail_regex"], detail):
                continue
        if "data_contains" in m:
            blob = json.dumps(data, sort_keys=True, default=str)
            if not all(s in blob for s in _aslist(m["data_contains"])):
                continue
        return k
    return None


def _aslist(x):
    return x if isinstance(x, list) else [x]


def judge(ctx, cases, diffs, corr_name, shrink=None, escalate=None,
          max_report=3):
    """Apply the verdict logic of DESIGN.md section 2.6.

    monitor violation  -> VIOLATION with the failing input (or KNOWN-FINDING)
    correspondence diff without monitor violation -> escalate search; if still
    nothing: VIOLATION ... no-failing-input-found naming the correspondence.
    """
    reported = 0
    seen = set()
    mon_cases = [c for c in cases if c.monitor]
    for c in mon_cases:
        for clause, detail in c.monitor:
            k = match_known(ctx.prop, clause, detail, c.data)
            if k is not None:
                known_finding(ctx, k["id"], k["what"])
                continue
            if (clause) in seen or reported >= max_report:
                continue
            seen.add(clause)
            cc = c
            if shrink is not None:
                try:
                    cc = shrink(c, clause) or c
                except Exception:  # shrinking is best effort
                    cc = c
            detail2 = detail
            if cc is not c:
                # the shrunk case carries its own wording of the same clause
                for cl, d in cc.monitor:
                    if cl == clause and match_known(ctx.prop, cl, d, cc.data) is None:
                        detail2 = d
                        break
            violation(ctx, "%s: %s" % (clause, detail2),
                      {"kind": "monitor", "clause": clause, "detail": detail2,
                       "case": cc.data, "impl_trace": cc.impl_out,
                       "model_trace": getattr(cc, "model_out", None)})
            reported += 1
    ctx.cov.setdefault("monitors", {})
    ctx.cov["monitors"]["cases_with_violation"] = len(mon_cases)
    ctx.cov.setdefault("correspondence", {})
    ctx.cov["correspondence"][corr_name] = {
        "cases": len(cases),
        "operations": sum(len(c.lines) for c in cases),
        "disagreements": len(diffs)}
    if diffs and not ctx.violations:
        # model and implementation disagree but no property violation seen
        found = False
        if escalate is not None:
            found = escalate()
        elif getattr(ctx, "rerun", None) is not None and \
                getattr(ctx, "search_rounds", 0) < (4 if ctx.tier == "quick" else 1):
            # the search for a failing input (DESIGN 2.6): the same exploration again on fresh inputs
            # (a new stream derived from the seed), a few rounds; the round that finds a violation of
            # the property reports it with its input, the last one reports no-failing-input-found
            import random
            ctx.search_rounds = getattr(ctx, "search_rounds", 0) + 1
            ctx.rng = random.Random(ctx.seed * 1000003 + ctx.search_rounds)
            ctx.cleanup()
            ctx.notes.append("correspondence '%s' differs (%d disagreements) and no explored input violates the "
                             "property: search round %d on fresh inputs" % (corr_name, len(diffs), ctx.search_rounds))
            ctx.rerun()
            return
        if not found and not ctx.violations:
            c, i, a, b = diffs[0]
            cc = c
            if shrink is not None:
                try:
                    cc = shrink(c, None) or c
                except Exception:
                    cc = c
            ctx.broken.append("correspondence %s" % corr_name)
            violation(ctx,
                      "correspondence '%s' no longer checks (model and "
                      "implementation differ at operation %d) and no input "
                      "violating the property was found" % (corr_name, i),
                      {"kind": "correspondence", "correspondence": corr_name,
                       "first_diff_op": i, "impl": a, "model": b,
                       "case": cc.data, "impl_trace": cc.impl_out,
                       "model_trace": getattr(cc, "model_out", None),
                       "disagreements": len(diffs)},
                      nofail=True)
    elif diffs:
        ctx.broken.append("correspondence %s (%d disagreements)"
                          % (corr_name, len(diffs)))


def account(ctx, cases):
    for c in cases:
        ctx.evaluations += 1
        if c.nontrivial:
            ctx.distinct.add(c.key if len(c.key) < 200 else hash(c.key))
        ctx.sample(c.data)
