"""Conductor-level scenarios: a generated study is staged by the real
Conductor.initialize and run through the real Conductor.monitor_study with the
scripted scheduler; between polls (in the stubbed `sleep`) the harness inspects
what the conductor left on disk (snapshot pickle, status.csv, cancel lock) and
scripts the next scheduler answer.  Used by C18 (snapshot = status), C07 (cancel
through the lock file), C12 (rows) and C05 (returned status)."""
import os

import execsim as E
import scripted as S
import studysim as SS


class Stop(Exception):
    pass


def run(ctx, rng, k, cancel_prob=0.0, max_polls=40, local_prob=0.0):
    """returns dict(mon={prop: [...]}, polls=.., ret=.., spec=.., nontrivial=..)"""
    import maestrowf.conductor as cmod
    from maestrowf.conductor import Conductor
    from maestrowf.datastructures.core.executiongraph import ExecutionGraph
    root = os.path.join(ctx.scratch, "cond", "c%d" % k)
    spec = SS.gen_spec(rng, root, adversarial=False)
    for s in spec["study"]:
        for key in ("nodes", "procs", "walltime"):
            s["run"].pop(key, None)
    S.install()
    try:
        _y, study = SS.load_study(spec, root, hash_ws=rng.random() < 0.3, rlimit=rng.choice([0, 1, 2]),
                                  throttle=rng.choice([0, 0, 1, 2, 3]), attempts=rng.choice([1, 2]))
    except Exception:  # noqa
        return None
    c = Conductor(study)
    try:
        c.initialize({"type": "scripted"}, 0)
    except Exception:  # noqa  (staging errors are not this scenario's subject)
        return None
    dag = c._exec_dag
    names = [x for x in dag.values if x != "_source"]
    all_local = rng.random() < local_prob      # nothing is ever in flight between polls
    S.WORLD.reset(subs=[0 if rng.random() < 0.08 else 1 for _ in range(60)],
                  sched={nm: (not all_local) and rng.random() < 0.85 for nm in names})
    S.WORLD.poll_code = "OK"
    S.WORLD.poll_reports = []
    mon = {"C18": [], "C07": [], "C12": [], "C05": [], "C01": []}
    st = {"polls": 0, "cancel_at": None, "nontrivial": False, "cancel_calls": 0, "seen_events": 0}
    # C01 at the level of the staged study: the parents of an instance are read
    # from the execution graph's adjacency table (what `maestro status` and the
    # failure propagation use), not from the gating sets the launcher consults
    parents = {nm: [] for nm in names}
    for src, dsts in dag.adjacency_table.items():
        for d in dsts:
            if src != "_source" and d in parents:
                parents[d].append(src)
    succeeded = set()
    rounds = {}

    def c01_scan():
        # one poll = one status query (which may resolve parents) followed by the
        # launches, so the ledger is read before this poll's launches are judged
        for jid, state in S.WORLD.ledger.items():
            if state == "FINISHED":
                succeeded.add(S.WORLD.job_owner[jid])
        evs = S.WORLD.all_events
        for ev in evs[st["seen_events"]:]:
            if ev[0] in ("submit", "local") and ev[2] == "main":
                missing = [p_ for p_ in parents.get(ev[1], []) if p_ not in succeeded]
                if missing:
                    mon["C01"].append(("launch-after-deps",
                                       "study-level: %s launched at poll %d while its parents %s had not succeeded"
                                       % (ev[1], st["polls"], missing)))
            if ev[0] == "local" and ev[3] == "ok":
                succeeded.add(ev[1])
        st["seen_events"] = len(evs)
    pkl = os.path.join(root, "%s.pkl" % study.name)
    lock = os.path.join(root, ".cancel.lock")
    fair_from = rng.randint(2, 12)

    def hook(_t):
        st["polls"] += 1
        k_ = st["polls"]
        c01_scan()
        # ---- what the conductor left on disk after this poll
        try:
            snap = ExecutionGraph.unpickle(pkl)
        except Exception as e:  # noqa
            mon["C18"].append(("snapshot-loads", "poll %d: %s %s" % (k_, type(e).__name__, str(e)[:60])))
            snap = None
        # restart rounds of this poll, read off the scheduler's own record of submissions
        for nm_ in set(ev[1] for ev in S.WORLD.events if ev[0] in ("submit", "local") and ev[2] == "restart"):
            rounds[nm_] = rounds.get(nm_, 0) + 1
        table = Conductor.get_status(root)
        tn = table.get("Step Name", [])
        if sorted(tn) != sorted(names):
            mon["C12"].append(("rows-complete", "poll %d: status lists %s" % (k_, tn)))
        for idx, nm in enumerate(tn):
            if nm not in dag.values:
                continue
            live = dag.values[nm]
            if "Number Restarts" in table and str(table["Number Restarts"][idx]) != str(rounds.get(nm, 0)):
                mon["C12"].append(("rows-consistent", "poll %d: %s shows %s restarts in status.csv, the scheduler "
                                   "saw %d restart rounds" % (k_, nm, table["Number Restarts"][idx], rounds.get(nm, 0))))
            if table["State"][idx] != live.status.name:
                mon["C12"].append(("rows-consistent", "poll %d: %s is %s in status.csv, %s live"
                                   % (k_, nm, table["State"][idx], live.status.name)))
            if snap is not None and snap.values[nm].status.name != table["State"][idx]:
                mon["C18"].append(("snapshot-vs-status", "poll %d: %s is %s in the snapshot, %s in status.csv"
                                   % (k_, nm, snap.values[nm].status.name, table["State"][idx])))
            if snap is not None and (snap.values[nm].jobid[-1:] != live.jobid[-1:] or
                                     snap.values[nm].restarts != live.restarts):
                mon["C18"].append(("snapshot-agrees", "poll %d: %s job/restarts differ in the snapshot" % (k_, nm)))
        if st["cancel_at"] is not None and os.path.exists(lock) and st["polls"] > st["cancel_at"] + 1:
            mon["C07"].append(("lock-consumed", "poll %d: the cancel lock is still there" % k_))
        if k_ > max_polls:
            raise Stop()
        # ---- the next scheduler answer
        inflight = [x for x in names if x in dag.in_progress]
        fair = k_ >= fair_from
        if not fair and st["cancel_at"] is None and rng.random() < cancel_prob:
            Conductor.mark_cancelled(root)
            S.WORLD.cancel_code = "OK" if rng.random() < 0.6 else "ERROR"
            st["cancel_at"] = k_
            st["nontrivial"] = True
        reps = []
        for nm in inflight:
            if fair:
                v = E._weighted(rng, [("FINISHED", 14), ("FAILED", 2), ("CANCELLED", 1), ("RUNNING", 2)])
            else:
                v = E._weighted(rng, E.REPORT_WEIGHTS)
            if v == "omit":
                continue
            if v in ("FAILED", "TIMEDOUT", "HWFAILURE", "UNKNOWN", "CANCELLED"):
                st["nontrivial"] = True
            reps.append((nm, v))
        rng.shuffle(reps)
        S.WORLD.poll_code = "OK" if fair or rng.random() < 0.93 else "NOJOBS"
        S.WORLD.poll_reports = reps
        S.WORLD.events = []

    saved = cmod.sleep
    cmod.sleep = hook
    try:
        try:
            ret = c.monitor_study().name
        except Stop:
            ret = "NONTERMINATION"
        except RuntimeError:
            ret = "RAISE:RuntimeError"
        finally:
            c.cleanup()
    finally:
        cmod.sleep = saved
    # ---- after the conductor returned
    c01_scan()
    if st["cancel_at"] is not None and ret not in ("NONTERMINATION",):
        if not any(ev[0] == "cancel" for ev in S.WORLD.all_events):
            # the request may have arrived after the last poll: only then is it unseen
            if os.path.exists(lock) is False:
                mon["C07"].append(("cancel-jobs-called", "cancel lock consumed but cancel_jobs was never called"))
        elif ret != "CANCELLED":
            mon["C07"].append(("ends-cancelled", "cancel requested at poll %d, returned %s" % (st["cancel_at"], ret)))
    if st["cancel_at"] is not None and ret in ("FINISHED", "FAILURE"):
        mon["C05"].append(("verdict-truthful", "cancel requested after poll %d (%s) but the conductor returned %s"
                           % (st["cancel_at"], "only local steps" if all_local else "scheduled steps", ret)))
    states = {nm: dag.values[nm].status.name for nm in names}
    if ret == "FINISHED" and any(v != "FINISHED" for v in states.values()):
        mon["C05"].append(("verdict-truthful", "returned FINISHED with states %s" % states))
    if ret == "NONTERMINATION":
        mon["C05"].append(("terminates", "monitor_study did not return within %d polls of a fair tail" % max_polls))
    return {"mon": mon, "polls": st["polls"], "ret": ret, "spec": spec, "nontrivial": st["nontrivial"],
            "cancelled": st["cancel_at"]}
