"""Conductor-level scenarios: a generated study is staged by the real
Conductor.initialize and run through the real Conductor.monitor_study with the
scripted scheduler; between polls (in the stubbed `sleep`) the harness inspects
what the conductor left on disk (snapshot pickle, status.csv, cancel lock) and
scripts the next scheduler answer.  Used by C18 (snapshot = status), C07 (cancel
through the lock file), C12 (rows) and C05 (returned status)."""
import contextlib
import io
import os

import execsim as E
import scripted as S
import studysim as SS


class Stop(Exception):
    pass


EXIT = {"FINISHED": 0, "RUNNING": 1, "FAILURE": 2, "CANCELLED": 3}


def _enter(entry, spec, root, opts, on_init, captured):
    """Runs the study through one of Maestro's real entry points and returns
    (status name returned by monitor_study, process exit code or None):
      direct - Conductor(study).initialize / monitor_study (no process exit code)
      fg     - maestrowf.maestro.main() with `run -fg`
      bg     - maestrowf.maestro.main() with `run` (the nohup launch is captured instead of
               started), then maestrowf.conductor.main() with the captured command line."""
    import logging
    import shlex
    import sys
    import yaml
    import maestrowf.conductor as cmod
    import maestrowf.maestro as mmod
    from maestrowf.conductor import Conductor
    orig_init, orig_mon = Conductor.initialize, Conductor.monitor_study

    def init(self, *a, **kw):
        r = orig_init(self, *a, **kw)
        on_init(self)
        return r

    def mon(self):
        r = orig_mon(self)
        captured["returned"] = r.name
        return r

    Conductor.initialize, Conductor.monitor_study = init, mon
    root_logger = logging.getLogger()
    handlers = list(root_logger.handlers)
    argv, code = sys.argv, None
    launched = []
    saved_sp = mmod.start_process
    mmod.start_process = lambda cmd, *a, **kw: launched.append(cmd)
    try:
        if entry == "direct":
            _y, study = SS.load_study(spec, root, **{k_: v_ for k_, v_ in opts.items() if not k_.startswith("_")})
            c = Conductor(study)
            c.initialize({"type": "scripted"}, 0)
            try:
                c.monitor_study()
            finally:
                c.cleanup()
            return captured.get("returned"), None
        doc = dict(spec)
        doc["batch"] = {"type": "scripted", "host": "h", "bank": "b", "queue": "q"}
        os.makedirs(os.path.dirname(root), exist_ok=True)
        path = root + ".yaml"
        with open(path, "w") as f:
            yaml.safe_dump(doc, f, sort_keys=False)
        args = ["maestro", "run", "-y", "-s", "1", "-o", root, "-r", str(opts["rlimit"]),
                "-t", str(opts["throttle"]), "-a", str(opts["attempts"])]
        if opts["hash_ws"]:
            args.append("--hashws")
        if opts.get("use_tmp"):
            args.append("--usetmp")
        if entry == "fg":
            args.append("-fg")
        sys.argv = args + [path]
        try:
            with contextlib.redirect_stdout(io.StringIO()), contextlib.redirect_stderr(io.StringIO()):
                mmod.main()
        except SystemExit as e:
            code = e.code
        if entry == "fg":
            return captured.get("returned"), code
        if code != 0 or len(launched) != 1:
            return "LAUNCH:%r:%d" % (code, len(launched)), code
        words = shlex.split(launched[0].split(">")[0])
        if words[:2] != ["nohup", "conductor"]:
            return "LAUNCH:%s" % words[:2], code
        sys.argv = words[1:]
        code = None
        try:
            with contextlib.redirect_stdout(io.StringIO()), contextlib.redirect_stderr(io.StringIO()):
                cmod.main()
        except SystemExit as e:
            code = e.code
        return captured.get("returned"), code
    finally:
        sys.argv = argv
        mmod.start_process = saved_sp
        Conductor.initialize, Conductor.monitor_study = orig_init, orig_mon
        for h in list(root_logger.handlers):
            if h not in handlers:
                root_logger.removeHandler(h)
                try:
                    h.close()
                except Exception:  # noqa
                    pass


class LoopRecorder:
    """Records the operations of Conductor.monitor_study in the order they happen (the alphabet of
    Model/Conductor.lean): the look at the cancel lock file, the file lock, cancel_study, the removal
    of the file, the poll, the snapshot, the status table, the sleep."""

    def __init__(self):
        self.ops = []
        self.fail_acquire = 0      # how many times the file lock of the request cannot be had
        self.on_cancel = None      # called when the conductor acts on the request

    def install(self, cmod):
        import filelock
        rec = self
        real_lock = cmod.FileLock
        self._saved = (cmod.FileLock, cmod.os)

        class RecLock:
            def __init__(self, path, *a, **k):
                self._path = path
                self._l = real_lock(path, *a, **k)

            def acquire(self, *a, **k):
                if not str(self._path).endswith(".cancel.lock"):
                    return self._l.acquire(*a, **k)
                if rec.fail_acquire > 0:
                    rec.fail_acquire -= 1
                    rec.ops.append("lockAcquire(0)")
                    raise filelock.Timeout(self._path)
                rec.ops.append("lockAcquire(1)")
                return self._l.acquire(*a, **k)

        class _Path:
            def __getattr__(self, name):
                return getattr(os.path, name)

            def exists(self, p):
                r = os.path.exists(p)
                if str(p).endswith(".cancel.lock"):
                    rec.ops.append("lockCheck(%d)" % int(r))
                return r

        class _OS:
            path = _Path()

            def __getattr__(self, name):
                return getattr(os, name)

            def remove(self, p):
                if str(p).endswith(".cancel.lock"):
                    rec.ops.append("lockRemove")
                return os.remove(p)
        cmod.FileLock = RecLock
        cmod.os = _OS()

    def uninstall(self, cmod):
        cmod.FileLock, cmod.os = self._saved

    def wrap_graph(self, dag):
        rec = self

        def wrap(name, label):
            orig = getattr(dag, name)

            def f(*a, **k):
                if label != "poll":
                    rec.ops.append(label)
                    if label == "cancelStudy" and rec.on_cancel:
                        rec.on_cancel()
                    return orig(*a, **k)
                rec.ops.append("poll")
                try:
                    r = orig(*a, **k)
                except RuntimeError:
                    rec.ops.append("=RAISED")
                    raise
                rec.ops.append("=" + r.name)
                return r
            setattr(dag, name, f)
        wrap("cancel_study", "cancelStudy")
        wrap("execute_ready_steps", "poll")
        wrap("pickle", "pickle")
        wrap("write_status", "writeStatus")

    def lines(self):
        """(model line, recorded trace): the iterations' environment (lock file seen, file lock
        obtained, what the poll returned) and everything that was done, iteration by iteration"""
        iters, cur = [], None
        for o in self.ops:
            if o.startswith("lockCheck"):
                cur = {"l": o[10], "a": "0", "r": None, "ops": []}
                iters.append(cur)
            if cur is None:
                cur = {"l": "?", "a": "0", "r": None, "ops": []}
                iters.append(cur)
            if o.startswith("="):
                cur["r"] = o[1:]
                continue
            if o == "lockAcquire(1)":
                cur["a"] = "1"
            cur["ops"].append(o)
        iters = [i for i in iters if i["r"] is not None]       # an iteration cut short by the harness
        model = "cond.trace " + " ".join("%s:%s:%s" % (i["l"], i["a"], i["r"]) for i in iters)
        return model, " | ".join(" ".join(i["ops"]) for i in iters)


def deliver_cancel(rng, root):
    """the cancel request, the way a user delivers it: half of the time through the real
    `maestro cancel <dir> [<another dir>]` command (answering its confirmation prompt), otherwise
    through the call that command ends in"""
    import builtins
    import logging
    import sys
    import maestrowf.maestro as mmod
    from maestrowf.conductor import Conductor
    if rng.random() < 0.5:
        Conductor.mark_cancelled(root)
        return "mark_cancelled"
    dirs = [root]
    if rng.random() < 0.4:
        dirs.insert(rng.randint(0, 1), root + "-no-such-study")
    argv, inp = sys.argv, builtins.input
    root_logger = logging.getLogger()
    handlers = list(root_logger.handlers)
    sys.argv = ["maestro", "cancel"] + dirs
    builtins.input = lambda *_a: "y"
    try:
        with contextlib.redirect_stdout(io.StringIO()), contextlib.redirect_stderr(io.StringIO()):
            mmod.main()
    except SystemExit:
        pass
    finally:
        sys.argv, builtins.input = argv, inp
        for h in list(root_logger.handlers):
            if h not in handlers:
                root_logger.removeHandler(h)
    return "maestro cancel %s" % " ".join("<study>" if d == root else "<missing>" for d in dirs)


def run(ctx, rng, k, cancel_prob=0.0, max_polls=40, local_prob=0.0, entry="direct", timeouts=0.0, force=None,
        spec=None):
    """returns dict(mon={prop: [...]}, polls=.., ret=.., spec=.., nontrivial=..), or None when the generated
    study cannot be run at all (staging refuses it; a script name beyond the file system's limit)"""
    import errno
    import tempfile
    # the temporary directory of --usetmp belongs to the run's scratch space, not to /tmp
    saved_tmp = tempfile.tempdir
    tempfile.tempdir = os.path.join(ctx.scratch, "tmp")
    os.makedirs(tempfile.tempdir, exist_ok=True)
    try:
        return _run(ctx, rng, k, cancel_prob, max_polls, local_prob, entry, timeouts, force, spec)
    except OSError as e:
        if e.errno == errno.ENAMETOOLONG:
            return None
        raise
    finally:
        tempfile.tempdir = saved_tmp


def _run(ctx, rng, k, cancel_prob, max_polls, local_prob, entry, timeouts, force, spec):
    import maestrowf.conductor as cmod
    from maestrowf.conductor import Conductor
    from maestrowf.datastructures.core.executiongraph import ExecutionGraph
    root = os.path.join(ctx.scratch, "cond", "c%s" % k)
    import common
    common.next_logging()
    if spec is None:
        spec = SS.gen_spec(rng, root, adversarial=False)
    else:
        spec = dict(spec, env={"variables": {"OUTPUT_PATH": root}})
    for s in spec["study"]:
        for key in ("nodes", "procs", "walltime"):
            s["run"].pop(key, None)
    S.install()
    opts = dict(hash_ws=rng.random() < 0.3, rlimit=rng.choice([0, 1, 2]),
                throttle=rng.choice([0, 0, 1, 2, 3]), attempts=rng.choice([1, 2]),
                use_tmp=rng.random() < 0.3)
    opts.update(force or {})
    all_local = rng.random() < local_prob      # nothing is ever in flight between polls
    world_seed = rng.getrandbits(32)
    env = {}

    def on_init(c):
        import random
        r2 = random.Random(world_seed)
        dag_ = c._exec_dag
        env["dag"] = dag_
        env["names"] = [x for x in dag_.values if x != "_source"]
        env["study_name"] = c._study.name
        S.WORLD.reset(subs=[0 if r2.random() < 0.08 else 1 for _ in range(60)],
                      sched={nm: (not all_local) and r2.random() < 0.85 for nm in env["names"]})
        if opts.get("_world") == "benign" or opts.get("_script") is not None:
            # every step is scheduled, every submission is accepted, every job runs for one poll
            S.WORLD.reset(subs=[], sched={nm: True for nm in env["names"]})
        S.WORLD.poll_code = "OK"
        S.WORLD.poll_reports = []
        # with --usetmp the scripts of all instances share one directory: the files are really written,
        # and every submission is checked against what the file holds at that moment
        S.WORLD.write_files = bool(opts.get("use_tmp"))
        par = {nm: [] for nm in env["names"]}
        for src, dsts in dag_.adjacency_table.items():
            for d in dsts:
                if src != "_source" and d in par:
                    par[d].append(src)
        env["parents"] = par
        env["rec"].wrap_graph(dag_)
        if opts.get("_cancel_at_init") or (cancel_prob and r2.random() < cancel_prob / 2):
            # the request is already there when the conductor starts polling
            S.WORLD.cancel_code = "OK" if r2.random() < 0.6 else "ERROR"
            st["how"] = deliver_cancel(r2, root)
            st["cancel_at"] = 0
            st["events_at_cancel"] = 0
            st["nontrivial"] = True
    mon = {"C18": [], "C07": [], "C12": [], "C05": [], "C01": [], "C03": [], "C06": [], "C02": [], "C19": []}
    st = {"polls": 0, "cancel_at": None, "nontrivial": False, "cancel_calls": 0, "seen_events": 0}
    seen_polls = {}
    # C01 at the level of the staged study: the parents of an instance are read
    # from the execution graph's adjacency table (what `maestro status` and the
    # failure propagation use), not from the gating sets the launcher consults
    succeeded = set()
    rounds = {}

    def c01_scan():
        # one poll = one status query (which may resolve parents) followed by the
        # launches, so the ledger is read before this poll's launches are judged
        for jid, state in S.WORLD.ledger.items():
            if state == "FINISHED":
                succeeded.add(S.WORLD.job_owner[jid])
        evs = S.WORLD.all_events
        for ev in evs[st["seen_events"]:]:
            if ev[0] in ("submit", "local") and ev[2] == "main":
                missing = [p_ for p_ in env["parents"].get(ev[1], []) if p_ not in succeeded]
                if missing:
                    mon["C01"].append(("launch-after-deps",
                                       "study-level: %s launched at poll %d while its parents %s had not succeeded"
                                       % (ev[1], st["polls"], missing)))
            if ev[0] == "local" and ev[3] == "ok":
                succeeded.add(ev[1])
        st["seen_events"] = len(evs)
    lock = os.path.join(root, ".cancel.lock")
    fair_from = rng.randint(2, 12)

    def hook(_t):
        st["polls"] += 1
        k_ = st["polls"]
        dag, names = env["dag"], env["names"]
        pkl = os.path.join(root, "%s.pkl" % env["study_name"])
        c01_scan()
        # ---- what the conductor left on disk after this poll
        try:
            snap = ExecutionGraph.unpickle(pkl)
        except Exception as e:  # noqa
            mon["C18"].append(("snapshot-loads", "poll %d: %s %s" % (k_, type(e).__name__, str(e)[:60])))
            snap = None
        # restart rounds of this poll, read off the scheduler's own record of submissions
        for nm_ in set(ev[1] for ev in S.WORLD.events if ev[0] in ("submit", "local") and ev[2] == "restart"):
            rounds[nm_] = rounds.get(nm_, 0) + 1
        # C06 at the level of the whole command: the limit the user asked for (-r / configure_study)
        # bounds the restart rounds of every instance that has a restart command; no other instance
        # is ever restarted
        for nm_, cnt in rounds.items():
            has_r = bool(dag.values[nm_].step.run.get("restart"))
            if not has_r:
                mon["C06"].append(("restart-only-with-cmd", "poll %d: %s has no restart command but was "
                                   "restarted" % (k_, nm_)))
            elif opts["rlimit"] > 0 and cnt > opts["rlimit"]:
                mon["C06"].append(("budget", "poll %d: %s was restarted %d times, the limit asked for is %d "
                                   "(entered through %s)" % (k_, nm_, cnt, opts["rlimit"], entry)))
        # ... and the other direction: a step with a restart command that the scheduler reports TIMEDOUT
        # while budget is left (always, under limit 0 = unlimited) and nobody asked to cancel is
        # resubmitted with its restart script in that very poll
        if st["cancel_at"] is None and S.WORLD.poll_code == "OK":
            restarted_now = set(ev[1] for ev in S.WORLD.events if ev[0] in ("submit", "local") and ev[2] == "restart")
            for nm_, v_ in S.WORLD.poll_reports:
                if v_ != "TIMEDOUT" or nm_ not in dag.values or not dag.values[nm_].step.run.get("restart"):
                    continue
                before_ = rounds.get(nm_, 0) - (1 if nm_ in restarted_now else 0)
                if nm_ not in restarted_now and (opts["rlimit"] == 0 or before_ < opts["rlimit"]):
                    mon["C06"].append(("restart-when-allowed", "poll %d: %s was reported TIMEDOUT after %d restart "
                                       "rounds, the limit asked for is %d (0 = no limit), and it was not restarted "
                                       "(entered through %s)" % (k_, nm_, before_, opts["rlimit"], entry)))
        for nm_, kind_, path_, tail_ in S.WORLD.foreign_scripts:
            mon["C06" if kind_ == "restart" else "C19"].append(
                ("own-script", "poll %d: %s was submitted with its %s script %s, which holds another command: %r "
                 "(usetmp=%s hashws=%s)" % (k_, nm_, kind_, os.path.basename(path_), tail_, opts.get("use_tmp"),
                                            opts["hash_ws"])))
        del S.WORLD.foreign_scripts[:]
        table = Conductor.get_status(root)
        tn = table.get("Step Name", [])
        if sorted(tn) != sorted(names):
            mon["C12"].append(("rows-complete", "poll %d: status lists %s" % (k_, tn)))
        for idx, nm in enumerate(tn):
            if nm not in dag.values:
                continue
            live = dag.values[nm]
            if "Number Restarts" in table and str(table["Number Restarts"][idx]) != str(rounds.get(nm, 0)):
                mon["C12"].append(("rows-consistent", "poll %d: %s shows %s restarts in status.csv, the scheduler "
                                   "saw %d restart rounds" % (k_, nm, table["Number Restarts"][idx], rounds.get(nm, 0))))
            if table["State"][idx] != live.status.name:
                mon["C12"].append(("rows-consistent", "poll %d: %s is %s in status.csv, %s live"
                                   % (k_, nm, table["State"][idx], live.status.name)))
            want_job = str(live.jobid[-1]) if live.jobid else "--"
            if "Job ID" in table and str(table["Job ID"][idx]) != want_job:
                mon["C12"].append(("rows-consistent", "poll %d: %s shows job %s in status.csv, its latest job is %s"
                                   % (k_, nm, table["Job ID"][idx], want_job)))
            if snap is not None and snap.values[nm].status.name != table["State"][idx]:
                mon["C18"].append(("snapshot-vs-status", "poll %d: %s is %s in the snapshot, %s in status.csv"
                                   % (k_, nm, snap.values[nm].status.name, table["State"][idx])))
            if snap is not None and (snap.values[nm].jobid[-1:] != live.jobid[-1:] or
                                     snap.values[nm].restarts != live.restarts):
                mon["C18"].append(("snapshot-agrees", "poll %d: %s job/restarts differ in the snapshot" % (k_, nm)))
        if st["cancel_at"] is not None and os.path.exists(lock) and st["polls"] > st["cancel_at"] + 1 + st.get("lock_timeouts", 0):
            mon["C07"].append(("lock-consumed", "poll %d: the cancel lock is still there" % k_))
        if k_ > max_polls:
            raise Stop()
        # ---- the next scheduler answer
        inflight = [x for x in names if x in dag.in_progress]
        fair = k_ >= fair_from
        if not fair and st["cancel_at"] is None and rng.random() < cancel_prob:
            st["how"] = deliver_cancel(rng, root)
            if rng.random() < 0.2:
                rec.fail_acquire = rng.choice([1, 1, 2])     # the request file is still being written
                st["lock_timeouts"] = rec.fail_acquire
            S.WORLD.cancel_code = "OK" if rng.random() < 0.6 else "ERROR"
            st["cancel_at"] = k_
            st["events_at_cancel"] = len(S.WORLD.all_events)
            st["nontrivial"] = True
        reps = []
        for nm in inflight:
            if opts.get("_script") is not None:
                # a scripted history: one dict (instance -> state) per poll, FINISHED once it is used up
                sc = opts["_script"]
                v = sc[k_].get(nm, "omit") if k_ < len(sc) else "FINISHED"
            elif opts.get("_world") == "benign":
                seen_polls[nm] = seen_polls.get(nm, 0) + 1
                v = "RUNNING" if seen_polls[nm] < 2 else "FINISHED"
            elif timeouts and rng.random() < timeouts and rounds.get(nm, 0) < 5:
                v = "TIMEDOUT"          # a scheduler whose jobs keep hitting their time limit
            elif fair:
                v = E._weighted(rng, [("FINISHED", 14), ("FAILED", 2), ("CANCELLED", 1), ("RUNNING", 2)])
            else:
                v = E._weighted(rng, E.REPORT_WEIGHTS)
            if v == "omit":
                continue
            if v in ("FAILED", "TIMEDOUT", "HWFAILURE", "UNKNOWN", "CANCELLED"):
                st["nontrivial"] = True
            reps.append((nm, v))
        rng.shuffle(reps)
        S.WORLD.poll_code = "OK" if fair or rng.random() < 0.93 else "NOJOBS"
        S.WORLD.poll_reports = reps
        S.WORLD.events = []

    saved = cmod.sleep
    rec = LoopRecorder()
    env["rec"] = rec

    def observed():
        # "once a cancel request has been observed": a request whose file lock timed out is observed
        # in a later iteration; what was submitted in between does not count
        st["events_at_cancel"] = len(S.WORLD.all_events)
        st["observed"] = True
    rec.on_cancel = observed

    def sleep_hook(t):
        rec.ops.append("sleep")
        hook(t)
    cmod.sleep = sleep_hook
    rec.install(cmod)
    captured = {}
    code = None
    try:
        try:
            ret, code = _enter(entry, spec, root, opts, on_init, captured)
        except Stop:
            ret = "NONTERMINATION"
        except RuntimeError:
            ret = "RAISE:RuntimeError"
        except Exception:  # noqa  (staging errors are not this scenario's subject)
            if "dag" not in env:
                return None
            raise
    finally:
        cmod.sleep = saved
        rec.uninstall(cmod)
    if "dag" not in env or ret is None:
        return None
    dag, names = env["dag"], env["names"]
    # ---- after the conductor returned
    c01_scan()
    # a request is never thrown away: the request file is removed only by the iteration that acts on it
    it_ops = []
    for o in rec.ops:
        if o.startswith("lockCheck"):
            it_ops.append([])
        if it_ops:
            it_ops[-1].append(o)
    for i_, ops_ in enumerate(it_ops):
        if "lockRemove" in ops_ and "cancelStudy" not in ops_:
            mon["C07"].append(("request-dropped", "iteration %d removed the cancel request file without calling "
                               "cancel_study (%s)" % (i_ + 1, " ".join(o for o in ops_ if not o.startswith("=")))))
            break
    if st["cancel_at"] is not None and st.get("lock_timeouts") and not st.get("observed") \
            and not os.path.exists(lock):
        mon["C07"].append(("request-dropped", "the cancel request (delivered after poll %d) is gone but "
                           "cancel_study was never called" % st["cancel_at"]))
    if st["cancel_at"] is not None and st.get("lock_timeouts") and not st.get("observed"):
        # the injected lock time-outs kept the conductor from seeing the request until the study was
        # over: as far as the properties are concerned there was no request (the file is still there)
        st["unseen_request"] = st["cancel_at"]
        st["cancel_at"] = None
    if st["cancel_at"] is not None:
        late = [ev for ev in S.WORLD.all_events[st["events_at_cancel"]:] if ev[0] in ("submit", "local")]
        if late:
            mon["C07"].append(("no-submit-after", "cancel requested (%s) after poll %d; afterwards %s"
                               % (st.get("how"), st["cancel_at"],
                                  ", ".join("%s(%s)" % (ev[0], ev[1]) for ev in late[:4]))))
    if st["cancel_at"] is not None and ret not in ("NONTERMINATION",):
        if not any(ev[0] == "cancel" for ev in S.WORLD.all_events):
            # the request may have arrived after the last poll: only then is it unseen
            if os.path.exists(lock) is False:
                mon["C07"].append(("cancel-jobs-called", "cancel lock consumed but cancel_jobs was never called"))
        elif ret != "CANCELLED":
            mon["C07"].append(("ends-cancelled", "cancel requested at poll %d, returned %s" % (st["cancel_at"], ret)))
    if st["cancel_at"] is not None and ret in ("FINISHED", "FAILURE"):
        mon["C05"].append(("verdict-truthful", "cancel requested after poll %d (%s) but the conductor returned %s"
                           % (st["cancel_at"], "only local steps" if all_local else "scheduled steps", ret)))
    # C03 at the level of the whole command: the throttle the user asked for (-t / configure_study)
    if opts["throttle"] > 0 and S.WORLD.peak_live > opts["throttle"]:
        mon["C03"].append(("throttle", "%d scheduler jobs were live at once with throttle %d (%d instances, "
                           "entered through %s)" % (S.WORLD.peak_live, opts["throttle"], len(names), entry)))
    if opts["throttle"] == 0 and not all_local and st["cancel_at"] is None:
        # unthrottled: everything that is ready goes out in the poll in which it became ready
        first = [ev for ev in S.WORLD.all_events if ev[0] in ("submit", "local", "check")]
        roots = [nm for nm in names if not env["parents"].get(nm)]
        upto = next((i for i, ev in enumerate(first) if ev[0] == "check" and i > 0), len(first))
        sent = set(ev[1] for ev in first[:upto] if ev[0] in ("submit", "local"))
        missing = [nm for nm in roots if nm not in sent]
        if missing and ret not in ("NONTERMINATION",) and not str(ret).startswith("RAISE"):
            mon["C03"].append(("unthrottled-takes-all", "no throttle, but the first poll left the root steps %s "
                               "unsubmitted" % missing[:4]))
    states = {nm: dag.values[nm].status.name for nm in names}
    if ret == "FINISHED" and any(v != "FINISHED" for v in states.values()):
        mon["C05"].append(("verdict-truthful", "returned FINISHED with states %s" % states))
    if ret in EXIT:
        # the verdict the final table prescribes
        if st["cancel_at"] is not None or any(v == "CANCELLED" for v in states.values()):
            want = "CANCELLED"
        elif all(v == "FINISHED" for v in states.values()):
            want = "FINISHED"
        else:
            want = "FAILURE"
        if ret != want:
            mon["C05"].append(("verdict-truthful", "the conductor returned %s; the final states %s (cancel "
                               "requested: %s) prescribe %s" % (ret, states, st["cancel_at"] is not None, want)))
        if entry != "direct" and code != EXIT[want]:
            mon["C05"].append(("exit-code-truthful", "`%s` exited with %r; the final states %s (cancel requested: "
                               "%s) prescribe %s/%d; monitor_study returned %s"
                               % ("maestro run -fg" if entry == "fg" else "conductor", code, states,
                                  st["cancel_at"] is not None, want, EXIT[want], ret)))
    elif entry != "direct" and str(ret).startswith("LAUNCH"):
        mon["C05"].append(("exit-code-truthful", "`maestro run` did not launch the conductor: %s" % ret))
    if ret in EXIT and st["cancel_at"] is None:
        # "has by then run every step whose dependencies all succeeded"
        idle = [nm for nm in names if states[nm] == "INITIALIZED"
                and all(states.get(p_) == "FINISHED" for p_ in env["parents"].get(nm, []))]
        if idle:
            mon["C05"].append(("ran-everything-runnable", "the conductor returned %s although %s never ran and all "
                               "of its dependencies (%s) finished successfully"
                               % (ret, idle[:3], [env["parents"].get(nm, []) for nm in idle[:3]])))
    if ret == "NONTERMINATION":
        mon["C05"].append(("terminates", "monitor_study did not return within %d polls of a fair tail" % max_polls))
    if ret in EXIT and st["cancel_at"] is None:
        # C02 at the level of the staged study: below a step that ended unsuccessfully nothing runs to success -
        # the children are read from the adjacency table (what the failure propagation walks)
        kids = {}
        for nm in names:
            for p_ in env["parents"].get(nm, []):
                kids.setdefault(p_, []).append(nm)
        for nm in names:
            if states[nm] not in ("FAILED", "CANCELLED", "UNKNOWN", "TIMEDOUT"):
                continue
            todo, below = list(kids.get(nm, [])), set()
            while todo:
                x = todo.pop()
                if x not in below:
                    below.add(x)
                    todo.extend(kids.get(x, []))
            wrong = sorted(x for x in below if states[x] not in ("FAILED", "CANCELLED"))
            if wrong:
                mon["C02"].append(("descendants-reported", "study-level: %s ended %s but its dependents %s ended %s"
                                   % (nm, states[nm], wrong[:4], [states[x] for x in wrong[:4]])))
                break
    return {"mon": mon, "polls": st["polls"], "ret": ret, "spec": spec, "nontrivial": st["nontrivial"],
            "cancelled": st["cancel_at"], "cancel_how": st.get("how"), "entry": entry, "exit": code,
            "options": opts, "loop": rec.lines() if ret != "NONTERMINATION" else None}
