import MaestroVerif.Model.Dag
import Mathlib.Logic.Relation

/-! Basic graph vocabulary over `Model/Dag.lean` and the well-formedness invariant. -/
namespace MaestroVerif.Dag
open Relation

/-- `b` is listed in `adjacency_table[a]`. -/
def Edge (g : Dag) (a b : Nat) : Prop := b ∈ g.adj a

/-- reachable in zero or more steps -/
abbrev Reach (g : Dag) : Nat → Nat → Prop := ReflTransGen (Edge g)

/-- reachable in one or more steps -/
abbrev Path (g : Dag) : Nat → Nat → Prop := TransGen (Edge g)

def Acyclic (g : Dag) : Prop := ∀ a, ¬ Path g a a

/-- What every graph built by `add_node` / `add_edge` / `remove_edge` satisfies:
edges only between existing nodes, node list and adjacency lists duplicate-free. -/
structure WF (g : Dag) : Prop where
  src  : ∀ a b, b ∈ g.adj a → a ∈ g.nodes
  dst  : ∀ a b, b ∈ g.adj a → b ∈ g.nodes
  nodup : g.nodes.Nodup
  adjNodup : ∀ a, (g.adj a).Nodup

theorem wf_empty : WF empty := by
  constructor <;> simp [empty]

theorem reach_in_nodes {g : Dag} (wf : WF g) {a b : Nat} (h : Reach g a b) (ha : a ∈ g.nodes) :
    b ∈ g.nodes := by
  induction h with
  | refl => exact ha
  | tail _ e _ => exact wf.dst _ _ e

theorem path_src_in_nodes {g : Dag} (wf : WF g) {a b : Nat} (h : Path g a b) : a ∈ g.nodes := by
  obtain ⟨c, e, _⟩ := TransGen.head'_iff.mp h
  exact wf.src _ _ e

theorem wf_addNode {g : Dag} (wf : WF g) (n : Nat) : WF (addNode g n) := by
  unfold addNode
  split
  · exact wf
  · rename_i hn
    constructor
    · intro a b h
      simp only at h
      split at h
      · simp at h
      · simp [wf.src a b h]
    · intro a b h
      simp only at h
      split at h
      · simp at h
      · simp [wf.dst a b h]
    · simp only
      rw [List.nodup_append]
      refine ⟨wf.nodup, by simp, ?_⟩
      intro a ha b hb
      simp at hb
      subst hb
      intro h; subst h; exact hn ha
    · intro a
      simp only
      split
      · simp
      · exact wf.adjNodup a

theorem wf_setAdj {g : Dag} (wf : WF g) (s : Nat) (l : List Nat) (hs : s ∈ g.nodes)
    (hl : ∀ x ∈ l, x ∈ g.nodes) (hn : l.Nodup) : WF (setAdj g s l) := by
  constructor
  · intro a b h
    simp only [setAdj] at h
    split at h
    · subst_vars; exact hs
    · exact wf.src a b h
  · intro a b h
    simp only [setAdj] at h
    split at h
    · exact hl b h
    · exact wf.dst a b h
  · exact wf.nodup
  · intro a
    simp only [setAdj]
    split
    · exact hn
    · exact wf.adjNodup a

end MaestroVerif.Dag
