import MaestroVerif.Lemmas.ExecInv

/-! The ledger invariant: the (ghost) set of live scheduler jobs is exactly the
set of in-progress steps, one job per step, never more than the throttle, and
every launch happened with all parents complete. -/
namespace MaestroVerif.Exec
open MaestroVerif.Gen

structure InvB (cfg : Cfg) (g : G) : Prop where
  liveEq : ∀ x, x ∈ g.live ↔ x ∈ g.inProgress
  liveN  : g.live.Nodup
  ipN    : g.inProgress.Nodup
  thr    : 0 < cfg.throttle → g.inProgress.length ≤ cfg.throttle
  peak   : 0 < cfg.throttle → g.peak ≤ cfg.throttle
  depsOk : g.depsOk = true
  oneJob : g.oneJob = true
  freshOk : g.freshOk = true
  cancelOk : g.cancelOk = true
  restartOk : g.restartOk = true

/-- state in which `_execute_record` may be called for step `i`: the ledger
agrees with the tracking for every other step, `i` itself has no live job, and
a slot is free -/
structure PreB (cfg : Cfg) (g : G) (i : Nat) : Prop where
  liveEq : ∀ x, x ∈ g.live ↔ (x ∈ g.inProgress ∧ x ≠ i)
  liveN  : g.live.Nodup
  ipN    : g.inProgress.Nodup
  thr    : 0 < cfg.throttle → g.inProgress.length ≤ cfg.throttle
  slot   : 0 < cfg.throttle → g.live.length + 1 ≤ cfg.throttle
  peak   : 0 < cfg.throttle → g.peak ≤ cfg.throttle
  depsOk : g.depsOk = true
  oneJob : g.oneJob = true
  par    : ∀ p, p ∈ cfg.parents i → p ∈ g.completed
  freshOk : g.freshOk = true
  cancelOk : g.cancelOk = true
  restartOk : g.restartOk = true
  nres   : i ∉ g.completed ∧ i ∉ g.failed ∧ i ∉ g.cancelled
  ncan   : g.isCanceled = false

theorem length_eq_of_nodup {l1 l2 : List Nat} (h1 : l1.Nodup) (h2 : l2.Nodup)
    (h : ∀ x, x ∈ l1 ↔ x ∈ l2) : l1.length = l2.length :=
  Nat.le_antisymm (h1.length_le_of_subset (fun x hx => (h x).mp hx))
    (h2.length_le_of_subset (fun x hx => (h x).mpr hx))

theorem attempt_ghost (cfg : Cfg) (i : Nat) (restart : Bool) (g : G) :
    ((attempt cfg i restart g).2 = true ∧ cfg.sched i = true →
      (attempt cfg i restart g).1.live = ins i g.live ∧
      (attempt cfg i restart g).1.peak = max g.peak (ins i g.live).length ∧
      (attempt cfg i restart g).1.oneJob = (g.oneJob && !(g.live.contains i))) ∧
    (¬ ((attempt cfg i restart g).2 = true ∧ cfg.sched i = true) →
      (attempt cfg i restart g).1.live = g.live ∧ (attempt cfg i restart g).1.peak = g.peak ∧
      (attempt cfg i restart g).1.oneJob = g.oneJob) := by
  simp only [attempt, emit, setStatus]
  constructor
  · rintro ⟨h1, h2⟩
    repeat' split
    all_goals simp_all
  · intro h
    repeat' split
    all_goals first | exact ⟨rfl, rfl, rfl⟩ | (exfalso; simp_all)

theorem submitLoop_ghost (cfg : Cfg) (i : Nat) (restart : Bool) : ∀ k g,
    ((submitLoop cfg i restart k g).2 = true ∧ cfg.sched i = true →
      (submitLoop cfg i restart k g).1.live = ins i g.live ∧
      (submitLoop cfg i restart k g).1.peak = max g.peak (ins i g.live).length ∧
      (submitLoop cfg i restart k g).1.oneJob = (g.oneJob && !(g.live.contains i))) ∧
    (¬ ((submitLoop cfg i restart k g).2 = true ∧ cfg.sched i = true) →
      (submitLoop cfg i restart k g).1.live = g.live ∧ (submitLoop cfg i restart k g).1.peak = g.peak ∧
      (submitLoop cfg i restart k g).1.oneJob = g.oneJob) := by
  intro k
  induction k with
  | zero => intro g; simp [submitLoop]
  | succ k ih =>
    intro g
    simp only [submitLoop]
    have ha := attempt_ghost cfg i restart g
    split
    · rename_i hok
      simp only [hok, true_and] at ha ⊢
      exact ha
    · rename_i hok
      obtain ⟨s1, s2, s3⟩ := ha.2 (fun h => hok h.1)
      have := ih (attempt cfg i restart g).1
      rw [s1, s2, s3] at this
      exact this

theorem execPrep_ghost (cfg : Cfg) (g : G) (i : Nat) (restart : Bool)
    (hp : ∀ p, p ∈ cfg.parents i → p ∈ g.completed) (hd : g.depsOk = true)
    (hf : g.freshOk = true) (hc : g.cancelOk = true) (hr : g.restartOk = true)
    (hn : i ∉ g.completed ∧ i ∉ g.failed ∧ i ∉ g.cancelled) (hnc : g.isCanceled = false)
    (hrs : restart = true → cfg.hasRestart i = true) :
    (execPrep cfg g i restart).live = g.live ∧ (execPrep cfg g i restart).peak = g.peak ∧
    (execPrep cfg g i restart).oneJob = g.oneJob ∧ (execPrep cfg g i restart).depsOk = true ∧
    (execPrep cfg g i restart).freshOk = true ∧ (execPrep cfg g i restart).cancelOk = true ∧
    (execPrep cfg g i restart).restartOk = true := by
  have : ((cfg.parents i).all fun p => g.completed.contains p) = true := by
    simp only [List.all_eq_true, List.contains_iff_mem]; exact hp
  have h2 : (g.completed.contains i || g.failed.contains i || g.cancelled.contains i) = false := by
    simp [hn.1, hn.2.1, hn.2.2]
  have h3 : (!restart || cfg.hasRestart i) = true := by
    cases restart with
    | false => simp
    | true => simp [hrs rfl]
  unfold execPrep
  split <;> simp only [emit, hd, hf, hc, hr, this, h2, h3, hnc] <;> simp

theorem execFinish_ghost (cfg : Cfg) (g : G) (i : Nat) (ok : Bool) :
    (execFinish cfg g i ok).live = g.live ∧ (execFinish cfg g i ok).peak = g.peak ∧
    (execFinish cfg g i ok).oneJob = g.oneJob ∧ (execFinish cfg g i ok).depsOk = g.depsOk ∧
    (execFinish cfg g i ok).freshOk = g.freshOk ∧ (execFinish cfg g i ok).cancelOk = g.cancelOk ∧
    (execFinish cfg g i ok).restartOk = g.restartOk ∧
    (execFinish cfg g i ok).inProgress =
      (if ok = true ∧ cfg.sched i = true then ins i g.inProgress
       else if ok = true then rem i (ins i g.inProgress) else rem i g.inProgress) := by
  unfold execFinish
  split
  · rename_i hok
    split
    · rename_i hs; simp [hok, hs]
    · rename_i hs; simp [setStatus, hok, hs]
  · rename_i hok
    rw [failSubtree_eq]
    have m := markFailed_spec (subtree cfg i) { g with inProgress := rem i g.inProgress }
    simp only [m.live, m.peak, m.oneJob, m.depsOk, m.inProgress, m.freshOk, m.cancelOk, m.restartOk]
    simp [hok]

theorem invB_executeRecord {cfg : Cfg} {g : G} {i : Nat} {restart : Bool} (h : PreB cfg g i)
    (hdry : cfg.dry = true → i ∉ g.inProgress) (hrs : restart = true → cfg.hasRestart i = true) :
    InvB cfg (executeRecord cfg g i restart) := by
  obtain ⟨ec, ei, ef, ecn, er, ecl, ecq, es, eic, ers⟩ := execPrep_fields cfg g i restart
  obtain ⟨gl, gp, go, gd, gf, gc, gr⟩ := execPrep_ghost cfg g i restart h.par h.depsOk h.freshOk
    h.cancelOk h.restartOk h.nres h.ncan hrs
  obtain ⟨b1, b2, b3, b4, b5, b6, b7, b8, b9, b10, b11, b12, b13, b14⟩ := h
  unfold executeRecord
  simp only
  split
  · rename_i hd
    have := hdry hd
    constructor <;> simp only [dryMark, setStatus, gl, gp, go, gd, gf, gc, gr, ei] <;> grind
  · have fr := submitLoop_frame cfg i restart cfg.attempts (execPrep cfg g i restart)
    have gh := submitLoop_ghost cfg i restart cfg.attempts (execPrep cfg g i restart)
    generalize submitLoop cfg i restart cfg.attempts (execPrep cfg g i restart) = r at fr gh
    simp only [gl, gp, go] at gh
    have hip : r.1.inProgress = g.inProgress := by rw [fr.inProgress, ei]
    have hdo : r.1.depsOk = true := by rw [fr.depsOk, gd]
    have hfo : r.1.freshOk = true := by rw [fr.freshOk, gf]
    have hco : r.1.cancelOk = true := by rw [fr.cancelOk, gc]
    have hro : r.1.restartOk = true := by rw [fr.restartOk, gr]
    obtain ⟨x1, x2, x3, x4, x6, x7, x8, x5⟩ := execFinish_ghost cfg r.1 i r.2
    rw [hip] at x5
    by_cases hc : r.2 = true ∧ cfg.sched i = true
    · obtain ⟨g1, g2, g3⟩ := gh.1 hc
      have x5' : (execFinish cfg r.1 i r.2).inProgress = ins i g.inProgress := by
        rw [x5]; simp [hc]
      have hil : i ∉ g.live := fun hcc => ((b1 i).mp hcc).2 rfl
      have hlen : (ins i g.live).length ≤ g.live.length + 1 := length_ins_le i g.live
      constructor
      · intro x; rw [x1, x5', g1]; simp only [mem_ins, b1]; grind
      · rw [x1, g1]; exact nodup_ins b2
      · rw [x5']; exact nodup_ins b3
      · intro ht
        rw [x5']
        by_cases hm : i ∈ g.inProgress
        · rw [length_ins_mem hm]; exact b4 ht
        · have hl : g.live.length = g.inProgress.length :=
            length_eq_of_nodup b2 b3 (fun x => by rw [b1]; grind)
          have := length_ins_le i g.inProgress
          have := b5 ht
          omega
      · intro ht
        rw [x2, g2]
        have := b5 ht; have := b6 ht
        omega
      · rw [x4]; exact hdo
      · rw [x3, g3, b8]; simp [hil]
      · rw [x6]; exact hfo
      · rw [x7]; exact hco
      · rw [x8]; exact hro
    · obtain ⟨g1, g2, g3⟩ := gh.2 hc
      have hx5 : ∀ x, x ∈ (execFinish cfg r.1 i r.2).inProgress ↔ (x ∈ g.inProgress ∧ x ≠ i) := by
        intro x; rw [x5]
        by_cases hr : r.2 = true
        · have hs : ¬ cfg.sched i = true := fun hs => hc ⟨hr, hs⟩
          simp [hr, hs]; grind
        · simp [hr]
      have hnd : (execFinish cfg r.1 i r.2).inProgress.Nodup := by
        rw [x5]; repeat' split
        · exact nodup_ins b3
        · exact nodup_rem (nodup_ins b3)
        · exact nodup_rem b3
      constructor
      · intro x; rw [hx5, x1, g1, b1]
      · rw [x1, g1]; exact b2
      · exact hnd
      · intro ht
        have : (execFinish cfg r.1 i r.2).inProgress.length ≤ g.inProgress.length :=
          hnd.length_le_of_subset (fun x hx => ((hx5 x).mp hx).1)
        have := b4 ht
        omega
      · intro ht; rw [x2, g2]; exact b6 ht
      · rw [x4]; exact hdo
      · rw [x3, g3]; exact b8
      · rw [x6]; exact hfo
      · rw [x7]; exact hco
      · rw [x8]; exact hro

theorem executeRecord_len (cfg : Cfg) (g : G) (i : Nat) (restart : Bool) :
    (executeRecord cfg g i restart).inProgress.length ≤ g.inProgress.length + 1 := by
  obtain ⟨ec, ei, _⟩ := execPrep_fields cfg g i restart
  unfold executeRecord
  simp only
  split
  · simp [dryMark, setStatus, ei]
  · have fr := submitLoop_frame cfg i restart cfg.attempts (execPrep cfg g i restart)
    generalize submitLoop cfg i restart cfg.attempts (execPrep cfg g i restart) = r at fr
    obtain ⟨_, _, _, _, _, _, _, x5⟩ := execFinish_ghost cfg r.1 i r.2
    rw [x5, fr.inProgress, ei]
    have h1 := length_ins_le i g.inProgress
    have h2 := length_rem_le i (ins i g.inProgress)
    have h3 := length_rem_le i g.inProgress
    repeat' split
    all_goals omega

theorem invB_of_same {cfg : Cfg} {g g' : G} (h : InvB cfg g) (h1 : g'.live = g.live)
    (h2 : g'.inProgress = g.inProgress) (h3 : g'.peak = g.peak) (h4 : g'.depsOk = g.depsOk)
    (h5 : g'.oneJob = g.oneJob) (h6 : g'.freshOk = g.freshOk) (h7 : g'.cancelOk = g.cancelOk)
    (h8 : g'.restartOk = g.restartOk) : InvB cfg g' := by
  obtain ⟨b1, b2, b3, b4, b5, b6, b7, b8, b9, b10⟩ := h
  constructor <;> simp only [h1, h2, h3, h4, h5, h6, h7, h8] <;> assumption

theorem invB_report {cfg : Cfg} {g : G} (hA : InvA cfg g) (hB : InvB cfg g)
    (hdry : cfg.dry = false) {i : Nat} (hi : i ∈ g.inProgress) (st : Option State) :
    InvB cfg (report cfg g i st) := by
  have hil : i ∈ g.live := (hB.liveEq i).mpr hi
  have hrm : ∀ l : List Nat, (rem i l).length ≤ l.length := length_rem_le i
  have hB0 := hB
  obtain ⟨b1, b2, b3, b4, b5, b6, b7, b8, b9, b10⟩ := hB
  have hremB : InvB cfg { g with live := rem i g.live, inProgress := rem i g.inProgress } := by
    constructor
    · intro x; simp only [mem_rem, b1]
    · exact nodup_rem b2
    · exact nodup_rem b3
    · intro ht; have := hrm g.inProgress; have := b4 ht; simp only; omega
    · exact b5
    · exact b6
    · exact b7
    · exact b8
    · exact b9
    · exact b10
  have lA := launchable_of_inProgress hA hi
  cases st with
  | none => simpa [report, terminal] using hB0
  | some s =>
    cases s
    case TIMEDOUT =>
      simp only [report, terminal, ↓reduceIte]
      split
      · rename_i hguard
        simp only [Bool.and_eq_true, Bool.not_eq_eq_eq_not, Bool.not_true] at hguard
        split
        · apply invB_executeRecord
          · constructor
            · intro x; simp only [setStatus, mem_rem, b1]
            · exact nodup_rem b2
            · exact b3
            · exact b4
            · intro ht
              simp only [setStatus]
              have h1 := length_rem_lt hil
              have h2 : g.live.length = g.inProgress.length := length_eq_of_nodup b2 b3 b1
              have := b4 ht
              omega
            · exact b5
            · exact b6
            · exact b7
            · intro p hp; exact hA.ancR i p (Or.inr hi) hp
            · exact b8
            · exact b9
            · exact b10
            · exact ⟨lA.nc, lA.nf, lA.ncn⟩
            · exact hguard.2
          · intro hd; rw [hdry] at hd; cases hd
          · intro _; exact hguard.1
        · exact invB_of_same hremB rfl rfl rfl rfl rfl rfl rfl rfl
      · exact invB_of_same hremB rfl rfl rfl rfl rfl rfl rfl rfl
    case FINISHED => exact invB_of_same hremB rfl rfl rfl rfl rfl rfl rfl rfl
    case FAILED => exact invB_of_same hremB rfl rfl rfl rfl rfl rfl rfl rfl
    case UNKNOWN => exact invB_of_same hremB rfl rfl rfl rfl rfl rfl rfl rfl
    case CANCELLED => exact invB_of_same hremB rfl rfl rfl rfl rfl rfl rfl rfl
    case HWFAILURE => exact invB_of_same hremB rfl rfl rfl rfl rfl rfl rfl rfl
    all_goals exact invB_of_same hB0 rfl rfl rfl rfl rfl rfl rfl rfl

theorem invB_reports {cfg : Cfg} (wf : WFCfg cfg) (hdry : cfg.dry = false) :
    ∀ (rs : List (Nat × Option State)) (g : G), InvA cfg g → InvB cfg g → (rs.map (·.1)).Nodup →
      (∀ r, r ∈ rs → r.1 ∈ g.inProgress) →
      InvB cfg (rs.foldl (fun g r => report cfg g r.1 r.2) g) := by
  intro rs
  induction rs with
  | nil => intro g _ h _ _; exact h
  | cons r rs ih =>
    intro g hA hB hn hm
    simp only [List.foldl_cons]
    simp only [List.map_cons, List.nodup_cons] at hn
    apply ih _ (inv_report wf hA hdry (hm r (by simp)) r.2)
      (invB_report hA hB hdry (hm r (by simp)) r.2) hn.2
    intro r' hr'
    apply report_inProgress_other
    · intro heq
      exact hn.1 (by rw [← heq]; exact List.mem_map_of_mem hr')
    · exact hm r' (by simp [hr'])

theorem invB_sweeps {cfg : Cfg} {g : G} (h : InvB cfg g) : InvB cfg (sweeps g) := by
  rw [sweeps_eq]
  have mf := markFailed_spec g.cleanup g
  have mc := markCancelled_spec g.cancelQ (markFailed g.cleanup g)
  apply invB_of_same h
  · simp only [mc.live, mf.live]
  · simp only [mc.inProgress, mf.inProgress]
  · simp only [mc.peak, mf.peak]
  · simp only [mc.depsOk, mf.depsOk]
  · simp only [mc.oneJob, mf.oneJob]
  · simp only [mc.freshOk, mf.freshOk]
  · simp only [mc.cancelOk, mf.cancelOk]
  · simp only [mc.restartOk, mf.restartOk]

theorem stageOne_ghost (g : G) (key : Nat) :
    (stageOne g key).live = g.live ∧ (stageOne g key).inProgress = g.inProgress ∧
    (stageOne g key).peak = g.peak ∧ (stageOne g key).depsOk = g.depsOk ∧
    (stageOne g key).oneJob = g.oneJob ∧ (stageOne g key).freshOk = g.freshOk ∧
    (stageOne g key).cancelOk = g.cancelOk ∧ (stageOne g key).restartOk = g.restartOk := by
  unfold stageOne
  split
  · simp
  · split
    · simp only
      split
      · split <;> simp
      · simp
    · simp

theorem stage_ghost (cfg : Cfg) (g : G) :
    (stage cfg g).live = g.live ∧ (stage cfg g).inProgress = g.inProgress ∧
    (stage cfg g).peak = g.peak ∧ (stage cfg g).depsOk = g.depsOk ∧
    (stage cfg g).oneJob = g.oneJob ∧ (stage cfg g).freshOk = g.freshOk ∧
    (stage cfg g).cancelOk = g.cancelOk ∧ (stage cfg g).restartOk = g.restartOk := by
  unfold stage
  generalize List.range (cfg.n + 1) = keys
  induction keys generalizing g with
  | nil => simp
  | cons k ks ih =>
    simp only [List.foldl_cons]
    obtain ⟨a1, a2, a3, a4, a5, a6, a7, a8⟩ := stageOne_ghost g k
    obtain ⟨b1, b2, b3, b4, b5, b6, b7, b8⟩ := ih (stageOne g k)
    exact ⟨b1.trans a1, b2.trans a2, b3.trans a3, b4.trans a4, b5.trans a5, b6.trans a6,
      b7.trans a7, b8.trans a8⟩

theorem invB_launch {cfg : Cfg} (wf : WFCfg cfg) : ∀ (k : Nat) (g : G), InvA cfg g → InvB cfg g →
    g.cleanup = [] ∧ g.cancelQ = [] → (0 < cfg.throttle → g.inProgress.length + k ≤ cfg.throttle) →
    InvB cfg (launch cfg k g) := by
  intro k
  induction k with
  | zero => intro g _ h _ _; exact h
  | succ k ih =>
    intro g hA hB hq hk
    unfold launch
    split
    · exact hB
    · rename_i i rest hready
      have hir : i ∈ g.ready := by rw [hready]; simp
      have hnd : (i :: rest).Nodup := by rw [← hready]; exact hA.rN
      simp only [List.nodup_cons] at hnd
      have hsub : ∀ x, x ∈ rest → x ∈ g.ready := by intro x hx; rw [hready]; simp [hx]
      have h1 : InvA cfg { g with ready := rest } := by
        obtain ⟨h1, h2, h3, h4, h5, h6, h7, h8, h9, h10, h11, h12, h13⟩ := hA
        constructor <;> simp only [] <;> grind
      have l : Launchable cfg { g with ready := rest } i := by
        obtain ⟨h1, h2, h3, h4, h5, h6, h7, h8, h9, h10, h11, h12, h13⟩ := hA
        constructor <;> (try simp only []) <;> grind
      have hnip : i ∉ g.inProgress := fun hc => (hA.ipD i hc).2.2.2 hir
      have hB1 : InvB cfg { g with ready := rest } := invB_of_same hB rfl rfl rfl rfl rfl rfl rfl rfl
      simp only
      split
      · apply ih
        · obtain ⟨h1, h2, h3, h4, h5, h6, h7, h8, h9, h10, h11, h12, h13⟩ := h1
          obtain ⟨l1, l2, l3, l4, l5, l6, l7⟩ := l
          constructor <;> simp only [setStatus, mem_ins] <;> grind
        · exact invB_of_same hB rfl rfl rfl rfl rfl rfl rfl rfl
        · simpa [setStatus] using hq
        · intro ht; have := hk ht; simp only [setStatus]; omega
      · rename_i hncan
        have hx := inv_executeRecord wf h1 l (restart := false) (fun hc => by cases hc)
          (fun _ => hnip) (fun _ => rfl)
        obtain ⟨_, f2, f3, _⟩ := executeRecord_frame cfg { g with ready := rest } i false
        have hlen := executeRecord_len cfg { g with ready := rest } i false
        apply ih _ hx
        · apply invB_executeRecord
          · obtain ⟨b1, b2, b3, b4, b5, b6, b7, b8, b9, b10⟩ := hB
            constructor
            · intro x; simp only [b1]; grind
            · exact b2
            · exact b3
            · exact b4
            · intro ht
              have h2 : g.live.length = g.inProgress.length := length_eq_of_nodup b2 b3 b1
              have := hk ht
              simp only; omega
            · exact b5
            · exact b6
            · exact b7
            · exact l.par
            · exact b8
            · exact b9
            · exact b10
            · exact ⟨l.nc, l.nf, l.ncn⟩
            · simpa using hncan
          · intro _; exact hnip
          · intro hc; cases hc
        · rw [f2, f3]; exact hq
        · intro ht; have := hk ht; simp only at hlen; omega

theorem invB_emit {cfg : Cfg} {g : G} (h : InvB cfg g) (e : Ev) : InvB cfg (emit g e) :=
  invB_of_same h rfl rfl rfl rfl rfl rfl rfl rfl

theorem available_bound {cfg : Cfg} {g : G} (hB : InvB cfg g) :
    0 < cfg.throttle → g.inProgress.length + available cfg g ≤ cfg.throttle := by
  intro ht
  have := hB.thr ht
  unfold available
  have hne : (cfg.throttle == 0) = false := by simp; omega
  simp only [hne, Bool.false_eq_true, ↓reduceIte]
  omega

/-- the full invariant between polls -/
structure InvAll (cfg : Cfg) (g : G) : Prop extends Inv cfg g where
  b : InvB cfg g

theorem invAll_poll {cfg : Cfg} (wf : WFCfg cfg) {g : G} (h : InvAll cfg g) {p : PollIn}
    (hp : WFPoll g p) : InvAll cfg (poll cfg g p).1 := by
  refine ⟨inv_poll wf h.toInv hp, ?_⟩
  have hI := h.toInv
  have hB := h.b
  unfold poll
  simp only
  by_cases hd : cfg.dry = true
  · simp only [hd, ↓reduceIte]
    obtain ⟨s1, s2, s3, s4, s5⟩ := inv_stage hI.toInvA ⟨hI.noClean, hI.noCancQ⟩
    obtain ⟨t1, t2, t3, t4, t5, t6, t7, t8⟩ := stage_ghost cfg g
    have hBs : InvB cfg (stage cfg g) := invB_of_same hB t1 t2 t3 t4 t5 t6 t7 t8
    exact invB_launch wf _ _ s1 hBs ⟨s2, s3⟩ (available_bound hBs)
  · have hd' : cfg.dry = false := by simpa using hd
    simp only [hd', Bool.false_eq_true, ↓reduceIte]
    have he := inv_emit hI.toInvA (Ev.check g.inProgress)
    have heB := invB_emit hB (Ev.check g.inProgress)
    cases hc : p.code with
    | ERROR => simp only; exact heB
    | NOJOBS =>
      simp only
      obtain ⟨s1, s2, s3, s4, s5⟩ := inv_stage he
        ⟨by simpa [emit] using hI.noClean, by simpa [emit] using hI.noCancQ⟩
      obtain ⟨t1, t2, t3, t4, t5, t6, t7, t8⟩ := stage_ghost cfg (emit g (Ev.check g.inProgress))
      have hBs := invB_of_same heB t1 t2 t3 t4 t5 t6 t7 t8
      exact invB_launch wf _ _ s1 hBs ⟨s2, s3⟩ (available_bound hBs)
    | OK =>
      simp only
      have hr := inv_reports wf hd' p.reports (emit g (Ev.check g.inProgress)) he hp.nodup
        (by intro r hr; simpa [emit] using hp.mem r hr)
      have hrB := invB_reports wf hd' p.reports (emit g (Ev.check g.inProgress)) he heB hp.nodup
        (by intro r hr; simpa [emit] using hp.mem r hr)
      have hs := inv_sweeps hr
      have hsB := invB_sweeps hrB
      have hsq : (sweeps (p.reports.foldl (fun g r => report cfg g r.1 r.2)
          (emit g (Ev.check g.inProgress)))).cleanup = [] ∧
          (sweeps (p.reports.foldl (fun g r => report cfg g r.1 r.2)
          (emit g (Ev.check g.inProgress)))).cancelQ = [] := by
        simp [sweeps]
      obtain ⟨s1, s2, s3, s4, s5⟩ := inv_stage hs hsq
      obtain ⟨t1, t2, t3, t4, t5, t6, t7, t8⟩ := stage_ghost cfg (sweeps (p.reports.foldl
        (fun g r => report cfg g r.1 r.2) (emit g (Ev.check g.inProgress))))
      have hBs := invB_of_same hsB t1 t2 t3 t4 t5 t6 t7 t8
      exact invB_launch wf _ _ s1 hBs ⟨s2, s3⟩ (available_bound hBs)

theorem invAll_cancel {cfg : Cfg} {g : G} (h : InvAll cfg g) : InvAll cfg (cancel g) :=
  ⟨inv_cancel h.toInv, invB_of_same h.b rfl rfl rfl rfl rfl rfl rfl rfl⟩

theorem invAll_init (cfg : Cfg) (wf : WFCfg' cfg) : InvAll cfg (init cfg) := by
  refine ⟨Inv_init cfg wf, ?_⟩
  constructor <;> simp [init]

theorem invAll_reachable {cfg : Cfg} (wf : WFCfg' cfg) {g : G} (h : Reachable cfg g) :
    InvAll cfg g := by
  induction h with
  | init => exact invAll_init cfg wf
  | poll p _ hp ih => exact invAll_poll wf.toWFCfg ih hp
  | cancel _ ih => exact invAll_cancel ih

end MaestroVerif.Exec
