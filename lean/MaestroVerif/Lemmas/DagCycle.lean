import MaestroVerif.Lemmas.DagBasic

/-! Correctness of the model of `detect_cycle` / `_detect_cycle`:
completeness (`false` ⇒ acyclic), soundness (`true` ⇒ a cycle exists) and fuel
sufficiency. -/
namespace MaestroVerif.Dag
open Relation

variable (g : Dag)

/-- finished: visited and no longer on the recursion stack -/
def InF (s : DS) (x : Nat) : Prop := x ∈ s.visited ∧ x ∉ s.rstack

structure Good (s : DS) : Prop where
  stk    : ∀ x, x ∈ s.rstack → x ∈ s.visited
  closed : ∀ x, InF s x → ∀ c, c ∈ g.adj x → InF s c
  nocyc  : ∀ x, InF s x → ¬ Path g x x

theorem inF_reach {g : Dag} {s : DS} (hc : ∀ x, InF s x → ∀ c, c ∈ g.adj x → InF s c)
    {a b : Nat} (h : Reach g a b) (ha : InF s a) : InF s b := by
  induction h with
  | refl => exact ha
  | tail _ e ih => exact hc _ ih _ e

/-! #### completeness -/

def PVisit (fuel : Nat) : Prop :=
  ∀ v s s', Good g s → v ∉ s.visited → dcVisit g fuel v s = some (false, s') →
    Good g s' ∧ s'.rstack = s.rstack ∧ (∀ x, x ∈ s.visited → x ∈ s'.visited) ∧ v ∈ s'.visited

def PChildren (fuel : Nat) : Prop :=
  ∀ v cs s s' R, Good g s → s.rstack = v :: R → v ∈ s.visited →
    (∀ c, c ∈ g.adj v → c ∈ cs ∨ InF s c) →
    dcChildren (dcVisit g fuel) v cs s = some (false, s') →
    Good g s' ∧ s'.rstack = R ∧ (∀ x, x ∈ s.visited → x ∈ s'.visited)

theorem pchildren_of_pvisit (fuel : Nat) (hv : PVisit g fuel) : PChildren g fuel := by
  intro v cs
  induction cs with
  | nil =>
    intro s s' R hg hr hvis hdone h
    simp only [dcChildren, Option.some.injEq, Prod.mk.injEq, true_and] at h
    subst h
    have hR : (s.rstack).erase v = R := by rw [hr]; simp
    refine ⟨?_, by simpa using hR, fun x hx => hx⟩
    have hsub : ∀ x, x ∈ R → x ∈ s.rstack := by intro x hx; rw [hr]; simp [hx]
    have hdone' : ∀ c, c ∈ g.adj v → InF s c := by
      intro c hc; rcases hdone c hc with h | h
      · simp at h
      · exact h
    constructor
    · intro x hx
      simp only [hR] at hx
      exact hg.stk x (hsub x hx)
    · intro x hx c hc
      simp only [InF, hR] at hx ⊢
      by_cases hxv : x = v
      · subst hxv
        have := hdone' c hc
        exact ⟨this.1, fun h => this.2 (hsub c h)⟩
      · have hx' : InF s x := ⟨hx.1, by rw [hr]; simp [hxv, hx.2]⟩
        have := hg.closed x hx' c hc
        exact ⟨this.1, fun h => this.2 (hsub c h)⟩
    · intro x hx
      simp only [InF, hR] at hx
      by_cases hxv : x = v
      · subst hxv
        intro hp
        obtain ⟨c, e, hcv⟩ := TransGen.head'_iff.mp hp
        have := inF_reach hg.closed hcv (hdone' c e)
        exact this.2 (by rw [hr]; simp)
      · exact hg.nocyc x ⟨hx.1, by rw [hr]; simp [hxv, hx.2]⟩
  | cons c cs ih =>
    intro s s' R hg hr hvis hdone h
    simp only [dcChildren] at h
    split at h
    · rename_i hcv
      split at h
      · exact absurd h (by simp)
      · simp at h
      · rename_i s1 hs1
        obtain ⟨hg1, hr1, hm1, hc1⟩ := hv c s s1 hg hcv hs1
        have hcr : c ∉ s.rstack := fun hh => hcv (hg.stk c hh)
        have := ih s1 s' R hg1 (by rw [hr1, hr]) (hm1 v hvis) (by
          intro c' hc'
          rcases hdone c' hc' with h | h
          · rcases List.mem_cons.mp h with h | h
            · subst h; exact Or.inr ⟨hc1, by rw [hr1]; exact hcr⟩
            · exact Or.inl h
          · exact Or.inr ⟨hm1 _ h.1, by rw [hr1]; exact h.2⟩) h
        exact ⟨this.1, this.2.1, fun x hx => this.2.2 x (hm1 x hx)⟩
    · rename_i hcv
      split at h
      · simp at h
      · rename_i hcr
        have hcv' : c ∈ s.visited := by simpa using hcv
        exact ih s s' R hg hr hvis (by
          intro c' hc'
          rcases hdone c' hc' with h | h
          · rcases List.mem_cons.mp h with h | h
            · subst h; exact Or.inr ⟨hcv', hcr⟩
            · exact Or.inl h
          · exact Or.inr h) h

theorem pvisit_all : ∀ fuel, PVisit g fuel := by
  intro fuel
  induction fuel with
  | zero => intro v s s' _ _ h; simp [dcVisit] at h
  | succ fuel ih =>
    intro v s s' hg hv h
    simp only [dcVisit] at h
    have hvr : v ∉ s.rstack := fun hh => hv (hg.stk v hh)
    have hg0 : Good g { visited := v :: s.visited, rstack := v :: s.rstack } := by
      constructor
      · intro x hx
        simp only [List.mem_cons] at hx ⊢
        rcases hx with h | h
        · exact Or.inl h
        · exact Or.inr (hg.stk x h)
      · intro x hx c hc
        simp only [InF, List.mem_cons, not_or] at hx ⊢
        have hxv : x ≠ v := hx.2.1
        have hx' : InF s x := ⟨by simpa [hxv] using hx.1, hx.2.2⟩
        have := hg.closed x hx' c hc
        refine ⟨Or.inr this.1, ?_, this.2⟩
        intro hcv; subst hcv; exact hv this.1
      · intro x hx
        simp only [InF, List.mem_cons, not_or] at hx
        have hxv : x ≠ v := hx.2.1
        exact hg.nocyc x ⟨by simpa [hxv] using hx.1, hx.2.2⟩
    have := pchildren_of_pvisit g fuel ih v (g.adj v) _ s' s.rstack hg0 rfl (by simp)
      (fun c hc => Or.inl hc) h
    refine ⟨this.1, this.2.1, fun x hx => this.2.2 x (by simp [hx]), this.2.2 v (by simp)⟩

theorem dcLoop_complete (fuel : Nat) :
    ∀ vs s, Good g s → s.rstack = [] → dcLoop g fuel vs s = some false →
      ∀ x, (x ∈ vs ∨ x ∈ s.visited) → ¬ Path g x x := by
  intro vs
  induction vs with
  | nil =>
    intro s hg hr _ x hx
    rcases hx with h | h
    · simp at h
    · exact hg.nocyc x ⟨h, by simp [hr]⟩
  | cons v vs ih =>
    intro s hg hr h x hx
    simp only [dcLoop] at h
    split at h
    · rename_i hv
      split at h
      · simp at h
      · simp at h
      · rename_i s1 hs1
        obtain ⟨hg1, hr1, hm1, hv1⟩ := pvisit_all g fuel v s s1 hg hv hs1
        apply ih s1 hg1 (by rw [hr1, hr]) h x
        rcases hx with h | h
        · rcases List.mem_cons.mp h with h | h
          · subst h; exact Or.inr hv1
          · exact Or.inl h
        · exact Or.inr (hm1 x h)
    · rename_i hv
      have hv' : v ∈ s.visited := by simpa using hv
      apply ih s hg hr h x
      rcases hx with h | h
      · rcases List.mem_cons.mp h with h | h
        · subst h; exact Or.inr hv'
        · exact Or.inl h
      · exact Or.inr h

theorem detectCycle_complete (wf : WF g) (h : detectCycle g = some false) : Acyclic g := by
  intro a hp
  have ha : a ∈ g.nodes := path_src_in_nodes wf hp
  have hg0 : Good g ⟨[], []⟩ := by
    constructor <;> simp [InF]
  exact dcLoop_complete g _ g.nodes ⟨[], []⟩ hg0 rfl h a (Or.inl ha) hp

/-! #### soundness -/

def RVisit (fuel : Nat) : Prop :=
  ∀ v s s', dcVisit g fuel v s = some (false, s') → s'.rstack = s.rstack

def RChildren (fuel : Nat) : Prop :=
  ∀ v cs s s', dcChildren (dcVisit g fuel) v cs s = some (false, s') →
    s'.rstack = s.rstack.erase v

theorem rchildren_of_rvisit (fuel : Nat) (hv : RVisit g fuel) : RChildren g fuel := by
  intro v cs
  induction cs with
  | nil => intro s s' h; simp only [dcChildren, Option.some.injEq, Prod.mk.injEq, true_and] at h; subst h; rfl
  | cons c cs ih =>
    intro s s' h
    simp only [dcChildren] at h
    split at h
    · split at h
      · simp at h
      · simp at h
      · rename_i s1 hs1
        rw [ih s1 s' h, hv c s s1 hs1]
    · split at h
      · simp at h
      · exact ih s s' h

theorem rvisit_all : ∀ fuel, RVisit g fuel := by
  intro fuel
  induction fuel with
  | zero => intro v s s' h; simp [dcVisit] at h
  | succ fuel ih =>
    intro v s s' h
    simp only [dcVisit] at h
    have := rchildren_of_rvisit g fuel ih v _ _ s' h
    simpa using this

def SVisit (fuel : Nat) : Prop :=
  ∀ v s s', (∀ r, r ∈ s.rstack → Reach g r v) → dcVisit g fuel v s = some (true, s') →
    ∃ x, Path g x x

def SChildren (fuel : Nat) : Prop :=
  ∀ v cs s s', (∀ r, r ∈ s.rstack → Reach g r v) → (∀ c, c ∈ cs → Edge g v c) →
    dcChildren (dcVisit g fuel) v cs s = some (true, s') → ∃ x, Path g x x

theorem schildren_of_svisit (fuel : Nat) (hv : SVisit g fuel) : SChildren g fuel := by
  intro v cs
  induction cs with
  | nil => intro s s' _ _ h; simp [dcChildren] at h
  | cons c cs ih =>
    intro s s' hr he h
    have hvc : Edge g v c := he c (by simp)
    simp only [dcChildren] at h
    split at h
    · split at h
      · simp at h
      · rename_i s1 hs1
        exact hv c s s1 (fun r hrr => (hr r hrr).tail hvc) hs1
      · rename_i s1 hs1
        have hr1 := rvisit_all g fuel c s s1 hs1
        exact ih s1 s' (by rw [hr1]; exact hr) (fun c' hc' => he c' (by simp [hc'])) h
    · split at h
      · rename_i hcr
        exact ⟨v, TransGen.head'_iff.mpr ⟨c, hvc, hr c hcr⟩⟩
      · exact ih s s' hr (fun c' hc' => he c' (by simp [hc'])) h

theorem svisit_all : ∀ fuel, SVisit g fuel := by
  intro fuel
  induction fuel with
  | zero => intro v s s' _ h; simp [dcVisit] at h
  | succ fuel ih =>
    intro v s s' hr h
    simp only [dcVisit] at h
    refine schildren_of_svisit g fuel ih v (g.adj v) _ s' ?_ (fun c hc => hc) h
    intro r hrr
    simp only [List.mem_cons] at hrr
    rcases hrr with h | h
    · subst h; exact ReflTransGen.refl
    · exact hr r h

theorem dcLoop_sound (fuel : Nat) :
    ∀ vs s, s.rstack = [] → dcLoop g fuel vs s = some true → ∃ x, Path g x x := by
  intro vs
  induction vs with
  | nil => intro s _ h; simp [dcLoop] at h
  | cons v vs ih =>
    intro s hr h
    simp only [dcLoop] at h
    split at h
    · split at h
      · simp at h
      · rename_i s1 hs1
        exact svisit_all g fuel v s s1 (by simp [hr]) hs1
      · rename_i s1 hs1
        exact ih s1 (by rw [rvisit_all g fuel v s s1 hs1, hr]) h
    · exact ih s hr h

theorem detectCycle_sound (h : detectCycle g = some true) : ¬ Acyclic g := by
  obtain ⟨x, hx⟩ := dcLoop_sound g _ g.nodes ⟨[], []⟩ rfl h
  exact fun ha => ha x hx

/-! #### fuel sufficiency -/

/-- number of nodes not yet visited -/
def unvisited (vis : List Nat) : Nat := (g.nodes.filter (fun x => decide (x ∉ vis))).length

theorem filter_len_le_of_imp {p q : Nat → Bool} (h : ∀ x, p x = true → q x = true) :
    ∀ l : List Nat, (l.filter p).length ≤ (l.filter q).length := by
  intro l
  induction l with
  | nil => simp
  | cons a l ih =>
    simp only [List.filter_cons]
    by_cases hp : p a = true
    · simp [hp, h a hp, ih]
    · by_cases hq : q a = true
      · simp [hp, hq]; omega
      · simp [hp, hq, ih]

theorem unvisited_mono {vis vis' : List Nat} (h : ∀ x, x ∈ vis → x ∈ vis') :
    unvisited g vis' ≤ unvisited g vis := by
  unfold unvisited
  apply filter_len_le_of_imp
  intro x hx
  simp only [decide_eq_true_eq] at hx ⊢
  exact fun hh => hx (h x hh)

theorem filter_len_lt {p q : Nat → Bool} (h : ∀ x, p x = true → q x = true) {v : Nat}
    (hq : q v = true) (hp : p v = false) :
    ∀ l : List Nat, v ∈ l → (l.filter p).length < (l.filter q).length := by
  intro l
  induction l with
  | nil => simp
  | cons a l ih =>
    intro hv
    simp only [List.filter_cons]
    by_cases hav : a = v
    · subst hav
      have := filter_len_le_of_imp h l
      simp [hp, hq]; omega
    · have hv' : v ∈ l := by
        rcases List.mem_cons.mp hv with h | h
        · exact absurd h.symm hav
        · exact h
      have := ih hv'
      by_cases hpa : p a = true
      · simp [hpa, h a hpa, this]
      · by_cases hqa : q a = true
        · simp [hpa, hqa]; omega
        · simp [hpa, hqa, this]

theorem unvisited_lt {vis : List Nat} {v : Nat} (hv : v ∈ g.nodes) (hnv : v ∉ vis) :
    unvisited g (v :: vis) < unvisited g vis := by
  unfold unvisited
  apply filter_len_lt (v := v) _ _ _ _ hv
  · intro x hx
    simp only [List.mem_cons, not_or, decide_eq_true_eq] at hx ⊢
    exact hx.2
  · simpa using hnv
  · simp

def MVisit (fuel : Nat) : Prop :=
  ∀ v s b s', dcVisit g fuel v s = some (b, s') → ∀ x, x ∈ s.visited → x ∈ s'.visited

def MChildren (fuel : Nat) : Prop :=
  ∀ v cs s b s', dcChildren (dcVisit g fuel) v cs s = some (b, s') →
    ∀ x, x ∈ s.visited → x ∈ s'.visited

theorem mchildren_of_mvisit (fuel : Nat) (hv : MVisit g fuel) : MChildren g fuel := by
  intro v cs
  induction cs with
  | nil =>
    intro s b s' h x hx
    simp only [dcChildren, Option.some.injEq, Prod.mk.injEq] at h
    rw [← h.2]; exact hx
  | cons c cs ih =>
    intro s b s' h x hx
    simp only [dcChildren] at h
    split at h
    · split at h
      · simp at h
      · rename_i s1 hs1
        simp only [Option.some.injEq, Prod.mk.injEq] at h
        rw [← h.2]; exact hv c s true s1 hs1 x hx
      · rename_i s1 hs1
        exact ih s1 b s' h x (hv c s false s1 hs1 x hx)
    · split at h
      · simp only [Option.some.injEq, Prod.mk.injEq] at h
        rw [← h.2]; exact hx
      · exact ih s b s' h x hx

theorem mvisit_all : ∀ fuel, MVisit g fuel := by
  intro fuel
  induction fuel with
  | zero => intro v s b s' h; simp [dcVisit] at h
  | succ fuel ih =>
    intro v s b s' h x hx
    simp only [dcVisit] at h
    exact mchildren_of_mvisit g fuel ih v _ _ b s' h x (by simp [hx])

def FVisit (fuel : Nat) : Prop :=
  ∀ v s, v ∈ g.nodes → v ∉ s.visited → unvisited g s.visited ≤ fuel →
    dcVisit g fuel v s ≠ none

def FChildren (fuel : Nat) : Prop :=
  ∀ v cs s, (∀ c, c ∈ cs → c ∈ g.nodes) → unvisited g s.visited ≤ fuel →
    dcChildren (dcVisit g fuel) v cs s ≠ none

theorem fchildren_of_fvisit (fuel : Nat) (hv : FVisit g fuel) : FChildren g fuel := by
  intro v cs
  induction cs with
  | nil => intro s _ _; simp [dcChildren]
  | cons c cs ih =>
    intro s hcs hu
    simp only [dcChildren]
    split
    · rename_i hcv
      have := hv c s (hcs c (by simp)) hcv hu
      split
      · rename_i heq; exact absurd heq this
      · simp
      · rename_i s1 hs1
        apply ih s1 (fun c' hc' => hcs c' (by simp [hc']))
        exact Nat.le_trans (unvisited_mono g (mvisit_all g fuel c s false s1 hs1)) hu
    · split
      · simp
      · exact ih s (fun c' hc' => hcs c' (by simp [hc'])) hu

theorem fvisit_all (wf : WF g) : ∀ fuel, FVisit g fuel := by
  intro fuel
  induction fuel with
  | zero =>
    intro v s hv hnv hu
    have := unvisited_lt g hv hnv
    omega
  | succ fuel ih =>
    intro v s hv hnv hu
    simp only [dcVisit]
    apply fchildren_of_fvisit g fuel ih v (g.adj v) _ (fun c hc => wf.dst v c hc)
    have := unvisited_lt g hv hnv
    simp only
    omega

theorem dcLoop_fuel (wf : WF g) (fuel : Nat) :
    ∀ vs s, (∀ v, v ∈ vs → v ∈ g.nodes) → unvisited g s.visited ≤ fuel →
      dcLoop g fuel vs s ≠ none := by
  intro vs
  induction vs with
  | nil => intro s _ _; simp [dcLoop]
  | cons v vs ih =>
    intro s hvs hu
    simp only [dcLoop]
    split
    · rename_i hv
      have := fvisit_all g wf fuel v s (hvs v (by simp)) hv hu
      split
      · rename_i heq; exact absurd heq this
      · simp
      · rename_i s1 hs1
        apply ih s1 (fun v' hv' => hvs v' (by simp [hv']))
        exact Nat.le_trans (unvisited_mono g (mvisit_all g _ v s false s1 hs1)) hu
    · exact ih s (fun v' hv' => hvs v' (by simp [hv'])) hu

theorem detectCycle_fuel (wf : WF g) : detectCycle g ≠ none := by
  unfold detectCycle
  apply dcLoop_fuel g wf _ g.nodes ⟨[], []⟩ (fun v hv => hv)
  unfold unvisited
  exact Nat.le_succ_of_le (List.length_filter_le _ _)

end MaestroVerif.Dag
