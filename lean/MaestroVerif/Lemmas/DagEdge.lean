import MaestroVerif.Lemmas.DagCycle

/-! `add_node` / `add_edge` / `remove_edge` preserve well-formedness and acyclicity. -/
namespace MaestroVerif.Dag
open Relation

theorem edge_setAdj {g : Dag} {s : Nat} {l : List Nat} {a b : Nat} :
    Edge (setAdj g s l) a b ↔ (a = s ∧ b ∈ l) ∨ (a ≠ s ∧ Edge g a b) := by
  unfold Edge setAdj
  by_cases h : a = s <;> simp [h]

theorem acyclic_of_edge_sub {g g' : Dag} (h : ∀ a b, Edge g' a b → Edge g a b)
    (ha : Acyclic g) : Acyclic g' := by
  intro a hp
  exact ha a (TransGen.mono (fun a b => h a b) a a hp)

theorem edge_addNode {g : Dag} (wf : WF g) {n a b : Nat} :
    Edge (addNode g n) a b ↔ Edge g a b := by
  unfold addNode
  split
  · rfl
  · rename_i hn
    unfold Edge
    simp only
    split
    · subst_vars
      constructor
      · intro h; simp at h
      · intro h; exact absurd (wf.src _ _ h) hn
    · rfl

theorem acyclic_addNode {g : Dag} (wf : WF g) (ha : Acyclic g) (n : Nat) :
    Acyclic (addNode g n) :=
  acyclic_of_edge_sub (fun _ _ h => (edge_addNode wf).mp h) ha

/-- the graph with the candidate edge appended (the state in which `add_edge`
calls `detect_cycle`) -/
def withEdge (g : Dag) (s d : Nat) : Dag := setAdj g s (g.adj s ++ [d])

theorem edge_withEdge {g : Dag} {s d a b : Nat} :
    Edge (withEdge g s d) a b ↔ Edge g a b ∨ (a = s ∧ b = d) := by
  unfold withEdge
  rw [edge_setAdj]
  unfold Edge
  by_cases h : a = s
  · subst h; simp
  · simp [h]

theorem wf_withEdge {g : Dag} (wf : WF g) {s d : Nat} (hs : s ∈ g.nodes) (hd : d ∈ g.nodes)
    (hnd : d ∉ g.adj s) : WF (withEdge g s d) := by
  apply wf_setAdj wf s _ hs
  · intro x hx
    simp only [List.mem_append, List.mem_singleton] at hx
    rcases hx with h | h
    · exact wf.dst s x h
    · subst h; exact hd
  · rw [List.nodup_append]
    refine ⟨wf.adjNodup s, by simp, ?_⟩
    intro a ha b hb
    simp at hb; subst hb
    intro h; subst h; exact hnd ha

/-- a path in the graph with the extra edge either avoids it or goes through it -/
theorem path_withEdge {g : Dag} {s d a b : Nat} (h : Path (withEdge g s d) a b) :
    Path g a b ∨ (Reach g a s ∧ Reach g d b) := by
  induction h with
  | single e =>
    rcases edge_withEdge.mp e with h | ⟨h1, h2⟩
    · exact Or.inl (TransGen.single h)
    · subst h1; subst h2; exact Or.inr ⟨ReflTransGen.refl, ReflTransGen.refl⟩
  | tail _ e ih =>
    rcases edge_withEdge.mp e with h | ⟨h1, h2⟩
    · rcases ih with ih | ⟨i1, i2⟩
      · exact Or.inl (ih.tail h)
      · exact Or.inr ⟨i1, i2.tail h⟩
    · subst h1; subst h2
      rcases ih with ih | ⟨i1, _⟩
      · exact Or.inr ⟨ih.to_reflTransGen, ReflTransGen.refl⟩
      · exact Or.inr ⟨i1, ReflTransGen.refl⟩

theorem erase_append_singleton {l : List Nat} {d : Nat} (h : d ∉ l) : (l ++ [d]).erase d = l := by
  induction l with
  | nil => simp
  | cons a l ih =>
    have hne : a ≠ d := fun h' => h (by simp [h'])
    have hd : d ∉ l := fun h' => h (by simp [h'])
    simp [hne, ih hd]

theorem restore_eq {g : Dag} {s d : Nat} (hnd : d ∉ g.adj s) :
    setAdj (withEdge g s d) s (((withEdge g s d).adj s).erase d) = g := by
  cases g with
  | mk nodes adj =>
    simp only [withEdge, setAdj, ↓reduceIte]
    congr
    funext x
    by_cases h : x = s
    · subst h; simp only [↓reduceIte]; exact erase_append_singleton hnd
    · simp [h]

theorem addEdge_cases (g : Dag) (s d : Nat) :
    (addEdge g s d = (g, .ok)) ∨ (addEdge g s d = (g, .valueError)) ∨
    (s ≠ d ∧ s ∈ g.nodes ∧ d ∈ g.nodes ∧ d ∉ g.adj s ∧
      ((detectCycle (withEdge g s d) = none ∧ addEdge g s d = (withEdge g s d, .outOfFuel)) ∨
       (detectCycle (withEdge g s d) = some false ∧ addEdge g s d = (withEdge g s d, .ok)) ∨
       (detectCycle (withEdge g s d) = some true ∧
          addEdge g s d = (setAdj (withEdge g s d) s (((withEdge g s d).adj s).erase d), .cycleError)))) := by
  unfold addEdge
  by_cases h1 : s = d
  · simp [h1]
  · by_cases h2 : s ∈ g.nodes
    · by_cases h3 : d ∈ g.nodes
      · by_cases h4 : d ∈ g.adj s
        · simp [h1, h2, h3, h4]
        · right; right
          refine ⟨h1, h2, h3, h4, ?_⟩
          simp only [h1, h2, h3, h4, not_true_eq_false, ↓reduceIte]
          show _ ∨ _ ∨ _
          cases hdc : detectCycle (withEdge g s d) with
          | none => left; simp [withEdge] at hdc ⊢; simp [hdc]
          | some b =>
            cases b with
            | false => right; left; simp [withEdge] at hdc ⊢; simp [hdc]
            | true => right; right; simp [withEdge] at hdc ⊢; simp [hdc]
      · simp [h1, h2, h3]
    · simp [h1, h2]

theorem wf_addEdge {g : Dag} (wf : WF g) (s d : Nat) : WF (addEdge g s d).1 := by
  rcases addEdge_cases g s d with h | h | ⟨_, hs, hd, hnd, h | h | h⟩
  · rw [h]; exact wf
  · rw [h]; exact wf
  · rw [h.2]; exact wf_withEdge wf hs hd hnd
  · rw [h.2]; exact wf_withEdge wf hs hd hnd
  · rw [h.2, restore_eq hnd]; exact wf

theorem acyclic_addEdge {g : Dag} (wf : WF g) (ha : Acyclic g) (s d : Nat) :
    Acyclic (addEdge g s d).1 := by
  rcases addEdge_cases g s d with h | h | ⟨_, hs, hd, hnd, h | h | h⟩
  · rw [h]; exact ha
  · rw [h]; exact ha
  · exact absurd h.1 (detectCycle_fuel _ (wf_withEdge wf hs hd hnd))
  · rw [h.2]; exact detectCycle_complete _ (wf_withEdge wf hs hd hnd) h.1
  · rw [h.2, restore_eq hnd]; exact ha

theorem wf_removeEdge {g : Dag} (wf : WF g) (s d : Nat) : WF (removeEdge g s d).1 := by
  unfold removeEdge
  split
  · exact wf
  · split
    · exact wf
    · rename_i hs _
      split
      · apply wf_setAdj wf s _ (by simpa using hs)
        · intro x hx; exact wf.dst s x (List.mem_of_mem_erase hx)
        · exact (wf.adjNodup s).erase d
      · exact wf

theorem acyclic_removeEdge {g : Dag} (ha : Acyclic g) (s d : Nat) :
    Acyclic (removeEdge g s d).1 := by
  unfold removeEdge
  split
  · exact ha
  · split
    · exact ha
    · split
      · apply acyclic_of_edge_sub _ ha
        intro a b h
        rcases edge_setAdj.mp h with ⟨h1, h2⟩ | ⟨_, h2⟩
        · subst h1; exact List.mem_of_mem_erase h2
        · exact h2
      · exact ha

end MaestroVerif.Dag
