import MaestroVerif.Lemmas.ExpandAdj

/-! Lifting a property of the graph that every placement preserves to the whole of `stage`;
instance names are pairwise distinct in every expansion (C08). -/
namespace MaestroVerif.Expand
open MaestroVerif.Subst

/-- `P` is preserved by placing an instance, whatever instance and wiring -/
def PlaceInv (P : XG → Prop) : Prop :=
  ∀ (ord : List Str → List Str) (s s' : SS) (inst : Inst) (isRoot : Bool) (parents hubD : List Str),
    place ord s inst isRoot parents hubD = .ok s' → P s.g → P s'.g

theorem foldl_except_inv {α : Type} (Q : SS → Prop) (f : Except Err SS → α → Except Err SS)
    (hf : ∀ a x s', (∀ s, a = .ok s → Q s) → f a x = .ok s' → Q s')
    (herr : ∀ e x, f (.error e) x = .error e) :
    ∀ (l : List α) (a : Except Err SS) (s' : SS), (∀ s, a = .ok s → Q s) → l.foldl f a = .ok s' → Q s' := by
  intro l
  induction l with
  | nil => intro a s' ha h; exact ha s' h
  | cons x xs ih =>
    intro a s' ha h
    simp only [List.foldl_cons] at h
    apply ih (f a x) s' _ h
    intro s hs
    exact hf a x s ha hs

theorem stageRow_inv {P : XG → Prop} (hP : PlaceInv P) (spec : Spec) (ord : List Str → List Str)
    (st : Step) (used : List Str) (s s' : SS) (row : Nat)
    (h : stageRow spec ord st used s row = .ok s') (hs : P s.g) : P s'.g := by
  unfold stageRow at h
  simp only at h
  split at h
  · simp only [Except.ok.injEq] at h; subst h; exact hs
  · split at h
    · cases h
    · exact hP _ _ _ _ _ _ _ h hs

theorem stageStep_inv {P : XG → Prop} (hP : PlaceInv P) (spec : Spec) (ord : List Str → List Str)
    (s s' : SS) (st : Step) (h : stageStep spec ord s st = .ok s') (hs : P s.g) : P s'.g := by
  unfold stageStep at h
  simp only at h
  split at h
  · cases h
  · split at h
    · split at h
      · cases h
      · exact hP _ _ _ _ _ _ _ h hs
    · refine foldl_except_inv (fun s => P s.g) _ ?_ ?_ _ _ s' ?_ h
      · intro a row s'' ha hrow
        cases a with
        | error e => simp at hrow
        | ok sa => exact stageRow_inv hP spec ord st _ sa s'' row hrow (ha sa rfl)
      · intro e x; rfl
      · intro s0 hs0
        simp only [Except.ok.injEq] at hs0
        subst hs0
        exact hs

/-- **a property of the graph that every placement preserves holds of every expansion** -/
theorem stage_inv {P : XG → Prop} (hP : PlaceInv P) (spec : Spec) (ord : List Str → List Str)
    (r : XG) (h : stage spec ord = .ok r) (h0 : P (initSS spec.root).g) : P r := by
  unfold stage at h
  split at h
  · cases h
  · split at h
    · cases h
    · simp only at h
      split at h
      · cases h
      · rename_i s hfold
        simp only [Except.ok.injEq] at h
        subst h
        refine foldl_except_inv (fun s => P s.g) _ ?_ ?_ _ _ s ?_ hfold
        · intro a idx s'' ha hstep
          cases a with
          | error e => simp at hstep
          | ok sa =>
            simp only at hstep
            split at hstep
            · simp only [Except.ok.injEq] at hstep; subst hstep; exact ha sa rfl
            · split at hstep
              · simp only [Except.ok.injEq] at hstep; subst hstep; exact ha sa rfl
              · split at hstep
                · simp only [Except.ok.injEq] at hstep; subst hstep; exact ha sa rfl
                · exact stageStep_inv hP spec ord sa s'' _ hstep (ha sa rfl)
        · intro e x; rfl
        · intro s0 hs0
          simp only [Except.ok.injEq] at hs0
          subst hs0
          exact h0

/-! ### exactly one instance per name -/

def UniqueNames (g : XG) : Prop :=
  (g.insts.map (·.name)).Nodup ∧ ∀ i, i ∈ g.insts → g.hasNode i.name = true

theorem wire_hasNode {ord : List Str → List Str} (g g' : XG) (isRoot : Bool) (parents hubD : List Str)
    (combos : List (Str × List Str)) (child : Str)
    (h : wire ord g isRoot parents hubD combos child = .ok g') : ∀ n, g'.hasNode n = g.hasNode n := by
  cases isRoot with
  | true =>
    have h' : [SOURCE].foldl (connStep child) (.ok g) = .ok g' := by simpa [wire, connStep] using h
    exact (connFold_adj child _ _ _ h').1
  | false =>
    rw [wire_eq] at h
    exact (connFold_adj child _ _ _ h).1

theorem wire_insts {ord : List Str → List Str} (g g' : XG) (isRoot : Bool) (parents hubD : List Str)
    (combos : List (Str × List Str)) (child : Str)
    (h : wire ord g isRoot parents hubD combos child = .ok g') : g'.insts = g.insts := by
  cases isRoot with
  | true =>
    have h' : [SOURCE].foldl (connStep child) (.ok g) = .ok g' := by simpa [wire, connStep] using h
    exact (connFold_deps child _ _ _ h').1
  | false =>
    rw [wire_eq] at h
    exact (connFold_deps child _ _ _ h).1

theorem uniqueNames_place : PlaceInv UniqueNames := by
  intro ord s s' inst isRoot parents hubD h ⟨hn, hh⟩
  unfold place at h
  cases hw : wire ord (s.g.addStep inst) isRoot parents hubD s.combos inst.name with
  | error e => simp [hw] at h
  | ok g' =>
    simp only [hw, Except.ok.injEq] at h
    subst h
    simp only
    have hi := wire_insts _ _ _ _ _ _ _ hw
    have hnode := wire_hasNode _ _ _ _ _ _ _ hw
    unfold UniqueNames
    rw [hi, insts_addStep]
    by_cases hex : s.g.hasNode inst.name = true
    · simp only [hex, ↓reduceIte]
      refine ⟨hn, fun i hi' => ?_⟩
      rw [hnode, hasNode_addStep, hh i hi']; rfl
    · simp only [hex, Bool.false_eq_true, ↓reduceIte]
      refine ⟨?_, fun i hi' => ?_⟩
      · rw [List.map_append, List.nodup_append]
        refine ⟨hn, by simp, ?_⟩
        intro a ha b hb
        simp only [List.map_cons, List.map_nil, List.mem_singleton] at hb
        subst hb
        intro hab
        obtain ⟨i, hi1, hi2⟩ := List.mem_map.mp ha
        apply hex
        rw [← hab, ← hi2]
        exact hh i hi1
      · rw [hnode, hasNode_addStep]
        rcases List.mem_append.mp hi' with h1 | h1
        · rw [hh i h1]; rfl
        · simp only [List.mem_singleton] at h1
          subst h1; simp

/-- **exactly one instance per name**: in every expansion the instance names are pairwise distinct
(and every instance is a node of the graph) -/
theorem stage_uniqueNames (spec : Spec) (ord : List Str → List Str) (r : XG)
    (h : stage spec ord = .ok r) : UniqueNames r :=
  stage_inv uniqueNames_place spec ord r h ⟨by simp [initSS], by simp [initSS]⟩

end MaestroVerif.Expand
