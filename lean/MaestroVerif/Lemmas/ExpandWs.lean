import MaestroVerif.Lemmas.ExpandFlow
import MaestroVerif.Props.C08

/-!
# The workspaces of the finished graph

`WsShape`: how the workspace of every instance of the finished graph was built
(`stage_ws`, for every specification and iteration oracle), the steps the
instances come from (`buildFlow_steps`), and the string facts needed to turn
the shape into "distinct" and "inside the study directory".
-/
namespace MaestroVerif.Expand
open MaestroVerif.Subst MaestroVerif.Gen

/-- how the workspace (and the name) of an instance was built from its step and its combination -/
inductive WsShape (spec : Spec) (known : Step → Prop) (i : Inst) : Prop
  | flat (st : Step) (hk : known st) (hn : i.name = st.name)
      (hw : i.ws = makeSafePath spec.root [st.name])
  | row (st : Step) (hk : known st) (used : List Str) (r : Nat) (hu : used.isEmpty = false)
      (hsub : ∀ k, k ∈ used → k ∈ spec.params.map (·.key)) (hr : r < nRows spec.params)
      (hn : i.name = st.name ++ ['_'] ++ (combo spec.params r).paramString used)
      (hw : i.ws = makeSafePath spec.root [st.name,
        if spec.hashWs then lookup spec.md5 ((combo spec.params r).paramString used)
        else (combo spec.params r).paramString used])

def AllWs (spec : Spec) (known : Step → Prop) (g : XG) : Prop := ∀ i, i ∈ g.insts → WsShape spec known i

theorem place_ws {spec : Spec} {known : Step → Prop} {ord : List Str → List Str} {s s' : SS} {inst : Inst}
    {isRoot : Bool} {parents hubD : List Str} (h : place ord s inst isRoot parents hubD = .ok s')
    (hi : WsShape spec known inst) (hs : AllWs spec known s.g) : AllWs spec known s'.g := by
  intro i hi'
  rcases place_insts h with e | e
  · rw [e] at hi'; exact hs i hi'
  · rw [e] at hi'
    rcases List.mem_append.mp hi' with m | m
    · exact hs i m
    · simp only [List.mem_singleton] at m; subst m; exact hi

/-- every recorded used-parameter set consists of parameter keys -/
def UsedKeys (spec : Spec) (s : SS) : Prop :=
  ∀ d k, k ∈ getAssoc s.used d → k ∈ spec.params.map (·.key)

theorem stageRow_ws {spec : Spec} {known : Step → Prop} (ord : List Str → List Str)
    (st : Step) (hk : known st) (used : List Str) (hu : used.isEmpty = false)
    (hsub : ∀ k, k ∈ used → k ∈ spec.params.map (·.key)) (s s' : SS) (row : Nat)
    (hrow : row < nRows spec.params)
    (h : stageRow spec ord st used s row = .ok s') (hs : AllWs spec known s.g) : AllWs spec known s'.g := by
  unfold stageRow at h
  simp only at h
  split at h
  · simp only [Except.ok.injEq] at h; subst h; exact hs
  · split at h
    · cases h
    · refine place_ws h ?_ hs
      refine WsShape.row st hk used row hu hsub hrow ?_ ?_
      · simp only [instName, hu]; rfl
      · cases spec.hashWs <;> simp

theorem stageStep_ws {spec : Spec} {known : Step → Prop} (ord : List Str → List Str)
    (s s' : SS) (st : Step) (hk : known st) (h : stageStep spec ord s st = .ok s')
    (hs : AllWs spec known s.g ∧ UsedKeys spec s) : AllWs spec known s'.g ∧ UsedKeys spec s' := by
  unfold stageStep at h
  simp only at h
  split at h
  · cases h
  · rename_i used hused
    have hsub : ∀ k, k ∈ used → k ∈ spec.params.map (·.key) := by
      intro k hk'
      rcases (MaestroVerif.C08.C08_used_closure spec s.used st used hused k).mp hk' with hd | ⟨d, _, hd⟩ | ⟨w, _, _, hd⟩
      · unfold directParams at hd
        exact (List.mem_filter.mp hd).1
      · exact hs.2 d k hd
      · exact hs.2 w k hd
    have hkeys : ∀ d k, k ∈ getAssoc (setAssoc s.used st.name used) d → k ∈ spec.params.map (·.key) := by
      intro d k hk'
      by_cases e : d = st.name
      · subst e; rw [getAssoc_setAssoc_self] at hk'; exact hsub k hk'
      · rw [getAssoc_setAssoc_ne _ _ _ _ e] at hk'; exact hs.2 d k hk'
    split at h
    · split at h
      · cases h
      · refine ⟨place_ws h (WsShape.flat st hk rfl rfl) hs.1, ?_⟩
        intro d k hk'
        rw [place_used h] at hk'
        exact hkeys d k hk'
    · rename_i hu
      refine foldl_except_inv_mem (fun s => AllWs spec known s.g ∧ UsedKeys spec s) _
        (List.range (nRows spec.params)) ?_ _ (fun x hx => hx) _ s' ?_ h
      · intro a row s'' hrow ha hstep
        cases a with
        | error e => simp at hstep
        | ok sa =>
          have hq := ha sa rfl
          refine ⟨stageRow_ws ord st hk used (by simpa using hu) hsub sa s'' row
            (by simpa using hrow) hstep hq.1, ?_⟩
          intro d k hk'
          rw [stageRow_used ord st used sa s'' row hstep] at hk'
          exact hq.2 d k hk'
      · intro s0 hs0
        simp only [Except.ok.injEq] at hs0
        subst hs0
        exact ⟨hs.1, hkeys⟩

/-- **the workspace of every instance of the finished graph is `make_safe_path(root, step)` or
`make_safe_path(root, step, combination string | its hash)` of a step of the specification, and its
name is the step's name or `step_<combination string>`** - for every specification and oracle -/
theorem stage_ws (spec : Spec) (ord : List Str → List Str) (r : XG) (h : stage spec ord = .ok r) :
    AllWs spec (· ∈ spec.steps) r := by
  unfold stage at h
  split at h
  · cases h
  · rename_i flow hflow
    have hfs := buildFlow_steps _ _ hflow
    split at h
    · cases h
    · simp only at h
      split at h
      · cases h
      · rename_i s hfold
        simp only [Except.ok.injEq] at h
        subst h
        refine (foldl_except_inv (fun s => AllWs spec (· ∈ spec.steps) s.g ∧ UsedKeys spec s) _ ?_ ?_ _ _ s ?_ hfold).1
        · intro a idx s'' ha hstep
          cases a with
          | error e => simp at hstep
          | ok sa =>
            simp only at hstep
            split at hstep
            · simp only [Except.ok.injEq] at hstep; subst hstep; exact ha sa rfl
            · split at hstep
              · simp only [Except.ok.injEq] at hstep; subst hstep; exact ha sa rfl
              · split at hstep
                · simp only [Except.ok.injEq] at hstep; subst hstep; exact ha sa rfl
                · rename_i nm st hfind
                  have hmem := List.mem_of_find?_eq_some hfind
                  exact stageStep_ws ord sa s'' _ (hfs _ hmem).1 hstep (ha sa rfl)
        · intro e x; rfl
        · intro s0 hs0
          simp only [Except.ok.injEq] at hs0
          subst hs0
          refine ⟨fun i hi => by simp [initSS] at hi, ?_⟩
          intro d k hk
          simp only [initSS, getAssoc] at hk
          split at hk
          · rename_i e he
            have := List.mem_of_find?_eq_some he
            simp only [List.mem_singleton] at this
            subst this
            simp at hk
          · simp at hk

/-! ### string facts -/

theorem slash_split (a a' b b' : Str) (ha : ∀ c ∈ a, c ≠ '/') (ha' : ∀ c ∈ a', c ≠ '/')
    (h : a ++ '/' :: b = a' ++ '/' :: b') : a = a' ∧ b = b' := by
  induction a generalizing a' with
  | nil =>
    cases a' with
    | nil => simp at h; exact ⟨rfl, h⟩
    | cons x xs =>
      simp only [List.nil_append, List.cons_append, List.cons.injEq] at h
      exact absurd h.1.symm (ha' x (by simp))
  | cons y ys ih =>
    cases a' with
    | nil =>
      simp only [List.nil_append, List.cons_append, List.cons.injEq] at h
      exact absurd h.1 (ha y (by simp))
    | cons x xs =>
      simp only [List.cons_append, List.cons.injEq] at h
      obtain ⟨e, ee⟩ := ih xs (fun c hc => ha c (by simp [hc])) (fun c hc => ha' c (by simp [hc])) h.2
      exact ⟨by rw [h.1, e], ee⟩

end MaestroVerif.Expand
