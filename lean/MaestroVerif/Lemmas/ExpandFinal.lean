import MaestroVerif.Lemmas.ExpandAll
import MaestroVerif.Lemmas.ExpandDeps
import MaestroVerif.Lemmas.ExpandNames
import MaestroVerif.Lemmas.ExpandGate

/-!
# The dependency sets of the finished graph (C08)

Every dependency of a filed step is an edge of the abstract flow (`buildFlow_edges`); the
topological order therefore stages the parents of a step before the step (`TopoOK`), every name
once; so what `stageStep_deps` establishes for a step when it is staged is still true at the end.
-/
namespace MaestroVerif.Expand
open MaestroVerif.Subst MaestroVerif.Dag

/-- the step a `depends` entry names: `re.sub(ALL_COMBOS, "", dep)` for a funnel entry -/
def depName (d : Str) : Str := if d.contains '*' then stripCombos d else d

theorem dag_addEdge_ok (g : Dag) (a b : Nat) (hab : a ≠ b) (ha : a ∈ g.nodes) (hb : b ∈ g.nodes)
    (hok : (Dag.addEdge g a b).2 = .ok) :
    b ∈ (Dag.addEdge g a b).1.adj a ∧ ∀ x y, y ∈ g.adj x → y ∈ (Dag.addEdge g a b).1.adj x := by
  unfold Dag.addEdge at hok ⊢
  simp only [hab, ↓reduceIte, ha, not_true_eq_false, hb] at hok ⊢
  by_cases hin : b ∈ g.adj a
  · rw [if_pos hin]
    exact ⟨hin, fun x y h => h⟩
  · simp only [hin, ↓reduceIte] at hok ⊢
    split at hok
    · cases hok
    · rename_i hdc
      refine ⟨by simp [setAdj], fun x y h => ?_⟩
      simp only [setAdj]
      split
      · rename_i e; subst e; exact List.mem_append_left _ h
      · exact h
    · cases hok

theorem dag_addNode_adj (g : Dag) (wf : WF g) (n : Nat) (x y : Nat) (h : y ∈ g.adj x) :
    y ∈ (Dag.addNode g n).adj x := by
  unfold Dag.addNode
  split
  · exact h
  · rename_i hn
    simp only
    split
    · rename_i e; subst e; exact absurd (wf.src _ _ h) hn
    · exact h

theorem idxOf_some_iff {names : List Str} {n : Str} {i : Nat} :
    idxOf names n = some i ↔ i < names.length ∧ names.idxOf n = i := by
  unfold idxOf
  simp only
  split
  · simp only [Option.some.injEq]
    constructor
    · intro e; subst e; rename_i h; exact ⟨h, rfl⟩
    · intro h; exact h.2
  · rename_i h
    simp only [reduceCtorEq, false_iff, not_and]
    intro h1 h2; rw [h2] at h; exact h h1

theorem idxOf_mem {names : List Str} {n : Str} (h : n ∈ names) : ∃ i, idxOf names n = some i := by
  refine ⟨names.idxOf n, ?_⟩
  rw [idxOf_some_iff]
  exact ⟨List.idxOf_lt_length_of_mem h, rfl⟩

theorem idxOf_append {names : List Str} {n m : Str} {i : Nat} (h : idxOf names n = some i) :
    idxOf (names ++ [m]) n = some i := by
  rw [idxOf_some_iff] at h ⊢
  have hm : n ∈ names := List.idxOf_lt_length_iff.mp (h.2 ▸ h.1)
  refine ⟨by simp; omega, ?_⟩
  simp [List.idxOf_append, hm, h.2]

/-- an edge of the flow between two named steps -/
def FlowEdge (f : Flow) (p c : Str) : Prop :=
  ∃ a b, idxOf f.names p = some a ∧ idxOf f.names c = some b ∧ b ∈ f.dag.adj a

/-- every dependency of a filed step is an edge of the flow -/
def FlowEdges (f : Flow) : Prop :=
  ∀ e, e ∈ f.steps → ∀ d, d ∈ e.2.depends → depName d ≠ e.1 → FlowEdge f (depName d) e.1

theorem flowEdge_addNode {f : Flow} (hok : FlowOK f) (n : Str) (st : Option Step) {p c : Str}
    (h : FlowEdge f p c) : FlowEdge (f.addNode n st) p c := by
  unfold Flow.addNode
  split
  · exact h
  · obtain ⟨a, b, h1, h2, h3⟩ := h
    exact ⟨a, b, idxOf_append h1, idxOf_append h2, dag_addNode_adj _ hok.wf _ _ _ h3⟩

/-- what a successful `add_edge` of the flow does -/
theorem flow_addEdge_ok {f f' : Flow} {src dst : Str} (hok : FlowOK f) (he : f.addEdge src dst = .ok f') :
    f'.names = f.names ∧ f'.steps = f.steps ∧ (∀ x y, y ∈ f.dag.adj x → y ∈ f'.dag.adj x) ∧
    (src ≠ dst → dst ∈ f.names → FlowEdge f' src dst) := by
  unfold Flow.addEdge at he
  split at he
  · rename_i e
    cases he
    exact ⟨rfl, rfl, fun x y h => h, fun hne => absurd (by simpa using e) hne⟩
  · split at he
    · cases he
    · rename_i a ha
      split at he
      · rename_i hb
        cases he
        refine ⟨rfl, rfl, fun x y h => h, fun _ hd => ?_⟩
        obtain ⟨i, hi⟩ := idxOf_mem hd
        rw [hi] at hb; cases hb
      · rename_i b hb
        simp only at he
        split at he
        · rename_i hout
          cases he
          have ha' := idxOf_some_iff.mp ha
          have hb' := idxOf_some_iff.mp hb
          have han : a ∈ f.dag.nodes := by rw [hok.nodes]; exact List.mem_range.mpr ha'.1
          have hbn : b ∈ f.dag.nodes := by rw [hok.nodes]; exact List.mem_range.mpr hb'.1
          by_cases hab : a = b
          · refine ⟨rfl, rfl, ?_, ?_⟩
            · subst hab
              simp [Dag.addEdge]
            · intro hne _
              exfalso
              apply hne
              have h1 : f.names[a]'ha'.1 = src := by
                have := List.getElem_idxOf (xs := f.names) (x := src) (by rw [ha'.2]; exact ha'.1)
                simpa [ha'.2] using this
              have h2 : f.names[b]'hb'.1 = dst := by
                have := List.getElem_idxOf (xs := f.names) (x := dst) (by rw [hb'.2]; exact hb'.1)
                simpa [hb'.2] using this
              subst hab
              rw [← h1, ← h2]
          · obtain ⟨e1, e2⟩ := dag_addEdge_ok f.dag a b hab han hbn hout
            exact ⟨rfl, rfl, e2, fun _ _ => ⟨a, b, ha, hb, e1⟩⟩
        · cases he
        · cases he
        · cases he

theorem flowEdge_mono {f f' : Flow} {p c : Str} (hn : f'.names = f.names)
    (hm : ∀ x y, y ∈ f.dag.adj x → y ∈ f'.dag.adj x) (h : FlowEdge f p c) : FlowEdge f' p c := by
  obtain ⟨a, b, h1, h2, h3⟩ := h
  exact ⟨a, b, by rw [hn]; exact h1, by rw [hn]; exact h2, hm _ _ h3⟩

theorem depFold_edges (nm : Str) : ∀ (ds : List Str) (f f' : Flow), FlowOK f → nm ∈ f.names →
    ds.foldl (fun (acc : Except Err Flow) d =>
      match acc with
      | .error e => .error e
      | .ok f => f.addEdge (if d.contains '*' then stripCombos d else d) nm) (.ok f) = .ok f' →
    f'.names = f.names ∧ f'.steps = f.steps ∧ (∀ x y, y ∈ f.dag.adj x → y ∈ f'.dag.adj x) ∧
    ∀ d, d ∈ ds → depName d ≠ nm → FlowEdge f' (depName d) nm := by
  intro ds
  induction ds with
  | nil =>
    intro f f' _ _ he
    simp only [List.foldl_nil, Except.ok.injEq] at he; subst he
    exact ⟨rfl, rfl, fun x y h => h, fun d hd => (by cases hd)⟩
  | cons d ds ih =>
    intro f f' hok hnm he
    simp only [List.foldl_cons] at he
    cases h1 : f.addEdge (if d.contains '*' then stripCombos d else d) nm with
    | error e =>
      rw [h1] at he
      have : ∀ (l : List Str), l.foldl (fun (acc : Except Err Flow) d =>
          match acc with
          | .error e => .error e
          | .ok f => f.addEdge (if d.contains '*' then stripCombos d else d) nm) (.error e) = .error e := by
        intro l; induction l with
        | nil => rfl
        | cons x xs ihx => simp only [List.foldl_cons, ihx]
      rw [this] at he; cases he
    | ok f1 =>
      rw [h1] at he
      obtain ⟨a1, a2, a3, a4⟩ := flow_addEdge_ok hok h1
      obtain ⟨hok1, _⟩ := flowOK_addEdge hok h1
      obtain ⟨b1, b2, b3, b4⟩ := ih f1 f' hok1 (by rw [a1]; exact hnm) he
      refine ⟨by rw [b1, a1], by rw [b2, a2], fun x y h => b3 _ _ (a3 _ _ h), ?_⟩
      intro d' hd' hne
      rcases List.mem_cons.mp hd' with e | e
      · subst e
        exact flowEdge_mono b1 b3 (a4 hne hnm)
      · exact b4 d' e hne

theorem flowStep_edges {f f' : Flow} {st : Step} (hok : FlowOK f) (he : flowStep (.ok f) st = .ok f')
    (hfe : FlowEdges f) : FlowEdges f' := by
  unfold flowStep at he
  simp only at he
  obtain ⟨a1, a2, _⟩ := flowOK_addNode hok st.name st
  -- the entries after `add_node`
  have hentries : ∀ e, e ∈ (f.addNode st.name (some st)).steps → e ∈ f.steps ∨ e = (st.name, st) := by
    intro e he'
    unfold Flow.addNode at he'
    split at he'
    · exact Or.inl he'
    · simp only [List.mem_append, List.mem_singleton] at he'
      exact he'
  split at he
  · rename_i hemp
    obtain ⟨b1, b2, b3, _⟩ := flow_addEdge_ok a1 he
    intro e hein d hd hne
    rw [b2] at hein
    rcases hentries e hein with h | h
    · exact flowEdge_mono b1 b3 (flowEdge_addNode hok _ _ (hfe e h d hd hne))
    · subst h
      simp only at hd
      have : st.depends = [] := by simpa using hemp
      rw [this] at hd; cases hd
  · obtain ⟨b1, b2, b3, b4⟩ := depFold_edges st.name _ _ _ a1 a2 he
    intro e hein d hd hne
    rw [b2] at hein
    rcases hentries e hein with h | h
    · exact flowEdge_mono b1 b3 (flowEdge_addNode hok _ _ (hfe e h d hd hne))
    · subst h
      exact b4 d hd hne

theorem flowFold_edges : ∀ (l : List Step) (f f' : Flow), FlowOK f → FlowEdges f →
    l.foldl flowStep (.ok f) = .ok f' → FlowEdges f' := by
  intro l
  induction l with
  | nil =>
    intro f f' _ h he
    simp only [List.foldl_nil, Except.ok.injEq] at he; subst he; exact h
  | cons x xs ih =>
    intro f f' hok h he
    simp only [List.foldl_cons] at he
    cases h1 : flowStep (.ok f) x with
    | error e => rw [h1, flowFold_error] at he; cases he
    | ok f1 =>
      rw [h1] at he
      exact ih f1 f' (flowStep_ok hok h1).1 (flowStep_edges hok h1 h) he

/-- **every dependency of a filed step is an edge of the abstract flow** -/
theorem buildFlow_edges (steps : List Step) (f : Flow) (h : buildFlow steps = .ok f) : FlowEdges f := by
  rw [buildFlow_eq] at h
  have h0 : FlowOK (({ names := [], dag := Dag.empty, steps := [] } : Flow).addNode SOURCE none) :=
    (buildFlow_ok [] _ rfl).1
  refine flowFold_edges steps _ f h0 ?_ h
  intro e he
  simp [Flow.addNode] at he

/-! ### what is true of a staged step stays true -/

theorem stageStep_combos_keys (spec : Spec) (ord : List Str → List Str) (s s' : SS) (st : Step)
    (h : stageStep spec ord s st = .ok s') (k : Str) :
    s'.combos.any (·.1 == k) = (s.combos.any (·.1 == k) || st.name == k) := by
  unfold stageStep at h
  simp only at h
  split at h
  · cases h
  · rename_i used hused
    split at h
    · split at h
      · cases h
      · rw [place_combos h]
        simp only [any_key_setAssoc]
        cases s.combos.any (·.1 == k) <;> cases (st.name == k) <;> rfl
    · have hkey : (setAssoc s.combos st.name []).any (·.1 == st.name) = true := by
        rw [any_key_setAssoc]; simp
      obtain ⟨_, b2, _, _⟩ := rows_node spec ord st used (List.range (nRows spec.params))
        { s with hub := setAssoc s.hub st.name (sortDedup (hubOf st)),
                 depends := setAssoc s.depends st.name (sortDedup (depsOf st)),
                 used := setAssoc s.used st.name used,
                 combos := setAssoc s.combos st.name [] } s' hkey h
      rw [b2]
      simp only [any_key_setAssoc]

theorem depsOK_transfer (spec : Spec) (s s1 : SS) (st : Step)
    (hu : getAssoc s1.used st.name = getAssoc s.used st.name)
    (hd : ∀ n, InstNameOf spec st (getAssoc s.used st.name) n →
      ∀ x, x ∈ getAssoc s1.g.deps n ↔ x ∈ getAssoc s.g.deps n)
    (hU : ∀ p, p ∈ depsOf st → getAssoc s1.used p = getAssoc s.used p)
    (hC : ∀ hb, hb ∈ hubOf st → getAssoc s1.combos hb = getAssoc s.combos hb)
    (h : DepsOK spec s st) : DepsOK spec s1 st := by
  unfold DepsOK at h ⊢
  rw [hu]
  split
  · rename_i he
    simp only [he, ↓reduceIte] at h
    intro x
    rw [hd st.name (by unfold InstNameOf; simp [he]) x, h x]
    exact (owed_congr spec st 0 hU hC x).symm
  · rename_i he
    simp only [he] at h
    intro row hrow
    obtain ⟨row', m1, m2, m3⟩ := h row hrow
    refine ⟨row', m1, m2, fun x => ?_⟩
    rw [hd _ (by unfold InstNameOf; simp only [he]; exact ⟨row, hrow, rfl⟩) x, m3 x]
    exact (owed_congr spec st row' hU hC x).symm

/-- instance names of steps with different names never coincide -/
def CrossInj (spec : Spec) : Prop :=
  ∀ st1, st1 ∈ spec.steps → ∀ st2, st2 ∈ spec.steps → st1.name ≠ st2.name →
    ∀ (used1 used2 : List Str) (n : Str), InstNameOf spec st1 used1 n → ¬ InstNameOf spec st2 used2 n

/-- the invariant of the staging loop -/
structure StagedOK (spec : Spec) (flow : Flow) (s : SS) : Prop where
  src : s.used.any (·.1 == SOURCE) = true
  keys : ∀ k, s.combos.any (·.1 == k) = true → k ∈ SOURCE :: spec.steps.map (·.name)
  ok : ∀ nm q st, flow.steps.find? (·.1 == nm) = some (q, st) → s.used.any (·.1 == nm) = true →
    DepsOK spec s st ∧
    (∀ p, (p ∈ depsOf st ∨ p ∈ hubOf st) → p ≠ nm → s.used.any (·.1 == p) = true) ∧
    (∀ p, p ∈ depsOf st → ∀ k, k ∈ getAssoc s.used p → k ∈ getAssoc s.used nm)
  adjFrom : ∀ k x, x ∈ getAssoc s.g.adj k → k ≠ x →
    ∃ nm q st, flow.steps.find? (·.1 == nm) = some (q, st) ∧ s.used.any (·.1 == nm) = true ∧
      AdjWitness spec s st k x

theorem adjWitness_transfer (spec : Spec) (s s1 : SS) (st : Step) (k x : Str)
    (hu : getAssoc s1.used st.name = getAssoc s.used st.name)
    (hU : ∀ p, p ∈ depsOf st → getAssoc s1.used p = getAssoc s.used p)
    (hC : ∀ hb, hb ∈ hubOf st → getAssoc s1.combos hb = getAssoc s.combos hb)
    (h : AdjWitness spec s st k x) : AdjWitness spec s1 st k x := by
  unfold AdjWitness at h ⊢
  rw [hu]
  split
  · rename_i he
    simp only [he, ↓reduceIte] at h
    exact ⟨h.1, (owed_congr spec st 0 hU hC k).mpr h.2⟩
  · rename_i he
    simp only [he] at h
    obtain ⟨row, h1, h2, h3⟩ := h
    exact ⟨row, h1, h2, (owed_congr spec st row hU hC k).mpr h3⟩

/-- the used-parameter set a step is filed with is the one `usedOf` computes from the table it finds -/
theorem stageStep_usedOf (spec : Spec) (ord : List Str → List Str) (s s' : SS) (st : Step)
    (h : stageStep spec ord s st = .ok s') : usedOf spec s.used st = .ok (getAssoc s'.used st.name) := by
  unfold stageStep at h
  simp only at h
  split at h
  · cases h
  · rename_i used hused
    split at h
    · split at h
      · cases h
      · rw [place_used h]
        simp only [getAssoc_setAssoc_self]
        exact hused
    · have hkey : (setAssoc s.combos st.name []).any (·.1 == st.name) = true := by
        rw [any_key_setAssoc]; simp
      obtain ⟨_, _, b3, _⟩ := rows_node spec ord st used (List.range (nRows spec.params))
        { s with hub := setAssoc s.hub st.name (sortDedup (hubOf st)),
                 depends := setAssoc s.depends st.name (sortDedup (depsOf st)),
                 used := setAssoc s.used st.name used,
                 combos := setAssoc s.combos st.name [] } s' hkey h
      rw [b3]
      simp only [getAssoc_setAssoc_self]
      exact hused

theorem find_filed {spec : Spec} {flow : Flow} (hfs : FlowSteps spec.steps flow) {nm q : Str} {st : Step}
    (h : flow.steps.find? (·.1 == nm) = some (q, st)) : st ∈ spec.steps ∧ st.name = nm := by
  have hmem := List.mem_of_find?_eq_some h
  have hp : (q == nm) = true := by simpa using List.find?_some h
  obtain ⟨h1, h2⟩ := hfs _ hmem
  simp only at h2
  exact ⟨h1, by rw [h2]; simpa using hp⟩

theorem stagedOK_step (spec : Spec) (hc : NoClash spec) (hx : CrossInj spec)
    (hselfAll : ∀ st, st ∈ spec.steps → st.name ∉ hubOf st)
    {ord : List Str → List Str} (ho : IsPermOracle ord) (flow : Flow) (hfs : FlowSteps spec.steps flow)
    (s s1 : SS) (nm q : Str) (st : Step) (hfind : flow.steps.find? (·.1 == nm) = some (q, st))
    (hfresh : s.used.any (·.1 == nm) = false)
    (hpar : ∀ p, (p ∈ depsOf st ∨ p ∈ hubOf st) → p ≠ nm → s.used.any (·.1 == p) = true)
    (h : stageStep spec ord s st = .ok s1) (hJ : StagedOK spec flow s) : StagedOK spec flow s1 := by
  obtain ⟨hst, hname⟩ := find_filed hfs hfind
  have hukeys := stageStep_used_keys spec ord s s1 st h
  have hckeys := stageStep_combos_keys spec ord s s1 st h
  obtain ⟨d1, d2, d3, d4⟩ := stageStep_deps spec hc ho s s1 st hst hJ.keys (hselfAll st hst) h
  refine ⟨by rw [hukeys, hJ.src]; rfl, ?_, ?_, ?_⟩
  rotate_left 2
  · intro k x hx hkx
    rcases d4 k x hx with h1 | ⟨_, h2⟩
    · obtain ⟨nm', q', st', hfind', hstaged', hw⟩ := hJ.adjFrom k x h1 hkx
      obtain ⟨hst', hname'⟩ := find_filed hfs hfind'
      have e : nm' ≠ nm := by
        intro e; rw [e, hfresh] at hstaged'; cases hstaged'
      have hne_names : st'.name ≠ st.name := by rw [hname', hname]; exact e
      obtain ⟨_, o2, _⟩ := hJ.ok nm' q' st' hfind' hstaged'
      have hpne : ∀ p, (p ∈ depsOf st' ∨ p ∈ hubOf st') → p ≠ st.name := by
        intro p hp e2
        by_cases e3 : p = nm'
        · rw [e3, ← hname'] at e2; exact hne_names e2
        · have := o2 p hp e3
          rw [e2, hname, hfresh] at this; cases this
      refine ⟨nm', q', st', hfind', by rw [hukeys, hstaged']; rfl, ?_⟩
      exact adjWitness_transfer spec s s1 st' k x (d3 _ hne_names).1
        (fun p hp => (d3 p (hpne p (Or.inl hp))).1) (fun hb hhb => (d3 hb (hpne hb (Or.inr hhb))).2) hw
    · exact ⟨nm, q, st, hfind, by rw [hukeys, hname]; simp, h2⟩
  · intro k hk
    rw [hckeys] at hk
    rcases Bool.or_eq_true _ _ |>.mp hk with e | e
    · exact hJ.keys k e
    · have : st.name = k := by simpa using e
      subst this
      exact List.mem_cons_of_mem _ (List.mem_map.mpr ⟨st, hst, rfl⟩)
  · intro nm' q' st' hfind' hstaged'
    obtain ⟨hst', hname'⟩ := find_filed hfs hfind'
    by_cases e : nm' = nm
    · subst e
      rw [hfind] at hfind'
      simp only [Option.some.injEq, Prod.mk.injEq] at hfind'
      obtain ⟨_, rfl⟩ := hfind'
      refine ⟨d1, fun p hp hne => by rw [hukeys, hpar p hp hne]; rfl, ?_⟩
      intro p hp k hk
      have hcl := usedOf_closure spec s.used st _ (stageStep_usedOf spec ord s s1 st h) k
      rw [← hname]
      by_cases e2 : p = st.name
      · rw [e2] at hk; exact hk
      · rw [(d3 p e2).1] at hk
        exact hcl.mpr (Or.inr (Or.inl ⟨p, hp, hk⟩))
    · have hstaged : s.used.any (·.1 == nm') = true := by
        rw [hukeys] at hstaged'
        rcases Bool.or_eq_true _ _ |>.mp hstaged' with e' | e'
        · exact e'
        · exfalso; apply e
          have : st.name = nm' := by simpa using e'
          rw [← this, hname]
      obtain ⟨o1, o2, o3⟩ := hJ.ok nm' q' st' hfind' hstaged
      have hne_names : st'.name ≠ st.name := by rw [hname', hname]; exact e
      -- a parent of an already staged step is itself staged, so it is not the step staged now
      have hpne : ∀ p, (p ∈ depsOf st' ∨ p ∈ hubOf st') → p ≠ st.name := by
        intro p hp e2
        by_cases e3 : p = nm'
        · rw [e3, ← hname'] at e2; exact hne_names e2
        · have := o2 p hp e3
          rw [e2, hname, hfresh] at this; cases this
      refine ⟨?_, fun p hp hne => by rw [hukeys, o2 p hp hne]; rfl, ?_⟩
      rotate_left
      · intro p hp k hk
        rw [(d3 p (hpne p (Or.inl hp))).1] at hk
        have hnm' : nm' ≠ st.name := by rw [← hname']; exact hne_names
        rw [(d3 nm' hnm').1]
        exact o3 p hp k hk
      apply depsOK_transfer spec s s1 st' (d3 _ hne_names).1 ?_
        (fun p hp => (d3 p (hpne p (Or.inl hp))).1) (fun hb hhb => (d3 hb (hpne hb (Or.inr hhb))).2) o1
      intro n hn x
      apply d2 n
      exact hx st' hst' st hst hne_names _ _ n hn

/-! ### the loop: parents are staged before their children, every name once -/

theorem topoOK_children (g : Dag) : ∀ l, TopoOK g l → ∀ a, a ∈ l → ∀ c, c ∈ g.adj a → c ∈ l := by
  intro l
  induction l with
  | nil => intro _ a ha; cases ha
  | cons x rest ih =>
    intro h a ha c hc
    obtain ⟨h1, h2⟩ := h
    rcases List.mem_cons.mp ha with e | e
    · subst e; exact List.mem_cons_of_mem _ (h1 c hc)
    · exact List.mem_cons_of_mem _ (ih h2 a e c hc)

theorem names_idx_inj {names : List Str} (hn : names.Nodup) {i j : Nat} {n : Str}
    (hi : names[i]? = some n) (hj : names[j]? = some n) : i = j := by
  have hil : i < names.length := by
    obtain ⟨h, _⟩ := List.getElem?_eq_some_iff.mp hi; exact h
  exact (List.getElem?_inj hil hn).mp (by rw [hi, hj])

theorem idxOf_getElem? {names : List Str} {n : Str} {a : Nat} (h : idxOf names n = some a) :
    names[a]? = some n := by
  obtain ⟨h1, h2⟩ := idxOf_some_iff.mp h
  rw [List.getElem?_eq_some_iff]
  refine ⟨h1, ?_⟩
  have := List.getElem_idxOf (xs := names) (x := n) (by rw [h2]; exact h1)
  simpa [h2] using this

/-- a dependency of a filed step, as an entry of `depends` -/
theorem parent_entry {st : Step} {p : Str} (hp : p ∈ depsOf st ∨ p ∈ hubOf st) :
    ∃ d, d ∈ st.depends ∧ depName d = p := by
  rcases hp with hp | hp
  · unfold depsOf at hp
    obtain ⟨h1, h2⟩ := List.mem_filter.mp hp
    refine ⟨p, h1, ?_⟩
    unfold depName
    have : p.contains '*' = false := by
      cases hc : p.contains '*' with
      | false => rfl
      | true => rw [hc] at h2; cases h2
    rw [this]; rfl
  · unfold hubOf at hp
    obtain ⟨d, hd, e⟩ := List.mem_map.mp hp
    obtain ⟨h1, h2⟩ := List.mem_filter.mp hd
    refine ⟨d, h1, ?_⟩
    unfold depName
    rw [h2]; exact e

theorem stageLoop_ok (spec : Spec) (hc : NoClash spec) (hx : CrossInj spec)
    (hselfAll : ∀ st, st ∈ spec.steps → st.name ∉ hubOf st)
    {ord : List Str → List Str} (ho : IsPermOracle ord) (flow : Flow) (hfs : FlowSteps spec.steps flow)
    (hok : FlowOK flow) (hfe : FlowEdges flow) :
    ∀ (order : List Nat) (s sf : SS), order.Nodup → TopoOK flow.dag order →
      (∀ idx, idx ∈ order → ∀ nm, flow.names[idx]? = some nm → nm ≠ SOURCE → s.used.any (·.1 == nm) = false) →
      (∀ idx nm, flow.names[idx]? = some nm → idx ∉ order → s.used.any (·.1 == nm) = true) →
      StagedOK spec flow s → order.foldl (stageIdx spec ord flow) (.ok s) = .ok sf →
      StagedOK spec flow sf := by
  intro order
  induction order with
  | nil =>
    intro s sf _ _ _ _ hJ h
    simp only [List.foldl_nil, Except.ok.injEq] at h; subst h; exact hJ
  | cons i rest ih =>
    intro s sf hnd htopo H1 H2 hJ h
    simp only [List.foldl_cons] at h
    have hnd' := List.nodup_cons.mp hnd
    cases h1 : stageIdx spec ord flow (.ok s) i with
    | error e => rw [h1, stageIdx_error] at h; cases h
    | ok s1 =>
      rw [h1] at h
      simp only [stageIdx] at h1
      split at h1
      · -- no name at this index
        rename_i hnone
        simp only [Except.ok.injEq] at h1; subst h1
        refine ih s sf hnd'.2 htopo.2 (fun idx hidx => H1 idx (List.mem_cons_of_mem _ hidx)) ?_ hJ h
        intro idx nm hnm hidx
        by_cases e : idx = i
        · subst e; rw [hnone] at hnm; cases hnm
        · exact H2 idx nm hnm (fun hm => by rcases List.mem_cons.mp hm with e' | e'; exact e e'; exact hidx e')
      · rename_i nm hsome
        split at h1
        · -- `_source`
          rename_i hsrc
          simp only [Except.ok.injEq] at h1; subst h1
          have hnm : nm = SOURCE := by simpa using hsrc
          refine ih s sf hnd'.2 htopo.2 (fun idx hidx => H1 idx (List.mem_cons_of_mem _ hidx)) ?_ hJ h
          intro idx nm' hnm' hidx
          by_cases e : idx = i
          · subst e; rw [hsome] at hnm'; simp only [Option.some.injEq] at hnm'; subst hnm'
            rw [hnm]; exact hJ.src
          · exact H2 idx nm' hnm' (fun hm => by rcases List.mem_cons.mp hm with e' | e'; exact e e'; exact hidx e')
        · rename_i hnsrc
          have hnsrc' : nm ≠ SOURCE := by simpa using hnsrc
          split at h1
          · rename_i hfind
            exfalso
            have hmem : nm ∈ flow.names := List.mem_of_getElem? hsome
            rcases hok.filed nm hmem with e | e
            · exact hnsrc' e
            · have := List.find?_eq_none.mp hfind
              simp only [List.any_eq_true] at e
              obtain ⟨x, hx', hxe⟩ := e
              exact this x hx' hxe
          · rename_i q st hfind
            obtain ⟨hst, hname⟩ := find_filed hfs hfind
            have hfresh := H1 i (List.mem_cons_self ..) nm hsome hnsrc'
            -- the parents of the step have been staged
            have hpar : ∀ p, (p ∈ depsOf st ∨ p ∈ hubOf st) → p ≠ nm → s.used.any (·.1 == p) = true := by
              intro p hp hne
              obtain ⟨d, hd, hdn⟩ := parent_entry hp
              have hq : q = nm := by
                have hp' : (q == nm) = true := by simpa using List.find?_some hfind
                simpa using hp'
              have hedge := hfe (q, st) (List.mem_of_find?_eq_some hfind) d hd (by rw [hdn, hq]; exact hne)
              simp only at hedge
              rw [hdn, hq] at hedge
              obtain ⟨a, b, ha, hb, hab⟩ := hedge
              have hbi : b = i := names_idx_inj hok.namesNodup (idxOf_getElem? hb) hsome
              subst hbi
              have hpa := idxOf_getElem? ha
              apply H2 a p hpa
              intro hmem
              rcases List.mem_cons.mp hmem with e | e
              · subst e
                exact hok.acyclic a (Relation.TransGen.single hab)
              · exact hnd'.1 (topoOK_children flow.dag rest htopo.2 a e b hab)
            have hJ1 := stagedOK_step spec hc hx hselfAll ho flow hfs s s1 nm q st hfind hfresh hpar h1 hJ
            have hukeys := stageStep_used_keys spec ord s s1 st h1
            refine ih s1 sf hnd'.2 htopo.2 ?_ ?_ hJ1 h
            · intro idx hidx nm' hnm' hne'
              rw [hukeys, H1 idx (List.mem_cons_of_mem _ hidx) nm' hnm' hne']
              have : (st.name == nm') = false := by
                rw [hname]
                apply Bool.eq_false_iff.mpr
                intro e
                have e' : nm = nm' := by simpa using e
                subst e'
                have := names_idx_inj hok.namesNodup hnm' hsome
                subst this
                exact hnd'.1 hidx
              rw [this]; rfl
            · intro idx nm' hnm' hidx
              rw [hukeys]
              by_cases e : idx = i
              · subst e; rw [hsome] at hnm'; simp only [Option.some.injEq] at hnm'; subst hnm'
                rw [hname]; simp
              · rw [H2 idx nm' hnm' (fun hm => by rcases List.mem_cons.mp hm with e' | e'; exact e e'; exact hidx e')]
                rfl

/-! ### the finished graph -/

theorem nodup_map_inj {α β : Type} (f : α → β) : ∀ (l : List α), (l.map f).Nodup →
    ∀ a b, a ∈ l → b ∈ l → f a = f b → a = b := by
  intro l
  induction l with
  | nil => intro _ a b ha; cases ha
  | cons x xs ih =>
    intro h a b ha hb e
    simp only [List.map_cons, List.nodup_cons, List.mem_map, not_exists, not_and] at h
    rcases List.mem_cons.mp ha with h1 | h1 <;> rcases List.mem_cons.mp hb with h2 | h2
    · rw [h1, h2]
    · subst h1; exact absurd e.symm (h.1 b h2)
    · subst h2; exact absurd e (h.1 a h1)
    · exact ih h.2 a b h1 h2 e

/-- **the dependency sets of the finished graph are exact**: at the end of staging, for every step
of the specification, the dependency set of each of its instances is what the final tables say a
row of that instance name is owed -/
theorem stageSS_deps_exact (spec : Spec) (hc : NoClash spec) (hx : CrossInj spec)
    (hselfAll : ∀ st, st ∈ spec.steps → st.name ∉ hubOf st)
    (hsrc : ∀ st, st ∈ spec.steps → st.name ≠ SOURCE)
    (hnames : (spec.steps.map (·.name)).Nodup)
    {ord : List Str → List Str} (ho : IsPermOracle ord) (sf : SS) (h : stageSS spec ord = .ok sf) :
    (∀ st, st ∈ spec.steps → DepsOK spec sf st ∧
      ∀ p, p ∈ depsOf st → ∀ k, k ∈ getAssoc sf.used p → k ∈ getAssoc sf.used st.name) ∧
    (∀ k x, x ∈ getAssoc sf.g.adj k → k ≠ x → ∃ st, st ∈ spec.steps ∧ AdjWitness spec sf st k x) := by
  have hall := stageSS_all_staged spec ord sf h hsrc
  unfold stageSS at h
  split at h
  · cases h
  · rename_i flow hflow
    have hfs := buildFlow_steps _ _ hflow
    obtain ⟨hok, hmemnames⟩ := buildFlow_ok _ _ hflow
    have hfe := buildFlow_edges _ _ hflow
    split at h
    · cases h
    · rename_i order hts
      obtain ⟨hnd, hperm, htopo⟩ := topoSort_spec flow.dag hok.wf hok.acyclic hts
      have hinit : StagedOK spec flow (initSS spec.root) := by
        refine ⟨by simp [initSS], ?_, ?_, ?_⟩
        rotate_left 2
        · intro k x hx
          exfalso
          simp only [initSS, getAssoc] at hx
          split at hx
          · rename_i e he
            have := List.mem_of_find?_eq_some he
            simp only [List.mem_singleton] at this
            subst this
            simp at hx
          · simp at hx
        · intro k hk
          simp only [initSS, List.any_cons, List.any_nil, Bool.or_false, beq_iff_eq] at hk
          simp [hk]
        · intro nm q st hfind hstaged
          exfalso
          simp only [initSS, List.any_cons, List.any_nil, Bool.or_false, beq_iff_eq] at hstaged
          obtain ⟨h1, h2⟩ := find_filed hfs hfind
          exact hsrc st h1 (by rw [h2]; exact hstaged.symm)
      have hJ := stageLoop_ok spec hc hx hselfAll ho flow hfs hok hfe order (initSS spec.root) sf hnd htopo
        (by
          intro idx _ nm _ hne
          simp only [initSS, List.any_cons, List.any_nil, Bool.or_false, beq_eq_false_iff_ne, ne_eq]
          exact fun e => hne e.symm)
        (by
          intro idx nm hnm hidx
          exfalso
          apply hidx
          rw [hperm, hok.nodes]
          obtain ⟨hl, _⟩ := List.getElem?_eq_some_iff.mp hnm
          exact List.mem_range.mpr hl)
        hinit h
      refine ⟨?_, fun k x hx hkx => by
        obtain ⟨nm, q, st, hf, _, hw⟩ := hJ.adjFrom k x hx hkx
        exact ⟨st, (find_filed hfs hf).1, hw⟩⟩
      intro st hst
      have hm := hmemnames st hst
      have hfiled : ∃ q st', flow.steps.find? (·.1 == st.name) = some (q, st') := by
        rcases hok.filed st.name hm with e | e
        · exact absurd e (hsrc st hst)
        · cases hf : flow.steps.find? (·.1 == st.name) with
          | none =>
            exfalso
            have := List.find?_eq_none.mp hf
            simp only [List.any_eq_true] at e
            obtain ⟨x, hx', hxe⟩ := e
            exact this x hx' hxe
          | some pr => exact ⟨pr.1, pr.2, rfl⟩
      obtain ⟨q, st', hfind⟩ := hfiled
      obtain ⟨h1, h2⟩ := find_filed hfs hfind
      have hsame : st' = st := by
        exact nodup_map_inj (·.name) spec.steps hnames st' st h1 hst h2
      subst hsame
      obtain ⟨r1, _, r3⟩ := hJ.ok st'.name q st' hfind (hall st' hst)
      exact ⟨r1, r3⟩

/-! ### `CrossInj` from the check on the step names -/

theorem crossInj_of_noClashB (spec : Spec) (h : noClashB spec = true) : CrossInj spec := by
  have hpre : ∀ st, st ∈ spec.steps → ∀ b, b ∈ SOURCE :: spec.steps.map (·.name) →
      ¬ (st.name ++ ['_']) <+: b := by
    intro st hst b hb hp
    unfold noClashB at h
    have h1 := List.all_eq_true.mp h st hst
    have h2 := List.all_eq_true.mp h1 b hb
    rw [List.isPrefixOf_iff_prefix.mpr hp] at h2
    cases h2
  have hmemname : ∀ st, st ∈ spec.steps → st.name ∈ SOURCE :: spec.steps.map (·.name) :=
    fun st hst => List.mem_cons_of_mem _ (List.mem_map.mpr ⟨st, hst, rfl⟩)
  intro st1 hst1 st2 hst2 hne used1 used2 n hn1 hn2
  unfold InstNameOf at hn1 hn2
  split at hn1
  · split at hn2
    · exact hne (hn1.symm.trans hn2)
    · rename_i hu2
      obtain ⟨row, _, e⟩ := hn2
      apply hpre st2 hst2 st1.name (hmemname st1 hst1)
      rw [← hn1, e]
      simp only [instName, hu2, Bool.false_eq_true, ↓reduceIte]
      exact List.prefix_append _ _
  · rename_i hu1
    obtain ⟨row1, _, e1⟩ := hn1
    split at hn2
    · apply hpre st1 hst1 st2.name (hmemname st2 hst2)
      rw [← hn2, e1]
      simp only [instName, hu1, Bool.false_eq_true, ↓reduceIte]
      exact List.prefix_append _ _
    · rename_i hu2
      obtain ⟨row2, _, e2⟩ := hn2
      simp only [instName, hu1, hu2, Bool.false_eq_true, ↓reduceIte] at e1 e2
      have hA : (st1.name ++ ['_']) <+: n := by rw [e1]; exact List.prefix_append _ _
      have hB : (st2.name ++ ['_']) <+: n := by rw [e2]; exact List.prefix_append _ _
      rcases List.prefix_or_prefix_of_prefix hA hB with hp | hp
      · rcases List.prefix_concat_iff.mp hp with e | e
        · exact hne (List.append_cancel_right e)
        · exact hpre st1 hst1 st2.name (hmemname st2 hst2) e
      · rcases List.prefix_concat_iff.mp hp with e | e
        · exact hne (List.append_cancel_right e).symm
        · exact hpre st2 hst2 st1.name (hmemname st1 hst1) e

/-! ### labels without the name separator: every row is owed the same as its name-sakes -/

/-- no label holds the `.` that joins labels into an instance name -/
def DotFree (spec : Spec) : Prop :=
  ∀ (row : Nat), row < nRows spec.params → ∀ (k : Str), '.' ∉ lookup (combo spec.params row).labels k

/-- the same as a check over the table -/
def dotFreeB (spec : Spec) : Bool :=
  (List.range (nRows spec.params)).all fun row =>
    (combo spec.params row).labels.all fun kv => !kv.2.contains '.'

theorem dotFree_of_dotFreeB (spec : Spec) (h : dotFreeB spec = true) : DotFree spec := by
  intro row hrow k
  unfold dotFreeB at h
  have h1 := List.all_eq_true.mp h row (List.mem_range.mpr hrow)
  unfold lookup
  cases hf : (combo spec.params row).labels.find? (·.1 == k) with
  | none => simp
  | some p =>
    have := List.all_eq_true.mp h1 p (List.mem_of_find?_eq_some hf)
    simpa using this

/-- the dependency set of every row's instance is what that very row is owed -/
def DepsExact (spec : Spec) (s : SS) (st : Step) : Prop :=
  if (getAssoc s.used st.name).isEmpty then
    ∀ x, x ∈ getAssoc s.g.deps st.name ↔ Owed s.used s.combos spec st 0 x
  else
    ∀ row, row < nRows spec.params →
      ∀ x, x ∈ getAssoc s.g.deps (instName st.name (getAssoc s.used st.name) (combo spec.params row)) ↔
        Owed s.used s.combos spec st row x

theorem instName_sub (p : Str) (U used : List Str) (c c' : Combo) (hsub : ∀ k, k ∈ U → k ∈ used)
    (hl : ∀ k, k ∈ used → lookup c.labels k = lookup c'.labels k) : instName p U c = instName p U c' := by
  unfold instName
  split
  · rfl
  · congr 1
    unfold Combo.paramString
    congr 1
    apply List.map_congr_left
    intro k hk
    exact hl k (hsub k (mem_sortDedup.mp hk))

/-- rows that give a step the same instance name agree on the labels of its used parameters -/
def NameInj (spec : Spec) : Prop :=
  ∀ (nm : Str) (used : List Str), used ≠ [] → ∀ row row' : Nat,
    row < nRows spec.params → row' < nRows spec.params →
    instName nm used (combo spec.params row') = instName nm used (combo spec.params row) →
    ∀ k, k ∈ used → lookup (combo spec.params row').labels k = lookup (combo spec.params row).labels k

theorem nameInj_of_dotFree (spec : Spec) (hdot : DotFree spec) : NameInj spec := by
  intro nm used hu row row' hr hr' hn
  exact (instName_inj nm used hu (combo spec.params row') (combo spec.params row)
    (fun k _ => ⟨hdot row' hr' k, hdot row hr k⟩)).mp hn

theorem owed_same_name (U C : AL) (spec : Spec) (hinj : NameInj spec) (st : Step) (used : List Str)
    (hu : used ≠ []) (hsub : ∀ p, p ∈ depsOf st → ∀ k, k ∈ getAssoc U p → k ∈ used) (row row' : Nat)
    (hr : row < nRows spec.params) (hr' : row' < nRows spec.params)
    (hn : instName st.name used (combo spec.params row') = instName st.name used (combo spec.params row))
    (x : Str) : Owed U C spec st row' x ↔ Owed U C spec st row x := by
  have hl := hinj st.name used hu row row' hr hr' hn
  unfold Owed
  split
  · rfl
  · constructor
    · rintro (⟨p, hp, e⟩ | h)
      · exact Or.inl ⟨p, hp, by rw [e]; exact instName_sub p _ used _ _ (hsub p hp) hl⟩
      · exact Or.inr h
    · rintro (⟨p, hp, e⟩ | h)
      · exact Or.inl ⟨p, hp, by rw [e]; exact (instName_sub p _ used _ _ (hsub p hp) hl).symm⟩
      · exact Or.inr h

theorem depsExact_of_ok (spec : Spec) (hdot : NameInj spec) (s : SS) (st : Step) (h : DepsOK spec s st)
    (hsub : ∀ p, p ∈ depsOf st → ∀ k, k ∈ getAssoc s.used p → k ∈ getAssoc s.used st.name) :
    DepsExact spec s st := by
  unfold DepsOK at h
  unfold DepsExact
  split
  · rename_i he; simp only [he, ↓reduceIte] at h; exact h
  · rename_i he
    simp only [he] at h
    intro row hrow x
    obtain ⟨row', m1, m2, m3⟩ := h row hrow
    rw [m3 x]
    exact owed_same_name s.used s.combos spec hdot st _ (by simpa using he) hsub row row' hrow m1 m2 x

/-- **both tables of the finished graph hold the same edges**: `c` is a child of `p` in the
adjacency table exactly when `p` is in the dependency set of `c` -/
theorem stageSS_par (spec : Spec) (hc : NoClash spec) (hx : CrossInj spec) (hinj : NameInj spec)
    (hselfAll : ∀ st, st ∈ spec.steps → st.name ∉ hubOf st)
    (hsrc : ∀ st, st ∈ spec.steps → st.name ≠ SOURCE)
    (hnames : (spec.steps.map (·.name)).Nodup)
    {ord : List Str → List Str} (ho : IsPermOracle ord) (sf : SS) (h : stageSS spec ord = .ok sf) :
    ∀ p c, p ≠ c → (c ∈ getAssoc sf.g.adj p ↔ p ∈ getAssoc sf.g.deps c) := by
  obtain ⟨hdeps, hadj⟩ := stageSS_deps_exact spec hc hx hselfAll hsrc hnames ho sf h
  have hstage : stage spec ord = .ok sf.g := by rw [stage_eq_stageSS, h]
  intro p c hpc
  constructor
  · intro hmem
    obtain ⟨st, hst, hw⟩ := hadj p c hmem hpc
    obtain ⟨h1, h2⟩ := hdeps st hst
    have hex := depsExact_of_ok spec hinj sf st h1 h2
    unfold AdjWitness at hw
    unfold DepsExact at hex
    split at hw
    · rename_i he
      simp only [he, ↓reduceIte] at hex
      rw [hw.1]; exact (hex p).mpr hw.2
    · rename_i he
      simp only [he] at hex
      obtain ⟨row, hr, e1, e2⟩ := hw
      rw [e1]; exact (hex row hr p).mpr e2
  · intro hmem
    exact stage_depsInAdj spec ord sf.g hstage p c hpc hmem

end MaestroVerif.Expand
