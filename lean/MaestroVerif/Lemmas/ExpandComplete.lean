import MaestroVerif.Lemmas.ExpandFlow

/-!
# Every combination is instantiated (finished graph, C08)

`stageSS` is the loop of `stage` with the whole staging state as its result
(`stage_eq_stageSS`); `stageSS_inv` lifts any property of the staging state
that `stageStep` preserves for the steps of the specification to the end of the
loop.  `Instantiated`: every step that has been staged has its node (no
parameter used) or a node for every row of the parameter table.
-/
namespace MaestroVerif.Expand
open MaestroVerif.Subst

/-- `stage` is `stageSS` followed by taking the graph -/
theorem stage_eq_stageSS (spec : Spec) (ord : List Str → List Str) :
    stage spec ord = match stageSS spec ord with
      | .error e => .error e
      | .ok s => .ok s.g := by
  unfold stage stageSS
  cases buildFlow spec.steps with
  | error e => rfl
  | ok flow =>
    simp only
    cases Dag.topoSort flow.dag with
    | none => rfl
    | some order => rfl

/-- a property of the staging state that staging any step of the specification preserves holds
at the end of the loop -/
theorem stageSS_inv {Q : SS → Prop} (spec : Spec) (ord : List Str → List Str)
    (hQ : ∀ s s' st, st ∈ spec.steps → stageStep spec ord s st = .ok s' → Q s → Q s')
    (sf : SS) (h : stageSS spec ord = .ok sf) (h0 : Q (initSS spec.root)) : Q sf := by
  unfold stageSS at h
  split at h
  · cases h
  · rename_i flow hflow
    have hfs := buildFlow_steps _ _ hflow
    split at h
    · cases h
    · refine foldl_except_inv Q _ ?_ ?_ _ _ sf ?_ h
      · intro a idx s'' ha hstep
        cases a with
        | error e => simp [stageIdx] at hstep
        | ok sa =>
          simp only [stageIdx] at hstep
          split at hstep
          · simp only [Except.ok.injEq] at hstep; subst hstep; exact ha sa rfl
          · split at hstep
            · simp only [Except.ok.injEq] at hstep; subst hstep; exact ha sa rfl
            · split at hstep
              · simp only [Except.ok.injEq] at hstep; subst hstep; exact ha sa rfl
              · rename_i nm st hfind
                have hmem := List.mem_of_find?_eq_some hfind
                exact hQ sa s'' _ (hfs _ hmem).1 hstep (ha sa rfl)
      · intro e x; rfl
      · intro s0 hs0
        simp only [Except.ok.injEq] at hs0
        subst hs0
        exact h0

/-! ### what one placement does to the node set and to the tables -/

theorem place_hasNode {ord : List Str → List Str} {s s' : SS} {inst : Inst} {isRoot : Bool}
    {parents hubD : List Str} (h : place ord s inst isRoot parents hubD = .ok s') (n : Str) :
    s'.g.hasNode n = (s.g.hasNode n || inst.name == n) := by
  unfold place at h
  split at h
  · cases h
  · rename_i g hw
    simp only [Except.ok.injEq] at h
    subst h
    simp only
    rw [wire_hasNode _ _ _ _ _ _ _ hw, hasNode_addStep]

theorem place_combos {ord : List Str → List Str} {s s' : SS} {inst : Inst} {isRoot : Bool}
    {parents hubD : List Str} (h : place ord s inst isRoot parents hubD = .ok s') : s'.combos = s.combos := by
  unfold place at h
  split at h
  · cases h
  · simp only [Except.ok.injEq] at h; subst h; rfl

/-- one row of the table: nodes are kept, the keys of the combination table do not change
(the step's own key is there already), and unless the instance name is a key of that table the
instance is a node afterwards -/
theorem stageRow_node (spec : Spec) (ord : List Str → List Str) (st : Step) (used : List Str)
    (s s' : SS) (row : Nat) (hkey : s.combos.any (·.1 == st.name) = true)
    (h : stageRow spec ord st used s row = .ok s') :
    (∀ n, s.g.hasNode n = true → s'.g.hasNode n = true) ∧
    (∀ k, s'.combos.any (·.1 == k) = s.combos.any (·.1 == k)) ∧
    (s.combos.any (·.1 == instName st.name used (combo spec.params row)) = false →
      s'.g.hasNode (instName st.name used (combo spec.params row)) = true) := by
  unfold stageRow at h
  simp only at h
  split at h
  · rename_i hc
    simp only [Except.ok.injEq] at h; subst h
    refine ⟨fun n hn => hn, fun k => rfl, fun hno => ?_⟩
    rw [hno] at hc; cases hc
  · split at h
    · cases h
    · have hn := place_hasNode h
      have hc := place_combos h
      refine ⟨fun n h1 => by rw [hn, h1]; rfl, fun k => ?_, fun _ => by rw [hn]; simp⟩
      rw [hc]
      simp only
      rw [any_key_setAssoc]
      by_cases e : st.name == k
      · have : st.name = k := by simpa using e
        subst this; simp [hkey]
      · simp [e]

theorem foldl_except_error {α : Type} (f : Except Err SS → α → Except Err SS)
    (herr : ∀ e x, f (.error e) x = .error e) (l : List α) (e : Err) :
    l.foldl f (.error e) = .error e := by
  induction l with
  | nil => rfl
  | cons x xs ih => simp only [List.foldl_cons, herr, ih]

/-- the loop over the rows of the table -/
theorem rows_node (spec : Spec) (ord : List Str → List Str) (st : Step) (used : List Str) :
    ∀ (rows : List Nat) (s s' : SS), s.combos.any (·.1 == st.name) = true →
      rows.foldl (fun (acc : Except Err SS) row =>
        match acc with
        | .error e => .error e
        | .ok s => stageRow spec ord st used s row) (.ok s) = .ok s' →
      (∀ n, s.g.hasNode n = true → s'.g.hasNode n = true) ∧
      (∀ k, s'.combos.any (·.1 == k) = s.combos.any (·.1 == k)) ∧
      s'.used = s.used ∧
      (∀ row, row ∈ rows →
        s.combos.any (·.1 == instName st.name used (combo spec.params row)) = false →
        s'.g.hasNode (instName st.name used (combo spec.params row)) = true) := by
  intro rows
  induction rows with
  | nil =>
    intro s s' _ h
    simp only [List.foldl_nil, Except.ok.injEq] at h
    subst h
    exact ⟨fun n hn => hn, fun k => rfl, rfl, fun row hr => by cases hr⟩
  | cons r rs ih =>
    intro s s' hkey h
    simp only [List.foldl_cons] at h
    cases h1 : stageRow spec ord st used s r with
    | error e =>
      rw [h1, foldl_except_error _ (fun e x => rfl)] at h
      cases h
    | ok s1 =>
      rw [h1] at h
      obtain ⟨a1, a2, a3⟩ := stageRow_node spec ord st used s s1 r hkey h1
      have hu := stageRow_used ord st used s s1 r h1
      obtain ⟨b1, b2, b3, b4⟩ := ih s1 s' (by rw [a2]; exact hkey) h
      refine ⟨fun n hn => b1 n (a1 n hn), fun k => by rw [b2, a2], by rw [b3, hu], ?_⟩
      intro row hr hno
      rcases List.mem_cons.mp hr with e | e
      · subst e; exact b1 _ (a3 hno)
      · exact b4 row e (by rw [a2]; exact hno)

/-! ### the invariant -/

/-- no instance name of a parameterised step is `_source` or the name of a step -/
def NoClash (spec : Spec) : Prop :=
  ∀ st, st ∈ spec.steps → ∀ (used : List Str) (row : Nat), used.isEmpty = false →
    instName st.name used (combo spec.params row) ∉ SOURCE :: spec.steps.map (·.name)

/-- every staged step has its node, or a node for every row of the table -/
def Instantiated (spec : Spec) (s : SS) : Prop :=
  (∀ k, (s.combos.any (·.1 == k) = true ∨ s.used.any (·.1 == k) = true) →
    k ∈ SOURCE :: spec.steps.map (·.name)) ∧
  (∀ k, s.used.any (·.1 == k) = true →
    if (getAssoc s.used k).isEmpty then s.g.hasNode k = true
    else ∀ row, row < nRows spec.params →
      s.g.hasNode (instName k (getAssoc s.used k) (combo spec.params row)) = true)

theorem instantiated_init (spec : Spec) : Instantiated spec (initSS spec.root) := by
  refine ⟨?_, ?_⟩
  · intro k hk
    simp only [initSS, List.any_cons, List.any_nil, Bool.or_false, beq_iff_eq, or_self] at hk
    simp [hk]
  · intro k hk
    simp only [initSS, List.any_cons, List.any_nil, Bool.or_false, beq_iff_eq] at hk
    subst hk
    simp [initSS, getAssoc, XG.hasNode]

theorem instantiated_stageStep (spec : Spec) (hc : NoClash spec) (ord : List Str → List Str)
    (s s' : SS) (st : Step) (hst : st ∈ spec.steps) (h : stageStep spec ord s st = .ok s')
    (hs : Instantiated spec s) : Instantiated spec s' := by
  have hname : st.name ∈ SOURCE :: spec.steps.map (·.name) :=
    List.mem_cons_of_mem _ (List.mem_map.mpr ⟨st, hst, rfl⟩)
  unfold stageStep at h
  simp only at h
  split at h
  · cases h
  · rename_i used hused
    split at h
    · -- no parameter used
      rename_i hu
      split at h
      · cases h
      · have hn := place_hasNode h
        have hcb := place_combos h
        have hud := place_used h
        refine ⟨?_, ?_⟩
        · intro k hk
          rw [hcb, hud] at hk
          simp only [any_key_setAssoc, Bool.or_eq_true, beq_iff_eq] at hk
          rcases hk with ((hk | hk) | hk) | (hk | hk)
          · exact hs.1 k (Or.inl hk)
          · subst hk; exact hname
          · subst hk; exact hname
          · exact hs.1 k (Or.inr hk)
          · subst hk; exact hname
        · intro k hk
          rw [hud] at hk ⊢
          simp only at hk ⊢
          by_cases e : k = st.name
          · subst e
            rw [getAssoc_setAssoc_self]
            simp only [hu, ↓reduceIte]
            rw [hn]; simp
          · rw [getAssoc_setAssoc_ne _ _ _ _ e]
            rw [any_key_setAssoc] at hk
            have hk' : s.used.any (·.1 == k) = true := by
              rcases Bool.or_eq_true _ _ |>.mp hk with hk | hk
              · exact hk
              · exact absurd (by simpa using hk : st.name = k).symm e
            have := hs.2 k hk'
            split at this
            · rename_i h1; simp only [h1, ↓reduceIte]; rw [hn, this]; rfl
            · rename_i h1; simp only [h1]
              intro row hrow; rw [hn, this row hrow]; rfl
    · -- one instance per row
      rename_i hu
      have hkey : (setAssoc s.combos st.name []).any (·.1 == st.name) = true := by
        rw [any_key_setAssoc]; simp
      obtain ⟨b1, b2, b3, b4⟩ := rows_node spec ord st used (List.range (nRows spec.params))
        { s with hub := setAssoc s.hub st.name (sortDedup (hubOf st)),
                 depends := setAssoc s.depends st.name (sortDedup (depsOf st)),
                 used := setAssoc s.used st.name used,
                 combos := setAssoc s.combos st.name [] } s' hkey h
      simp only at b1 b2 b3 b4
      have hkeys : ∀ k, (s'.combos.any (·.1 == k) = true ∨ s'.used.any (·.1 == k) = true) →
          k ∈ SOURCE :: spec.steps.map (·.name) := by
        intro k hk
        rw [b2, b3] at hk
        simp only [any_key_setAssoc, Bool.or_eq_true, beq_iff_eq] at hk
        rcases hk with (hk | hk) | (hk | hk)
        · exact hs.1 k (Or.inl hk)
        · subst hk; exact hname
        · exact hs.1 k (Or.inr hk)
        · subst hk; exact hname
      refine ⟨hkeys, ?_⟩
      intro k hk
      rw [b3] at hk ⊢
      by_cases e : k = st.name
      · subst e
        rw [getAssoc_setAssoc_self]
        simp only [hu, Bool.false_eq_true, ↓reduceIte]
        intro row hrow
        apply b4 row (List.mem_range.mpr hrow)
        have hno := hc st hst used row (by simpa using hu)
        cases hany : (setAssoc s.combos st.name []).any (·.1 == instName st.name used (combo spec.params row)) with
        | false => rfl
        | true =>
          exfalso
          apply hno
          rw [← b2] at hany
          exact hkeys _ (Or.inl hany)
      · rw [getAssoc_setAssoc_ne _ _ _ _ e]
        rw [any_key_setAssoc] at hk
        have hk' : s.used.any (·.1 == k) = true := by
          rcases Bool.or_eq_true _ _ |>.mp hk with hk | hk
          · exact hk
          · exact absurd (by simpa using hk : st.name = k).symm e
        have := hs.2 k hk'
        split at this
        · rename_i h1; simp only [h1, ↓reduceIte]; exact b1 _ this
        · rename_i h1; simp only [h1]
          intro row hrow; exact b1 _ (this row hrow)

/-- **every combination is instantiated**: at the end of staging, every step that was staged has a
node - its own when it uses no parameter, one per row of the parameter table otherwise - provided
no instance name coincides with a step name (`NoClash`; the complement is part of the known
finding C08-name-collision: such a row is skipped by `if combo_str in self.step_combos`) -/
theorem stageSS_instantiated (spec : Spec) (hc : NoClash spec) (ord : List Str → List Str) (sf : SS)
    (h : stageSS spec ord = .ok sf) : Instantiated spec sf :=
  stageSS_inv spec ord (fun s s' st hst hstep hs => instantiated_stageStep spec hc ord s s' st hst hstep hs)
    sf h (instantiated_init spec)

/-! ### every node other than `_source` is an instance -/

def NodesAreInsts (g : XG) : Prop :=
  ∀ n, g.hasNode n = true → n = SOURCE ∨ ∃ i, i ∈ g.insts ∧ i.name = n

theorem nodesAreInsts_place : PlaceInv NodesAreInsts := by
  intro ord s s' inst isRoot parents hubD h hs n hn
  rw [place_hasNode h] at hn
  unfold place at h
  split at h
  · cases h
  · rename_i g hw
    simp only [Except.ok.injEq] at h
    subst h
    simp only
    rw [wire_insts _ _ _ _ _ _ _ hw, insts_addStep]
    rcases Bool.or_eq_true _ _ |>.mp hn with h1 | h1
    · rcases hs n h1 with e | ⟨i, hi, e⟩
      · exact Or.inl e
      · refine Or.inr ⟨i, ?_, e⟩
        split
        · exact hi
        · exact List.mem_append_left _ hi
    · have e : inst.name = n := by simpa using h1
      by_cases hex : s.g.hasNode inst.name = true
      · rcases hs inst.name hex with e' | ⟨i, hi, e'⟩
        · exact Or.inl (e ▸ e')
        · refine Or.inr ⟨i, ?_, e ▸ e'⟩
          simp only [hex, ↓reduceIte]; exact hi
      · refine Or.inr ⟨inst, ?_, e⟩
        simp only [hex, Bool.false_eq_true, ↓reduceIte]
        exact List.mem_append_right _ (List.mem_singleton.mpr rfl)

theorem stage_nodesAreInsts (spec : Spec) (ord : List Str → List Str) (r : XG)
    (h : stage spec ord = .ok r) : NodesAreInsts r :=
  stage_inv nodesAreInsts_place spec ord r h (by
    intro n hn
    simp only [initSS, XG.hasNode, List.any_cons, List.any_nil, Bool.or_false, beq_iff_eq] at hn
    exact Or.inl hn.symm)

/-! ### a decidable sufficient condition for `NoClash` -/

/-- no step name followed by `_` is the beginning of `_source` or of a step name -/
def noClashB (spec : Spec) : Bool :=
  spec.steps.all fun st => (SOURCE :: spec.steps.map (·.name)).all fun b => !(st.name ++ ['_']).isPrefixOf b

theorem noClash_of_noClashB (spec : Spec) (h : noClashB spec = true) : NoClash spec := by
  intro st hst used row hu hmem
  unfold noClashB at h
  have h1 := List.all_eq_true.mp h st hst
  have h2 := List.all_eq_true.mp h1 _ hmem
  simp only [instName, hu, Bool.false_eq_true, ↓reduceIte, Bool.not_eq_eq_eq_not, Bool.not_true] at h2
  have : (st.name ++ ['_']).isPrefixOf (st.name ++ ['_'] ++ (combo spec.params row).paramString used) = true := by
    rw [List.isPrefixOf_iff_prefix]
    exact List.prefix_append _ _
  rw [this] at h2
  cases h2

end MaestroVerif.Expand
