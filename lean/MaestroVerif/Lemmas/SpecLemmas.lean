import MaestroVerif.Model.Spec

/-! Consequences of schema validity, keyword by keyword. -/
namespace MaestroVerif.Spec
open MaestroVerif.Subst

def Schema.ty : Schema → Option Ty | .mk t _ _ _ _ _ _ _ _ _ _ _ _ _ => t
def Schema.props : Schema → List (Str × Schema) | .mk _ p _ _ _ _ _ _ _ _ _ _ _ _ => p
def Schema.required : Schema → List Str | .mk _ _ r _ _ _ _ _ _ _ _ _ _ _ => r
def Schema.noAdditional : Schema → Bool | .mk _ _ _ a _ _ _ _ _ _ _ _ _ _ => a
def Schema.minLength : Schema → Option Nat | .mk _ _ _ _ m _ _ _ _ _ _ _ _ _ => m
def Schema.minItems : Schema → Option Nat | .mk _ _ _ _ _ m _ _ _ _ _ _ _ _ => m
def Schema.items : Schema → Option Schema | .mk _ _ _ _ _ _ _ _ _ _ _ i _ _ => i
def Schema.unique : Schema → Bool | .mk _ _ _ _ _ _ _ _ _ _ _ _ u _ => u
def Schema.patternProps : Schema → Option Schema | .mk _ _ _ _ _ _ _ _ _ _ _ _ _ p => p

/-- a valid instance has the declared type -/
theorem valid_type {fuel : Nat} {s : Schema} {j : Json} {t : Ty}
    (h : valid (fuel + 1) s j = true) (ht : s.ty = some t) : tyOk t j = true := by
  cases s with
  | mk ty props required noAdd minLen minItems minimum maximum pat enum anyOf items unique pprops =>
    simp only [Schema.ty] at ht
    subst ht
    simp only [valid, Bool.and_eq_true] at h
    exact h.1.1.1.1

/-- a valid object has every required key -/
theorem valid_required {fuel : Nat} {s : Schema} {kvs : List (Str × Json)}
    (h : valid (fuel + 1) s (.obj kvs) = true) : ∀ r ∈ s.required, kvs.any (·.1 == r) = true := by
  cases s with
  | mk ty props required noAdd minLen minItems minimum maximum pat enum anyOf items unique pprops =>
    simp only [valid, Bool.and_eq_true] at h
    have := h.1.1.1.2.1.1.2
    simpa [Schema.required] using this

/-- a valid object of a closed schema has only declared keys -/
theorem valid_closed {fuel : Nat} {s : Schema} {kvs : List (Str × Json)}
    (h : valid (fuel + 1) s (.obj kvs) = true) (hc : s.noAdditional = true) (hp : s.patternProps = none) :
    ∀ kv ∈ kvs, s.props.any (·.1 == kv.1) = true := by
  cases s with
  | mk ty props required noAdd minLen minItems minimum maximum pat enum anyOf items unique pprops =>
    simp only [Schema.noAdditional, Schema.patternProps] at hc hp
    subst hc hp
    simp only [valid, Bool.and_eq_true] at h
    have := h.1.1.1.2.1.2
    simpa [Schema.props] using this

/-- a declared key of a valid object holds a valid value -/
theorem valid_prop {fuel : Nat} {s : Schema} {kvs : List (Str × Json)}
    (h : valid (fuel + 1) s (.obj kvs) = true) :
    ∀ ps ∈ s.props, ∀ kv, kvs.find? (·.1 == ps.1) = some kv → valid fuel ps.2 kv.2 = true := by
  cases s with
  | mk ty props required noAdd minLen minItems minimum maximum pat enum anyOf items unique pprops =>
    simp only [valid, Bool.and_eq_true] at h
    have := h.1.1.1.2.1.1.1
    intro ps hps kv hkv
    simp only [List.all_eq_true] at this
    have := this ps (by simpa [Schema.props] using hps)
    simpa [hkv] using this

/-- a valid string is at least as long as the schema asks -/
theorem valid_minLength {fuel : Nat} {s : Schema} {str : Str} {n : Nat}
    (h : valid (fuel + 1) s (.str str) = true) (hn : s.minLength = some n) : n ≤ str.length := by
  cases s with
  | mk ty props required noAdd minLen minItems minimum maximum pat enum anyOf items unique pprops =>
    simp only [Schema.minLength] at hn
    subst hn
    simp only [valid, Bool.and_eq_true] at h
    have := h.1.1.1.2.1
    simpa using this

/-- the entries of a valid array are valid for the item schema, and distinct
when the schema asks for unique items -/
theorem valid_items {fuel : Nat} {s : Schema} {l : List Json} {it : Schema}
    (h : valid (fuel + 1) s (.arr l) = true) (hi : s.items = some it) : ∀ x ∈ l, valid fuel it x = true := by
  cases s with
  | mk ty props required noAdd minLen minItems minimum maximum pat enum anyOf items unique pprops =>
    simp only [Schema.items] at hi
    subst hi
    simp only [valid, Bool.and_eq_true] at h
    have := h.1.1.1.2.1.2
    simpa using this

theorem valid_minItems {fuel : Nat} {s : Schema} {l : List Json} {n : Nat}
    (h : valid (fuel + 1) s (.arr l) = true) (hn : s.minItems = some n) : n ≤ l.length := by
  cases s with
  | mk ty props required noAdd minLen minItems minimum maximum pat enum anyOf items unique pprops =>
    simp only [Schema.minItems] at hn
    subst hn
    simp only [valid, Bool.and_eq_true] at h
    have := h.1.1.1.2.1.1
    simpa using this

end MaestroVerif.Spec

namespace MaestroVerif.Spec
open MaestroVerif.Subst

/-- the sub-schema declared for key `k` -/
def Schema.prop (s : Schema) (k : String) : Option Schema :=
  (s.props.find? (·.1 == k.toList)).map (·.2)

theorem valid_prop' {fuel : Nat} {s sub : Schema} {kvs : List (Str × Json)} {k : String}
    (h : valid (fuel + 1) s (.obj kvs) = true) (hs : s.prop k = some sub) :
    ∀ v, (Json.obj kvs).get? k = some v → valid fuel sub v = true := by
  intro v hv
  unfold Schema.prop at hs
  cases hf : s.props.find? (·.1 == k.toList) with
  | none => simp [hf] at hs
  | some ps =>
    simp only [hf, Option.map_some, Option.some.injEq] at hs
    have hmem : ps ∈ s.props := List.mem_of_find?_eq_some hf
    have hk : ps.1 = k.toList := by simpa using List.find?_some hf
    unfold Json.get? at hv
    cases hg : kvs.find? (·.1 == k.toList) with
    | none => simp [hg] at hv
    | some kv =>
      simp only [hg, Option.map_some, Option.some.injEq] at hv
      have := valid_prop h ps hmem kv (by rw [hk]; exact hg)
      rw [hs, hv] at this
      exact this

theorem has_of_required {fuel : Nat} {s : Schema} {kvs : List (Str × Json)} {k : String}
    (h : valid (fuel + 1) s (.obj kvs) = true) (hr : k.toList ∈ s.required) :
    ∃ v, (Json.obj kvs).get? k = some v := by
  have := valid_required h _ hr
  simp only [List.any_eq_true] at this
  obtain ⟨kv, hkv, hk⟩ := this
  unfold Json.get?
  cases hf : kvs.find? (·.1 == k.toList) with
  | some x => exact ⟨x.2, by simp [hf]⟩
  | none =>
    have := List.find?_eq_none.mp hf kv hkv
    simp [hk] at this

theorem obj_of_tyOk {j : Json} (h : tyOk .object j = true) : ∃ kvs, j = .obj kvs := by
  cases j <;> simp [tyOk] at h
  exact ⟨_, rfl⟩

theorem str_of_tyOk {j : Json} (h : tyOk .string j = true) : ∃ s, j = .str s := by
  cases j <;> simp [tyOk] at h
  exact ⟨_, rfl⟩

theorem arr_of_tyOk {j : Json} (h : tyOk .array j = true) : ∃ l, j = .arr l := by
  cases j <;> simp [tyOk] at h
  exact ⟨_, rfl⟩

/-- a value valid for a `{"type": "string", "minLength": 1}` schema is a non-empty string -/
theorem nonempty_str {fuel : Nat} {s : Schema} {j : Json}
    (h : valid (fuel + 1) s j = true) (ht : s.ty = some .string) (hm : s.minLength = some 1) :
    ∃ str, j = .str str ∧ str ≠ [] := by
  obtain ⟨str, rfl⟩ := str_of_tyOk (valid_type h ht)
  have := valid_minLength h hm
  exact ⟨str, rfl, by intro h0; simp [h0] at this⟩

end MaestroVerif.Spec

namespace MaestroVerif.Spec
open MaestroVerif.Subst

/-! ### the hand-written checks -/

theorem beq_str (a b : Str) : Json.beq (.str a) (.str b) = (a == b) := by
  simp [Json.beq]

/-- the name of a step as a string -/
def nameStr (s : Json) : Str := (strOf (stepNameOf s)).getD []

/-- a step whose `name` is a string -/
def namedStep (s : Json) : Prop := ∃ n, stepNameOf s = .str n

theorem nameStr_of_named {s : Json} {n : Str} (h : stepNameOf s = .str n) : nameStr s = n := by
  simp [nameStr, h, strOf]

/-- `verifySteps` accepted: every step is schema-valid, no name repeats (nor
repeats one seen before), no step lists itself -/
theorem verifySteps_accepted (sch : Schema) (hnamed : ∀ s, valid schemaFuel sch s = true → namedStep s) :
    ∀ (steps : List Json) (seen : List Str),
      verifySteps sch (seen.map Json.str) steps = .accepted →
      (∀ s ∈ steps, valid schemaFuel sch s = true) ∧
      (seen ++ steps.map nameStr).Nodup = (seen.Nodup) ∧
      (∀ s ∈ steps, ∀ ds, Json.str ds ∈ stepDepends s → stripCombos ds ≠ nameStr s) ∧
      (∀ s ∈ steps, nameStr s ≠ sourceName) := by
  intro steps
  induction steps with
  | nil => intro seen _; simp
  | cons s rest ih =>
    intro seen h
    simp only [verifySteps] at h
    by_cases hv : valid schemaFuel sch s = true
    · simp only [hv, Bool.not_true, Bool.false_eq_true, ↓reduceIte] at h
      obtain ⟨n, hn⟩ := hnamed s hv
      have hns : nameStr s = n := nameStr_of_named hn
      rw [hn] at h
      by_cases hres : Json.beq (.str n) (.str sourceName) = true
      · simp [hres] at h
      simp only [hres, Bool.false_eq_true, ↓reduceIte] at h
      have hnres : n ≠ sourceName := by
        intro e; apply hres; rw [beq_str, e]; simp
      by_cases hdup : (seen.map Json.str).any (Json.beq (.str n)) = true
      · simp [hdup] at h
      · simp only [hdup, Bool.false_eq_true, ↓reduceIte] at h
        split at h
        · simp at h
        · rename_i hself
          have hrec := ih (seen ++ [n]) (by simpa using h)
          obtain ⟨r1, r2, r3, r4⟩ := hrec
          have hnotin : n ∉ seen := by
            intro hmem
            apply hdup
            simp only [List.any_map, List.any_eq_true, Function.comp]
            exact ⟨n, hmem, by simp [beq_str]⟩
          refine ⟨?_, ?_, ?_, ?_⟩
          rotate_left 3
          · intro x hx
            rcases List.mem_cons.mp hx with rfl | hx
            · rw [hns]; exact hnres
            · exact r4 x hx
          · intro x hx
            rcases List.mem_cons.mp hx with rfl | hx
            · exact hv
            · exact r1 x hx
          · simp only [List.map_cons, hns]
            have : seen ++ n :: rest.map nameStr = (seen ++ [n]) ++ rest.map nameStr := by simp
            rw [this, r2]
            simp only [List.nodup_append, List.nodup_cons, List.not_mem_nil, not_false_eq_true, List.nodup_nil,
              and_self, List.mem_cons, or_false, ne_eq, forall_eq, true_and, eq_iff_iff]
            constructor
            · intro h; exact h.1
            · intro h; exact ⟨h, fun a ha hane => hnotin (hane ▸ ha)⟩
          · intro x hx ds hds
            rcases List.mem_cons.mp hx with rfl | hx
            · intro heq
              apply hself
              simp only [List.any_eq_true]
              exact ⟨.str ds, hds, by simp [heq, hns]⟩
            · exact r3 x hx ds hds
    · simp [hv] at h

theorem depsOutcome_accepted (seen : List Str) (nm : Str) :
    ∀ (deps : List Json), depsOutcome seen nm deps = .accepted →
      ∀ d ∈ deps, ∃ ds, d = .str ds ∧ (stripCombos ds ∈ seen ∨ stripCombos ds = sourceName) := by
  intro deps
  induction deps with
  | nil => intro _ d hd; simp at hd
  | cons d rest ih =>
    intro h x hx
    cases d with
    | str ds =>
      simp only [depsOutcome] at h
      split at h
      · simp at h
      · rename_i hk
        split at h
        · simp at h
        · rcases List.mem_cons.mp hx with rfl | hx
          · refine ⟨ds, rfl, ?_⟩
            simp only [Bool.not_eq_true', Bool.not_eq_false, Bool.or_eq_true, List.contains_iff_mem,
              beq_iff_eq] at hk
            simpa using hk
          · exact ih h x hx
    | _ => simp [depsOutcome] at h

/-- `edgesOutcome` accepted: every dependency names a step added before (or the root) -/
theorem edgesOutcome_accepted :
    ∀ (steps : List Json) (seen : List Str), edgesOutcome seen steps = .accepted →
      ∀ (pre post : List Json) (s : Json), steps = pre ++ s :: post →
        ∀ d ∈ stepDepends s, ∃ ds, d = .str ds ∧
          (stripCombos ds ∈ seen ++ pre.map nameStr ∨ stripCombos ds = sourceName) := by
  intro steps
  induction steps with
  | nil => intro seen _ pre post s hs; simp at hs
  | cons a rest ih =>
    intro seen h pre post s hs d hd
    simp only [edgesOutcome] at h
    cases hdo : depsOutcome seen ((strOf (stepNameOf a)).getD []) (stepDepends a) with
    | accepted =>
      simp only [hdo] at h
      cases pre with
      | nil =>
        simp only [List.nil_append, List.cons.injEq] at hs
        obtain ⟨rfl, _⟩ := hs
        obtain ⟨ds, hds, hmem⟩ := depsOutcome_accepted _ _ _ hdo d hd
        exact ⟨ds, hds, by simpa using hmem⟩
      | cons p pre' =>
        simp only [List.cons_append, List.cons.injEq] at hs
        obtain ⟨rfl, hrest⟩ := hs
        obtain ⟨ds, hds, hmem⟩ := ih (seen ++ [nameStr a]) h pre' post s hrest d hd
        exact ⟨ds, hds, by simpa [List.append_assoc] using hmem⟩
    | rejected => simp [hdo] at h
    | crash => simp [hdo] at h

def valuesLen (p : Json) : Nat := (arrItems ((p.get? "values").getD (.arr []))).length

/-- `verifyParams` accepted: every parameter is schema-valid and all value lists
have one length -/
theorem verifyParams_accepted (sch : Schema) :
    ∀ (ps : List (Str × Json)) (len : Option Nat), verifyParams sch len ps = .accepted →
      (∀ p ∈ ps, valid schemaFuel sch p.2 = true) ∧
      ∃ n, (len = none ∨ len = some n) ∧ ∀ p ∈ ps, valuesLen p.2 = n := by
  intro ps
  induction ps with
  | nil =>
    intro len _
    refine ⟨by simp, ?_⟩
    cases len with
    | none => exact ⟨0, Or.inl rfl, by simp⟩
    | some m => exact ⟨m, Or.inr rfl, by simp⟩
  | cons p rest ih =>
    intro len h
    obtain ⟨k, v⟩ := p
    simp only [verifyParams] at h
    by_cases hv : valid schemaFuel sch v = true
    · simp only [hv, Bool.not_true, Bool.false_eq_true, ↓reduceIte] at h
      cases len with
      | none =>
        simp only at h
        obtain ⟨r1, n, hn, r2⟩ := ih _ h
        have hn' : valuesLen v = n := by
          rcases hn with hn | hn
          · simp at hn
          · simpa [valuesLen] using hn
        refine ⟨?_, n, Or.inl rfl, ?_⟩
        · intro x hx
          rcases List.mem_cons.mp hx with rfl | hx
          · exact hv
          · exact r1 x hx
        · intro x hx
          rcases List.mem_cons.mp hx with rfl | hx
          · exact hn'
          · exact r2 x hx
      | some m =>
        simp only at h
        split at h
        · simp at h
        · rename_i hne
          obtain ⟨r1, n, hn, r2⟩ := ih _ h
          have hnm : n = m := by
            rcases hn with hn | hn
            · simp at hn
            · simpa using hn.symm
          subst hnm
          refine ⟨?_, n, Or.inr rfl, ?_⟩
          · intro x hx
            rcases List.mem_cons.mp hx with rfl | hx
            · exact hv
            · exact r1 x hx
          · intro x hx
            rcases List.mem_cons.mp hx with rfl | hx
            · simpa [valuesLen] using hne
            · exact r2 x hx
    · simp [hv] at h

end MaestroVerif.Spec

namespace MaestroVerif.Spec
open MaestroVerif.Subst

/-! ### where an internal error can come from -/

theorem verifySteps_ne_crash (sch : Schema) : ∀ (steps seen : List Json), verifySteps sch seen steps ≠ .crash := by
  intro steps
  induction steps with
  | nil => intro seen; simp [verifySteps]
  | cons s rest ih =>
    intro seen
    simp only [verifySteps]
    split
    · simp
    · split
      · simp
      · split
        · simp
        · split
          · simp
          · exact ih _

theorem verifyParams_ne_crash (sch : Schema) :
    ∀ (ps : List (Str × Json)) (len : Option Nat), verifyParams sch len ps ≠ .crash := by
  intro ps
  induction ps with
  | nil => intro len; simp [verifyParams]
  | cons p rest ih =>
    intro len
    obtain ⟨k, v⟩ := p
    simp only [verifyParams]
    split
    · simp
    · cases len with
      | none => exact ih _
      | some m =>
        simp only
        split
        · simp
        · exact ih _

theorem depsOutcome_crash (seen : List Str) (nm : Str) :
    ∀ (deps : List Json), depsOutcome seen nm deps = .crash →
      nm = sourceName ∨ ∃ d ∈ deps, ∀ ds, d ≠ .str ds := by
  intro deps
  induction deps with
  | nil => intro h; simp [depsOutcome] at h
  | cons d rest ih =>
    intro h
    cases d with
    | str ds =>
      simp only [depsOutcome] at h
      split at h
      · simp at h
      · split at h
        · rename_i hk
          left
          simp only [Bool.and_eq_true, beq_iff_eq] at hk
          exact hk.1
        · rcases ih h with h' | ⟨x, hx, hxs⟩
          · exact Or.inl h'
          · exact Or.inr ⟨x, List.mem_cons_of_mem _ hx, hxs⟩
    | null => exact Or.inr ⟨.null, by simp, by intro ds; simp⟩
    | bool b => exact Or.inr ⟨.bool b, by simp, by intro ds; simp⟩
    | int n => exact Or.inr ⟨.int n, by simp, by intro ds; simp⟩
    | float t => exact Or.inr ⟨.float t, by simp, by intro ds; simp⟩
    | arr l => exact Or.inr ⟨.arr l, by simp, by intro ds; simp⟩
    | obj kvs => exact Or.inr ⟨.obj kvs, by simp, by intro ds; simp⟩

theorem edgesOutcome_crash :
    ∀ (steps : List Json) (seen : List Str), edgesOutcome seen steps = .crash →
      ∃ s ∈ steps, nameStr s = sourceName ∨ ∃ d ∈ stepDepends s, ∀ ds, d ≠ .str ds := by
  intro steps
  induction steps with
  | nil => intro seen h; simp [edgesOutcome] at h
  | cons a rest ih =>
    intro seen h
    simp only [edgesOutcome] at h
    cases hdo : depsOutcome seen ((strOf (stepNameOf a)).getD []) (stepDepends a) with
    | accepted =>
      simp only [hdo] at h
      obtain ⟨s, hs, hc⟩ := ih _ h
      exact ⟨s, List.mem_cons_of_mem _ hs, hc⟩
    | rejected => simp [hdo] at h
    | crash => exact ⟨a, by simp, depsOutcome_crash _ _ _ hdo⟩

end MaestroVerif.Spec
