import MaestroVerif.Lemmas.ExecLog
import MaestroVerif.Lemmas.ExecClosed

/-! No collateral damage: a poll marks a step failed / cancelled only when the step lies in
the sub-tree of a step that itself ended badly in this poll (a bad scheduler report, or
every submission attempt refused) - unless a cancel was requested. -/
namespace MaestroVerif.Exec
open MaestroVerif.Gen

/-- the scheduler reported an unsuccessful end of `r`'s job in this poll -/
def BadRep (p : PollIn) (r : Nat) : Prop :=
  ∃ st, (r, some st) ∈ p.reports ∧
    (st = State.FAILED ∨ st = State.UNKNOWN ∨ st = State.CANCELLED ∨ st = State.TIMEDOUT)

/-- a failed submission (scheduler `submit` or local execution) of step `r` with number `job` -/
def FailEv (l : List Ev) (r : Nat) (rs : Bool) (job : Nat) : Prop :=
  Ev.submit r rs false job ∈ l ∨ Ev.localRun r rs false job ∈ l

/-- every one of the configured submission attempts of `r` was refused: `cfg.attempts`
consecutive submissions (numbers `k+1 … k+attempts`), all for `r`, all failed -/
def Exhausted (cfg : Cfg) (l : List Ev) (r : Nat) : Prop :=
  ∃ k rs, ∀ j, j < cfg.attempts → FailEv l r rs (k + j + 1)

def Stopped (g : G) (x : Nat) : Prop :=
  x ∈ g.failed ∨ x ∈ g.cancelled ∨ x ∈ g.cleanup ∨ x ∈ g.cancelQ

def Blamed (cfg : Cfg) (R : Nat → Prop) (x : Nat) : Prop := ∃ r, R r ∧ x ∈ subtree cfg r

/-- what an operation may do to the stopped sets, relative to its start state -/
structure Fr (cfg : Cfg) (R : Nat → Prop) (g g' : G) : Prop where
  log  : ∀ e, e ∈ g.log → e ∈ g'.log
  stop : ∀ x, Stopped g' x → Stopped g x ∨ Blamed cfg (fun r => R r ∨ Exhausted cfg g'.log r) x

theorem FailEv.mono {l l' : List Ev} (h : ∀ e, e ∈ l → e ∈ l') {r : Nat} {rs : Bool} {job : Nat}
    (f : FailEv l r rs job) : FailEv l' r rs job := by
  rcases f with f | f
  · exact Or.inl (h _ f)
  · exact Or.inr (h _ f)

theorem Exhausted.mono {cfg : Cfg} {l l' : List Ev} (h : ∀ e, e ∈ l → e ∈ l') {r : Nat}
    (f : Exhausted cfg l r) : Exhausted cfg l' r := by
  obtain ⟨k, rs, hk⟩ := f
  exact ⟨k, rs, fun j hj => (hk j hj).mono h⟩

theorem Blamed.mono {cfg : Cfg} {R R' : Nat → Prop} (h : ∀ r, R r → R' r) {x : Nat}
    (b : Blamed cfg R x) : Blamed cfg R' x := by
  obtain ⟨r, hr, hx⟩ := b
  exact ⟨r, h r hr, hx⟩

theorem Fr.refl (cfg : Cfg) (R : Nat → Prop) (g : G) : Fr cfg R g g :=
  ⟨fun _ h => h, fun _ h => Or.inl h⟩

theorem Fr.trans {cfg : Cfg} {R : Nat → Prop} {g1 g2 g3 : G} (a : Fr cfg R g1 g2) (b : Fr cfg R g2 g3) :
    Fr cfg R g1 g3 := by
  refine ⟨fun e h => b.log e (a.log e h), ?_⟩
  intro x hx
  rcases b.stop x hx with h | h
  · rcases a.stop x h with h' | h'
    · exact Or.inl h'
    · refine Or.inr (h'.mono ?_)
      intro r hr
      rcases hr with hr | hr
      · exact Or.inl hr
      · exact Or.inr (hr.mono b.log)
  · exact Or.inr h

/-- an operation that leaves the four sets alone and only appends to the log -/
theorem Fr.of_same {cfg : Cfg} {R : Nat → Prop} {g g' : G} (hl : ∀ e, e ∈ g.log → e ∈ g'.log)
    (h1 : g'.failed = g.failed) (h2 : g'.cancelled = g.cancelled) (h3 : g'.cleanup = g.cleanup)
    (h4 : g'.cancelQ = g.cancelQ) : Fr cfg R g g' :=
  ⟨hl, fun x hx => Or.inl (by unfold Stopped at hx ⊢; rw [h1, h2, h3, h4] at hx; exact hx)⟩

/-! ### the submission loop -/

theorem attempt_log (cfg : Cfg) (i : Nat) (rs : Bool) (g : G) :
    (∀ e, e ∈ g.log → e ∈ (attempt cfg i rs g).1.log) ∧
    (attempt cfg i rs g).1.subCount = g.subCount + 1 ∧
    ((attempt cfg i rs g).2 = false → FailEv (attempt cfg i rs g).1.log i rs (g.subCount + 1)) := by
  refine ⟨?_, ?_, ?_⟩
  · intro e he
    simp only [attempt, emit, setStatus]
    repeat' split
    all_goals simp only [List.mem_append, List.mem_singleton] at he ⊢
    all_goals first | exact Or.inl he | exact Or.inl (Or.inl he) | (rcases he with h | h <;> simp [h])
  · simp only [attempt, emit, setStatus]
    repeat' split
    all_goals rfl
  · intro hf
    have hsub : cfg.subOk g.subCount = false := by
      rw [← hf]; simp only [attempt, emit, setStatus]; repeat' split
      all_goals rfl
    simp only [attempt, emit, setStatus, FailEv]
    repeat' split
    all_goals simp_all

theorem submitLoop_log (cfg : Cfg) (i : Nat) (rs : Bool) : ∀ (k : Nat) (g : G),
    (∀ e, e ∈ g.log → e ∈ (submitLoop cfg i rs k g).1.log) ∧
    ((submitLoop cfg i rs k g).2 = false →
      ∀ j, j < k → FailEv (submitLoop cfg i rs k g).1.log i rs (g.subCount + j + 1)) := by
  intro k
  induction k with
  | zero => intro g; exact ⟨fun _ h => h, fun _ j hj => absurd hj (Nat.not_lt_zero j)⟩
  | succ k ih =>
    intro g
    obtain ⟨a1, a2, a3⟩ := attempt_log cfg i rs g
    simp only [submitLoop]
    split
    · rename_i hok
      exact ⟨a1, fun h => by simp at h⟩
    · rename_i hok
      obtain ⟨b1, b2⟩ := ih (attempt cfg i rs g).1
      refine ⟨fun e he => b1 e (a1 e he), ?_⟩
      intro hf j hj
      cases j with
      | zero =>
        have := a3 (by simpa using hok)
        exact this.mono b1
      | succ j =>
        have := b2 hf j (by omega)
        rw [a2] at this
        have e : g.subCount + 1 + j + 1 = g.subCount + (j + 1) + 1 := by omega
        rw [e] at this
        exact this

/-! ### `_execute_record` -/

theorem fr_executeRecord {cfg : Cfg} (wf : WFCfg cfg) (R : Nat → Prop) (g : G) (i : Nat) (rs : Bool) :
    Fr cfg R g (executeRecord cfg g i rs) := by
  have prep : Fr cfg R g (execPrep cfg g i rs) := by
    apply Fr.of_same
    · intro e he
      simp only [execPrep, emit]
      split
      · exact he
      · simp only [List.mem_append, List.mem_singleton]; exact Or.inl he
    all_goals (simp only [execPrep, emit]; split <;> rfl)
  refine prep.trans ?_
  unfold executeRecord
  simp only
  generalize execPrep cfg g i rs = g1
  split
  · -- dry run
    apply Fr.of_same <;> simp [dryMark, setStatus]
  · have sf := submitLoop_frame cfg i rs cfg.attempts g1
    obtain ⟨l1, l2⟩ := submitLoop_log cfg i rs cfg.attempts g1
    have loop : Fr cfg R g1 (submitLoop cfg i rs cfg.attempts g1).1 :=
      Fr.of_same l1 sf.failed sf.cancelled sf.cleanup sf.cancelQ
    refine loop.trans ?_
    cases hok : (submitLoop cfg i rs cfg.attempts g1).2 with
    | true =>
      simp only [execFinish, ↓reduceIte]
      split
      · apply Fr.of_same <;> simp
      · apply Fr.of_same <;> simp [setStatus]
    | false =>
      have ex : Exhausted cfg (submitLoop cfg i rs cfg.attempts g1).1.log i :=
        ⟨g1.subCount, rs, fun j hj => l2 hok j hj⟩
      simp only [execFinish, Bool.false_eq_true, ↓reduceIte, failSubtree_eq]
      generalize (submitLoop cfg i rs cfg.attempts g1).1 = g2 at ex ⊢
      have mf := markFailed_spec (subtree cfg i) { g2 with inProgress := rem i g2.inProgress }
      refine ⟨fun e he => by rw [mf.log]; exact he, ?_⟩
      intro x hx
      unfold Stopped at hx ⊢
      rw [mf.failed, mf.cancelled, mf.cleanup, mf.cancelQ] at hx
      rcases hx with (h | h) | h | h | h
      · exact Or.inr ⟨i, Or.inr (by rw [mf.log]; exact ex), h⟩
      · exact Or.inl (Or.inl h)
      · exact Or.inl (Or.inr (Or.inl h))
      · exact Or.inl (Or.inr (Or.inr (Or.inl h)))
      · exact Or.inl (Or.inr (Or.inr (Or.inr h)))

/-! ### one scheduler answer -/

theorem fr_report {cfg : Cfg} (wf : WFCfg cfg) (R : Nat → Prop) (g : G) (i : Nat) (st : Option State)
    (hR : ∀ s, st = some s → (s = .FAILED ∨ s = .UNKNOWN ∨ s = .CANCELLED ∨ s = .TIMEDOUT) → R i) :
    Fr cfg R g (report cfg g i st) := by
  have self := self_mem_subtree wf i
  -- the ledger update does not touch anything this frame speaks about
  have led : Fr cfg R g (if terminal st then { g with live := rem i g.live } else g) := by
    split
    · apply Fr.of_same <;> simp
    · exact Fr.refl cfg R g
  unfold report
  simp only
  refine led.trans ?_
  generalize (if terminal st then { g with live := rem i g.live } else g) = g1
  cases st with
  | none => exact Fr.refl cfg R g1
  | some s =>
    have hb := hR s rfl
    cases s
    case FINISHED => apply Fr.of_same <;> simp [setStatus]
    case RUNNING => apply Fr.of_same <;> simp [setStatus]
    case HWFAILURE => apply Fr.of_same <;> simp
    case FAILED =>
      refine ⟨fun e he => by simpa [setStatus] using he, ?_⟩
      intro x hx
      simp only [Stopped, setStatus, mem_insAll] at hx ⊢
      rcases hx with h | h | (h | h) | h
      · exact Or.inl (Or.inl h)
      · exact Or.inl (Or.inr (Or.inl h))
      · exact Or.inr ⟨i, Or.inl (hb (Or.inl rfl)), h⟩
      · exact Or.inl (Or.inr (Or.inr (Or.inl h)))
      · exact Or.inl (Or.inr (Or.inr (Or.inr h)))
    case UNKNOWN =>
      refine ⟨fun e he => by simpa [setStatus] using he, ?_⟩
      intro x hx
      simp only [Stopped, setStatus, mem_insAll] at hx ⊢
      rcases hx with h | h | (h | h) | h
      · exact Or.inl (Or.inl h)
      · exact Or.inl (Or.inr (Or.inl h))
      · exact Or.inr ⟨i, Or.inl (hb (Or.inr (Or.inl rfl))), h⟩
      · exact Or.inl (Or.inr (Or.inr (Or.inl h)))
      · exact Or.inl (Or.inr (Or.inr (Or.inr h)))
    case CANCELLED =>
      refine ⟨fun e he => by simpa [setStatus] using he, ?_⟩
      intro x hx
      simp only [Stopped, setStatus, mem_insAll] at hx ⊢
      rcases hx with h | h | h | (h | h)
      · exact Or.inl (Or.inl h)
      · exact Or.inl (Or.inr (Or.inl h))
      · exact Or.inl (Or.inr (Or.inr (Or.inl h)))
      · exact Or.inr ⟨i, Or.inl (hb (Or.inr (Or.inr (Or.inl rfl)))), h⟩
      · exact Or.inl (Or.inr (Or.inr (Or.inr h)))
    case TIMEDOUT =>
      have hRi := hb (Or.inr (Or.inr (Or.inr rfl)))
      simp only
      split
      · split
        · -- restarted
          refine Fr.trans ?_ (fr_executeRecord wf R _ i true)
          apply Fr.of_same <;> simp [setStatus]
        · refine ⟨fun e he => by simpa [setStatus] using he, ?_⟩
          intro x hx
          simp only [Stopped, setStatus, mem_insAll] at hx ⊢
          rcases hx with h | h | (h | h) | h
          · exact Or.inl (Or.inl h)
          · exact Or.inl (Or.inr (Or.inl h))
          · exact Or.inr ⟨i, Or.inl hRi, h⟩
          · exact Or.inl (Or.inr (Or.inr (Or.inl h)))
          · exact Or.inl (Or.inr (Or.inr (Or.inr h)))
      · refine ⟨fun e he => by simpa [setStatus] using he, ?_⟩
        intro x hx
        simp only [Stopped, setStatus, mem_rem, mem_insAll, ins] at hx ⊢
        rcases hx with h | h | h | h
        · by_cases hi : i ∈ g1.failed
          · simp only [hi, ↓reduceIte] at h; exact Or.inl (Or.inl h)
          · simp only [hi, ↓reduceIte, List.mem_append, List.mem_singleton] at h
            rcases h with h | h
            · exact Or.inl (Or.inl h)
            · exact Or.inr ⟨i, Or.inl hRi, h ▸ self⟩
        · exact Or.inl (Or.inr (Or.inl h))
        · rcases h.1 with h' | h'
          · exact Or.inr ⟨i, Or.inl hRi, h'⟩
          · exact Or.inl (Or.inr (Or.inr (Or.inl h')))
        · exact Or.inl (Or.inr (Or.inr (Or.inr h)))
    all_goals exact Fr.refl cfg R g1

theorem fr_reports {cfg : Cfg} (wf : WFCfg cfg) (R : Nat → Prop) :
    ∀ (rs : List (Nat × Option State)) (g : G),
    (∀ i s, (i, some s) ∈ rs → (s = .FAILED ∨ s = .UNKNOWN ∨ s = .CANCELLED ∨ s = .TIMEDOUT) → R i) →
    Fr cfg R g (rs.foldl (fun g r => report cfg g r.1 r.2) g) := by
  intro rs
  induction rs with
  | nil => intro g _; exact Fr.refl cfg R g
  | cons r rs ih =>
    intro g hR
    simp only [List.foldl_cons]
    refine (fr_report wf R g r.1 r.2 ?_).trans (ih _ ?_)
    · intro s hs hb
      exact hR r.1 s (by rw [← hs]; exact List.mem_cons_self ..) hb
    · intro i s hi hb
      exact hR i s (List.mem_cons_of_mem _ hi) hb

/-! ### the sweeps, the staging loop, the launch loop -/

theorem fr_sweeps (cfg : Cfg) (R : Nat → Prop) (g : G) : Fr cfg R g (sweeps g) := by
  rw [sweeps_eq]
  have mf := markFailed_spec g.cleanup g
  have mc := markCancelled_spec g.cancelQ (markFailed g.cleanup g)
  refine ⟨fun e he => by simp only [mc.log, mf.log]; exact he, ?_⟩
  intro x hx
  left
  simp only [Stopped, List.not_mem_nil, or_false] at hx
  unfold Stopped
  rcases hx with h | h
  · rw [mc.failed] at h
    rcases (mf.failed x).mp h with h' | h'
    · exact Or.inr (Or.inr (Or.inl h'))
    · exact Or.inl h'
  · rcases (mc.cancelled x).mp h with h' | h'
    · exact Or.inr (Or.inr (Or.inr h'))
    · rw [mf.cancelled] at h'; exact Or.inr (Or.inl h')

theorem stageOne_queues' (g : G) (key : Nat) :
    (stageOne g key).cleanup = g.cleanup ∧ (stageOne g key).cancelQ = g.cancelQ := by
  unfold stageOne
  split
  · simp
  · split
    · simp only
      split
      · split <;> simp
      · simp
    · simp

theorem fr_stage (cfg : Cfg) (R : Nat → Prop) (g : G) : Fr cfg R g (stage cfg g) := by
  have hq : (stage cfg g).cleanup = g.cleanup ∧ (stage cfg g).cancelQ = g.cancelQ := by
    unfold stage
    generalize List.range (cfg.n + 1) = keys
    induction keys generalizing g with
    | nil => simp
    | cons k ks ih =>
      simp only [List.foldl_cons]
      obtain ⟨a1, a2⟩ := stageOne_queues' g k
      obtain ⟨b1, b2⟩ := ih (stageOne g k)
      exact ⟨b1.trans a1, b2.trans a2⟩
  obtain ⟨_, s2, s3, s4, _, _⟩ := stage_sets cfg g
  exact Fr.of_same (fun e he => by rw [s4]; exact he) s2 s3 hq.1 hq.2

theorem executeRecord_isCanceled' (cfg : Cfg) (g : G) (i : Nat) (rs : Bool) :
    (executeRecord cfg g i rs).isCanceled = g.isCanceled := by
  unfold executeRecord
  simp only
  have hp : (execPrep cfg g i rs).isCanceled = g.isCanceled := by
    simp only [execPrep, emit]; split <;> rfl
  split
  · simp [dryMark, setStatus, hp]
  · have sf := submitLoop_frame cfg i rs cfg.attempts (execPrep cfg g i rs)
    unfold execFinish
    split
    · split
      · simp [sf.isCanceled, hp]
      · simp [setStatus, sf.isCanceled, hp]
    · rw [failSubtree_eq, (markFailed_spec _ _).isCanceled]
      simp [sf.isCanceled, hp]

theorem fr_launch {cfg : Cfg} (wf : WFCfg cfg) (R : Nat → Prop) : ∀ (k : Nat) (g : G),
    g.isCanceled = false → Fr cfg R g (launch cfg k g) := by
  intro k
  induction k with
  | zero => intro g _; exact Fr.refl cfg R g
  | succ k ih =>
    intro g hc
    unfold launch
    split
    · exact Fr.refl cfg R g
    · rename_i i rest hr
      simp only
      split
      · rename_i h; simp [hc] at h
      · have pop : Fr cfg R g { g with ready := rest } := by apply Fr.of_same <;> simp
        refine pop.trans ((fr_executeRecord wf R _ i false).trans (ih _ ?_))
        rw [executeRecord_isCanceled']; exact hc

/-- **one poll stops nothing but the sub-trees of the steps that ended badly in it** -/
theorem fr_poll {cfg : Cfg} (wf : WFCfg cfg) (g : G) (p : PollIn) (hc : g.isCanceled = false) :
    Fr cfg (BadRep p) g (poll cfg g p).1 := by
  have hR : ∀ i s, (i, some s) ∈ p.reports →
      (s = State.FAILED ∨ s = State.UNKNOWN ∨ s = State.CANCELLED ∨ s = State.TIMEDOUT) → BadRep p i :=
    fun i s hi hb => ⟨s, hi, hb⟩
  unfold poll
  simp only
  have em : Fr cfg (BadRep p) g (if cfg.dry then g else emit g (.check g.inProgress)) := by
    split
    · exact Fr.refl _ _ g
    · apply Fr.of_same
      · intro e he; simp only [emit, List.mem_append, List.mem_singleton]; exact Or.inl he
      all_goals rfl
  have emc : (if cfg.dry then g else emit g (.check g.inProgress)).isCanceled = false := by
    split
    · exact hc
    · exact hc
  generalize (if cfg.dry then g else emit g (.check g.inProgress)) = g1 at em emc
  split
  · exact em
  · rename_i code hcode
    refine em.trans ?_
    have mid : ∀ g2 : G, g2.isCanceled = false → Fr cfg (BadRep p) g1 g2 →
        Fr cfg (BadRep p) g1 (launch cfg (available cfg (stage cfg g2)) (stage cfg g2)) := by
      intro g2 h2 f2
      refine f2.trans ((fr_stage cfg _ g2).trans (fr_launch wf _ _ _ ?_))
      rw [stage_isCanceled]; exact h2
    split
    · split
      · exact mid g1 emc (Fr.refl _ _ g1)
      · refine mid _ ?_ ((fr_reports wf _ p.reports g1 hR).trans (fr_sweeps cfg _ _))
        rw [(sweeps_log _).2, reports_isCanceled, emc]
    · exact mid g1 emc (Fr.refl _ _ g1)

end MaestroVerif.Exec
