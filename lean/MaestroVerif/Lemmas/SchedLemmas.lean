import MaestroVerif.Model.Sched

/-! Exactness of the row fold of the scheduler-output parsers. -/
namespace MaestroVerif.Sched
open MaestroVerif.Gen

theorem has_set (st : Status) (id id' : Str) (v : State) : (st.set id v).has id' = st.has id' := by
  unfold Status.has Status.set
  induction st with
  | nil => rfl
  | cons e es ih =>
    simp only [List.map_cons, List.any_cons, ih]
    by_cases h : (e.1 == id) = true <;> simp [h]

theorem get_set (st : Status) (id id' : Str) (v : State) :
    (st.set id v).get id' = if id' = id ∧ st.has id = true then some v else st.get id' := by
  unfold Status.get Status.set Status.has
  induction st with
  | nil => simp
  | cons e es ih =>
    simp only [List.map_cons, List.find?_cons, List.any_cons]
    by_cases h1 : e.1 = id
    · by_cases h2 : id' = id
      · subst h2; simp [h1]
      · have h3 : ¬ (e.1 = id') := fun h => h2 (h.symm.trans h1)
        simp only [h1, beq_self_eq_true, ↓reduceIte, Bool.true_or, and_true]
        have : (id == id') = false := by simpa using fun h => h2 h.symm
        simp only [this, h2, ↓reduceIte]
        rw [ih]; simp [h2]
    · have hb : (e.1 == id) = false := by simpa using h1
      simp only [hb, Bool.false_eq_true, ↓reduceIte, Bool.false_or]
      by_cases h3 : e.1 = id'
      · have : id' ≠ id := fun h => h1 (h3.trans h)
        simp [h3, this]
      · have hb3 : (e.1 == id') = false := by simpa using h3
        simp only [hb3, Bool.false_eq_true, ↓reduceIte]
        exact ih

/-- the value of the last successful update for `id` in a list of row actions -/
def lastUpd (id : Str) : List RowAct → Option State
  | [] => none
  | a :: as =>
    match lastUpd id as with
    | some v => some v
    | none =>
      match a with
      | .upd id' (.ok v) => if id' = id then some v else none
      | _ => none

/-- **exactness of the fold**: when the fold succeeds, the entry of every job id
is the value of the *last* row whose id field equals that id exactly (if the id
was queried), and is untouched when no row names it. -/
theorem foldActs_exact : ∀ (acts : List RowAct) (st st' : Status),
    foldActs acts st = .ok st' → ∀ id,
    st'.has id = st.has id ∧
    st'.get id = (if st.has id = true then
        (match lastUpd id acts with | some v => some v | none => st.get id)
      else st.get id) := by
  intro acts
  induction acts with
  | nil =>
    intro st st' h id
    simp only [foldActs, Except.ok.injEq] at h; subst h
    simp [lastUpd]
  | cons a as ih =>
    intro st st' h id
    simp only [foldActs] at h
    cases ha : applyAct st a with
    | error e => simp [ha] at h
    | ok st1 =>
      simp only [ha] at h
      obtain ⟨i1, i2⟩ := ih st1 st' h id
      -- relate st1 to st
      have key : st1.has id = st.has id ∧
          st1.get id = (match a with
            | .upd id' (.ok v) => if id = id' ∧ st.has id' = true then some v else st.get id
            | _ => st.get id) := by
        cases a with
        | skip => simp only [applyAct, Except.ok.injEq] at ha; subst ha; exact ⟨rfl, rfl⟩
        | fail => simp [applyAct] at ha
        | upd id' v =>
          simp only [applyAct] at ha
          split at ha
          · rename_i hh
            cases v with
            | error e => simp at ha
            | ok s =>
              simp only [Except.ok.injEq] at ha; subst ha
              exact ⟨has_set st id' id s, get_set st id' id s⟩
          · rename_i hh
            simp only [Except.ok.injEq] at ha; subst ha
            refine ⟨rfl, ?_⟩
            cases v with
            | error e => rfl
            | ok s =>
              simp only
              have : ¬ (id = id' ∧ st.has id' = true) := fun h => hh h.2
              simp [this]
      refine ⟨i1.trans key.1, ?_⟩
      rw [i2, key.1]
      by_cases hs : st.has id = true
      · simp only [hs, ↓reduceIte, lastUpd]
        cases hl : lastUpd id as with
        | some v => simp
        | none =>
          simp only
          rw [key.2]
          cases a with
          | skip => rfl
          | fail => rfl
          | upd id' v =>
            cases v with
            | error e => rfl
            | ok s =>
              simp only
              by_cases hid : id' = id
              · subst hid; simp [hs]
              · have : ¬ (id = id') := fun h => hid h.symm
                simp [hid, this]
      · simp only [hs, Bool.false_eq_true, ↓reduceIte]
        rw [key.2]
        cases a with
        | skip => rfl
        | fail => rfl
        | upd id' v =>
          cases v with
          | error e => rfl
          | ok s =>
            simp only
            have : ¬ (id = id' ∧ st.has id' = true) := by
              rintro ⟨h1, h2⟩; subst h1; exact hs h2
            simp [this]

theorem init_get (ids : List Str) (id : Str) : (Status.init ids).get id = none := by
  unfold Status.init
  suffices h : ∀ (st : Status), (∀ e, e ∈ st → e.2 = none) →
      ∀ e, e ∈ (ids.foldl (fun st id => if st.any (·.1 == id) then st else st ++ [(id, none)]) st) →
        e.2 = none by
    unfold Status.get
    cases hf : List.find? (fun x => x.1 == id)
        (ids.foldl (fun st id => if st.any (·.1 == id) then st else st ++ [(id, none)]) []) with
    | none => rfl
    | some e => exact h [] (by simp) e (List.mem_of_find?_eq_some hf)
  induction ids with
  | nil => intro st h e he; exact h e he
  | cons i is ih =>
    intro st h e he
    simp only [List.foldl_cons] at he
    apply ih _ _ e he
    intro e' he'
    split at he'
    · exact h e' he'
    · simp only [List.mem_append, List.mem_singleton] at he'
      rcases he' with h' | h'
      · exact h e' h'
      · subst h'; rfl

end MaestroVerif.Sched
