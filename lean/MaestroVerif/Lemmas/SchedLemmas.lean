import MaestroVerif.Model.Sched

/-! Exactness of the row fold of the scheduler-output parsers. -/
namespace MaestroVerif.Sched
open MaestroVerif.Gen

theorem has_set (st : Status) (id id' : Str) (v : State) : (st.set id v).has id' = st.has id' := by
  unfold Status.has Status.set
  induction st with
  | nil => rfl
  | cons e es ih =>
    simp only [List.map_cons, List.any_cons, ih]
    by_cases h : (e.1 == id) = true <;> simp [h]

theorem get_set (st : Status) (id id' : Str) (v : State) :
    (st.set id v).get id' = if id' = id ∧ st.has id = true then some v else st.get id' := by
  unfold Status.get Status.set Status.has
  induction st with
  | nil => simp
  | cons e es ih =>
    simp only [List.map_cons, List.find?_cons, List.any_cons]
    by_cases h1 : e.1 = id
    · by_cases h2 : id' = id
      · subst h2; simp [h1]
      · have h3 : ¬ (e.1 = id') := fun h => h2 (h.symm.trans h1)
        simp only [h1, beq_self_eq_true, ↓reduceIte, Bool.true_or, and_true]
        have : (id == id') = false := by simpa using fun h => h2 h.symm
        simp only [this, h2, ↓reduceIte]
        rw [ih]; simp [h2]
    · have hb : (e.1 == id) = false := by simpa using h1
      simp only [hb, Bool.false_eq_true, ↓reduceIte, Bool.false_or]
      by_cases h3 : e.1 = id'
      · have : id' ≠ id := fun h => h1 (h3.trans h)
        simp [h3, this]
      · have hb3 : (e.1 == id') = false := by simpa using h3
        simp only [hb3, Bool.false_eq_true, ↓reduceIte]
        exact ih

/-- the value of the last successful update for `id` in a list of row actions -/
def lastUpd (id : Str) : List RowAct → Option State
  | [] => none
  | a :: as =>
    match lastUpd id as with
    | some v => some v
    | none =>
      match a with
      | .upd id' (.ok v) => if id' = id then some v else none
      | _ => none

/-- **exactness of the fold**: when the fold succeeds, the entry of every job id
is the value of the *last* row whose id field equals that id exactly (if the id
was queried), and is untouched when no row names it. -/
theorem foldActs_exact : ∀ (acts : List RowAct) (st st' : Status),
    foldActs acts st = .ok st' → ∀ id,
    st'.has id = st.has id ∧
    st'.get id = (if st.has id = true then
        (match lastUpd id acts with | some v => some v | none => st.get id)
      else st.get id) := by
  intro acts
  induction acts with
  | nil =>
    intro st st' h id
    simp only [foldActs, Except.ok.injEq] at h; subst h
    simp [lastUpd]
  | cons a as ih =>
    intro st st' h id
    simp only [foldActs] at h
    cases ha : applyAct st a with
    | error e => simp [ha] at h
    | ok st1 =>
      simp only [ha] at h
      obtain ⟨i1, i2⟩ := ih st1 st' h id
      -- relate st1 to st
      have key : st1.has id = st.has id ∧
          st1.get id = (match a with
            | .upd id' (.ok v) => if id = id' ∧ st.has id' = true then some v else st.get id
            | _ => st.get id) := by
        cases a with
        | skip => simp only [applyAct, Except.ok.injEq] at ha; subst ha; exact ⟨rfl, rfl⟩
        | fail => simp [applyAct] at ha
        | upd id' v =>
          simp only [applyAct] at ha
          split at ha
          · rename_i hh
            cases v with
            | error e => simp at ha
            | ok s =>
              simp only [Except.ok.injEq] at ha; subst ha
              exact ⟨has_set st id' id s, get_set st id' id s⟩
          · rename_i hh
            simp only [Except.ok.injEq] at ha; subst ha
            refine ⟨rfl, ?_⟩
            cases v with
            | error e => rfl
            | ok s =>
              simp only
              have : ¬ (id = id' ∧ st.has id' = true) := fun h => hh h.2
              simp [this]
      refine ⟨i1.trans key.1, ?_⟩
      rw [i2, key.1]
      by_cases hs : st.has id = true
      · simp only [hs, ↓reduceIte, lastUpd]
        cases hl : lastUpd id as with
        | some v => simp
        | none =>
          simp only
          rw [key.2]
          cases a with
          | skip => rfl
          | fail => rfl
          | upd id' v =>
            cases v with
            | error e => rfl
            | ok s =>
              simp only
              by_cases hid : id' = id
              · subst hid; simp [hs]
              · have : ¬ (id = id') := fun h => hid h.symm
                simp [hid, this]
      · simp only [hs, Bool.false_eq_true, ↓reduceIte]
        rw [key.2]
        cases a with
        | skip => rfl
        | fail => rfl
        | upd id' v =>
          cases v with
          | error e => rfl
          | ok s =>
            simp only
            have : ¬ (id = id' ∧ st.has id' = true) := by
              rintro ⟨h1, h2⟩; subst h1; exact hs h2
            simp [this]

theorem init_get (ids : List Str) (id : Str) : (Status.init ids).get id = none := by
  unfold Status.init
  suffices h : ∀ (st : Status), (∀ e, e ∈ st → e.2 = none) →
      ∀ e, e ∈ (ids.foldl (fun st id => if st.any (·.1 == id) then st else st ++ [(id, none)]) st) →
        e.2 = none by
    unfold Status.get
    cases hf : List.find? (fun x => x.1 == id)
        (ids.foldl (fun st id => if st.any (·.1 == id) then st else st ++ [(id, none)]) []) with
    | none => rfl
    | some e => exact h [] (by simp) e (List.mem_of_find?_eq_some hf)
  induction ids with
  | nil => intro st h e he; exact h e he
  | cons i is ih =>
    intro st h e he
    simp only [List.foldl_cons] at he
    apply ih _ _ e he
    intro e' he'
    split at he'
    · exact h e' he'
    · simp only [List.mem_append, List.mem_singleton] at he'
      rcases he' with h' | h'
      · exact h e' h'
      · subst h'; rfl

/-! ### the accounting request (`sacct --jobs=`) -/

theorem lastUpd_none (id : Str) : ∀ (acts : List RowAct),
    (∀ a ∈ acts, ∀ v, a ≠ .upd id (.ok v)) → lastUpd id acts = none := by
  intro acts
  induction acts with
  | nil => intro _; rfl
  | cons a as ih =>
    intro h
    simp only [lastUpd]
    rw [ih (fun a' ha' => h a' (List.mem_cons_of_mem _ ha'))]
    cases a with
    | skip => rfl
    | fail => rfl
    | upd id' v =>
      cases v with
      | error e => rfl
      | ok s =>
        simp only
        split
        · rename_i heq; subst heq
          exact absurd rfl (h _ (List.mem_cons_self ..) s)
        · rfl

theorem splitOnChar_ne_nil (c : Char) : ∀ s : Str, splitOnChar c s ≠ [] := by
  intro s
  induction s with
  | nil => simp [splitOnChar]
  | cons x xs ih =>
    simp only [splitOnChar]
    split
    · simp
    · split <;> simp

theorem splitOnChar_no_sep (c : Char) : ∀ (s : Str) (r : Str), r ∈ splitOnChar c s → c ∉ r := by
  intro s
  induction s with
  | nil => intro r hr; simp [splitOnChar] at hr; subst hr; simp
  | cons x xs ih =>
    intro r hr
    simp only [splitOnChar] at hr
    split at hr
    · simp at hr; subst hr; simp
    · rename_i t ts heq
      have iht : ∀ r, r ∈ t :: ts → c ∉ r := fun r h => ih r (heq ▸ h)
      split at hr
      · simp only [List.mem_cons] at hr
        rcases hr with h | h | h
        · subst h; simp
        · subst h; exact iht _ (List.mem_cons_self ..)
        · exact iht _ (List.mem_cons_of_mem _ h)
      · rename_i hx
        simp only [List.mem_cons] at hr
        rcases hr with h | h
        · subst h
          intro hm
          simp only [List.mem_cons] at hm
          rcases hm with h' | h'
          · subst h'; simp at hx
          · exact iht _ (List.mem_cons_self ..) h'
        · exact iht _ (List.mem_cons_of_mem _ h)

theorem splitOnChar_no_sep_self (c : Char) : ∀ (r : Str), c ∉ r → splitOnChar c r = [r] := by
  intro r
  induction r with
  | nil => intro _; rfl
  | cons x xs ih =>
    intro h
    simp only [List.mem_cons, not_or] at h
    simp only [splitOnChar, ih h.2]
    have : (x == c) = false := by simpa using fun e => h.1 e.symm
    simp [this]

theorem splitOnChar_append_sep (c : Char) : ∀ (r rest : Str), c ∉ r →
    splitOnChar c (r ++ c :: rest) = r :: splitOnChar c rest := by
  intro r
  induction r with
  | nil =>
    intro rest _
    simp only [List.nil_append, splitOnChar]
    split
    · rename_i h; exact absurd h (splitOnChar_ne_nil c rest)
    · rename_i t ts h; simp [h]
  | cons x xs ih =>
    intro rest h
    simp only [List.mem_cons, not_or] at h
    simp only [List.cons_append, splitOnChar, ih rest h.2]
    have : (x == c) = false := by simpa using fun e => h.1 e.symm
    simp [this]

theorem splitOnChar_joinLines (c : Char) (hc : c = '\n') : ∀ (rows : List Str), rows ≠ [] →
    (∀ r ∈ rows, c ∉ r) → splitOnChar c (joinLines rows) = rows := by
  intro rows
  induction rows with
  | nil => intro h; exact absurd rfl h
  | cons r rs ih =>
    intro _ h
    cases rs with
    | nil => simp only [joinLines]; exact splitOnChar_no_sep_self c r (h r (List.mem_cons_self ..))
    | cons r2 rs2 =>
      simp only [joinLines]
      rw [← hc, splitOnChar_append_sep c r _ (h r (List.mem_cons_self ..))]
      rw [hc] at ih ⊢
      rw [ih (by simp) (fun x hx => hc ▸ h x (List.mem_cons_of_mem _ hx))]

/-- the accounting answers concern, among Maestro's own job ids, only the ones asked about -/
def Honest (ids : List Str) (acct : List Str → Proc) : Prop :=
  ∀ req row, row ∈ (splitOnChar '\n' (acct req).out).drop 2 → rowId row ∈ ids → rowId row ∈ req

theorem sacctAct_id (row : Str) (id : Str) (v : Except Unit State) (h : sacctAct row = .upd id v) :
    rowId row = id := by
  unfold sacctAct at h
  unfold rowId
  split at h
  · cases h
  · rename_i i rest heq
    simp only [RowAct.upd.injEq] at h
    simp [heq, h.1]

/-- the scripted accounting command of the correspondence keeps the contract -/
theorem acctReply_honest (ids : List Str) (full : Proc) : Honest ids (acctReply ids full) := by
  intro req row hrow hin
  simp only [acctReply] at hrow
  have hne : splitOnChar '\n' full.out ≠ [] := splitOnChar_ne_nil _ _
  have hns : ∀ r ∈ splitOnChar '\n' full.out, '\n' ∉ r := splitOnChar_no_sep _ _
  generalize splitOnChar '\n' full.out = rows at hrow hne hns
  rw [splitOnChar_joinLines '\n' rfl] at hrow
  · -- the row is a header row that slipped through only if fewer than two rows exist
    have : row ∈ (rows.drop 2).filter
        (fun r => !(ids.contains (rowId r) && !req.contains (rowId r))) := by
      rcases Nat.lt_or_ge rows.length 2 with hl | hl
      · have h2 : rows.drop 2 = [] := List.drop_eq_nil_of_le (by omega)
        rw [h2] at hrow
        simp only [List.filter_nil, List.append_nil] at hrow
        have : (rows.take 2).drop 2 = [] := List.drop_eq_nil_of_le (by simp; omega)
        rw [this] at hrow; cases hrow
      · have hlen : (rows.take 2).length = 2 := by simp; omega
        rw [List.drop_append_of_le_length (by omega)] at hrow
        rw [List.drop_eq_nil_of_le (by omega)] at hrow
        simpa using hrow
    simp only [List.mem_filter, Bool.not_eq_eq_eq_not, Bool.not_true, Bool.and_eq_false_imp,
      List.contains_eq_mem, decide_eq_true_eq] at this
    have := this.2 hin
    simpa using this
  · cases rows with
    | nil => exact absurd rfl hne
    | cons r rs => simp
  · intro r hr
    simp only [List.mem_append, List.mem_filter] at hr
    rcases hr with h | h
    · exact hns r (List.mem_of_mem_take h)
    · exact hns r (List.mem_of_mem_drop h.1)

theorem missing_get (st : Status) (id : Str) (h : id ∈ st.missing) : st.get id = none := by
  unfold Status.missing at h
  simp only [List.mem_filter] at h
  cases hg : st.get id with
  | none => rfl
  | some v => simp [hg] at h

theorem get_of_not_has (st : Status) (id : Str) (h : ¬ st.has id = true) : st.get id = none := by
  unfold Status.get
  unfold Status.has at h
  cases hf : st.find? (·.1 == id) with
  | none => rfl
  | some e =>
    exfalso; apply h
    have h1 := List.mem_of_find?_eq_some hf
    have h2 := List.find?_some hf
    exact List.any_eq_true.mpr ⟨e, h1, h2⟩

theorem init_has (ids : List Str) (id : Str) (h : (Status.init ids).has id = true) : id ∈ ids := by
  unfold Status.init Status.has at h
  suffices hs : ∀ (st : Status),
      (ids.foldl (fun st id => if st.any (·.1 == id) then st else st ++ [(id, none)]) st).any (·.1 == id) = true →
      st.any (·.1 == id) = true ∨ id ∈ ids by
    rcases hs [] h with h' | h'
    · simp at h'
    · exact h'
  clear h
  induction ids with
  | nil => intro st h; exact Or.inl h
  | cons i is ih =>
    intro st h
    simp only [List.foldl_cons] at h
    rcases ih _ h with h' | h'
    · split at h'
      · exact Or.inl h'
      · simp only [List.any_append, List.any_cons, List.any_nil, Bool.or_false, Bool.or_eq_true,
          beq_iff_eq] at h'
        rcases h' with h'' | h''
        · exact Or.inl h''
        · exact Or.inr (h'' ▸ List.mem_cons_self ..)
    · exact Or.inr (List.mem_cons_of_mem _ h')

end MaestroVerif.Sched
