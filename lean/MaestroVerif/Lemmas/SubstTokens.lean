import MaestroVerif.Lemmas.SubstLemmas

/-! Tokenised texts: on a text made of `$`-free literals and `$(NAME)` tokens, a
sequence of replacement passes for distinct names with `$`-free values is one
simultaneous substitution. -/
namespace MaestroVerif.Subst

inductive Seg
  | lit (s : Str)
  | tk (name : Str)
  deriving DecidableEq, Repr

def Seg.render : Seg → Str
  | .lit s => s
  | .tk n => tok n

def render (segs : List Seg) : Str := (segs.map Seg.render).flatten

/-- literals carry no `$`; names carry no `$` and no `)` -/
def Seg.clean : Seg → Prop
  | .lit s => '$' ∉ s
  | .tk n => '$' ∉ n ∧ ')' ∉ n

def Clean (segs : List Seg) : Prop := ∀ s, s ∈ segs → s.clean

/-- replace the token `n` by the literal `v` -/
def Seg.subst1 (n v : Str) : Seg → Seg
  | .lit s => .lit s
  | .tk m => if m = n then .lit v else .tk m

theorem tok_eq (n : Str) : tok n = '$' :: '(' :: (n ++ [')']) := by simp [tok]

/-- no occurrence of `old` (which starts with `$`) starts inside a `$`-free literal -/
theorem lit_hyp (old lit rest : Str) (c : Char) (cs : Str) (ho : old = c :: cs) (hc : c ∉ lit) :
    ∀ pre post, lit ++ rest ≠ pre ++ old ++ post ∨ lit.length ≤ pre.length := by
  intro pre post
  by_cases hl : lit.length ≤ pre.length
  · exact Or.inr hl
  · left
    intro heq
    apply hc
    have hlt : pre.length < lit.length := by omega
    -- the character at position pre.length
    have h1 : (lit ++ rest)[pre.length]? = some c := by
      rw [heq, ho]
      simp [List.getElem?_append_right]
    rw [List.getElem?_append_left hlt] at h1
    exact List.mem_of_getElem? h1

/-- a token for another name is copied: `$(n)` is not a prefix of `$(m)…` -/
theorem tok_not_prefix {n m : Str} (hn : ')' ∉ n) (hm : ')' ∉ m) (hne : m ≠ n) (rest : Str) :
    (tok n).isPrefixOf (tok m ++ rest) = false := by
  cases h : (tok n).isPrefixOf (tok m ++ rest) with
  | false => rfl
  | true =>
    exfalso
    obtain ⟨t, ht⟩ := isPrefixOf_iff.mp h
    rw [tok_eq, tok_eq] at ht
    simp only [List.cons_append, List.cons.injEq, true_and, List.append_assoc] at ht
    -- m ++ ")" ++ rest = n ++ ")" ++ t with no ")" in m or n
    have key : ∀ (a b x y : Str), ')' ∉ a → ')' ∉ b → a ++ (')' :: x) = b ++ (')' :: y) → a = b := by
      intro a
      induction a with
      | nil =>
        intro b x y _ hb he
        cases b with
        | nil => rfl
        | cons c cs =>
          simp only [List.nil_append, List.cons_append, List.cons.injEq] at he
          exact absurd (he.1 ▸ (by simp : c ∈ c :: cs)) hb
      | cons a as ih =>
        intro b x y ha hb he
        cases b with
        | nil =>
          simp only [List.nil_append, List.cons_append, List.cons.injEq] at he
          exact absurd (he.1 ▸ (by simp : a ∈ a :: as)) ha
        | cons c cs =>
          simp only [List.cons_append, List.cons.injEq] at he
          rw [he.1, ih cs x y (fun h => ha (by simp [h])) (fun h => hb (by simp [h])) he.2]
    exact hne (key m n _ _ hm hn (by simpa using ht))

theorem replaceGo_skip_char (old new : Str) (c : Char) (cs : Str)
    (h : old.isPrefixOf (c :: cs) = false) :
    replaceGo old new 0 (c :: cs) = c :: replaceGo old new 0 cs := by
  simp [replaceGo, h]

/-- **one pass over a tokenised text replaces exactly the tokens of that name** -/
theorem replaceGo_render (n v : Str) (hn : '$' ∉ n ∧ ')' ∉ n) : ∀ (segs : List Seg), Clean segs →
    replaceGo (tok n) v 0 (render segs) = render (segs.map (Seg.subst1 n v)) := by
  intro segs
  induction segs with
  | nil => intro _; rfl
  | cons s rest ih =>
    intro hc
    have hrest : Clean rest := fun x hx => hc x (List.mem_cons_of_mem _ hx)
    have hs := hc s (by simp)
    have ihr := ih hrest
    cases s with
    | lit l =>
      simp only [render, List.map_cons, List.flatten_cons, Seg.render, Seg.subst1] at ihr ⊢
      rw [replaceGo_lit (tok n) v l _ (lit_hyp (tok n) l _ '$' ('(' :: (n ++ [')'])) (tok_eq n) hs)]
      rw [ihr]
    | tk m =>
      simp only [render, List.map_cons, List.flatten_cons, Seg.render, Seg.subst1] at ihr ⊢
      by_cases hmn : m = n
      · subst hmn
        simp only [↓reduceIte, Seg.render]
        rw [replaceGo_at (tok m) v _ (by simp [tok]), ihr]
      · simp only [hmn, ↓reduceIte, Seg.render]
        -- copy `$(m)` literally: first character by the prefix test, the rest has no `$`
        have hm : '$' ∉ m ∧ ')' ∉ m := hs
        have hnp := tok_not_prefix hn.2 hm.2 hmn ((rest.map Seg.render).flatten)
        have hlit : '$' ∉ ('(' :: (m ++ [')'])) := by
          simp only [List.mem_cons, List.mem_append, List.not_mem_nil, or_false, not_or]
          exact ⟨by decide, hm.1, by decide⟩
        have hcopy := replaceGo_lit (tok n) v ('(' :: (m ++ [')'])) ((rest.map Seg.render).flatten)
          (lit_hyp (tok n) _ _ '$' ('(' :: (n ++ [')'])) (tok_eq n) hlit)
        have hshape : tok m ++ (rest.map Seg.render).flatten =
            '$' :: (('(' :: (m ++ [')'])) ++ (rest.map Seg.render).flatten) := by
          rw [tok_eq]; simp
        rw [hshape] at hnp ⊢
        rw [replaceGo_skip_char _ _ _ _ hnp, hcopy, ihr, tok_eq]
        simp

theorem replaceAll_render (n v : Str) (hn : '$' ∉ n ∧ ')' ∉ n) (segs : List Seg) (hc : Clean segs) :
    replaceAll (render segs) (tok n) v = render (segs.map (Seg.subst1 n v)) := by
  have he : (tok n).isEmpty = false := by simp [tok]
  simp only [replaceAll, he, Bool.false_eq_true, ↓reduceIte]
  exact replaceGo_render n v hn segs hc

theorem clean_subst1 (n v : Str) (hv : '$' ∉ v) (segs : List Seg) (hc : Clean segs) :
    Clean (segs.map (Seg.subst1 n v)) := by
  intro s hs
  obtain ⟨x, hx, rfl⟩ := List.mem_map.mp hs
  have := hc x hx
  cases x with
  | lit l => exact this
  | tk m =>
    simp only [Seg.subst1]
    split
    · exact hv
    · exact this

/-- a substitution table: names with their values -/
abbrev Table := List (Str × Str)

/-- the passes, in table order -/
def passes (t : Table) (s : Str) : Str := t.foldl (fun s kv => replaceAll s (tok kv.1) kv.2) s

/-- simultaneous substitution: each token is looked up once -/
def Seg.substAll (t : Table) : Seg → Seg
  | .lit s => .lit s
  | .tk m => match t.find? (·.1 = m) with
    | some kv => .lit kv.2
    | none => .tk m

def TableOk (t : Table) : Prop := ∀ kv, kv ∈ t → ('$' ∉ kv.1 ∧ ')' ∉ kv.1) ∧ '$' ∉ kv.2

theorem substAll_cons (k v : Str) (t : Table) (s : Seg) :
    Seg.substAll ((k, v) :: t) s = Seg.substAll t (Seg.subst1 k v s) := by
  cases s with
  | lit l => rfl
  | tk m =>
    by_cases h : m = k
    · subst h; simp [Seg.substAll, Seg.subst1]
    · have : ¬ k = m := fun e => h e.symm
      simp [Seg.substAll, Seg.subst1, h, this]

/-- **The sequence of passes is one simultaneous substitution** on a tokenised
text: every token whose name is in the table becomes that name's value (the
first entry for the name), every other token and every literal is unchanged. -/
theorem passes_simultaneous : ∀ (t : Table) (segs : List Seg), TableOk t → Clean segs →
    passes t (render segs) = render (segs.map (Seg.substAll t)) := by
  intro t
  induction t with
  | nil =>
    intro segs _ _
    simp only [passes, List.foldl_nil]
    have : ∀ s : Seg, Seg.substAll [] s = s := by
      intro s; cases s <;> simp [Seg.substAll]
    rw [List.map_congr_left (fun s _ => this s), List.map_id']
  | cons kv rest ih =>
    intro segs ht hc
    obtain ⟨k, v⟩ := kv
    have hk := ht (k, v) (by simp)
    simp only [passes, List.foldl_cons]
    rw [replaceAll_render k v hk.1 segs hc]
    have := ih (segs.map (Seg.subst1 k v)) (fun x hx => ht x (List.mem_cons_of_mem _ hx))
      (clean_subst1 k v hk.2 segs hc)
    simp only [passes] at this
    rw [this]
    congr 1
    simp only [List.map_map]
    apply List.map_congr_left
    intro s _
    simp [substAll_cons]

end MaestroVerif.Subst
