import MaestroVerif.Model.Conductor
import MaestroVerif.Lemmas.ExecClosed

/-! The loop of `Conductor.monitor_study`: what one iteration does with a cancel request, what is
on disk after it, and what the loop returns. -/
namespace MaestroVerif.Conductor
open MaestroVerif.Exec MaestroVerif.Gen

theorem poll_ret_verdict (cfg : Cfg) (g : G) (p : PollIn) (v : StudyStatus)
    (h : (Exec.poll cfg g p).2 = .status v) : v = verdict cfg (Exec.poll cfg g p).1 := by
  unfold Exec.poll at h ⊢
  simp only at h ⊢
  split at h
  · cases h
  · simp only [Ret.status.injEq] at h
    exact h.symm

/-- **a cancel request is acted on before anything is launched**: when the lock file is there and
its file lock can be had, the iteration calls `cancel_study`, removes the file, and only then
polls - with the cancel flag set, so that (C07) the poll launches nothing -/
theorem cancel_observed (cfg : Cfg) (s : CS) (it : Iter) (hl : it.lock = true) (ha : it.acquire = true) :
    (iter cfg s it).1.g.isCanceled = true ∧
    ∃ tail, (iter cfg s it).1.trace =
      s.trace ++ [.lockCheck true, .lockAcquire true, .cancelStudy, .lockRemove, .poll] ++ tail := by
  constructor
  · simp only [iter, hl, ha, Bool.and_self, ↓reduceIte]
    rw [poll_isCanceled]
    simp [cancel, emit]
  · simp only [iter, hl, ha, Bool.and_self, ↓reduceIte, iterTrace, beforePoll]
    exact ⟨afterPoll (Exec.poll cfg (cancel s.g) it.answer).2, by simp [List.append_assoc]⟩

/-- a lock time-out loses nothing: the file is not removed (the request is seen again in the next
iteration) and this iteration polls the graph as it is -/
theorem request_kept_on_timeout (cfg : Cfg) (s : CS) (it : Iter) (hl : it.lock = true)
    (ha : it.acquire = false) :
    CEv.lockRemove ∉ iterTrace it.lock it.acquire (iter cfg s it).2 ∧
    CEv.cancelStudy ∉ iterTrace it.lock it.acquire (iter cfg s it).2 ∧
    (iter cfg s it).1.g = (Exec.poll cfg s.g it.answer).1 := by
  refine ⟨?_, ?_, ?_⟩
  · simp only [iterTrace, beforePoll, hl, ha, ↓reduceIte]
    cases (iter cfg s it).2 with
    | raised => simp [afterPoll]
    | status v => by_cases hv : v == StudyStatus.RUNNING <;> simp [afterPoll, hv]
  · simp only [iterTrace, beforePoll, hl, ha, ↓reduceIte]
    cases (iter cfg s it).2 with
    | raised => simp [afterPoll]
    | status v => by_cases hv : v == StudyStatus.RUNNING <;> simp [afterPoll, hv]
  · simp [iter, hl, ha]

/-- without a lock file nothing about cancellation happens -/
theorem no_request_no_cancel (cfg : Cfg) (s : CS) (it : Iter) (hl : it.lock = false) :
    (iter cfg s it).1.g = (Exec.poll cfg s.g it.answer).1 := by
  simp [iter, hl]

/-- **what is on disk after a poll is the state after that poll**: whenever
`execute_ready_steps` returns a status, the graph is pickled and the status table written, in
that order, from the state the poll left (C18 snapshot = live state, C12 rows = live state), and
the loop sleeps exactly when that status is RUNNING -/
theorem snapshot_after_every_poll (cfg : Cfg) (s : CS) (it : Iter) (v : StudyStatus)
    (h : (iter cfg s it).2 = .status v) :
    (iter cfg s it).1.saved = some (iter cfg s it).1.g ∧
    ∃ pre, (iter cfg s it).1.trace = s.trace ++ pre ++ [.poll, .pickle, .writeStatus] ++
      (if v == .RUNNING then [.sleep] else []) := by
  have h' : (Exec.poll cfg (if it.lock && it.acquire then cancel s.g else s.g) it.answer).2 = .status v := h
  constructor
  · simp only [iter, h']
  · simp only [iter, iterTrace, h', afterPoll]
    exact ⟨beforePoll it.lock it.acquire, by simp [List.append_assoc]⟩

/-- **a failed status query leaves the files alone** (C20): when `execute_ready_steps` raises,
nothing is pickled or written in that iteration and the loop is left -/
theorem error_leaves_disk (cfg : Cfg) (s : CS) (it : Iter) (h : (iter cfg s it).2 = .raised) :
    (iter cfg s it).1.saved = s.saved ∧
    CEv.pickle ∉ iterTrace it.lock it.acquire (iter cfg s it).2 ∧
    CEv.writeStatus ∉ iterTrace it.lock it.acquire (iter cfg s it).2 := by
  have h' : (Exec.poll cfg (if it.lock && it.acquire then cancel s.g else s.g) it.answer).2 = .raised := h
  refine ⟨by simp only [iter, h'], ?_, ?_⟩
  · rw [h]; simp only [iterTrace, beforePoll, afterPoll]
    cases it.lock <;> cases it.acquire <;> simp
  · rw [h]; simp only [iterTrace, beforePoll, afterPoll]
    cases it.lock <;> cases it.acquire <;> simp

/-- **the loop returns the first verdict other than RUNNING, and it is the verdict of the state it
stops in** (C05); a raised error ends it as well -/
theorem monitor_returns (cfg : Cfg) : ∀ (its : List Iter) (s s' : CS) (ret : Ret),
    monitor cfg s its = (s', some ret) →
    (ret = .raised ∨ ∃ v, ret = .status v ∧ v ≠ .RUNNING ∧ v = verdict cfg s'.g) := by
  intro its
  induction its with
  | nil => intro s s' ret h; simp [monitor] at h
  | cons it rest ih =>
    intro s s' ret h
    simp only [monitor] at h
    cases hr : (iter cfg s it).2 with
    | raised =>
      simp only [hr, Prod.mk.injEq, Option.some.injEq] at h
      exact Or.inl h.2.symm
    | status v =>
      by_cases hv : v = .RUNNING
      · subst hv
        simp only [hr] at h
        exact ih _ _ _ h
      · have h2 : (s', some ret) = ((iter cfg s it).1, some (.status v)) := by
          rw [← h]; simp only [hr]
          cases v <;> simp_all
        simp only [Prod.mk.injEq, Option.some.injEq] at h2
        obtain ⟨rfl, rfl⟩ := h2
        refine Or.inr ⟨v, rfl, hv, ?_⟩
        have h' : (Exec.poll cfg (if it.lock && it.acquire then cancel s.g else s.g) it.answer).2 = .status v := hr
        have := poll_ret_verdict cfg _ _ v h'
        simpa [iter] using this

/-- every state the loop visits is a reachable state of the execution graph, so every theorem
about reachable states (C01-C07, C17, C19, C20) holds at every moment of a conductor run -/
theorem iter_reachable {cfg : Cfg} (s : CS) (it : Iter) (hr : Reachable cfg s.g)
    (hwf : WFPoll (if it.lock && it.acquire then cancel s.g else s.g) it.answer) :
    Reachable cfg (iter cfg s it).1.g := by
  simp only [iter]
  by_cases hc : (it.lock && it.acquire) = true
  · simp only [hc, ↓reduceIte] at hwf ⊢
    exact Reachable.poll _ (Reachable.cancel hr) hwf
  · simp only [hc, Bool.false_eq_true, ↓reduceIte] at hwf ⊢
    exact Reachable.poll _ hr hwf

end MaestroVerif.Conductor
