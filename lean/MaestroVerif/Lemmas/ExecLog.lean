import MaestroVerif.Lemmas.ExecMore

/-! What a poll appends to the event log: nothing but the status query once a
cancel was requested; only script generation in a dry run. -/
namespace MaestroVerif.Exec
open MaestroVerif.Gen

theorem markFailed_log (xs : List Nat) (g : G) :
    (markFailed xs g).log = g.log ∧ (markFailed xs g).isCanceled = g.isCanceled :=
  ⟨(markFailed_spec xs g).log, (markFailed_spec xs g).isCanceled⟩

theorem sweeps_log (g : G) : (sweeps g).log = g.log ∧ (sweeps g).isCanceled = g.isCanceled := by
  rw [sweeps_eq]
  have mf := markFailed_spec g.cleanup g
  have mc := markCancelled_spec g.cancelQ (markFailed g.cleanup g)
  simp only [mc.log, mf.log, mc.isCanceled, mf.isCanceled, and_self]

theorem report_log_canceled (cfg : Cfg) (g : G) (i : Nat) (st : Option State)
    (hc : g.isCanceled = true) :
    (report cfg g i st).log = g.log ∧ (report cfg g i st).isCanceled = true := by
  cases st with
  | none => simp [report, terminal, hc]
  | some s => cases s <;> simp [report, terminal, setStatus, hc]

theorem reports_log_canceled (cfg : Cfg) : ∀ (rs : List (Nat × Option State)) (g : G),
    g.isCanceled = true →
    (rs.foldl (fun g r => report cfg g r.1 r.2) g).log = g.log ∧
    (rs.foldl (fun g r => report cfg g r.1 r.2) g).isCanceled = true := by
  intro rs
  induction rs with
  | nil => intro g h; exact ⟨rfl, h⟩
  | cons r rs ih =>
    intro g h
    simp only [List.foldl_cons]
    obtain ⟨a1, a2⟩ := report_log_canceled cfg g r.1 r.2 h
    obtain ⟨b1, b2⟩ := ih _ a2
    exact ⟨b1.trans a1, b2⟩

theorem stageOne_isCanceled (g : G) (key : Nat) : (stageOne g key).isCanceled = g.isCanceled := by
  unfold stageOne
  split
  · rfl
  · split
    · simp only
      split
      · split <;> rfl
      · rfl
    · rfl

theorem stage_isCanceled (cfg : Cfg) (g : G) : (stage cfg g).isCanceled = g.isCanceled := by
  unfold stage
  generalize List.range (cfg.n + 1) = keys
  induction keys generalizing g with
  | nil => rfl
  | cons k ks ih => simp only [List.foldl_cons]; rw [ih, stageOne_isCanceled]

theorem launch_log_canceled (cfg : Cfg) : ∀ (k : Nat) (g : G), g.isCanceled = true →
    (launch cfg k g).log = g.log := by
  intro k
  induction k with
  | zero => intro g _; rfl
  | succ k ih =>
    intro g h
    unfold launch
    split
    · rfl
    · simp only [h, ↓reduceIte]
      rw [ih]
      · simp [setStatus]
      · simp [setStatus, h]

/-- **after a cancel request a poll performs the status query and nothing else**:
no script is generated, nothing is submitted or run. -/
theorem poll_log_canceled (cfg : Cfg) (g : G) (p : PollIn) (hc : g.isCanceled = true) :
    (poll cfg g p).1.log = g.log ++ (if cfg.dry then [] else [Ev.check g.inProgress]) := by
  unfold poll
  simp only
  by_cases hd : cfg.dry = true
  · simp only [hd, ↓reduceIte, List.append_nil]
    rw [launch_log_canceled cfg _ _ (by rw [stage_isCanceled]; exact hc), (stage_sets cfg g).2.2.2.1]
  · have hd' : cfg.dry = false := by simpa using hd
    simp only [hd', Bool.false_eq_true, ↓reduceIte]
    have hce : (emit g (Ev.check g.inProgress)).isCanceled = true := by simpa [emit] using hc
    cases hcode : p.code with
    | ERROR => simp [emit]
    | NOJOBS =>
      simp only
      rw [launch_log_canceled cfg _ _ (by rw [stage_isCanceled]; exact hce), (stage_sets cfg _).2.2.2.1]
      simp [emit]
    | OK =>
      simp only
      obtain ⟨r1, r2⟩ := reports_log_canceled cfg p.reports _ hce
      obtain ⟨w1, w2⟩ := sweeps_log (p.reports.foldl (fun g r => report cfg g r.1 r.2)
        (emit g (Ev.check g.inProgress)))
      rw [launch_log_canceled cfg _ _ (by rw [stage_isCanceled, w2]; exact r2),
        (stage_sets cfg _).2.2.2.1, w1, r1]
      simp [emit]

/-! ### dry run -/

def IsGen : Ev → Prop
  | .gen _ => True
  | _ => False

theorem launch_log_dry (cfg : Cfg) (hd : cfg.dry = true) : ∀ (k : Nat) (g : G),
    ∃ evs, (launch cfg k g).log = g.log ++ evs ∧ ∀ e, e ∈ evs → IsGen e := by
  intro k
  induction k with
  | zero => intro g; exact ⟨[], by simp [launch], by simp⟩
  | succ k ih =>
    intro g
    unfold launch
    split
    · exact ⟨[], by simp, by simp⟩
    · rename_i i rest _
      simp only
      split
      · obtain ⟨evs, h1, h2⟩ := ih (setStatus { g with ready := rest, cancelled := ins i g.cancelled } i .CANCELLED)
        exact ⟨evs, by rw [h1]; simp [setStatus], h2⟩
      · obtain ⟨evs, h1, h2⟩ := ih (executeRecord cfg { g with ready := rest } i false)
        refine ⟨Ev.gen i :: evs, ?_, ?_⟩
        · rw [h1]
          simp [executeRecord, hd, dryMark, setStatus, execPrep, emit]
        · intro e he
          rcases List.mem_cons.mp he with h | h
          · subst h; trivial
          · exact h2 e h

/-- **in a dry run a poll only generates scripts**: no status query, no
submission, no local execution, no cancellation. -/
theorem poll_log_dry (cfg : Cfg) (hd : cfg.dry = true) (g : G) (p : PollIn) :
    ∃ evs, (poll cfg g p).1.log = g.log ++ evs ∧ ∀ e, e ∈ evs → IsGen e := by
  unfold poll
  simp only [hd, ↓reduceIte]
  obtain ⟨evs, h1, h2⟩ := launch_log_dry cfg hd (available cfg (stage cfg g)) (stage cfg g)
  exact ⟨evs, by rw [h1, (stage_sets cfg g).2.2.2.1], h2⟩

/-! ### faults of the status query -/

theorem poll_error (cfg : Cfg) (g : G) (p : PollIn) (hd : cfg.dry = false) (hc : p.code = .ERROR) :
    poll cfg g p = (emit g (Ev.check g.inProgress), .raised) := by
  simp [poll, hd, hc]

theorem report_none (cfg : Cfg) (g : G) (i : Nat) : report cfg g i none = g := by
  simp [report, terminal]

theorem reports_filter_none (cfg : Cfg) : ∀ (rs : List (Nat × Option State)) (g : G),
    (rs.filter (fun r => r.2.isSome)).foldl (fun g r => report cfg g r.1 r.2) g =
    rs.foldl (fun g r => report cfg g r.1 r.2) g := by
  intro rs
  induction rs with
  | nil => intro g; rfl
  | cons r rs ih =>
    intro g
    obtain ⟨i, st⟩ := r
    cases st with
    | none => simp only [List.filter_cons, Option.isSome_none, Bool.false_eq_true, ↓reduceIte,
        List.foldl_cons, report_none]; exact ih g
    | some s => simp only [List.filter_cons, Option.isSome_some, ↓reduceIte, List.foldl_cons]; exact ih _

theorem poll_ignores_none (cfg : Cfg) (g : G) (p : PollIn) :
    poll cfg g { p with reports := p.reports.filter (fun r => r.2.isSome) } = poll cfg g p := by
  unfold poll
  simp only [reports_filter_none]

/-- states that are not terminal and not RUNNING leave the step untouched -/
def passive : State → Bool
  | .PENDING | .WAITING | .FINISHING | .QUEUED | .INCOMPLETE | .NOTFOUND | .INITIALIZED
  | .DRYRUN => true
  | _ => false

theorem report_passive (cfg : Cfg) (g : G) (i : Nat) (s : State) (h : passive s = true) :
    report cfg g i (some s) = g := by
  cases s <;> simp [passive] at h <;> simp [report, terminal]

end MaestroVerif.Exec
