import MaestroVerif.Lemmas.SubstLemmas

/-! `sorted(set)` is canonical: the result depends only on the members. -/
namespace MaestroVerif.Subst

theorem strLt_irrefl : ∀ a : Str, strLt a a = false := by
  intro a
  induction a with
  | nil => rfl
  | cons c cs ih => simp [strLt, ih]

theorem strLt_trans : ∀ a b c : Str, strLt a b = true → strLt b c = true → strLt a c = true := by
  intro a
  induction a with
  | nil =>
    intro b c h1 h2
    cases b with
    | nil => simp [strLt] at h1
    | cons y ys =>
      cases c with
      | nil => simp [strLt] at h2
      | cons z zs => simp [strLt]
  | cons x xs ih =>
    intro b c h1 h2
    cases b with
    | nil => simp [strLt] at h1
    | cons y ys =>
      cases c with
      | nil => simp [strLt] at h2
      | cons z zs =>
        simp only [strLt] at h1 h2 ⊢
        by_cases hxy : x.toNat < y.toNat
        · by_cases hyz : y.toNat < z.toNat
          · have : x.toNat < z.toNat := by omega
            simp [this]
          · simp only [hyz, ↓reduceIte] at h2
            by_cases hzy : z.toNat < y.toNat
            · simp [hzy] at h2
            · have : x.toNat < z.toNat := by omega
              simp [this]
        · simp only [hxy, ↓reduceIte] at h1
          by_cases hyx : y.toNat < x.toNat
          · simp [hyx] at h1
          · simp only [hyx, ↓reduceIte] at h1
            have hxy' : x.toNat = y.toNat := by omega
            by_cases hyz : y.toNat < z.toNat
            · have : x.toNat < z.toNat := by omega
              simp [this]
            · simp only [hyz, ↓reduceIte] at h2
              by_cases hzy : z.toNat < y.toNat
              · simp [hzy] at h2
              · simp only [hzy, ↓reduceIte] at h2
                have h1' : ¬ x.toNat < z.toNat := by omega
                have h2' : ¬ z.toNat < x.toNat := by omega
                simp only [h1', h2', ↓reduceIte]
                exact ih ys zs h1 h2

theorem strLt_total : ∀ a b : Str, strLt a b = true ∨ a = b ∨ strLt b a = true := by
  intro a
  induction a with
  | nil =>
    intro b
    cases b with
    | nil => exact Or.inr (Or.inl rfl)
    | cons y ys => exact Or.inl (by simp [strLt])
  | cons x xs ih =>
    intro b
    cases b with
    | nil => exact Or.inr (Or.inr (by simp [strLt]))
    | cons y ys =>
      simp only [strLt]
      by_cases hxy : x.toNat < y.toNat
      · exact Or.inl (by simp [hxy])
      · by_cases hyx : y.toNat < x.toNat
        · exact Or.inr (Or.inr (by simp [hyx]))
        · have hxy' : x.toNat = y.toNat := by omega
          have hc : x = y := Char.toNat_inj.mp hxy'
          subst hc
          simp only [hxy, ↓reduceIte, List.cons.injEq, true_and]
          exact ih ys

/-- strictly increasing w.r.t. `strLt` -/
def SSorted : List Str → Prop
  | [] => True
  | [_] => True
  | a :: b :: rest => strLt a b = true ∧ SSorted (b :: rest)

theorem ssorted_tail {a : Str} {l : List Str} (h : SSorted (a :: l)) : SSorted l := by
  cases l with
  | nil => trivial
  | cons b rest => exact h.2

theorem ssorted_head_lt {a : Str} : ∀ {l : List Str}, SSorted (a :: l) → ∀ x, x ∈ l → strLt a x = true := by
  intro l
  induction l generalizing a with
  | nil => intro _ x hx; simp at hx
  | cons b rest ih =>
    intro h x hx
    rcases List.mem_cons.mp hx with e | e
    · subst e; exact h.1
    · exact strLt_trans a b x h.1 (ih h.2 x e)

theorem ssorted_insert {x : Str} : ∀ {l : List Str}, SSorted l → x ∉ l → SSorted (insertSorted x l) := by
  intro l
  induction l with
  | nil => intro _ _; trivial
  | cons y ys ih =>
    intro hs hx
    have hxy : x ≠ y := fun e => hx (by simp [e])
    have hxys : x ∉ ys := fun e => hx (by simp [e])
    simp only [insertSorted]
    split
    · rename_i hlt
      have hrec := ih (ssorted_tail hs) hxys
      -- y :: insertSorted x ys
      cases hins : insertSorted x ys with
      | nil => trivial
      | cons z zs =>
        rw [hins] at hrec
        refine ⟨?_, hrec⟩
        have hz : z ∈ insertSorted x ys := by rw [hins]; simp
        rcases mem_insertSorted.mp hz with e | e
        · subst e; exact hlt
        · exact ssorted_head_lt hs z e
    · rename_i hlt
      have : strLt x y = true := by
        rcases strLt_total x y with h | h | h
        · exact h
        · exact absurd h hxy
        · exact absurd h hlt
      exact ⟨this, hs⟩

theorem ssorted_sortDedup (l : List Str) : SSorted (sortDedup l) := by
  unfold sortDedup
  suffices h : ∀ acc, SSorted acc → SSorted (l.foldl (fun acc x => if acc.contains x then acc else insertSorted x acc) acc) from
    h [] trivial
  induction l with
  | nil => intro acc h; exact h
  | cons x xs ih =>
    intro acc h
    simp only [List.foldl_cons]
    split
    · exact ih acc h
    · rename_i hc
      exact ih _ (ssorted_insert h (by simpa using hc))

/-- two strictly sorted lists with the same members are equal -/
theorem ssorted_unique : ∀ (a b : List Str), SSorted a → SSorted b → (∀ x, x ∈ a ↔ x ∈ b) → a = b := by
  intro a
  induction a with
  | nil =>
    intro b _ _ h
    cases b with
    | nil => rfl
    | cons y ys => have := (h y).mpr (by simp); simp at this
  | cons x xs ih =>
    intro b ha hb h
    cases b with
    | nil => have := (h x).mp (by simp); simp at this
    | cons y ys =>
      have hxy : x = y := by
        have hx := (h x).mp (by simp)
        have hy := (h y).mpr (by simp)
        rcases List.mem_cons.mp hx with e | e
        · exact e
        · rcases List.mem_cons.mp hy with e' | e'
          · exact e'.symm
          · have h1 := ssorted_head_lt hb x e
            have h2 := ssorted_head_lt ha y e'
            have := strLt_trans x y x h2 h1
            rw [strLt_irrefl] at this; cases this
      subst hxy
      congr 1
      apply ih ys (ssorted_tail ha) (ssorted_tail hb)
      intro z
      have hnx : x ∉ xs := fun e => by
        have := ssorted_head_lt ha x e; rw [strLt_irrefl] at this; cases this
      have hny : x ∉ ys := fun e => by
        have := ssorted_head_lt hb x e; rw [strLt_irrefl] at this; cases this
      constructor
      · intro hz
        have := (h z).mp (by simp [hz])
        rcases List.mem_cons.mp this with e | e
        · subst e; exact absurd hz hnx
        · exact e
      · intro hz
        have := (h z).mpr (by simp [hz])
        rcases List.mem_cons.mp this with e | e
        · subst e; exact absurd hz hny
        · exact e

/-- **`sorted(set)` does not depend on the order in which the set is iterated** -/
theorem sortDedup_canonical (a b : List Str) (h : ∀ x, x ∈ a ↔ x ∈ b) : sortDedup a = sortDedup b :=
  ssorted_unique _ _ (ssorted_sortDedup a) (ssorted_sortDedup b)
    (fun x => by rw [mem_sortDedup, mem_sortDedup]; exact h x)

end MaestroVerif.Subst
