import MaestroVerif.Lemmas.ExecBasic

/-! The structural invariant of the execution-graph model and its preservation
by every operation. -/
namespace MaestroVerif.Exec
open MaestroVerif.Gen Relation

structure InvA (cfg : Cfg) (g : G) : Prop where
  src   : 0 ∈ g.completed
  bnd   : ∀ i, (i ∈ g.completed ∨ i ∈ g.inProgress ∨ i ∈ g.failed ∨ i ∈ g.cancelled ∨
            i ∈ g.ready ∨ i ∈ g.cleanup ∨ i ∈ g.cancelQ) → i ≤ cfg.n
  ancC  : ∀ i p, i ∈ g.completed → p ∈ cfg.parents i → p ∈ g.completed
  ancR  : ∀ i p, (i ∈ g.ready ∨ i ∈ g.inProgress) → p ∈ cfg.parents i → p ∈ g.completed
  ipD   : ∀ i, i ∈ g.inProgress → i ∉ g.completed ∧ i ∉ g.failed ∧ i ∉ g.cancelled ∧ i ∉ g.ready
  cD    : ∀ i, i ∈ g.completed → i ∉ g.failed ∧ i ∉ g.cancelled ∧ i ∉ g.ready
  rD    : ∀ i, i ∈ g.ready → i ∉ g.failed ∧ i ∉ g.cancelled
  rN    : g.ready.Nodup
  badS  : ∀ i, (i ∈ g.failed ∨ i ∈ g.cancelled) → g.status i ≠ .INITIALIZED
  runS  : ∀ i, i ∈ g.inProgress → g.status i ≠ .INITIALIZED
  cmpS  : ∀ i, i ∈ g.completed → i ≠ 0 → g.status i = .FINISHED ∨ g.status i = .DRYRUN
  depsI : ∀ i p, p ∈ cfg.parents i → p ∈ g.deps i ∨ p ∈ g.completed
  pend  : ∀ i, (i ∈ g.cleanup ∨ i ∈ g.cancelQ) →
            i ∉ g.completed ∧ i ∉ g.ready ∧ i ∉ g.inProgress

structure WFCfg' (cfg : Cfg) : Prop extends WFCfg cfg where
  src0 : cfg.parents 0 = []

theorem inv_init (cfg : Cfg) (wf : WFCfg' cfg) : InvA cfg (init cfg) := by
  have h0 := wf.src0
  constructor <;> simp [init] <;> grind

theorem anc_completed {cfg : Cfg} (wf : WFCfg cfg) {g : G}
    (hC : ∀ i p, i ∈ g.completed → p ∈ cfg.parents i → p ∈ g.completed)
    {a x : Nat} (h : Dag.Reach cfg.dag a x) (hx : x ∈ g.completed) : a ∈ g.completed := by
  induction h using ReflTransGen.head_induction_on with
  | refl => exact hx
  | head e _ ih => exact hC _ _ ih ((wf.par _ _).mp e)

theorem sweepable {cfg : Cfg} (wf : WFCfg cfg) {g : G} (h : InvA cfg g) {b x : Nat}
    (hb : b ∉ g.completed) (hx : x ∈ subtree cfg b) (hxb : x ≠ b) :
    x ∉ g.completed ∧ x ∉ g.ready ∧ x ∉ g.inProgress := by
  have hr := (mem_subtree wf).mp hx
  rcases ReflTransGen.cases_tail hr with heq | ⟨y, hy, e⟩
  · exact absurd heq hxb
  · have hp : y ∈ cfg.parents x := (wf.par _ _).mp e
    have key : y ∉ g.completed := fun hyc => hb (anc_completed wf h.ancC hy hyc)
    refine ⟨fun hc => key (h.ancC x y hc hp), fun hc => key (h.ancR x y (Or.inl hc) hp),
      fun hc => key (h.ancR x y (Or.inr hc) hp)⟩

theorem subtree_le {cfg : Cfg} (wf : WFCfg cfg) {b x : Nat} (hb : b ≤ cfg.n)
    (hx : x ∈ subtree cfg b) : x ≤ cfg.n := by
  have hr := (mem_subtree wf).mp hx
  exact (wf.nodes x).mp (Dag.reach_in_nodes wf.dagwf hr ((wf.nodes b).mpr hb))

/-! #### marking loops -/

/-- what a list of steps must satisfy to be swept -/
def Sweepable (g : G) (xs : List Nat) : Prop :=
  ∀ x, x ∈ xs → x ∉ g.completed ∧ x ∉ g.ready ∧ x ∉ g.inProgress

theorem inv_markFailed {cfg : Cfg} {g : G} (h : InvA cfg g) {xs : List Nat}
    (hs : Sweepable g xs) (hb : ∀ x, x ∈ xs → x ≤ cfg.n) : InvA cfg (markFailed xs g) := by
  have m := markFailed_spec xs g
  obtain ⟨h1, h2, h3, h4, h5, h6, h7, h8, h9, h10, h11, h12, h13⟩ := h
  unfold Sweepable at hs
  constructor
  all_goals simp only [m.failed, m.status, m.completed, m.inProgress, m.cancelled, m.ready,
    m.cleanup, m.cancelQ, m.deps]
  all_goals grind

theorem inv_markCancelled {cfg : Cfg} {g : G} (h : InvA cfg g) {xs : List Nat}
    (hs : Sweepable g xs) (hb : ∀ x, x ∈ xs → x ≤ cfg.n) : InvA cfg (markCancelled xs g) := by
  have m := markCancelled_spec xs g
  obtain ⟨h1, h2, h3, h4, h5, h6, h7, h8, h9, h10, h11, h12, h13⟩ := h
  unfold Sweepable at hs
  constructor
  all_goals simp only [m.failed, m.status, m.completed, m.inProgress, m.cancelled, m.ready,
    m.cleanup, m.cancelQ, m.deps]
  all_goals grind

theorem inv_sweeps {cfg : Cfg} {g : G} (h : InvA cfg g) : InvA cfg (sweeps g) := by
  rw [sweeps_eq]
  have hf : InvA cfg (markFailed g.cleanup g) :=
    inv_markFailed h (fun x hx => h.pend x (Or.inl hx)) (fun x hx => h.bnd x (by simp [hx]))
  have mf := markFailed_spec g.cleanup g
  have hc : InvA cfg (markCancelled g.cancelQ (markFailed g.cleanup g)) := by
    apply inv_markCancelled hf
    · intro x hx
      have := h.pend x (Or.inr hx)
      simp only [mf.completed, mf.ready, mf.inProgress]; exact this
    · intro x hx; exact h.bnd x (by simp [hx])
  obtain ⟨h1, h2, h3, h4, h5, h6, h7, h8, h9, h10, h11, h12, h13⟩ := hc
  constructor <;> simp only [] <;> grind

/-! #### `_execute_record` -/

theorem inv_of_frame {cfg : Cfg} {g g' : G} {i : Nat} {restart : Bool} (h : InvA cfg g)
    (fr : SubmitFrame cfg i restart g g') (hc : i ∉ g.completed) : InvA cfg g' := by
  obtain ⟨h1, h2, h3, h4, h5, h6, h7, h8, h9, h10, h11, h12, h13⟩ := h
  obtain ⟨f1, f2, f3, f4, f5, f6, f7, f8, f9, f10, f11, f12, f13, f14, f15, f16⟩ := fr
  constructor
  all_goals simp only [f4, f5, f6, f7, f8, f9, f11, f12]
  all_goals grind

theorem attempt_status (cfg : Cfg) (i : Nat) (g : G) :
    (attempt cfg i false g).1.status i = .PENDING ∨ (attempt cfg i false g).1.status i = .RUNNING := by
  simp only [attempt, emit, setStatus, Bool.false_eq_true, ↓reduceIte]
  repeat' split
  all_goals simp [upd]

theorem submitLoop_ok_status (cfg : Cfg) (i : Nat) :
    ∀ k g, (submitLoop cfg i false k g).2 = true →
      (submitLoop cfg i false k g).1.status i = .PENDING ∨
      (submitLoop cfg i false k g).1.status i = .RUNNING := by
  intro k
  induction k with
  | zero => intro g h; simp [submitLoop] at h
  | succ k ih =>
    intro g h
    simp only [submitLoop] at h ⊢
    split
    · exact attempt_status cfg i g
    · rename_i hok
      simp only [hok] at h
      exact ih _ h

theorem inv_execPrep {cfg : Cfg} {g : G} (h : InvA cfg g) (i : Nat) (restart : Bool) :
    InvA cfg (execPrep cfg g i restart) := by
  obtain ⟨h1, h2, h3, h4, h5, h6, h7, h8, h9, h10, h11, h12, h13⟩ := h
  unfold execPrep
  split <;> constructor <;> simp only [emit] <;> grind

theorem execPrep_fields (cfg : Cfg) (g : G) (i : Nat) (restart : Bool) :
    (execPrep cfg g i restart).completed = g.completed ∧
    (execPrep cfg g i restart).inProgress = g.inProgress ∧
    (execPrep cfg g i restart).failed = g.failed ∧
    (execPrep cfg g i restart).cancelled = g.cancelled ∧
    (execPrep cfg g i restart).ready = g.ready ∧
    (execPrep cfg g i restart).cleanup = g.cleanup ∧
    (execPrep cfg g i restart).cancelQ = g.cancelQ ∧
    (execPrep cfg g i restart).status = g.status ∧
    (execPrep cfg g i restart).isCanceled = g.isCanceled ∧
    (execPrep cfg g i restart).restarts = g.restarts := by
  unfold execPrep; split <;> simp [emit]

/-- the facts about a step that allow launching (or restarting) it -/
structure Launchable (cfg : Cfg) (g : G) (i : Nat) : Prop where
  le   : i ≤ cfg.n
  nc   : i ∉ g.completed
  nf   : i ∉ g.failed
  ncn  : i ∉ g.cancelled
  nr   : i ∉ g.ready
  par  : ∀ p, p ∈ cfg.parents i → p ∈ g.completed
  nq   : i ∉ g.cleanup ∧ i ∉ g.cancelQ

theorem inv_dryMark {cfg : Cfg} {g : G} (h : InvA cfg g) {i : Nat} (l : Launchable cfg g i)
    (hip : i ∉ g.inProgress) : InvA cfg (dryMark g i) := by
  obtain ⟨h1, h2, h3, h4, h5, h6, h7, h8, h9, h10, h11, h12, h13⟩ := h
  obtain ⟨l1, l2, l3, l4, l5, l6, l7⟩ := l
  constructor <;> simp only [dryMark, setStatus, mem_ins] <;> grind

theorem inv_execFinish {cfg : Cfg} (wf : WFCfg cfg) {g : G} (h : InvA cfg g) {i : Nat}
    (l : Launchable cfg g i) (ok : Bool) (hs : ok = true → g.status i ≠ .INITIALIZED) :
    InvA cfg (execFinish cfg g i ok) := by
  have hi0 : i ≠ 0 := fun h0 => l.nc (h0 ▸ h.src)
  unfold execFinish
  split
  · rename_i hok
    have hs' := hs hok
    obtain ⟨h1, h2, h3, h4, h5, h6, h7, h8, h9, h10, h11, h12, h13⟩ := h
    obtain ⟨l1, l2, l3, l4, l5, l6, l7⟩ := l
    split
    · constructor <;> simp only [mem_ins] <;> grind
    · constructor <;> simp only [setStatus, mem_ins, mem_rem] <;> grind
  · rw [failSubtree_eq]
    apply inv_markFailed
    · obtain ⟨h1, h2, h3, h4, h5, h6, h7, h8, h9, h10, h11, h12, h13⟩ := h
      constructor <;> simp only [mem_rem] <;> grind
    · intro x hx
      by_cases hxi : x = i
      · subst hxi; simp only [mem_rem]; exact ⟨l.nc, l.nr, by simp⟩
      · have := sweepable wf h l.nc hx hxi
        simp only [mem_rem]; grind
    · intro x hx; exact subtree_le wf l.le hx

theorem inv_executeRecord {cfg : Cfg} (wf : WFCfg cfg) {g : G} (h : InvA cfg g) {i : Nat}
    {restart : Bool} (l : Launchable cfg g i)
    (hst : restart = true → i ∈ g.inProgress) (hst' : restart = false → i ∉ g.inProgress)
    (hdry : cfg.dry = true → restart = false) :
    InvA cfg (executeRecord cfg g i restart) := by
  have h1 := inv_execPrep h i restart
  obtain ⟨ec, ei, ef, ecn, er, ecl, ecq, es, _, _⟩ := execPrep_fields cfg g i restart
  have l1 : Launchable cfg (execPrep cfg g i restart) i := by
    obtain ⟨l1, l2, l3, l4, l5, l6, l7⟩ := l
    constructor <;> (try simp only [ec, ef, ecn, er, ecl, ecq]) <;> assumption
  unfold executeRecord
  simp only
  split
  · rename_i hd
    exact inv_dryMark h1 l1 (by rw [ei]; exact hst' (hdry hd))
  · have fr := submitLoop_frame cfg i restart cfg.attempts (execPrep cfg g i restart)
    have hok : restart = false →
        (submitLoop cfg i restart cfg.attempts (execPrep cfg g i restart)).2 = true →
        (submitLoop cfg i restart cfg.attempts (execPrep cfg g i restart)).1.status i = .PENDING ∨
        (submitLoop cfg i restart cfg.attempts (execPrep cfg g i restart)).1.status i = .RUNNING := by
      intro hr; subst hr; exact submitLoop_ok_status cfg i cfg.attempts _
    generalize submitLoop cfg i restart cfg.attempts (execPrep cfg g i restart) = r at fr hok
    have h2 : InvA cfg r.1 := inv_of_frame h1 fr l1.nc
    have l2 : Launchable cfg r.1 i := by
      obtain ⟨l1, l2, l3, l4, l5, l6, l7⟩ := l1
      constructor <;> (try simp only [fr.completed, fr.failed, fr.cancelled, fr.ready, fr.cleanup, fr.cancelQ]) <;> assumption
    apply inv_execFinish wf h2 l2
    intro hr2
    cases restart with
    | true =>
      have := h.runS i (hst rfl)
      rcases fr.statusI with e | e | e
      · rw [e, es]; exact this
      · rw [e]; decide
      · rw [e]; decide
    | false =>
      rcases hok rfl hr2 with e | e <;> rw [e] <;> decide

/-! #### report branches -/

theorem launchable_of_inProgress {cfg : Cfg} {g : G} (h : InvA cfg g) {i : Nat}
    (hi : i ∈ g.inProgress) : Launchable cfg g i := by
  have := h.ipD i hi
  have hp := h.pend i
  refine ⟨h.bnd i (by simp [hi]), this.1, this.2.1, this.2.2.1, this.2.2.2,
    fun p hp => h.ancR i p (Or.inr hi) hp, ?_⟩
  constructor
  · intro hc; exact (hp (Or.inl hc)).2.2 hi
  · intro hc; exact (hp (Or.inr hc)).2.2 hi

theorem pend_subtree {cfg : Cfg} (wf : WFCfg cfg) {g : G} (h : InvA cfg g) {i : Nat}
    (hi : i ∈ g.inProgress) :
    ∀ x, x ∈ subtree cfg i → x ∉ g.completed ∧ x ∉ g.ready ∧ (x ∈ g.inProgress → x = i) ∧ x ≤ cfg.n := by
  intro x hx
  have l := launchable_of_inProgress h hi
  by_cases hxi : x = i
  · subst hxi; exact ⟨l.nc, l.nr, fun _ => rfl, l.le⟩
  · have := sweepable wf h l.nc hx hxi
    exact ⟨this.1, this.2.1, fun hc => absurd hc this.2.2, subtree_le wf l.le hx⟩

theorem inv_report {cfg : Cfg} (wf : WFCfg cfg) {g : G} (h : InvA cfg g) (hdry : cfg.dry = false)
    {i : Nat} (hi : i ∈ g.inProgress) (st : Option State) : InvA cfg (report cfg g i st) := by
  have l := launchable_of_inProgress h hi
  have ps := pend_subtree wf h hi
  have hself := self_mem_subtree wf i
  have hrun := h.runS i hi
  cases st with
  | none => simpa [report, terminal] using h
  | some s =>
    cases s
    case FINISHED =>
      obtain ⟨h1, h2, h3, h4, h5, h6, h7, h8, h9, h10, h11, h12, h13⟩ := h
      simp only [report, terminal, setStatus, ↓reduceIte]
      constructor <;> simp only [mem_ins, mem_rem] <;> grind
    case RUNNING =>
      obtain ⟨h1, h2, h3, h4, h5, h6, h7, h8, h9, h10, h11, h12, h13⟩ := h
      simp only [report, terminal, setStatus]
      constructor <;> simp only [] <;> grind
    case HWFAILURE =>
      obtain ⟨h1, h2, h3, h4, h5, h6, h7, h8, h9, h10, h11, h12, h13⟩ := h
      obtain ⟨l1, l2, l3, l4, l5, l6, l7⟩ := l
      simp only [report, terminal, ↓reduceIte]
      constructor <;> simp only [mem_rem, List.mem_append, List.mem_singleton] <;>
        first | grind | (rw [List.nodup_append]; grind)
    case FAILED =>
      obtain ⟨h1, h2, h3, h4, h5, h6, h7, h8, h9, h10, h11, h12, h13⟩ := h
      simp only [report, terminal, setStatus, ↓reduceIte]
      constructor <;> simp only [mem_rem, mem_insAll] <;> grind
    case UNKNOWN =>
      obtain ⟨h1, h2, h3, h4, h5, h6, h7, h8, h9, h10, h11, h12, h13⟩ := h
      simp only [report, terminal, setStatus, ↓reduceIte]
      constructor <;> simp only [mem_rem, mem_insAll] <;> grind
    case CANCELLED =>
      obtain ⟨h1, h2, h3, h4, h5, h6, h7, h8, h9, h10, h11, h12, h13⟩ := h
      simp only [report, terminal, setStatus, ↓reduceIte]
      constructor <;> simp only [mem_rem, mem_insAll] <;> grind
    case TIMEDOUT =>
      simp only [report, terminal, ↓reduceIte]
      split
      · split
        · refine inv_executeRecord wf (restart := true) ?_ ?_ (fun _ => ?_) (fun hc => by cases hc)
            (fun hd => by rw [hdry] at hd; cases hd)
          · obtain ⟨h1, h2, h3, h4, h5, h6, h7, h8, h9, h10, h11, h12, h13⟩ := h
            constructor <;> simp only [setStatus] <;> grind
          · obtain ⟨l1, l2, l3, l4, l5, l6, l7⟩ := l
            constructor <;> (try simp only [setStatus]) <;> assumption
          · simpa [setStatus] using hi
        · obtain ⟨h1, h2, h3, h4, h5, h6, h7, h8, h9, h10, h11, h12, h13⟩ := h
          constructor <;> simp only [setStatus, mem_rem, mem_insAll] <;> grind
      · obtain ⟨h1, h2, h3, h4, h5, h6, h7, h8, h9, h10, h11, h12, h13⟩ := h
        obtain ⟨l1, l2, l3, l4, l5, l6, l7⟩ := l
        constructor <;> simp only [setStatus, mem_rem, mem_insAll, mem_ins] <;> grind
    all_goals simpa [report, terminal] using h

/-! #### frames "for the other steps" -/

theorem execFinish_frame (cfg : Cfg) (g : G) (i : Nat) (ok : Bool) :
    (∀ a, a ≠ i → (a ∈ (execFinish cfg g i ok).inProgress ↔ a ∈ g.inProgress)) ∧
    (execFinish cfg g i ok).cleanup = g.cleanup ∧ (execFinish cfg g i ok).cancelQ = g.cancelQ ∧
    (execFinish cfg g i ok).isCanceled = g.isCanceled ∧
    (execFinish cfg g i ok).ready = g.ready ∧
    (execFinish cfg g i ok).restarts = g.restarts ∧
    (execFinish cfg g i ok).cancelled = g.cancelled := by
  unfold execFinish
  split
  · split <;> simp [setStatus] <;> grind
  · rw [failSubtree_eq]
    have m := markFailed_spec (subtree cfg i) { g with inProgress := rem i g.inProgress }
    simp only [m.inProgress, m.cleanup, m.cancelQ, m.isCanceled, m.ready, m.restarts, m.cancelled]
    simp; grind

theorem executeRecord_frame (cfg : Cfg) (g : G) (i : Nat) (restart : Bool) :
    (∀ a, a ≠ i → (a ∈ (executeRecord cfg g i restart).inProgress ↔ a ∈ g.inProgress)) ∧
    (executeRecord cfg g i restart).cleanup = g.cleanup ∧
    (executeRecord cfg g i restart).cancelQ = g.cancelQ ∧
    (executeRecord cfg g i restart).isCanceled = g.isCanceled ∧
    (executeRecord cfg g i restart).ready = g.ready ∧
    (executeRecord cfg g i restart).restarts = g.restarts ∧
    (executeRecord cfg g i restart).cancelled = g.cancelled := by
  obtain ⟨ec, ei, ef, ecn, er, ecl, ecq, es, eic, ers⟩ := execPrep_fields cfg g i restart
  unfold executeRecord
  simp only
  split
  · simp [dryMark, setStatus, ei, ecl, ecq, eic, er, ers, ecn]
  · have fr := submitLoop_frame cfg i restart cfg.attempts (execPrep cfg g i restart)
    generalize submitLoop cfg i restart cfg.attempts (execPrep cfg g i restart) = r at fr
    obtain ⟨f1, f2, f3, f4, f5, f6, f7⟩ := execFinish_frame cfg r.1 i r.2
    refine ⟨fun a ha => ?_, ?_, ?_, ?_, ?_, ?_, ?_⟩
    · rw [f1 a ha, fr.inProgress, ei]
    · rw [f2, fr.cleanup, ecl]
    · rw [f3, fr.cancelQ, ecq]
    · rw [f4, fr.isCanceled, eic]
    · rw [f5, fr.ready, er]
    · rw [f6, fr.restarts, ers]
    · rw [f7, fr.cancelled, ecn]

theorem report_inProgress_other (cfg : Cfg) (g : G) (i : Nat) (st : Option State) {a : Nat}
    (ha : a ≠ i) (hm : a ∈ g.inProgress) : a ∈ (report cfg g i st).inProgress := by
  cases st with
  | none => simpa [report, terminal] using hm
  | some s =>
    cases s
    case TIMEDOUT =>
      simp only [report, terminal, ↓reduceIte]
      split
      · split
        · rw [(executeRecord_frame cfg _ i true).1 a ha]; simpa [setStatus] using hm
        · simp [setStatus, hm, ha]
      · simp [setStatus, hm, ha]
    all_goals simp [report, terminal, setStatus, hm, ha]

theorem inv_reports {cfg : Cfg} (wf : WFCfg cfg) (hdry : cfg.dry = false) :
    ∀ (rs : List (Nat × Option State)) (g : G), InvA cfg g → (rs.map (·.1)).Nodup →
      (∀ r, r ∈ rs → r.1 ∈ g.inProgress) →
      InvA cfg (rs.foldl (fun g r => report cfg g r.1 r.2) g) := by
  intro rs
  induction rs with
  | nil => intro g h _ _; exact h
  | cons r rs ih =>
    intro g h hn hm
    simp only [List.foldl_cons]
    simp only [List.map_cons, List.nodup_cons] at hn
    apply ih _ (inv_report wf h hdry (hm r (by simp)) r.2) hn.2
    intro r' hr'
    apply report_inProgress_other
    · intro heq
      exact hn.1 (by rw [← heq]; exact List.mem_map_of_mem hr')
    · exact hm r' (by simp [hr'])

/-! #### staging -/

theorem inv_stageOne {cfg : Cfg} {g : G} (h : InvA cfg g) {key : Nat} (hk : key ≤ cfg.n)
    (hq : g.cleanup = [] ∧ g.cancelQ = []) :
    InvA cfg (stageOne g key) ∧ (stageOne g key).cleanup = [] ∧ (stageOne g key).cancelQ = [] ∧
    (stageOne g key).inProgress = g.inProgress ∧ (stageOne g key).isCanceled = g.isCanceled := by
  obtain ⟨h1, h2, h3, h4, h5, h6, h7, h8, h9, h10, h11, h12, h13⟩ := h
  obtain ⟨q1, q2⟩ := hq
  unfold stageOne
  split
  · exact ⟨⟨h1, h2, h3, h4, h5, h6, h7, h8, h9, h10, h11, h12, h13⟩, q1, q2, rfl, rfl⟩
  · rename_i hkc
    split
    · rename_i hst
      have hst' : g.status key = .INITIALIZED := by simpa using hst
      simp only
      split
      · rename_i hempty
        have hall : ∀ x, x ∈ g.deps key → x ∈ g.completed := by
          intro x hx
          have := List.isEmpty_iff.mp hempty
          have hnx : x ∉ List.filter (fun x => !g.completed.contains x) (g.deps key) := by
            rw [this]; simp
          simp only [List.mem_filter, hx, true_and] at hnx
          simpa using hnx
        split
        · refine ⟨?_, q1, q2, rfl, rfl⟩
          constructor <;> simp only [] <;> grind
        · rename_i hnr
          refine ⟨?_, q1, q2, rfl, rfl⟩
          constructor <;> simp only [List.mem_append, List.mem_singleton] <;>
            first | grind | (rw [List.nodup_append]; grind)
      · refine ⟨?_, q1, q2, rfl, rfl⟩
        constructor <;> simp only [] <;> grind
    · exact ⟨⟨h1, h2, h3, h4, h5, h6, h7, h8, h9, h10, h11, h12, h13⟩, q1, q2, rfl, rfl⟩

theorem inv_stage_aux {cfg : Cfg} : ∀ (keys : List Nat) (g : G), InvA cfg g →
    (∀ k, k ∈ keys → k ≤ cfg.n) → g.cleanup = [] ∧ g.cancelQ = [] →
    InvA cfg (keys.foldl stageOne g) ∧ (keys.foldl stageOne g).cleanup = [] ∧
    (keys.foldl stageOne g).cancelQ = [] ∧ (keys.foldl stageOne g).inProgress = g.inProgress ∧
    (keys.foldl stageOne g).isCanceled = g.isCanceled := by
  intro keys
  induction keys with
  | nil => intro g h _ hq; exact ⟨h, hq.1, hq.2, rfl, rfl⟩
  | cons k ks ih =>
    intro g h hk hq
    simp only [List.foldl_cons]
    obtain ⟨a1, a2, a3, a4, a5⟩ := inv_stageOne h (hk k (by simp)) hq
    obtain ⟨b1, b2, b3, b4, b5⟩ := ih _ a1 (fun k' hk' => hk k' (by simp [hk'])) ⟨a2, a3⟩
    exact ⟨b1, b2, b3, b4.trans a4, b5.trans a5⟩

theorem inv_stage {cfg : Cfg} {g : G} (h : InvA cfg g) (hq : g.cleanup = [] ∧ g.cancelQ = []) :
    InvA cfg (stage cfg g) ∧ (stage cfg g).cleanup = [] ∧ (stage cfg g).cancelQ = [] ∧
    (stage cfg g).inProgress = g.inProgress ∧ (stage cfg g).isCanceled = g.isCanceled := by
  unfold stage
  apply inv_stage_aux _ g h _ hq
  intro k hk
  simp only [List.mem_range] at hk
  omega

/-! #### launching -/

theorem inv_launch {cfg : Cfg} (wf : WFCfg cfg) : ∀ (k : Nat) (g : G), InvA cfg g →
    g.cleanup = [] ∧ g.cancelQ = [] →
    InvA cfg (launch cfg k g) ∧ (launch cfg k g).cleanup = [] ∧ (launch cfg k g).cancelQ = [] := by
  intro k
  induction k with
  | zero => intro g h hq; exact ⟨h, hq.1, hq.2⟩
  | succ k ih =>
    intro g h hq
    unfold launch
    split
    · exact ⟨h, hq.1, hq.2⟩
    · rename_i i rest hready
      have hir : i ∈ g.ready := by rw [hready]; simp
      have hnd : (i :: rest).Nodup := by rw [← hready]; exact h.rN
      simp only [List.nodup_cons] at hnd
      have hsub : ∀ x, x ∈ rest → x ∈ g.ready := by intro x hx; rw [hready]; simp [hx]
      have h1 : InvA cfg { g with ready := rest } := by
        obtain ⟨h1, h2, h3, h4, h5, h6, h7, h8, h9, h10, h11, h12, h13⟩ := h
        constructor <;> simp only [] <;> grind
      have l : Launchable cfg { g with ready := rest } i := by
        obtain ⟨h1, h2, h3, h4, h5, h6, h7, h8, h9, h10, h11, h12, h13⟩ := h
        constructor <;> (try simp only []) <;> grind
      have hnip : i ∉ g.inProgress := fun hc => (h.ipD i hc).2.2.2 hir
      simp only
      split
      · apply ih
        · obtain ⟨h1, h2, h3, h4, h5, h6, h7, h8, h9, h10, h11, h12, h13⟩ := h1
          obtain ⟨l1, l2, l3, l4, l5, l6, l7⟩ := l
          constructor <;> simp only [setStatus, mem_ins] <;> grind
        · simpa [setStatus] using hq
      · have hx := inv_executeRecord wf h1 l (restart := false) (fun hc => by cases hc)
          (fun _ => hnip) (fun _ => rfl)
        obtain ⟨_, f2, f3, _⟩ := executeRecord_frame cfg { g with ready := rest } i false
        apply ih _ hx
        rw [f2, f3]; exact hq

/-! #### the whole poll, and cancel -/

/-- what the scheduler's answer must satisfy: it is a dict keyed by queried jobs -/
structure WFPoll (g : G) (p : PollIn) : Prop where
  nodup : (p.reports.map (·.1)).Nodup
  mem   : ∀ r, r ∈ p.reports → r.1 ∈ g.inProgress

/-- the state between polls -/
structure Inv (cfg : Cfg) (g : G) : Prop extends InvA cfg g where
  noClean : g.cleanup = []
  noCancQ : g.cancelQ = []
  dryIdle : cfg.dry = true → g.inProgress = []

theorem inv_emit {cfg : Cfg} {g : G} (h : InvA cfg g) (e : Ev) : InvA cfg (emit g e) := by
  obtain ⟨h1, h2, h3, h4, h5, h6, h7, h8, h9, h10, h11, h12, h13⟩ := h
  constructor <;> simp only [emit] <;> assumption

theorem dry_launch_idle {cfg : Cfg} (hd : cfg.dry = true) : ∀ (k : Nat) (g : G),
    g.inProgress = [] → (launch cfg k g).inProgress = [] := by
  intro k
  induction k with
  | zero => intro g h; exact h
  | succ k ih =>
    intro g h
    unfold launch
    split
    · exact h
    · simp only
      split
      · apply ih; simpa [setStatus] using h
      · apply ih
        rename_i i rest _ _
        obtain ⟨ec, ei, _⟩ := execPrep_fields cfg { g with ready := rest } i false
        simp only [executeRecord, hd, ↓reduceIte, dryMark, setStatus]
        rw [ei]; exact h

theorem inv_poll {cfg : Cfg} (wf : WFCfg cfg) {g : G} (h : Inv cfg g) {p : PollIn}
    (hp : WFPoll g p) : Inv cfg (poll cfg g p).1 := by
  unfold poll
  simp only
  by_cases hd : cfg.dry = true
  · -- dry run: no query, no reports
    simp only [hd, ↓reduceIte]
    obtain ⟨s1, s2, s3, s4, s5⟩ := inv_stage h.toInvA ⟨h.noClean, h.noCancQ⟩
    obtain ⟨l1, l2, l3⟩ := inv_launch wf (available cfg (stage cfg g)) (stage cfg g) s1 ⟨s2, s3⟩
    refine ⟨l1, l2, l3, fun _ => ?_⟩
    apply dry_launch_idle hd
    rw [s4]; exact h.dryIdle hd
  · have hd' : cfg.dry = false := by simpa using hd
    simp only [hd', Bool.false_eq_true, ↓reduceIte]
    have he := inv_emit h.toInvA (Ev.check g.inProgress)
    cases hc : p.code with
    | ERROR =>
      simp only
      exact ⟨he, by simpa [emit] using h.noClean, by simpa [emit] using h.noCancQ,
        fun hdd => absurd hdd hd⟩
    | NOJOBS =>
      simp only
      obtain ⟨s1, s2, s3, s4, s5⟩ := inv_stage he
        ⟨by simpa [emit] using h.noClean, by simpa [emit] using h.noCancQ⟩
      obtain ⟨l1, l2, l3⟩ := inv_launch wf _ _ s1 ⟨s2, s3⟩
      exact ⟨l1, l2, l3, fun hdd => absurd hdd hd⟩
    | OK =>
      simp only
      have hr := inv_reports wf hd' p.reports (emit g (Ev.check g.inProgress)) he hp.nodup
        (by intro r hr; simpa [emit] using hp.mem r hr)
      have hs := inv_sweeps hr
      have hsq : (sweeps (p.reports.foldl (fun g r => report cfg g r.1 r.2)
          (emit g (Ev.check g.inProgress)))).cleanup = [] ∧
          (sweeps (p.reports.foldl (fun g r => report cfg g r.1 r.2)
          (emit g (Ev.check g.inProgress)))).cancelQ = [] := by
        simp [sweeps]
      obtain ⟨s1, s2, s3, s4, s5⟩ := inv_stage hs hsq
      obtain ⟨l1, l2, l3⟩ := inv_launch wf _ _ s1 ⟨s2, s3⟩
      exact ⟨l1, l2, l3, fun hdd => absurd hdd hd⟩

theorem inv_cancel {cfg : Cfg} {g : G} (h : Inv cfg g) : Inv cfg (cancel g) := by
  obtain ⟨⟨h1, h2, h3, h4, h5, h6, h7, h8, h9, h10, h11, h12, h13⟩, q1, q2, q3⟩ := h
  refine ⟨?_, by simpa [cancel, emit] using q1, by simpa [cancel, emit] using q2,
    by simpa [cancel, emit] using q3⟩
  constructor <;> simp only [cancel, emit] <;> assumption

theorem Inv_init (cfg : Cfg) (wf : WFCfg' cfg) : Inv cfg (init cfg) :=
  ⟨inv_init cfg wf, rfl, rfl, fun _ => rfl⟩

/-- the states reachable by polls (with well-formed scheduler answers) and
cancel requests, in any order and number -/
inductive Reachable (cfg : Cfg) : G → Prop
  | init : Reachable cfg (init cfg)
  | poll {g : G} (p : PollIn) : Reachable cfg g → WFPoll g p → Reachable cfg (poll cfg g p).1
  | cancel {g : G} : Reachable cfg g → Reachable cfg (cancel g)

theorem Inv_reachable {cfg : Cfg} (wf : WFCfg' cfg) {g : G} (h : Reachable cfg g) : Inv cfg g := by
  induction h with
  | init => exact Inv_init cfg wf
  | poll p _ hp ih => exact inv_poll wf.toWFCfg ih hp
  | cancel _ ih => exact inv_cancel ih

end MaestroVerif.Exec
