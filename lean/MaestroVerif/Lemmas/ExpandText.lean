import MaestroVerif.Lemmas.SubstTokens
import MaestroVerif.Lemmas.ExpandPlace
import MaestroVerif.Lemmas.ExpandStage

/-!
# The text of an instance is the step's text after a list of replacement passes (C09)

`rowTable`: the table of `(token name, value)` passes the expansion of one row runs over the step's
`cmd` / `restart` - labels, values, names (`Combination.apply`), the referenced workspaces in the
order `re.findall` returned them, and `WORKSPACE` last.  `stageRow_text`: the instance placed for the
row carries `passes (rowTable …) st.cmd` and `passes (rowTable …) st.restart`; with
`passes_simultaneous` (C09) that is one simultaneous substitution.
-/
namespace MaestroVerif.Expand
open MaestroVerif.Subst

theorem tokLabel_eq (k : Str) : tokLabel k = tok (k ++ ".label".toList) := by
  simp [tok, tokLabel]

theorem tokName_eq (k : Str) : tokName k = tok (k ++ ".name".toList) := by
  simp [tok, tokName]

theorem tokWs_eq (m : Str) : tokWs m = tok (m ++ ".workspace".toList) := by
  simp [tok, tokWs]

theorem passes_append (t₁ t₂ : Table) (s : Str) : passes (t₁ ++ t₂) s = passes t₂ (passes t₁ s) := by
  simp [passes, List.foldl_append]

/-- `Combination.apply` as a table of passes -/
def comboTable (c : Combo) : Table :=
  c.labels.map (fun kv => (kv.1 ++ ".label".toList, kv.2)) ++ c.values ++
    c.names.map (fun kv => (kv.1 ++ ".name".toList, kv.2))

theorem foldl_map_passes (f : Str → Str) (g : Str → Str) (hg : ∀ k, g k = tok (f k)) (l : List (Str × Str)) (s : Str) :
    l.foldl (fun s kv => replaceAll s (g kv.1) kv.2) s = passes (l.map fun kv => (f kv.1, kv.2)) s := by
  induction l generalizing s with
  | nil => rfl
  | cons x xs ih =>
    simp only [List.foldl_cons, List.map_cons, passes]
    rw [hg]
    exact ih _

theorem combo_apply_passes (c : Combo) (s : Str) : c.apply s = passes (comboTable c) s := by
  unfold Combo.apply comboTable
  rw [passes_append, passes_append]
  rw [foldl_map_passes (fun k => k ++ ".label".toList) tokLabel tokLabel_eq]
  rw [foldl_map_passes (fun k => k ++ ".name".toList) tokName tokName_eq]
  rfl

/-- the workspace passes: what `substWs` does when every reference resolves -/
theorem substWs_passes (resolve : Str → Except Err Str) : ∀ (ms : List Str) (cmd r cmd' r' : Str),
    substWs resolve ms (cmd, r) = .ok (cmd', r') →
    ∃ t : Table, t.map (·.1) = ms.map (· ++ ".workspace".toList) ∧
      (∀ m v, (m ++ ".workspace".toList, v) ∈ t → resolve m = .ok v) ∧
      cmd' = passes t cmd ∧ r' = passes t r := by
  intro ms
  induction ms with
  | nil =>
    intro cmd r cmd' r' h
    simp only [substWs, Except.ok.injEq, Prod.mk.injEq] at h
    exact ⟨[], rfl, fun m v hm => (by cases hm), h.1.symm, h.2.symm⟩
  | cons m ms ih =>
    intro cmd r cmd' r' h
    simp only [substWs] at h
    split at h
    · cases h
    · rename_i ws hres
      obtain ⟨t, h1, h2, h3, h4⟩ := ih _ _ _ _ h
      refine ⟨(m ++ ".workspace".toList, ws) :: t, by simp [h1], ?_, ?_, ?_⟩
      · intro m' v hm
        rcases List.mem_cons.mp hm with e | e
        · simp only [Prod.mk.injEq, List.append_cancel_right_eq] at e
          rw [e.1, e.2]; exact hres
        · exact h2 m' v e
      · rw [h3]; simp only [passes, List.foldl_cons, tokWs_eq]
      · rw [h4]; simp only [passes, List.foldl_cons, tokWs_eq]

/-- the passes the expansion of one row runs over `cmd` and `restart`: `Combination.apply`, the
referenced workspaces (table `t`), then `$(WORKSPACE)` -/
def rowTable (c : Combo) (t : Table) (workspace : Str) : Table :=
  comboTable c ++ t ++ [("WORKSPACE".toList, workspace)]

theorem wsTok_eq : "$(WORKSPACE)".toList = tok "WORKSPACE".toList := by decide

/-- **the texts of the instance placed for a row are the step's texts after the row's passes** -/
theorem stageRow_text (spec : Spec) {ord : List Str → List Str} (ho : IsPermOracle ord)
    (st : Step) (used : List Str) (s s' : SS) (row : Nat)
    (hnew : s.combos.any (·.1 == instName st.name used (combo spec.params row)) = false)
    (h : stageRow spec ord st used s row = .ok s') :
    ∃ (t : Table) (inst : Inst),
      t.map (·.1) = (refsOf st).map (· ++ ".workspace".toList) ∧
      inst.name = instName st.name used (combo spec.params row) ∧
      inst.cmd = passes (rowTable (combo spec.params row) t inst.ws) st.cmd ∧
      inst.restart = passes (rowTable (combo spec.params row) t inst.ws) st.restart ∧
      s'.g.insts = if s.g.hasNode inst.name then s.g.insts else s.g.insts ++ [inst] := by
  unfold stageRow at h
  simp only [hnew, Bool.false_eq_true, ↓reduceIte] at h
  split at h
  · cases h
  · rename_i cmd r hsub
    obtain ⟨t, h1, _, h3, h4⟩ := substWs_passes _ _ _ _ _ _ hsub
    obtain ⟨_, _, p3, _⟩ := place_exact ho _ _ _ _ _ _ h
    refine ⟨t, _, h1, rfl, ?_, ?_, p3⟩
    · simp only [rowTable, passes_append, wsTok_eq, h3, combo_apply_passes]
      simp [passes]
    · simp only [rowTable, passes_append, wsTok_eq, h4, combo_apply_passes]
      simp [passes]


/-- **the texts of the single instance of a step that uses no parameter**: the step's texts after
one pass per referenced workspace and the `$(WORKSPACE)` pass (no `Combination.apply`: a parameter
token in such a step is, by `usedOf`, not a token of any parameter of the study) -/
theorem stageFlat_text (spec : Spec) {ord : List Str → List Str} (ho : IsPermOracle ord)
    (st : Step) (s s' : SS) (hu : usedOf spec s.used st = .ok [])
    (h : stageStep spec ord s st = .ok s') :
    ∃ (t : Table) (inst : Inst),
      t.map (·.1) = (refsOf st).map (· ++ ".workspace".toList) ∧
      inst.name = st.name ∧ inst.ws = makeSafePath spec.root [st.name] ∧
      inst.cmd = passes (t ++ [("WORKSPACE".toList, inst.ws)]) st.cmd ∧
      inst.restart = passes (t ++ [("WORKSPACE".toList, inst.ws)]) st.restart ∧
      s'.g.insts = if s.g.hasNode inst.name then s.g.insts else s.g.insts ++ [inst] := by
  unfold stageStep at h
  simp only [hu, List.isEmpty_nil, ↓reduceIte] at h
  split at h
  · cases h
  · rename_i cmd r hsub
    obtain ⟨t, h1, _, h3, h4⟩ := substWs_passes _ _ _ _ _ _ hsub
    obtain ⟨_, _, p3, _⟩ := place_exact ho _ _ _ _ _ _ h
    refine ⟨t, _, h1, rfl, rfl, ?_, ?_, p3⟩
    · simp only [passes_append, wsTok_eq, h3]
      simp [passes]
    · simp only [passes_append, wsTok_eq, h4]
      simp [passes]

end MaestroVerif.Expand
