import MaestroVerif.Lemmas.DagCycle

/-! Correctness of the models of `bfs_subtree` and `dfs_subtree`: each lists
exactly the nodes reachable from the source, each once. -/
namespace MaestroVerif.Dag
open Relation

variable (g : Dag)

/-! ### BFS -/

theorem bfsScan_spec : ∀ (cs q p : List Nat),
    let r := bfsScan cs q p
    (∀ x, x ∈ p → x ∈ r.2) ∧ (∀ x, x ∈ q → x ∈ r.1) ∧ (p.Nodup → r.2.Nodup) ∧
    (∀ c, c ∈ cs → c ∈ r.2) ∧ (∀ x, x ∈ r.2 → x ∈ p ∨ x ∈ cs) ∧
    (∀ x, x ∈ r.2 → x ∉ p → x ∈ r.1) ∧ (∀ x, x ∈ r.1 → x ∈ q ∨ x ∈ r.2) := by
  intro cs
  induction cs with
  | nil =>
    intro q p; simp [bfsScan]
    exact ⟨fun x h1 h2 => absurd h1 h2, fun x h => Or.inl h⟩
  | cons c cs ih =>
    intro q p
    simp only [bfsScan]
    split
    · rename_i hc
      obtain ⟨h1, h2, h3, h4, h5, h6, h7⟩ := ih q p
      refine ⟨h1, h2, h3, ?_, ?_, h6, h7⟩
      · intro c' hc'
        rcases List.mem_cons.mp hc' with h | h
        · subst h; exact h1 _ hc
        · exact h4 c' h
      · intro x hx
        rcases h5 x hx with h | h
        · exact Or.inl h
        · exact Or.inr (by simp [h])
    · rename_i hc
      obtain ⟨h1, h2, h3, h4, h5, h6, h7⟩ := ih (q ++ [c]) (p ++ [c])
      refine ⟨fun x hx => h1 x (by simp [hx]), fun x hx => h2 x (by simp [hx]), ?_, ?_, ?_, ?_, ?_⟩
      · intro hp
        apply h3
        rw [List.nodup_append]
        refine ⟨hp, by simp, ?_⟩
        intro a ha b hb
        simp at hb; subst hb
        intro h; subst h; exact hc ha
      · intro c' hc'
        rcases List.mem_cons.mp hc' with h | h
        · subst h; exact h1 _ (by simp)
        · exact h4 c' h
      · intro x hx
        rcases h5 x hx with h | h
        · simp only [List.mem_append, List.mem_singleton] at h
          rcases h with h | h
          · exact Or.inl h
          · subst h; exact Or.inr (by simp)
        · exact Or.inr (by simp [h])
      · intro x hx hxp
        by_cases hxc : x = c
        · subst hxc; exact h2 _ (by simp)
        · exact h6 x hx (by simp [hxp, hxc])
      · intro x hx
        rcases h7 x hx with h | h
        · simp only [List.mem_append, List.mem_singleton] at h
          rcases h with h | h
          · exact Or.inl h
          · subst h; exact Or.inr (h1 _ (by simp))
        · exact Or.inr h

structure BInv (src : Nat) (q p : List Nat) : Prop where
  nodup  : p.Nodup
  qsub   : ∀ x, x ∈ q → x ∈ p
  reach  : ∀ x, x ∈ p → Reach g src x
  closed : ∀ x, x ∈ p → x ∉ q → ∀ c, c ∈ g.adj x → c ∈ p
  hsrc   : src ∈ p

theorem bfsLoop_spec (src : Nat) : ∀ fuel q p l, BInv g src q p → bfsLoop g fuel q p = some l →
    l.Nodup ∧ (∀ x, x ∈ l → Reach g src x) ∧ src ∈ l ∧
      (∀ x, x ∈ l → ∀ c, c ∈ g.adj x → c ∈ l) := by
  intro fuel
  induction fuel with
  | zero =>
    intro q p l hi h
    cases q with
    | nil =>
      simp only [bfsLoop, Option.some.injEq] at h; subst h
      exact ⟨hi.nodup, hi.reach, hi.hsrc, fun x hx => hi.closed x hx (by simp)⟩
    | cons a q => simp [bfsLoop] at h
  | succ fuel ih =>
    intro q p l hi h
    cases q with
    | nil =>
      simp only [bfsLoop, Option.some.injEq] at h; subst h
      exact ⟨hi.nodup, hi.reach, hi.hsrc, fun x hx => hi.closed x hx (by simp)⟩
    | cons root q =>
      simp only [bfsLoop] at h
      obtain ⟨h1, h2, h3, h4, h5, h6, h7⟩ := bfsScan_spec (g.adj root) q p
      apply ih _ _ l _ h
      constructor
      · exact h3 hi.nodup
      · intro x hx
        rcases h7 x hx with h | h
        · exact h1 x (hi.qsub x (by simp [h]))
        · exact h
      · intro x hx
        rcases h5 x hx with h | h
        · exact hi.reach x h
        · exact (hi.reach root (hi.qsub root (by simp))).tail h
      · intro x hx hxq c hc
        by_cases hxr : x = root
        · subst hxr; exact h4 c hc
        · by_cases hxp : x ∈ p
          · apply h1
            apply hi.closed x hxp _ c hc
            intro hh
            rcases List.mem_cons.mp hh with h | h
            · exact hxr h
            · exact hxq (h2 x h)
          · exact absurd (h6 x hx hxp) hxq
      · exact h1 _ hi.hsrc

theorem closed_reach {l : List Nat} {a b : Nat}
    (hc : ∀ x, x ∈ l → ∀ c, c ∈ g.adj x → c ∈ l) (h : Reach g a b) (ha : a ∈ l) : b ∈ l := by
  induction h with
  | refl => exact ha
  | tail _ e ih => exact hc _ ih _ e

theorem bfs_spec (src : Nat) {l : List Nat} (h : bfs g src = some l) :
    l.Nodup ∧ ∀ x, x ∈ l ↔ Reach g src x := by
  unfold bfs at h
  have hi : BInv g src [src] [src] := by
    constructor
    · simp
    · intro x hx; exact hx
    · intro x hx; simp at hx; subst hx; exact ReflTransGen.refl
    · intro x hx hxq; exact absurd hx hxq
    · simp
  obtain ⟨h1, h2, h3, h4⟩ := bfsLoop_spec g src _ _ _ l hi h
  exact ⟨h1, fun x => ⟨h2 x, fun hr => closed_reach g h4 hr h3⟩⟩

/-- the measure that bounds the number of `while queue` iterations -/
theorem bfsScan_measure : ∀ (cs q p : List Nat), (∀ c, c ∈ cs → c ∈ g.nodes) →
    (bfsScan cs q p).1.length + unvisited g (bfsScan cs q p).2 ≤ q.length + unvisited g p := by
  intro cs
  induction cs with
  | nil => intro q p _; simp [bfsScan]
  | cons c cs ih =>
    intro q p hcs
    simp only [bfsScan]
    split
    · exact ih q p (fun c' hc' => hcs c' (by simp [hc']))
    · rename_i hc
      have := ih (q ++ [c]) (p ++ [c]) (fun c' hc' => hcs c' (by simp [hc']))
      have h2 : unvisited g (p ++ [c]) ≤ unvisited g (c :: p) :=
        unvisited_mono g (by intro x hx; simp at hx ⊢; exact hx.symm)
      have h3 := unvisited_lt g (hcs c (by simp)) hc
      simp only [List.length_append, List.length_cons, List.length_nil] at this
      omega

theorem bfsLoop_fuel (wf : WF g) : ∀ fuel q p,
    q.length + unvisited g p ≤ fuel → bfsLoop g fuel q p ≠ none := by
  intro fuel
  induction fuel with
  | zero =>
    intro q p hm
    cases q with
    | nil => simp [bfsLoop]
    | cons a q => simp at hm
  | succ fuel ih =>
    intro q p hm
    cases q with
    | nil => simp [bfsLoop]
    | cons root q =>
      simp only [bfsLoop]
      have hcs : ∀ c, c ∈ g.adj root → c ∈ g.nodes := fun c hc => wf.dst root c hc
      have hmeas := bfsScan_measure g (g.adj root) q p hcs
      apply ih
      simp only [List.length_cons] at hm
      omega

theorem bfs_fuel (wf : WF g) (src : Nat) : bfs g src ≠ none := by
  unfold bfs
  apply bfsLoop_fuel g wf
  have : unvisited g [src] ≤ g.nodes.length := by
    unfold unvisited; exact List.length_filter_le _ _
  simp only [List.length_cons, List.length_nil]
  omega

/-! ### DFS (with the visited set) -/

def DVisit (fuel : Nat) : Prop :=
  ∀ v vis vis' path, v ∉ vis → dfsVisit g fuel v vis = some (vis', path) →
    (∀ x, x ∈ vis' ↔ x ∈ vis ∨ x ∈ path) ∧ path.Nodup ∧ (∀ x, x ∈ path → x ∉ vis) ∧
    (∀ x, x ∈ path → Reach g v x) ∧ v ∈ path ∧
    (∀ x, x ∈ path → ∀ c, c ∈ g.adj x → c ∈ vis')

/-- accumulated state of the `for node in adjacency_table[src]` loop of the
frame of `v` that started with visited set `vis0` -/
structure DAcc (v : Nat) (vis0 vis path : List Nat) : Prop where
  mem    : ∀ x, x ∈ vis ↔ x ∈ vis0 ∨ x ∈ path
  nodup  : path.Nodup
  fresh  : ∀ x, x ∈ path → x ∉ vis0
  reach  : ∀ x, x ∈ path → Reach g v x
  hv     : v ∈ path
  closed : ∀ x, x ∈ path → x ≠ v → ∀ c, c ∈ g.adj x → c ∈ vis

def DChildren (fuel : Nat) : Prop :=
  ∀ v vis0 cs vis path vis' path', DAcc g v vis0 vis path → (∀ c, c ∈ cs → Edge g v c) →
    dfsChildren (dfsVisit g fuel) cs vis path = some (vis', path') →
    DAcc g v vis0 vis' path' ∧ (∀ c, c ∈ cs → c ∈ vis') ∧ (∀ x, x ∈ vis → x ∈ vis')

theorem dchildren_of_dvisit (fuel : Nat) (hv : DVisit g fuel) : DChildren g fuel := by
  intro v vis0 cs
  induction cs with
  | nil =>
    intro vis path vis' path' ha _ h
    simp only [dfsChildren, Option.some.injEq, Prod.mk.injEq] at h
    obtain ⟨h1, h2⟩ := h; subst h1; subst h2
    exact ⟨ha, by simp, fun _ h => h⟩
  | cons c cs ih =>
    intro vis path vis' path' ha he h
    have hvc : Edge g v c := he c (by simp)
    simp only [dfsChildren] at h
    split at h
    · rename_i hc
      obtain ⟨h1, h2, h3⟩ := ih vis path vis' path' ha (fun c' hc' => he c' (by simp [hc'])) h
      refine ⟨h1, ?_, h3⟩
      intro c' hc'
      rcases List.mem_cons.mp hc' with h | h
      · subst h; exact h3 _ hc
      · exact h2 c' h
    · rename_i hc
      split at h
      · simp at h
      · rename_i vis1 sub hs
        obtain ⟨m1, n1, f1, r1, c1, cl1⟩ := hv c vis vis1 sub hc hs
        have hacc : DAcc g v vis0 vis1 (path ++ sub) := by
          constructor
          · intro x
            rw [m1 x, ha.mem x]
            simp only [List.mem_append]
            grind
          · rw [List.nodup_append]
            refine ⟨ha.nodup, n1, ?_⟩
            intro a hap b hbs
            intro hab; subst hab
            exact f1 a hbs ((ha.mem a).mpr (Or.inr hap))
          · intro x hx
            simp only [List.mem_append] at hx
            rcases hx with h | h
            · exact ha.fresh x h
            · intro hx0; exact f1 x h ((ha.mem x).mpr (Or.inl hx0))
          · intro x hx
            simp only [List.mem_append] at hx
            rcases hx with h | h
            · exact ha.reach x h
            · exact ReflTransGen.head hvc (r1 x h)
          · simp [ha.hv]
          · intro x hx hxv c' hc'
            simp only [List.mem_append] at hx
            rcases hx with h | h
            · exact (m1 c').mpr (Or.inl (ha.closed x h hxv c' hc'))
            · exact cl1 x h c' hc'
        obtain ⟨h1, h2, h3⟩ := ih vis1 (path ++ sub) vis' path' hacc
          (fun c' hc' => he c' (by simp [hc'])) h
        refine ⟨h1, ?_, fun x hx => h3 x ((m1 x).mpr (Or.inl hx))⟩
        intro c' hc'
        rcases List.mem_cons.mp hc' with h | h
        · subst h; exact h3 _ ((m1 _).mpr (Or.inr c1))
        · exact h2 c' h

theorem dvisit_all : ∀ fuel, DVisit g fuel := by
  intro fuel
  induction fuel with
  | zero => intro v vis vis' path _ h; simp [dfsVisit] at h
  | succ fuel ih =>
    intro v vis vis' path hv h
    simp only [dfsVisit] at h
    have hacc : DAcc g v vis (v :: vis) [v] := by
      constructor
      · intro x; simp only [List.mem_cons, List.mem_singleton]; grind
      · simp
      · intro x hx; simp at hx; subst hx; exact hv
      · intro x hx; simp at hx; subst hx; exact ReflTransGen.refl
      · simp
      · intro x hx hxv; simp at hx; exact absurd hx hxv
    obtain ⟨h1, h2, _⟩ := dchildren_of_dvisit g fuel ih v vis (g.adj v) (v :: vis) [v] vis' path
      hacc (fun c hc => hc) h
    refine ⟨h1.mem, h1.nodup, h1.fresh, h1.reach, h1.hv, ?_⟩
    intro x hx c hc
    by_cases hxv : x = v
    · subst hxv; exact h2 c hc
    · exact h1.closed x hx hxv c hc

theorem dfs_spec (src : Nat) {l : List Nat} (h : dfs g src = some l) :
    l.Nodup ∧ ∀ x, x ∈ l ↔ Reach g src x := by
  unfold dfs at h
  cases hd : dfsVisit g (g.nodes.length + 1) src [] with
  | none => simp [hd] at h
  | some r =>
    obtain ⟨vis', path⟩ := r
    simp only [hd, Option.map_some, Option.some.injEq] at h
    subst h
    obtain ⟨h1, h2, _, h4, h5, h6⟩ := dvisit_all g _ src [] vis' path (by simp) hd
    refine ⟨h2, fun x => ⟨h4 x, fun hr => ?_⟩⟩
    apply closed_reach g _ hr h5
    intro x hx c hc
    have := (h1 c).mp (h6 x hx c hc)
    simpa using this

/-! fuel for DFS -/

def DMVisit (fuel : Nat) : Prop :=
  ∀ v vis vis' path, dfsVisit g fuel v vis = some (vis', path) → ∀ x, x ∈ vis → x ∈ vis'

def DMChildren (fuel : Nat) : Prop :=
  ∀ cs vis path vis' path', dfsChildren (dfsVisit g fuel) cs vis path = some (vis', path') →
    ∀ x, x ∈ vis → x ∈ vis'

theorem dmchildren_of_dmvisit (fuel : Nat) (hv : DMVisit g fuel) : DMChildren g fuel := by
  intro cs
  induction cs with
  | nil =>
    intro vis path vis' path' h x hx
    simp only [dfsChildren, Option.some.injEq, Prod.mk.injEq] at h
    rw [← h.1]; exact hx
  | cons c cs ih =>
    intro vis path vis' path' h x hx
    simp only [dfsChildren] at h
    split at h
    · exact ih vis path vis' path' h x hx
    · split at h
      · simp at h
      · rename_i vis1 sub hs
        exact ih vis1 _ vis' path' h x (hv c vis vis1 sub hs x hx)

theorem dmvisit_all : ∀ fuel, DMVisit g fuel := by
  intro fuel
  induction fuel with
  | zero => intro v vis vis' path h; simp [dfsVisit] at h
  | succ fuel ih =>
    intro v vis vis' path h x hx
    simp only [dfsVisit] at h
    exact dmchildren_of_dmvisit g fuel ih _ _ _ vis' path h x (by simp [hx])

def DFVisit (fuel : Nat) : Prop :=
  ∀ v vis, (v ∈ g.nodes ∨ g.adj v = []) → v ∉ vis → unvisited g vis < fuel →
    dfsVisit g fuel v vis ≠ none

def DFChildren (fuel : Nat) : Prop :=
  ∀ cs vis path, (∀ c, c ∈ cs → c ∈ g.nodes) → unvisited g vis < fuel →
    dfsChildren (dfsVisit g fuel) cs vis path ≠ none

theorem dfchildren_of_dfvisit (fuel : Nat) (hv : DFVisit g fuel) : DFChildren g fuel := by
  intro cs
  induction cs with
  | nil => intro vis path _ _; simp [dfsChildren]
  | cons c cs ih =>
    intro vis path hcs hu
    simp only [dfsChildren]
    split
    · exact ih vis path (fun c' hc' => hcs c' (by simp [hc'])) hu
    · rename_i hc
      have := hv c vis (Or.inl (hcs c (by simp))) hc hu
      split
      · rename_i heq; exact absurd heq this
      · rename_i vis1 sub hs
        apply ih vis1 _ (fun c' hc' => hcs c' (by simp [hc']))
        exact Nat.lt_of_le_of_lt (unvisited_mono g (dmvisit_all g fuel c vis vis1 sub hs)) hu

theorem dfvisit_all (wf : WF g) : ∀ fuel, DFVisit g fuel := by
  intro fuel
  induction fuel with
  | zero => intro v vis _ _ hu; omega
  | succ fuel ih =>
    intro v vis hvn hnv hu
    simp only [dfsVisit]
    rcases hvn with hvn | hvn
    · apply dfchildren_of_dfvisit g fuel ih (g.adj v) _ _ (fun c hc => wf.dst v c hc)
      have := unvisited_lt g hvn hnv
      omega
    · rw [hvn]; simp [dfsChildren]

theorem dfs_fuel (wf : WF g) (src : Nat) : dfs g src ≠ none := by
  unfold dfs
  have : dfsVisit g (g.nodes.length + 1) src [] ≠ none := by
    apply dfvisit_all g wf
    · by_cases h : src ∈ g.nodes
      · exact Or.inl h
      · right
        cases hadj : g.adj src with
        | nil => rfl
        | cons c cs => exact absurd (wf.src src c (by simp [hadj])) h
    · simp
    · have : unvisited g [] ≤ g.nodes.length := by
        unfold unvisited; exact List.length_filter_le _ _
      omega
  cases h : dfsVisit g (g.nodes.length + 1) src [] with
  | none => exact absurd h this
  | some r => simp

end MaestroVerif.Dag
