import MaestroVerif.Lemmas.LauncherLemmas

/-! The LSF and Flux headers, line by line (the Slurm header is in `Props/C15.lean`). -/
namespace MaestroVerif.Launcher
open MaestroVerif.Subst

/-- a header line that is present whenever the key is -/
def lineOf (v : Option Val) (pre : String) : List Str :=
  match v with
  | some x => [hline pre x]
  | none => []

theorem keyLinesAlways_eq (bh : Dict) (keys : List (String × String)) :
    (keys.filterMap fun kp => (bh.get? kp.1).map (hline kp.2 ·)) =
      (keys.map fun kp => lineOf (bh.get? kp.1) kp.2).flatten := by
  induction keys with
  | nil => rfl
  | cons kp rest ih =>
    simp only [List.filterMap_cons, List.map_cons, List.flatten_cons, ← ih]
    cases h : bh.get? kp.1 <;> simp [lineOf]

/-- the value the LSF header is generated from, for the keys the step may override -/
def lsfRequested (cx : Ctx) (run : Dict) (k : String) : Option Val :=
  match run.get? k with
  | some v => if v.truthy then some v else cx.batch.get? k
  | none => cx.batch.get? k

/-- `#BSUB -nnodes`: the step's `nodes` entry whenever the step has one — even an
empty one, which is the known finding `C15-lsf-header-empty` — else the batch block's -/
def lsfNodes (cx : Ctx) (run : Dict) : Val := getD run "nodes" (cx.batch.getN "nodes")

theorem lsf_resource_plain (cx : Ctx) (name : Str) (run : Dict) (wt : Str)
    (hn : (run.map (·.1)).Nodup) (k : String)
    (h0 : k.toList ≠ "walltime".toList) (h1 : k.toList ≠ "nodes".toList)
    (h2 : k.toList ≠ "job-name".toList) (h3 : k.toList ≠ "output".toList)
    (h4 : k.toList ≠ "error".toList) :
    (lsfResources cx name run wt).get? k = lsfRequested cx run k := by
  unfold lsfResources Dict.get? lsfRequested
  simp only
  rw [look_set_ne _ _ _ _ h0, look_update_truthy _ _ hn, look_set_ne _ _ _ _ h4,
    look_set_ne _ _ _ _ h3, look_set_ne _ _ _ _ h2, look_set_ne _ _ _ _ h1]
  rfl

theorem lsf_resource_walltime (cx : Ctx) (name : Str) (run : Dict) (wt : Str) :
    (lsfResources cx name run wt).get? "walltime" = some (.str wt) := by
  unfold lsfResources Dict.get?
  simp only
  rw [look_set_self]

/-- the table the fixed keys are read from -/
def lsfFixed (cx : Ctx) (name : Str) (run : Dict) : Dict :=
  (((cx.batch.set "nodes".toList (lsfNodes cx run)).set "job-name".toList
    (.str (replaceChar name ' ' '_'))).set "output".toList
    (.str (replaceChar name ' ' '_' ++ ".%J.out".toList))).set "error".toList
    (.str (replaceChar name ' ' '_' ++ ".%J.err".toList))

/-- a key the header sets itself: the step's truthy value wins, else the value set -/
theorem lsf_resource_set (cx : Ctx) (name : Str) (run : Dict) (wt : Str)
    (hn : (run.map (·.1)).Nodup) (k : String) (h0 : k.toList ≠ "walltime".toList) :
    (lsfResources cx name run wt).get? k =
      match run.get? k with
      | some v => if v.truthy then some v else Dict.look (lsfFixed cx name run) k.toList
      | none => Dict.look (lsfFixed cx name run) k.toList := by
  unfold lsfResources Dict.get?
  simp only
  rw [look_set_ne _ _ _ _ h0, look_update_truthy _ _ hn]
  rfl

theorem lsf_nodes_value (cx : Ctx) (name : Str) (run : Dict) (wt : Str)
    (hn : (run.map (·.1)).Nodup) :
    (lsfResources cx name run wt).get? "nodes" = some (lsfNodes cx run) := by
  rw [lsf_resource_set cx name run wt hn "nodes" (by decide)]
  have hfix : Dict.look (lsfFixed cx name run) "nodes".toList = some (lsfNodes cx run) := by
    unfold lsfFixed
    rw [look_set_ne _ _ _ _ (by decide), look_set_ne _ _ _ _ (by decide),
      look_set_ne _ _ _ _ (by decide), look_set_self]
  rw [hfix]
  cases h : run.get? "nodes" with
  | none => rfl
  | some v =>
    by_cases ht : v.truthy
    · simp [ht, lsfNodes, getD, h]
    · simp [ht]

theorem lsf_fixed_value (cx : Ctx) (name : Str) (run : Dict) (wt : Str)
    (hn : (run.map (·.1)).Nodup)
    (h1 : run.get? "job-name" = none) (h2 : run.get? "output" = none) (h3 : run.get? "error" = none) :
    (lsfResources cx name run wt).get? "job-name" = some (.str (replaceChar name ' ' '_')) ∧
    (lsfResources cx name run wt).get? "output" =
      some (.str (replaceChar name ' ' '_' ++ ".%J.out".toList)) ∧
    (lsfResources cx name run wt).get? "error" =
      some (.str (replaceChar name ' ' '_' ++ ".%J.err".toList)) := by
  refine ⟨?_, ?_, ?_⟩
  · rw [lsf_resource_set cx name run wt hn "job-name" (by decide), h1]
    unfold lsfFixed
    rw [look_set_ne _ _ _ _ (by decide), look_set_ne _ _ _ _ (by decide), look_set_self]
  · rw [lsf_resource_set cx name run wt hn "output" (by decide), h2]
    unfold lsfFixed
    rw [look_set_ne _ _ _ _ (by decide), look_set_self]
  · rw [lsf_resource_set cx name run wt hn "error" (by decide), h3]
    unfold lsfFixed
    rw [look_set_self]

/-- **The LSF header, line by line**: the shell line, then `-nnodes` (the step's
`nodes` entry, else the batch block's), `-q`, `-G` (batch block), `-W` (the
step's walltime in `HH:MM`), `-J`, `-o`, `-U` (step's reservation else the batch
block's), `-e` — each optional key present exactly when a value is — and
nothing else. -/
theorem lsf_header_exact (cx : Ctx) (name : Str) (run : Dict) (ls : List Str)
    (hn : (run.map (·.1)).Nodup)
    (h1 : run.get? "job-name" = none) (h2 : run.get? "output" = none) (h3 : run.get? "error" = none)
    (h : lsfHeaderLines cx name run = .ok ls) :
    ∃ wt, lsfWalltime (run.getN "walltime").pyStr = .ok wt ∧
      ls = [shebang cx, hline "#BSUB -nnodes " (lsfNodes cx run)]
        ++ lineOf (lsfRequested cx run "queue") "#BSUB -q "
        ++ lineOf (lsfRequested cx run "bank") "#BSUB -G "
        ++ [hline "#BSUB -W " (.str wt), hline "#BSUB -J " (.str (replaceChar name ' ' '_')),
            hline "#BSUB -o " (.str (replaceChar name ' ' '_' ++ ".%J.out".toList))]
        ++ lineOf (lsfRequested cx run "reservation") "#BSUB -U "
        ++ [hline "#BSUB -e " (.str (replaceChar name ' ' '_' ++ ".%J.err".toList))] := by
  unfold lsfHeaderLines at h
  cases hw : lsfWalltime (run.getN "walltime").pyStr with
  | error e => simp [hw] at h
  | ok wt =>
    simp only [hw, Except.ok.injEq] at h
    refine ⟨wt, rfl, ?_⟩
    rw [← h, keyLinesAlways_eq]
    obtain ⟨f1, f2, f3⟩ := lsf_fixed_value cx name run wt hn h1 h2 h3
    simp only [lsfKeys, List.map_cons, List.map_nil, List.flatten_cons, List.flatten_nil, List.append_nil]
    rw [lsf_nodes_value cx name run wt hn,
      lsf_resource_plain cx name run wt hn "queue" (by decide) (by decide) (by decide) (by decide) (by decide),
      lsf_resource_plain cx name run wt hn "bank" (by decide) (by decide) (by decide) (by decide) (by decide),
      lsf_resource_walltime, f1, f2,
      lsf_resource_plain cx name run wt hn "reservation" (by decide) (by decide) (by decide) (by decide)
        (by decide), f3]
    simp [lineOf, shebang]

/-- **The Flux header, line by line** (informational `#INFO` comments): nodes
(the step's if it declares them, else the batch block's), the walltime in
seconds, the adapter and broker versions, the URI when one is configured. -/
theorem flux_header_exact (cx : Ctx) (run : Dict) (ls : List Str) (h : fluxHeaderLines cx run = .ok ls)
    (hb1 : cx.batch.get? "walltime" = none) (hb2 : cx.batch.get? "flux_version" = none) :
    ∃ wt, fluxWalltime (run.getN "walltime") = .ok wt ∧
      ls = [shebang cx]
        ++ lineOf (if (run.getN "nodes").truthy then some (run.getN "nodes") else cx.batch.get? "nodes")
            "#INFO (nodes) "
        ++ [hline "#INFO (walltime) " (.str wt)]
        ++ lineOf (cx.batch.get? "version") "#INFO (flux adapter version) "
        ++ [hline "#INFO (flux version) " (.str cx.fluxVer)]
        ++ lineOf (cx.batch.get? "flux_uri") "#INFO (flux_uri) " := by
  unfold fluxHeaderLines at h
  cases hw : fluxWalltime (run.getN "walltime") with
  | error e => simp [hw] at h
  | ok wt =>
    simp only [hw, Except.ok.injEq] at h
    refine ⟨wt, rfl, ?_⟩
    rw [← h, keyLinesAlways_eq]
    simp only [fluxKeys, List.map_cons, List.map_nil, List.flatten_cons, List.flatten_nil, List.append_nil]
    by_cases ht : (run.getN "nodes").truthy = true
    · simp only [ht, ↓reduceIte, Dict.get?]
      rw [look_set_ne _ _ _ _ (by decide), look_set_self, look_set_ne _ _ _ _ (by decide),
        look_set_ne _ _ _ _ (by decide), look_set_self, look_set_ne _ _ _ _ (by decide),
        look_set_ne _ _ _ _ (by decide), look_set_ne _ _ _ _ (by decide), look_set_self,
        look_set_ne _ _ _ _ (by decide), look_set_ne _ _ _ _ (by decide), look_set_ne _ _ _ _ (by decide)]
      simp [lineOf, shebang, Dict.get?]
    · simp only [ht, Bool.false_eq_true, ↓reduceIte, Dict.get?]
      rw [look_set_ne _ _ _ _ (by decide), look_set_ne _ _ _ _ (by decide),
        look_set_ne _ _ _ _ (by decide), look_set_self, look_set_ne _ _ _ _ (by decide),
        look_set_ne _ _ _ _ (by decide), look_set_self, look_set_ne _ _ _ _ (by decide),
        look_set_ne _ _ _ _ (by decide)]
      simp [lineOf, shebang, Dict.get?]

end MaestroVerif.Launcher
