import MaestroVerif.Lemmas.ExpandStage

/-! What placing one instance does to the graph: its dependency set is exactly its wired
parents, every other dependency set is untouched, and the instance list grows by at most this
instance (C08). -/
namespace MaestroVerif.Expand
open MaestroVerif.Subst

theorem connFold_deps (c : Str) : ∀ (L : List Str) (g g' : XG),
    L.foldl (connStep c) (.ok g) = .ok g' →
    g'.insts = g.insts ∧
    ∀ k x, x ∈ getAssoc g'.deps k ↔ (x ∈ getAssoc g.deps k ∨ (k = c ∧ x ∈ L)) := by
  intro L
  induction L with
  | nil =>
    intro g g' h
    simp only [List.foldl_nil, Except.ok.injEq] at h
    subst h
    exact ⟨rfl, fun k x => by simp⟩
  | cons p ps ih =>
    intro g g' h
    simp only [List.foldl_cons, connStep] at h
    rw [addConnection_eq'] at h
    by_cases hb : bad g p c = true
    · simp only [hb, ↓reduceIte] at h
      rw [foldl_connStep_error] at h
      cases h
    · simp only [hb, Bool.false_eq_true, ↓reduceIte] at h
      obtain ⟨i1, i2⟩ := ih _ _ h
      refine ⟨by rw [i1, insts_addDep, insts_adjUpd], ?_⟩
      intro k x
      rw [i2, mem_addDep, deps_adjUpd]
      simp only [List.mem_cons]
      constructor
      · rintro ((h | ⟨h1, h2⟩) | ⟨h1, h2⟩)
        · exact Or.inl h
        · exact Or.inr ⟨h1, Or.inl h2⟩
        · exact Or.inr ⟨h1, Or.inr h2⟩
      · rintro (h | ⟨h1, h2 | h2⟩)
        · exact Or.inl (Or.inl h)
        · exact Or.inl (Or.inr ⟨h1, h2⟩)
        · exact Or.inr ⟨h1, h2⟩

theorem getAssoc_addStep_deps (g : XG) (i : Inst) (k : Str) :
    getAssoc (g.addStep i).deps k = if k = i.name then [] else getAssoc g.deps k := by
  unfold XG.addStep
  simp only
  split
  · split
    · rename_i hk; subst hk; exact getAssoc_setAssoc_self _ _ _
    · rename_i hk; exact getAssoc_setAssoc_ne _ _ _ _ hk
  · split
    · rename_i hk; subst hk; exact getAssoc_setAssoc_self _ _ _
    · rename_i hk; exact getAssoc_setAssoc_ne _ _ _ _ hk

theorem insts_addStep (g : XG) (i : Inst) :
    (g.addStep i).insts = if g.hasNode i.name then g.insts else g.insts ++ [i] := by
  unfold XG.addStep
  simp only
  have : XG.hasNode { g with deps := setAssoc g.deps i.name [] } i.name = g.hasNode i.name := rfl
  rw [this]
  split <;> rfl

/-- the parents an instance is wired to -/
def wiredTo (isRoot : Bool) (parents hubD : List Str) (combos : List (Str × List Str)) (x : Str) : Prop :=
  if isRoot then x = SOURCE else (x ∈ parents ∨ ∃ hb, hb ∈ hubD ∧ x ∈ getAssoc combos hb)

theorem wire_deps {ord : List Str → List Str} (ho : IsPermOracle ord) (g g' : XG) (isRoot : Bool)
    (parents hubD : List Str) (combos : List (Str × List Str)) (child : Str)
    (h : wire ord g isRoot parents hubD combos child = .ok g') :
    g'.insts = g.insts ∧
    ∀ k x, x ∈ getAssoc g'.deps k ↔
      (x ∈ getAssoc g.deps k ∨ (k = child ∧ wiredTo isRoot parents hubD combos x)) := by
  cases isRoot with
  | true =>
    have h' : [SOURCE].foldl (connStep child) (.ok g) = .ok g' := by
      simpa [wire, connStep] using h
    obtain ⟨i1, i2⟩ := connFold_deps child _ _ _ h'
    refine ⟨i1, fun k x => ?_⟩
    rw [i2]; simp [wiredTo]
  | false =>
    rw [wire_eq] at h
    obtain ⟨i1, i2⟩ := connFold_deps child _ _ _ h
    refine ⟨i1, fun k x => ?_⟩
    rw [i2]
    simp only [wiredTo, Bool.false_eq_true, ↓reduceIte, List.mem_append, List.mem_flatMap]
    constructor
    · rintro (h | ⟨hk, h | ⟨hb, h1, h2⟩⟩)
      · exact Or.inl h
      · exact Or.inr ⟨hk, Or.inl ((ho parents).mem_iff.mp h)⟩
      · exact Or.inr ⟨hk, Or.inr ⟨hb, (ho hubD).mem_iff.mp h1, (ho _).mem_iff.mp h2⟩⟩
    · rintro (h | ⟨hk, h | ⟨hb, h1, h2⟩⟩)
      · exact Or.inl h
      · exact Or.inr ⟨hk, Or.inl ((ho parents).mem_iff.mpr h)⟩
      · exact Or.inr ⟨hk, Or.inr ⟨hb, (ho hubD).mem_iff.mpr h1, (ho _).mem_iff.mpr h2⟩⟩

/-- **placing one instance**: afterwards its dependency set is exactly the set of parents it was
wired to, every other instance's dependency set is as before, the instance list has grown by
this instance unless an instance of that name existed, and nothing else of the staging state
has changed -/
theorem place_exact {ord : List Str → List Str} (ho : IsPermOracle ord) (s s' : SS) (inst : Inst)
    (isRoot : Bool) (parents hubD : List Str) (h : place ord s inst isRoot parents hubD = .ok s') :
    (∀ x, x ∈ getAssoc s'.g.deps inst.name ↔ wiredTo isRoot parents hubD s.combos x) ∧
    (∀ k, k ≠ inst.name → ∀ x, x ∈ getAssoc s'.g.deps k ↔ x ∈ getAssoc s.g.deps k) ∧
    (s'.g.insts = if s.g.hasNode inst.name then s.g.insts else s.g.insts ++ [inst]) ∧
    s'.workspaces = s.workspaces ∧ s'.hub = s.hub ∧ s'.depends = s.depends ∧ s'.used = s.used ∧
    s'.combos = s.combos := by
  unfold place at h
  cases hw : wire ord (s.g.addStep inst) isRoot parents hubD s.combos inst.name with
  | error e => simp [hw] at h
  | ok g' =>
    simp only [hw, Except.ok.injEq] at h
    subst h
    obtain ⟨i1, i2⟩ := wire_deps ho _ _ _ _ _ _ _ hw
    refine ⟨?_, ?_, ?_, rfl, rfl, rfl, rfl, rfl⟩
    · intro x
      simp only
      rw [i2, getAssoc_addStep_deps]
      simp
    · intro k hk x
      simp only
      rw [i2, getAssoc_addStep_deps]
      simp [hk]
    · simp only
      rw [i1, insts_addStep]

end MaestroVerif.Expand
