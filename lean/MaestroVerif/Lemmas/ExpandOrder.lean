import MaestroVerif.Model.Expand

/-! The order in which a set of parents is connected to one child does not
matter: the adjacency table and the instance list come out identical, the
child's dependency set comes out with the same members (C11). -/
namespace MaestroVerif.Expand
open MaestroVerif.Subst

abbrev AL := List (Str × List Str)

/-- the in-place replacement `setAssoc` maps over the table -/
def repl (k : Str) (v : List Str) (e : Str × List Str) : Str × List Str := if e.1 == k then (k, v) else e

theorem repl_key (k : Str) (v : List Str) (e : Str × List Str) : (repl k v e).1 = e.1 := by
  unfold repl
  by_cases h : e.1 == k
  · simp [h]; exact (by simpa using h : e.1 = k).symm
  · simp [h]

theorem setAssoc_eq (l : AL) (k : Str) (v : List Str) :
    setAssoc l k v = if l.any (·.1 == k) then l.map (repl k v) else l ++ [(k, v)] := rfl

theorem any_map_repl (l : AL) (k k' : Str) (v : List Str) :
    (l.map (repl k v)).any (·.1 == k') = l.any (·.1 == k') := by
  induction l with
  | nil => rfl
  | cons e rest ih => simp only [List.map_cons, List.any_cons, ih, repl_key]

theorem find_map_repl_ne (l : AL) (k k' : Str) (v : List Str) (hne : k' ≠ k) :
    (l.map (repl k v)).find? (·.1 == k') = l.find? (·.1 == k') := by
  induction l with
  | nil => rfl
  | cons e rest ih =>
    simp only [List.map_cons, List.find?_cons, repl_key]
    by_cases h : e.1 == k'
    · have hek : e.1 = k' := by simpa using h
      have : (e.1 == k) = false := by rw [hek]; simpa using hne
      simp [h, repl, this]
    · simp [h, ih]

theorem find_map_repl_self (l : AL) (k : Str) (v : List Str) :
    (l.map (repl k v)).find? (·.1 == k) = (l.find? (·.1 == k)).map (fun _ => (k, v)) := by
  induction l with
  | nil => rfl
  | cons e rest ih =>
    simp only [List.map_cons, List.find?_cons, repl_key]
    by_cases h : e.1 == k
    · simp [h, repl]
    · simp [h, ih]

theorem any_key_setAssoc (l : AL) (k k' : Str) (v : List Str) :
    (setAssoc l k v).any (·.1 == k') = (l.any (·.1 == k') || k == k') := by
  rw [setAssoc_eq]
  by_cases h : l.any (·.1 == k) = true
  · simp only [h, ↓reduceIte, any_map_repl]
    by_cases hkk : k == k'
    · have : k = k' := by simpa using hkk
      subst this; simp [h]
    · simp [hkk]
  · simp [h]

theorem getAssoc_setAssoc_self (l : AL) (k : Str) (v : List Str) : getAssoc (setAssoc l k v) k = v := by
  rw [setAssoc_eq]
  unfold getAssoc
  by_cases h : l.any (·.1 == k) = true
  · simp only [h, ↓reduceIte, find_map_repl_self]
    cases hf : l.find? (·.1 == k) with
    | some x => rfl
    | none =>
      exfalso
      have := List.find?_eq_none.mp hf
      simp only [List.any_eq_true] at h
      obtain ⟨x, hx, hxk⟩ := h
      exact this x hx hxk
  · have hnone : l.find? (·.1 == k) = none := by
      apply List.find?_eq_none.mpr
      intro x hx
      simp only [List.any_eq_true, not_exists, not_and] at h
      simpa using h x hx
    simp [h, List.find?_append, hnone]

theorem getAssoc_setAssoc_ne (l : AL) (k k' : Str) (v : List Str) (hne : k' ≠ k) :
    getAssoc (setAssoc l k v) k' = getAssoc l k' := by
  rw [setAssoc_eq]
  unfold getAssoc
  have hkk : (k == k') = false := by simpa using fun h => hne h.symm
  by_cases h : l.any (·.1 == k) = true
  · simp only [h, ↓reduceIte, find_map_repl_ne l k k' v hne]
  · simp only [h, Bool.false_eq_true, ↓reduceIte, List.find?_append]
    cases hf : l.find? (·.1 == k') with
    | some x => simp
    | none => simp [List.find?_cons, hkk]

/-- replacing two different existing keys commutes -/
theorem map_repl_comm (l : AL) (k₁ k₂ : Str) (v₁ v₂ : List Str) (hne : k₁ ≠ k₂) :
    (l.map (repl k₁ v₁)).map (repl k₂ v₂) = (l.map (repl k₂ v₂)).map (repl k₁ v₁) := by
  simp only [List.map_map]
  apply List.map_congr_left
  intro e _
  simp only [Function.comp, repl]
  by_cases h1 : e.1 == k₁
  · have e1 : e.1 = k₁ := by simpa using h1
    have h2 : (e.1 == k₂) = false := by rw [e1]; simpa using hne
    have h12 : (k₁ == k₂) = false := by simpa using hne
    simp [h1, h2, h12]
  · by_cases h2 : e.1 == k₂
    · have e2 : e.1 = k₂ := by simpa using h2
      have h21 : (k₂ == k₁) = false := by simpa using fun h => hne h.symm
      simp [h1, h2, h21]
    · simp [h1, h2]

end MaestroVerif.Expand

namespace MaestroVerif.Expand
open MaestroVerif.Subst

/-- two execution graphs that differ at most in the order of the members of the
dependency sets -/
structure Rel (g₁ g₂ : XG) : Prop where
  insts : g₁.insts = g₂.insts
  adj   : g₁.adj = g₂.adj
  keys  : g₁.deps.map (·.1) = g₂.deps.map (·.1)
  mem   : ∀ k x, x ∈ getAssoc g₁.deps k ↔ x ∈ getAssoc g₂.deps k

theorem Rel.refl (g : XG) : Rel g g := ⟨rfl, rfl, rfl, fun _ _ => Iff.rfl⟩

theorem Rel.symm {a b : XG} (h : Rel a b) : Rel b a :=
  ⟨h.insts.symm, h.adj.symm, h.keys.symm, fun k x => (h.mem k x).symm⟩

theorem Rel.trans {a b c : XG} (h₁ : Rel a b) (h₂ : Rel b c) : Rel a c :=
  ⟨h₁.insts.trans h₂.insts, h₁.adj.trans h₂.adj, h₁.keys.trans h₂.keys,
   fun k x => (h₁.mem k x).trans (h₂.mem k x)⟩

def RelE : Except Err XG → Except Err XG → Prop
  | .ok a, .ok b => Rel a b
  | .error e, .error f => e = f
  | _, _ => False

theorem RelE.refl (r : Except Err XG) : RelE r r := by
  cases r with
  | ok a => exact Rel.refl a
  | error e => rfl

theorem RelE.trans {a b c : Except Err XG} (h₁ : RelE a b) (h₂ : RelE b c) : RelE a c := by
  cases a <;> cases b <;> cases c <;> simp only [RelE] at h₁ h₂ ⊢
  · exact h₁.trans h₂
  · exact Rel.trans h₁ h₂

theorem any_key_of_keys {l₁ l₂ : AL} (h : l₁.map (·.1) = l₂.map (·.1)) (k : Str) :
    l₁.any (·.1 == k) = l₂.any (·.1 == k) := by
  have e : ∀ l : AL, l.any (·.1 == k) = (l.map (·.1)).any (· == k) := by
    intro l
    induction l with
    | nil => rfl
    | cons a as ih => simp only [List.any_cons, List.map_cons, ih]
  rw [e l₁, e l₂, h]

theorem keys_setAssoc (l : AL) (k : Str) (v : List Str) :
    (setAssoc l k v).map (·.1) = if l.any (·.1 == k) then l.map (·.1) else l.map (·.1) ++ [k] := by
  rw [setAssoc_eq]
  by_cases h : l.any (·.1 == k) = true
  · simp only [h, ↓reduceIte, List.map_map]
    apply List.map_congr_left
    intro e _
    exact repl_key k v e
  · simp [h]

/-- `_dependencies[step].add(parent)` -/
def addDep (g : XG) (parent step : Str) : XG :=
  let d := getAssoc g.deps step
  { g with deps := setAssoc g.deps step (if d.contains parent then d else d ++ [parent]) }

theorem mem_addDep (g : XG) (p c k x : Str) :
    x ∈ getAssoc (addDep g p c).deps k ↔ (x ∈ getAssoc g.deps k ∨ (k = c ∧ x = p)) := by
  unfold addDep
  simp only
  by_cases hk : k = c
  · subst hk
    rw [getAssoc_setAssoc_self]
    by_cases hc : (getAssoc g.deps k).contains p = true
    · simp only [hc, ↓reduceIte]
      constructor
      · intro h; exact Or.inl h
      · rintro (h | ⟨_, h⟩)
        · exact h
        · subst h; simpa using hc
    · have hc' : p ∉ getAssoc g.deps k := by simpa using hc
      simp [hc']
  · rw [getAssoc_setAssoc_ne _ _ _ _ hk]
    constructor
    · intro h; exact Or.inl h
    · rintro (h | ⟨h, _⟩)
      · exact h
      · exact absurd h hk

theorem addDep_rel {g₁ g₂ : XG} (h : Rel g₁ g₂) (p c : Str) : Rel (addDep g₁ p c) (addDep g₂ p c) := by
  refine ⟨h.insts, h.adj, ?_, ?_⟩
  · unfold addDep
    simp only [keys_setAssoc]
    rw [any_key_of_keys h.keys c, h.keys]
  · intro k x
    rw [mem_addDep, mem_addDep, h.mem k x]

theorem addConnection_eq (g : XG) (parent step : Str) :
    g.addConnection parent step =
      if parent == step then .ok (addDep g parent step)
      else if !g.hasNode parent then .error .edgeSrcMissing
      else if !g.hasNode step then .ok (addDep g parent step)
      else .ok (addDep (if (getAssoc g.adj parent).contains step then g
        else { g with adj := setAssoc g.adj parent (getAssoc g.adj parent ++ [step]) }) parent step) := by
  unfold XG.addConnection addDep
  rfl

/-- connecting one parent preserves the relation -/
theorem addConnection_rel {g₁ g₂ : XG} (h : Rel g₁ g₂) (p c : Str) :
    RelE (g₁.addConnection p c) (g₂.addConnection p c) := by
  rw [addConnection_eq, addConnection_eq]
  have hn : ∀ n, g₁.hasNode n = g₂.hasNode n := by intro n; unfold XG.hasNode; rw [h.adj]
  rw [hn p, hn c, h.adj]
  by_cases h1 : (p == c) = true
  · simp only [h1, ↓reduceIte, RelE]; exact addDep_rel h p c
  · simp only [h1, Bool.false_eq_true, ↓reduceIte]
    by_cases h2 : g₂.hasNode p = true
    · simp only [h2, Bool.not_true, Bool.false_eq_true, ↓reduceIte]
      by_cases h3 : g₂.hasNode c = true
      · simp only [h3, Bool.not_true, Bool.false_eq_true, ↓reduceIte, RelE]
        apply addDep_rel
        by_cases h4 : (getAssoc g₂.adj p).contains c = true
        · simp only [h4, ↓reduceIte]; exact h
        · simp only [h4, Bool.false_eq_true, ↓reduceIte]
          exact ⟨h.insts, by simp [h.adj], h.keys, h.mem⟩
      · simp only [h3, Bool.not_false, ↓reduceIte, RelE]; exact addDep_rel h p c
    · simp [h2, RelE]

end MaestroVerif.Expand

namespace MaestroVerif.Expand
open MaestroVerif.Subst

/-- the parent is missing from the graph -/
def bad (g : XG) (p c : Str) : Bool := p != c && !g.hasNode p

/-- the adjacency part of `add_connection` -/
def adjUpd (g : XG) (p c : Str) : XG :=
  if p == c || !g.hasNode c || (getAssoc g.adj p).contains c then g
  else { g with adj := setAssoc g.adj p (getAssoc g.adj p ++ [c]) }

theorem addConnection_eq' (g : XG) (p c : Str) :
    g.addConnection p c =
      if bad g p c then .error .edgeSrcMissing else .ok (addDep (adjUpd g p c) p c) := by
  rw [addConnection_eq]
  unfold bad adjUpd
  by_cases h1 : p = c
  · subst h1; simp
  · have h1' : (p == c) = false := by simpa using h1
    by_cases h2 : g.hasNode p = true
    · by_cases h3 : g.hasNode c = true
      · by_cases h4 : (getAssoc g.adj p).contains c = true
        · simp [bne, h1', h2, h3, h4]
        · simp [bne, h1', h2, h3, h4]
      · simp [bne, h1', h2, h3]
    · simp [bne, h1', h2]

theorem hasNode_addDep (g : XG) (p c n : Str) : (addDep g p c).hasNode n = g.hasNode n := rfl

theorem adj_addDep (g : XG) (p c : Str) : (addDep g p c).adj = g.adj := rfl
theorem insts_addDep (g : XG) (p c : Str) : (addDep g p c).insts = g.insts := rfl

theorem hasNode_adjUpd (g : XG) (p c n : Str) (hp : g.hasNode p = true ∨ (p == c) = true) :
    (adjUpd g p c).hasNode n = g.hasNode n := by
  unfold adjUpd
  split
  · rfl
  · rename_i hcond
    simp only [Bool.or_eq_true, not_or] at hcond
    have hpn : g.hasNode p = true := by
      rcases hp with h | h
      · exact h
      · exact absurd h hcond.1.1
    unfold XG.hasNode at hpn ⊢
    simp only
    rw [any_key_setAssoc]
    by_cases hk : p == n
    · have : p = n := by simpa using hk
      subst this; simp [hpn]
    · simp [hk]

theorem deps_adjUpd (g : XG) (p c : Str) : (adjUpd g p c).deps = g.deps := by
  unfold adjUpd; split <;> rfl

theorem insts_adjUpd (g : XG) (p c : Str) : (adjUpd g p c).insts = g.insts := by
  unfold adjUpd; split <;> rfl

/-- the adjacency update reads only the adjacency table -/
theorem adjUpd_addDep (g : XG) (p q c : Str) :
    adjUpd (addDep g p c) q c = addDep (adjUpd g q c) p c := by
  unfold adjUpd
  simp only [hasNode_addDep, adj_addDep]
  by_cases h : (q == c || !g.hasNode c || (getAssoc g.adj q).contains c) = true
  · simp only [h, ↓reduceIte]
  · simp only [h, Bool.false_eq_true, ↓reduceIte]; rfl

theorem adjUpd_void (g : XG) (p c : Str)
    (h : (p == c || !g.hasNode c || (getAssoc g.adj p).contains c) = true) : adjUpd g p c = g := by
  simp only [adjUpd, h, ↓reduceIte]

theorem adj_adjUpd_active (g : XG) (p c : Str)
    (hcond : ¬ (p == c || !g.hasNode c || (getAssoc g.adj p).contains c) = true)
    (hpn : g.hasNode p = true) :
    (adjUpd g p c).adj = g.adj.map (repl p (getAssoc g.adj p ++ [c])) := by
  simp only [adjUpd, hcond, Bool.false_eq_true, ↓reduceIte]
  rw [setAssoc_eq]
  unfold XG.hasNode at hpn
  simp [hpn]

/-- two different parents update two different rows -/
theorem adjUpd_comm (g : XG) (p q c : Str) (hne : p ≠ q)
    (hp : g.hasNode p = true ∨ (p == c) = true) (hq : g.hasNode q = true ∨ (q == c) = true) :
    (adjUpd (adjUpd g p c) q c).adj = (adjUpd (adjUpd g q c) p c).adj := by
  have hnp : ∀ n, (adjUpd g p c).hasNode n = g.hasNode n := fun n => hasNode_adjUpd g p c n hp
  have hnq : ∀ n, (adjUpd g q c).hasNode n = g.hasNode n := fun n => hasNode_adjUpd g q c n hq
  -- the other parent's row is untouched
  have rowq : getAssoc (adjUpd g p c).adj q = getAssoc g.adj q := by
    unfold adjUpd; split
    · rfl
    · exact getAssoc_setAssoc_ne _ _ _ _ (fun h => hne h.symm)
  have rowp : getAssoc (adjUpd g q c).adj p = getAssoc g.adj p := by
    unfold adjUpd; split
    · rfl
    · exact getAssoc_setAssoc_ne _ _ _ _ hne
  by_cases cp : (p == c || !g.hasNode c || (getAssoc g.adj p).contains c) = true
  · -- p's update is void
    have e1 : adjUpd g p c = g := by simp only [adjUpd, cp, ↓reduceIte]
    have e2 : adjUpd (adjUpd g q c) p c = adjUpd g q c := by
      have : (p == c || !(adjUpd g q c).hasNode c || (getAssoc (adjUpd g q c).adj p).contains c) = true := by
        rw [hnq, rowp]; exact cp
      exact adjUpd_void _ _ _ this
    rw [e1, e2]
  · by_cases cq : (q == c || !g.hasNode c || (getAssoc g.adj q).contains c) = true
    · have e1 : adjUpd g q c = g := by simp only [adjUpd, cq, ↓reduceIte]
      have e2 : adjUpd (adjUpd g p c) q c = adjUpd g p c := by
        have : (q == c || !(adjUpd g p c).hasNode c || (getAssoc (adjUpd g p c).adj q).contains c) = true := by
          rw [hnp, rowq]; exact cq
        exact adjUpd_void _ _ _ this
      rw [e1, e2]
    · -- both rows are extended
      have hpn : g.hasNode p = true := by
        rcases hp with h | h
        · exact h
        · simp [h] at cp
      have hqn : g.hasNode q = true := by
        rcases hq with h | h
        · exact h
        · simp [h] at cq
      have a1 := adj_adjUpd_active g p c cp hpn
      have a2 := adj_adjUpd_active g q c cq hqn
      have cq' : ¬ (q == c || !(adjUpd g p c).hasNode c ||
          (getAssoc (adjUpd g p c).adj q).contains c) = true := by rw [hnp, rowq]; exact cq
      have cp' : ¬ (p == c || !(adjUpd g q c).hasNode c ||
          (getAssoc (adjUpd g q c).adj p).contains c) = true := by rw [hnq, rowp]; exact cp
      have b1 := adj_adjUpd_active (adjUpd g p c) q c cq' (by rw [hnp]; exact hqn)
      have b2 := adj_adjUpd_active (adjUpd g q c) p c cp' (by rw [hnq]; exact hpn)
      rw [rowq] at b1
      rw [rowp] at b2
      rw [b1, b2, a1, a2]
      exact map_repl_comm g.adj p q _ _ hne

theorem keys_addDep (g : XG) (p c : Str) :
    (addDep g p c).deps.map (·.1) =
      if g.deps.any (·.1 == c) then g.deps.map (·.1) else g.deps.map (·.1) ++ [c] := by
  unfold addDep; exact keys_setAssoc _ _ _

theorem any_key_addDep (g : XG) (p c : Str) : (addDep g p c).deps.any (·.1 == c) = true := by
  unfold addDep; simp only [any_key_setAssoc]; simp

/-- adding two parents of the same child to the dependency sets, in either order -/
theorem addDep_swap_rel (A B : XG) (hi : A.insts = B.insts) (ha : A.adj = B.adj) (hd : A.deps = B.deps)
    (x y c : Str) : Rel (addDep (addDep A y c) x c) (addDep (addDep B x c) y c) := by
  refine ⟨rfl.trans hi, rfl.trans ha, ?_, ?_⟩
  · rw [keys_addDep, keys_addDep (addDep B x c), any_key_addDep, any_key_addDep]
    simp only [↓reduceIte]
    rw [keys_addDep, keys_addDep, hd]
  · intro k z
    rw [mem_addDep, mem_addDep, mem_addDep, mem_addDep, hd]
    constructor
    · rintro ((h | h) | h)
      · exact Or.inl (Or.inl h)
      · exact Or.inr h
      · exact Or.inl (Or.inr h)
    · rintro ((h | h) | h)
      · exact Or.inl (Or.inl h)
      · exact Or.inr h
      · exact Or.inl (Or.inr h)

/-- one step of the connection loop -/
def connStep (c : Str) (acc : Except Err XG) (p : Str) : Except Err XG :=
  match acc with
  | .error e => .error e
  | .ok g => g.addConnection p c

theorem addConnections_eq (ord : List Str → List Str) (g : XG) (ps : List Str) (c : Str) :
    addConnections ord g ps c = (ord ps).foldl (connStep c) (.ok g) := rfl

theorem connStep_rel (c : Str) {a b : Except Err XG} (h : RelE a b) (p : Str) :
    RelE (connStep c a p) (connStep c b p) := by
  cases a with
  | error e =>
    cases b with
    | error f => exact h
    | ok _ => exact absurd h (by simp [RelE])
  | ok g₁ =>
    cases b with
    | error f => exact absurd h (by simp [RelE])
    | ok g₂ => exact addConnection_rel h p c

theorem foldl_connStep_rel (c : Str) (l : List Str) : ∀ {a b : Except Err XG}, RelE a b →
    RelE (l.foldl (connStep c) a) (l.foldl (connStep c) b) := by
  induction l with
  | nil => intro a b h; exact h
  | cons p ps ih => intro a b h; exact ih (connStep_rel c h p)

theorem bad_after (g : XG) (x y c : Str) (hx : bad g x c = false) :
    bad (addDep (adjUpd g x c) x c) y c = bad g y c := by
  unfold bad
  rw [hasNode_addDep, hasNode_adjUpd]
  unfold bad at hx
  by_cases h : x = c
  · exact Or.inr (by simpa using h)
  · have : (x != c) = true := by simpa using h
    simp only [this, Bool.true_and, Bool.not_eq_false'] at hx
    exact Or.inl hx

theorem node_of_not_bad (g : XG) (x c : Str) (hx : bad g x c = false) :
    g.hasNode x = true ∨ (x == c) = true := by
  unfold bad at hx
  by_cases h : x = c
  · exact Or.inr (by simpa using h)
  · have : (x != c) = true := by simpa using h
    simp only [this, Bool.true_and, Bool.not_eq_false'] at hx
    exact Or.inl hx

/-- two consecutive parents can be swapped -/
theorem connStep_swap (c : Str) (g : XG) (x y : Str) :
    RelE (connStep c (connStep c (.ok g) y) x) (connStep c (connStep c (.ok g) x) y) := by
  by_cases hxy : x = y
  · subst hxy; exact RelE.refl _
  simp only [connStep]
  rw [addConnection_eq' g y c, addConnection_eq' g x c]
  by_cases by_ : bad g y c = true
  · simp only [by_, ↓reduceIte]
    by_cases bx : bad g x c = true
    · simp only [bx, ↓reduceIte, RelE]
    · have bx' : bad g x c = false := by simpa using bx
      simp only [bx', Bool.false_eq_true, ↓reduceIte]
      rw [addConnection_eq', bad_after g x y c bx', by_]
      simp only [↓reduceIte, RelE]
  · have by' : bad g y c = false := by simpa using by_
    simp only [by', Bool.false_eq_true, ↓reduceIte]
    by_cases bx : bad g x c = true
    · simp only [bx, ↓reduceIte]
      rw [addConnection_eq', bad_after g y x c by', bx]
      simp only [↓reduceIte, RelE]
    · have bx' : bad g x c = false := by simpa using bx
      simp only [bx', Bool.false_eq_true, ↓reduceIte]
      rw [addConnection_eq', addConnection_eq', bad_after g y x c by', bad_after g x y c bx', bx', by']
      simp only [Bool.false_eq_true, ↓reduceIte, RelE]
      rw [adjUpd_addDep, adjUpd_addDep]
      apply addDep_swap_rel
      · rw [insts_adjUpd, insts_adjUpd, insts_adjUpd, insts_adjUpd]
      · exact adjUpd_comm g y x c (fun h => hxy h.symm) (node_of_not_bad g y c by') (node_of_not_bad g x c bx')
      · rw [deps_adjUpd, deps_adjUpd, deps_adjUpd, deps_adjUpd]

/-- **the order in which the parents of one child are connected does not matter**: any two
orders (permutations) of the same parents give the same instance list and adjacency table,
the same dependency-table keys and dependency sets with the same members; both fail, with
the same error, or none does. -/
theorem connect_perm (c : Str) {l₁ l₂ : List Str} (hp : l₁.Perm l₂) :
    ∀ {a b : Except Err XG}, RelE a b → RelE (l₁.foldl (connStep c) a) (l₂.foldl (connStep c) b) := by
  induction hp with
  | nil => intro a b h; exact h
  | cons x _ ih => intro a b h; exact ih (connStep_rel c h x)
  | swap x y l =>
    intro a b h
    simp only [List.foldl_cons]
    apply foldl_connStep_rel
    have h1 : RelE (connStep c (connStep c a y) x) (connStep c (connStep c b y) x) :=
      connStep_rel c (connStep_rel c h y) x
    refine RelE.trans h1 ?_
    cases b with
    | error e => exact RelE.refl _
    | ok g => exact connStep_swap c g x y
  | trans _ _ ih₁ ih₂ => intro a b h; exact RelE.trans (ih₁ h) (ih₂ (RelE.refl b))

end MaestroVerif.Expand
