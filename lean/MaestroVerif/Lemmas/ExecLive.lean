import MaestroVerif.Lemmas.ExecClosed
import MaestroVerif.Lemmas.ExecMore

/-! Liveness infrastructure for C05: a step that was never touched is still
`INITIALIZED` and its dependency set is a subset of its parents (`InvU`), a step
never leaves the union of the bookkeeping sets (`Adv`), the staging loop queues
every untouched step whose parents are complete, and a decisive poll makes
progress. -/
namespace MaestroVerif.Exec
open MaestroVerif.Gen

/-- the step is somewhere in the bookkeeping -/
def Touched (g : G) (i : Nat) : Prop :=
  i ∈ g.completed ∨ i ∈ g.inProgress ∨ i ∈ g.failed ∨ i ∈ g.cancelled ∨ i ∈ g.ready ∨
    i ∈ g.cleanup ∨ i ∈ g.cancelQ

theorem Touched.c {g : G} {i : Nat} (h : i ∈ g.completed) : Touched g i := Or.inl h
theorem Touched.p {g : G} {i : Nat} (h : i ∈ g.inProgress) : Touched g i := Or.inr (Or.inl h)
theorem Touched.f {g : G} {i : Nat} (h : i ∈ g.failed) : Touched g i := Or.inr (Or.inr (Or.inl h))
theorem Touched.x {g : G} {i : Nat} (h : i ∈ g.cancelled) : Touched g i :=
  Or.inr (Or.inr (Or.inr (Or.inl h)))
theorem Touched.r {g : G} {i : Nat} (h : i ∈ g.ready) : Touched g i :=
  Or.inr (Or.inr (Or.inr (Or.inr (Or.inl h))))
theorem Touched.cl {g : G} {i : Nat} (h : i ∈ g.cleanup) : Touched g i :=
  Or.inr (Or.inr (Or.inr (Or.inr (Or.inr (Or.inl h)))))
theorem Touched.cq {g : G} {i : Nat} (h : i ∈ g.cancelQ) : Touched g i :=
  Or.inr (Or.inr (Or.inr (Or.inr (Or.inr (Or.inr h)))))

/-- one piece of `execute_ready_steps` advanced the state: no step left the
bookkeeping, a status was only written for a step that is in it, dependency sets
only shrank -/
structure Adv (g g' : G) : Prop where
  touched : ∀ i, Touched g i → Touched g' i
  status  : ∀ i, g'.status i ≠ .INITIALIZED → g.status i ≠ .INITIALIZED ∨ Touched g' i
  deps    : ∀ i x, x ∈ g'.deps i → x ∈ g.deps i

theorem Adv.refl (g : G) : Adv g g := ⟨fun _ h => h, fun _ h => Or.inl h, fun _ _ h => h⟩

theorem Adv.trans {g1 g2 g3 : G} (a : Adv g1 g2) (b : Adv g2 g3) : Adv g1 g3 := by
  refine ⟨fun i h => b.touched i (a.touched i h), fun i h => ?_, fun i x h => a.deps i x (b.deps i x h)⟩
  rcases b.status i h with h2 | h2
  · rcases a.status i h2 with h1 | h1
    · exact Or.inl h1
    · exact Or.inr (b.touched i h1)
  · exact Or.inr h2

structure InvU (cfg : Cfg) (g : G) : Prop where
  depsSub : ∀ i x, x ∈ g.deps i → x ∈ cfg.parents i
  fresh   : ∀ i, g.status i ≠ .INITIALIZED → Touched g i

theorem InvU.adv {cfg : Cfg} {g g' : G} (h : InvU cfg g) (a : Adv g g') : InvU cfg g' := by
  refine ⟨fun i x hx => h.depsSub i x (a.deps i x hx), fun i hi => ?_⟩
  rcases a.status i hi with h1 | h1
  · exact a.touched i (h.fresh i h1)
  · exact h1

theorem invU_init (cfg : Cfg) : InvU cfg (init cfg) :=
  ⟨fun _ _ h => h, fun i h => by simp [init] at h⟩

/-! ### the pieces -/

theorem adv_emit (g : G) (e : Ev) : Adv g (emit g e) :=
  ⟨fun _ h => h, fun _ h => Or.inl h, fun _ _ h => h⟩

theorem adv_markFailed (xs : List Nat) (g : G) : Adv g (markFailed xs g) := by
  have m := markFailed_spec xs g
  refine ⟨fun i h => ?_, fun i h => ?_, fun i x h => by rw [m.deps] at h; exact h⟩
  · unfold Touched at h ⊢
    rw [m.completed, m.inProgress, m.cancelled, m.ready, m.cleanup, m.cancelQ, m.failed]
    grind
  · unfold Touched
    rw [m.status] at h
    rw [m.failed]
    by_cases hx : i ∈ xs
    · exact Or.inr (Or.inr (Or.inr (Or.inl (Or.inl hx))))
    · simp only [hx, ↓reduceIte] at h; exact Or.inl h

theorem adv_markCancelled (xs : List Nat) (g : G) : Adv g (markCancelled xs g) := by
  have m := markCancelled_spec xs g
  refine ⟨fun i h => ?_, fun i h => ?_, fun i x h => by rw [m.deps] at h; exact h⟩
  · unfold Touched at h ⊢
    rw [m.completed, m.inProgress, m.failed, m.ready, m.cleanup, m.cancelQ, m.cancelled]
    grind
  · unfold Touched
    rw [m.status] at h
    rw [m.cancelled]
    by_cases hx : i ∈ xs
    · exact Or.inr (Or.inr (Or.inr (Or.inr (Or.inl (Or.inl hx)))))
    · simp only [hx, ↓reduceIte] at h; exact Or.inl h

theorem adv_sweeps (g : G) : Adv g (sweeps g) := by
  rw [sweeps_eq]
  have mf := markFailed_spec g.cleanup g
  have mc := markCancelled_spec g.cancelQ (markFailed g.cleanup g)
  refine ⟨fun i h => ?_, fun i h => ?_, fun i x h => ?_⟩
  · unfold Touched at h ⊢
    simp only [mc.completed, mf.completed, mc.inProgress, mf.inProgress, mc.failed, mf.failed,
      mc.cancelled, mf.cancelled, mc.ready, mf.ready, mc.cancelQ, mf.cancelQ]
    grind
  · unfold Touched
    simp only [mc.status, mf.status] at h
    simp only [mc.failed, mf.failed, mc.cancelled, mf.cancelled, mc.cancelQ, mf.cancelQ]
    by_cases h1 : i ∈ g.cancelQ
    · grind
    · by_cases h2 : i ∈ g.cleanup
      · grind
      · simp only [h1, h2, ↓reduceIte] at h; exact Or.inl h
  · simp only [mc.deps, mf.deps] at h; exact h

theorem adv_stageOne (g : G) (key : Nat) : Adv g (stageOne g key) := by
  unfold stageOne
  split
  · exact Adv.refl g
  · split
    · simp only
      split
      · split
        · refine ⟨fun i h => h, fun i h => Or.inl h, fun i x h => ?_⟩
          simp only [upd] at h
          split at h
          · rename_i hk; subst hk; exact (List.mem_filter.mp h).1
          · exact h
        · refine ⟨fun i h => ?_, fun i h => Or.inl h, fun i x h => ?_⟩
          · unfold Touched at h ⊢; simp only [List.mem_append]; grind
          · simp only [upd] at h
            split at h
            · rename_i hk; subst hk; exact (List.mem_filter.mp h).1
            · exact h
      · refine ⟨fun i h => h, fun i h => Or.inl h, fun i x h => ?_⟩
        simp only [upd] at h
        split at h
        · rename_i hk; subst hk; exact (List.mem_filter.mp h).1
        · exact h
    · exact Adv.refl g

theorem adv_stage (cfg : Cfg) (g : G) : Adv g (stage cfg g) := by
  unfold stage
  generalize List.range (cfg.n + 1) = keys
  induction keys generalizing g with
  | nil => exact Adv.refl g
  | cons k ks ih => simp only [List.foldl_cons]; exact (adv_stageOne g k).trans (ih _)

end MaestroVerif.Exec

namespace MaestroVerif.Exec
open MaestroVerif.Gen

theorem adv_executeRecord {cfg : Cfg} (wf : WFCfg cfg) (g : G) (i : Nat) (restart : Bool) :
    Adv g (executeRecord cfg g i restart) ∧ Touched (executeRecord cfg g i restart) i := by
  obtain ⟨ec, ei, ef, ecn, er, ecl, ecq, es, eic, ers⟩ := execPrep_fields cfg g i restart
  have edeps : (execPrep cfg g i restart).deps = g.deps := by unfold execPrep; split <;> simp [emit]
  unfold executeRecord
  simp only
  split
  · -- dry run
    refine ⟨⟨fun a h => ?_, fun a h => ?_, fun a x h => ?_⟩, ?_⟩
    · unfold Touched at h ⊢
      simp only [dryMark, setStatus, mem_ins, ec, ei, ef, ecn, er, ecl, ecq]; grind
    · simp only [dryMark, setStatus, upd, es] at h
      by_cases ha : a = i
      · exact Or.inr (Touched.c (by simp [dryMark, setStatus, ha]))
      · simp only [ha, ↓reduceIte] at h; exact Or.inl h
    · simpa [dryMark, setStatus, edeps] using h
    · exact Touched.c (by simp [dryMark, setStatus])
  · have fr := submitLoop_frame cfg i restart cfg.attempts (execPrep cfg g i restart)
    generalize submitLoop cfg i restart cfg.attempts (execPrep cfg g i restart) = r at fr
    have c1 : r.1.completed = g.completed := by rw [fr.completed, ec]
    have c2 : r.1.failed = g.failed := by rw [fr.failed, ef]
    have c3 : r.1.cancelled = g.cancelled := by rw [fr.cancelled, ecn]
    have c4 : r.1.inProgress = g.inProgress := by rw [fr.inProgress, ei]
    have c5 : r.1.ready = g.ready := by rw [fr.ready, er]
    have c6 : r.1.cleanup = g.cleanup := by rw [fr.cleanup, ecl]
    have c7 : r.1.cancelQ = g.cancelQ := by rw [fr.cancelQ, ecq]
    have c8 : r.1.deps = g.deps := by rw [fr.deps, edeps]
    have so : ∀ a, a ≠ i → r.1.status a = g.status a := fun a ha => by rw [fr.statusO a ha, es]
    unfold execFinish
    split
    · split
      · -- scheduled: tracked
        refine ⟨⟨fun a h => ?_, fun a h => ?_, fun a x h => ?_⟩, ?_⟩
        · unfold Touched at h ⊢; simp only [mem_ins, c1, c2, c3, c4, c5, c6, c7]; grind
        · by_cases ha : a = i
          · exact Or.inr (Touched.p (by simp [ha]))
          · simp only at h; rw [so a ha] at h; exact Or.inl h
        · simpa [c8] using h
        · exact Touched.p (by simp)
      · -- local: completed at once
        refine ⟨⟨fun a h => ?_, fun a h => ?_, fun a x h => ?_⟩, ?_⟩
        · unfold Touched at h ⊢
          simp only [setStatus, mem_ins, mem_rem, c1, c2, c3, c4, c5, c6, c7]; grind
        · simp only [setStatus, upd] at h
          by_cases ha : a = i
          · exact Or.inr (Touched.c (by simp [setStatus, ha]))
          · simp only [ha, ↓reduceIte] at h; rw [so a ha] at h; exact Or.inl h
        · simpa [setStatus, c8] using h
        · exact Touched.c (by simp [setStatus])
    · -- every attempt failed: the sub-tree is failed
      rw [failSubtree_eq]
      have m := markFailed_spec (subtree cfg i) { r.1 with inProgress := rem i r.1.inProgress }
      have hself := self_mem_subtree wf i
      refine ⟨⟨fun a h => ?_, fun a h => ?_, fun a x h => ?_⟩, ?_⟩
      · unfold Touched at h ⊢
        rw [m.completed, m.inProgress, m.cancelled, m.ready, m.cleanup, m.cancelQ, m.failed]
        simp only [mem_rem, c1, c2, c3, c4, c5, c6, c7]
        by_cases ha : a = i
        · subst ha; exact Or.inr (Or.inr (Or.inl (Or.inl hself)))
        · grind
      · rw [m.status] at h
        by_cases hx : a ∈ subtree cfg i
        · exact Or.inr (Touched.f ((m.failed a).mpr (Or.inl hx)))
        · simp only [hx, ↓reduceIte] at h
          have ha : a ≠ i := fun e => hx (e ▸ hself)
          rw [so a ha] at h; exact Or.inl h
      · rw [m.deps] at h; simpa [c8] using h
      · exact Touched.f ((m.failed i).mpr (Or.inl hself))

theorem adv_setStatus_of_touched (g : G) (i : Nat) (s : State) (h : Touched g i) :
    Adv g (setStatus g i s) := by
  refine ⟨fun a ha => ha, fun a ha => ?_, fun a x hx => hx⟩
  simp only [setStatus, upd] at ha
  by_cases e : a = i
  · subst e; exact Or.inr h
  · simp only [e, ↓reduceIte] at ha; exact Or.inl ha

theorem adv_report {cfg : Cfg} (wf : WFCfg cfg) (g : G) (i : Nat) (hi : i ∈ g.inProgress)
    (st : Option State) : Adv g (report cfg g i st) := by
  have hself := self_mem_subtree wf i
  -- the ghost ledger update changes nothing that `Adv` reads
  have ghost : ∀ (b : Bool), Adv g (if b then { g with live := rem i g.live } else g) := by
    intro b; cases b
    · exact Adv.refl g
    · exact ⟨fun _ h => h, fun _ h => Or.inl h, fun _ _ h => h⟩
  cases st with
  | none => simpa [report, terminal] using Adv.refl g
  | some s =>
    cases s
    case FINISHED =>
      simp only [report, terminal, setStatus, ↓reduceIte]
      refine ⟨fun a h => ?_, fun a h => ?_, fun a x h => h⟩
      · unfold Touched at h ⊢; simp only [mem_ins, mem_rem]; grind
      · simp only [upd] at h
        by_cases e : a = i
        · exact Or.inr (Touched.c (by simp [e]))
        · simp only [e, ↓reduceIte] at h; exact Or.inl h
    case RUNNING =>
      simp only [report, terminal, Bool.false_eq_true, ↓reduceIte]
      exact adv_setStatus_of_touched g i .RUNNING (Touched.p hi)
    case HWFAILURE =>
      simp only [report, terminal, ↓reduceIte]
      refine ⟨fun a h => ?_, fun a h => Or.inl h, fun a x h => h⟩
      unfold Touched at h ⊢; simp only [mem_rem, List.mem_append, List.mem_singleton]; grind
    case FAILED =>
      simp only [report, terminal, setStatus, ↓reduceIte]
      refine ⟨fun a h => ?_, fun a h => ?_, fun a x h => h⟩
      · unfold Touched at h ⊢; simp only [mem_rem, mem_insAll]; grind
      · simp only [upd] at h
        by_cases e : a = i
        · subst e; exact Or.inr (Touched.cl (by simp [hself]))
        · simp only [e, ↓reduceIte] at h; exact Or.inl h
    case UNKNOWN =>
      simp only [report, terminal, setStatus, ↓reduceIte]
      refine ⟨fun a h => ?_, fun a h => ?_, fun a x h => h⟩
      · unfold Touched at h ⊢; simp only [mem_rem, mem_insAll]; grind
      · simp only [upd] at h
        by_cases e : a = i
        · subst e; exact Or.inr (Touched.cl (by simp [hself]))
        · simp only [e, ↓reduceIte] at h; exact Or.inl h
    case CANCELLED =>
      simp only [report, terminal, setStatus, ↓reduceIte]
      refine ⟨fun a h => ?_, fun a h => ?_, fun a x h => h⟩
      · unfold Touched at h ⊢; simp only [mem_rem, mem_insAll]; grind
      · simp only [upd] at h
        by_cases e : a = i
        · subst e; exact Or.inr (Touched.cq (by simp [hself]))
        · simp only [e, ↓reduceIte] at h; exact Or.inl h
    case TIMEDOUT =>
      simp only [report, terminal, ↓reduceIte]
      split
      · split
        · -- restart
          have a1 : Adv g (setStatus { g with live := rem i g.live } i .TIMEDOUT) := by
            refine ⟨fun a h => h, fun a h => ?_, fun a x h => h⟩
            simp only [setStatus, upd] at h
            by_cases e : a = i
            · subst e; exact Or.inr (Touched.p hi)
            · simp only [e, ↓reduceIte] at h; exact Or.inl h
          have a2 : Adv (setStatus { g with live := rem i g.live } i .TIMEDOUT)
              { setStatus { g with live := rem i g.live } i .TIMEDOUT with
                restarts := upd (setStatus { g with live := rem i g.live } i .TIMEDOUT).restarts i
                  ((setStatus { g with live := rem i g.live } i .TIMEDOUT).restarts i + 1) } :=
            ⟨fun _ h => h, fun _ h => Or.inl h, fun _ _ h => h⟩
          exact (a1.trans a2).trans (adv_executeRecord wf _ i true).1
        · refine ⟨fun a h => ?_, fun a h => ?_, fun a x h => h⟩
          · unfold Touched at h ⊢; simp only [setStatus, mem_rem, mem_insAll]; grind
          · simp only [setStatus, upd] at h
            by_cases e : a = i
            · subst e; exact Or.inr (Touched.cl (by simp [hself]))
            · simp only [e, ↓reduceIte] at h; exact Or.inl h
      · refine ⟨fun a h => ?_, fun a h => ?_, fun a x h => h⟩
        · unfold Touched at h ⊢; simp only [setStatus, mem_rem, mem_insAll, mem_ins]; grind
        · simp only [setStatus, upd] at h
          by_cases e : a = i
          · exact Or.inr (Touched.f (by simp [setStatus, e]))
          · simp only [e, ↓reduceIte] at h; exact Or.inl h
    all_goals simpa [report, terminal] using Adv.refl g

end MaestroVerif.Exec

namespace MaestroVerif.Exec
open MaestroVerif.Gen

theorem adv_reports {cfg : Cfg} (wf : WFCfg cfg) : ∀ (rs : List (Nat × Option State)) (g : G),
    (rs.map (·.1)).Nodup → (∀ r, r ∈ rs → r.1 ∈ g.inProgress) →
    Adv g (rs.foldl (fun g r => report cfg g r.1 r.2) g) := by
  intro rs
  induction rs with
  | nil => intro g _ _; exact Adv.refl g
  | cons r rest ih =>
    intro g hn hm
    simp only [List.foldl_cons]
    simp only [List.map_cons, List.nodup_cons] at hn
    have h1 := adv_report wf g r.1 (hm r (by simp)) r.2
    refine h1.trans (ih _ hn.2 ?_)
    intro r' hr'
    have hne : r'.1 ≠ r.1 := by
      intro e; apply hn.1; rw [← e]; exact List.mem_map.mpr ⟨r', hr', rfl⟩
    exact report_inProgress_other cfg g r.1 r.2 hne (hm r' (by simp [hr']))

theorem adv_launch {cfg : Cfg} (wf : WFCfg cfg) : ∀ (k : Nat) (g : G), Adv g (launch cfg k g) := by
  intro k
  induction k with
  | zero => intro g; exact Adv.refl g
  | succ k ih =>
    intro g
    unfold launch
    split
    · exact Adv.refl g
    · rename_i i rest hr
      simp only
      split
      · refine Adv.trans ?_ (ih _)
        refine ⟨fun a h => ?_, fun a h => ?_, fun a x h => h⟩
        · unfold Touched at h ⊢
          simp only [setStatus, mem_ins]
          rw [hr] at h
          simp only [List.mem_cons] at h
          grind
        · simp only [setStatus, upd] at h
          by_cases e : a = i
          · exact Or.inr (Touched.x (by simp [setStatus, e]))
          · simp only [e, ↓reduceIte] at h; exact Or.inl h
      · obtain ⟨a1, t1⟩ := adv_executeRecord wf { g with ready := rest } i false
        refine Adv.trans ?_ (ih _)
        refine ⟨fun a h => ?_, fun a h => ?_, fun a x h => a1.deps a x h⟩
        · by_cases e : a = i
          · subst e; exact t1
          · apply a1.touched
            unfold Touched at h ⊢
            rw [hr] at h
            simp only [List.mem_cons] at h
            grind
        · rcases a1.status a h with h' | h'
          · exact Or.inl h'
          · exact Or.inr h'

theorem adv_poll {cfg : Cfg} (wf : WFCfg cfg) {g : G} {p : PollIn} (hp : WFPoll g p) :
    Adv g (poll cfg g p).1 := by
  unfold poll
  simp only
  by_cases hd : cfg.dry = true
  · simp only [hd, ↓reduceIte]
    exact (adv_stage cfg g).trans (adv_launch wf _ _)
  · have hd' : cfg.dry = false := by simpa using hd
    simp only [hd', Bool.false_eq_true, ↓reduceIte]
    have he := adv_emit g (Ev.check g.inProgress)
    cases hc : p.code with
    | ERROR => simp only; exact he
    | NOJOBS =>
      simp only
      exact he.trans ((adv_stage cfg _).trans (adv_launch wf _ _))
    | OK =>
      simp only
      have hr := adv_reports wf p.reports (emit g (Ev.check g.inProgress)) hp.nodup
        (by intro r hr; simpa [emit] using hp.mem r hr)
      exact he.trans (hr.trans ((adv_sweeps _).trans ((adv_stage cfg _).trans (adv_launch wf _ _))))

theorem adv_cancel (g : G) : Adv g (cancel g) :=
  ⟨fun _ h => h, fun _ h => Or.inl h, fun _ _ h => h⟩

/-- **Every reachable state**: a step that is in none of the bookkeeping sets
was never touched (its status is still `INITIALIZED`) and every dependency set
is a subset of the step's parents. -/
theorem InvU_reachable {cfg : Cfg} (wf : WFCfg' cfg) {g : G} (h : Reachable cfg g) : InvU cfg g := by
  induction h with
  | init => exact invU_init cfg
  | poll p _ hp ih => exact ih.adv (adv_poll wf.toWFCfg hp)
  | cancel _ ih => exact ih.adv (adv_cancel _)

end MaestroVerif.Exec

namespace MaestroVerif.Exec
open MaestroVerif.Gen

/-! ### the staging loop queues every eligible step -/

theorem stageOne_ready_mono (g : G) (key x : Nat) (h : x ∈ g.ready) : x ∈ (stageOne g key).ready := by
  unfold stageOne
  split
  · exact h
  · split
    · simp only
      split
      · split
        · exact h
        · simp [h]
      · exact h
    · exact h

theorem stage_ready_mono (cfg : Cfg) (g : G) (x : Nat) (h : x ∈ g.ready) : x ∈ (stage cfg g).ready := by
  unfold stage
  generalize List.range (cfg.n + 1) = keys
  induction keys generalizing g with
  | nil => exact h
  | cons k ks ih => simp only [List.foldl_cons]; exact ih _ (stageOne_ready_mono g k x h)

/-- the body of the staging loop, run for a step that was never touched and whose
parents are all complete, puts it in the queue -/
theorem stageOne_queues_eligible {cfg : Cfg} {g : G} {k : Nat} (hc : k ∉ g.completed)
    (hs : g.status k = .INITIALIZED) (hd : ∀ x, x ∈ g.deps k → x ∈ g.completed) :
    k ∈ (stageOne g k).ready := by
  unfold stageOne
  simp only [hc, ↓reduceIte, hs, beq_self_eq_true]
  have hempty : (g.deps k).filter (fun x => !(g.completed.contains x)) = [] := by
    apply List.filter_eq_nil_iff.mpr
    intro x hx
    simp [hd x hx]
  simp only [hempty, List.isEmpty_nil, ↓reduceIte]
  split
  · assumption
  · simp

theorem stage_queues_eligible_aux {cfg : Cfg} {k : Nat} : ∀ (keys : List Nat) (g : G),
    k ∈ keys → k ∉ g.completed → g.status k = .INITIALIZED →
    (∀ x, x ∈ g.deps k → x ∈ g.completed) → k ∈ (keys.foldl stageOne g).ready := by
  intro keys
  induction keys with
  | nil => intro g h; simp at h
  | cons a rest ih =>
    intro g hk hc hs hd
    simp only [List.foldl_cons]
    obtain ⟨s1, _, _, _, _, s6⟩ := stageOne_sets g a
    by_cases e : a = k
    · subst e
      have := stageOne_queues_eligible (cfg := cfg) hc hs hd
      -- the remaining keys never remove anything from the queue
      have mono : ∀ (ks : List Nat) (g1 : G), a ∈ g1.ready → a ∈ (ks.foldl stageOne g1).ready := by
        intro ks
        induction ks with
        | nil => intro g1 h; exact h
        | cons b bs ih2 => intro g1 h; simp only [List.foldl_cons]; exact ih2 _ (stageOne_ready_mono g1 b a h)
      exact mono rest _ this
    · have hk' : k ∈ rest := by
        rcases List.mem_cons.mp hk with h | h
        · exact absurd h.symm e
        · exact h
      apply ih _ hk'
      · rw [s1]; exact hc
      · rw [s6]; exact hs
      · intro x hx
        rw [s1]
        exact hd x ((adv_stageOne g a).deps k x hx)

/-- **The staging loop queues every untouched step whose parents are complete.** -/
theorem stage_queues_eligible {cfg : Cfg} {g : G} (hU : InvU cfg g) {k : Nat} (hk : k ≤ cfg.n)
    (hc : k ∉ g.completed) (hs : g.status k = .INITIALIZED)
    (hp : ∀ p, p ∈ cfg.parents k → p ∈ g.completed) : k ∈ (stage cfg g).ready := by
  unfold stage
  apply stage_queues_eligible_aux (cfg := cfg) _ g (by simp; omega) hc hs
  intro x hx
  exact hp x (hU.depsSub k x hx)

/-! ### a minimal unresolved step -/

theorem exists_minimal {cfg : Cfg} (wf : WFCfg cfg) (ha : Dag.Acyclic cfg.dag) (S : Nat → Prop)
    {k : Nat} (hk : S k) : ∃ m, S m ∧ ∀ p, p ∈ cfg.parents m → ¬ S p := by
  obtain ⟨l, _, _, hrank⟩ := C14.C14_toposort cfg.dag wf.dagwf ha
  have key : ∀ r k, l.idxOf k = r → S k → ∃ m, S m ∧ ∀ p, p ∈ cfg.parents m → ¬ S p := by
    intro r
    induction r using Nat.strongRecOn with
    | _ r ih =>
      intro k hr hk
      by_cases hex : ∃ p, p ∈ cfg.parents k ∧ S p
      · obtain ⟨p, hp, hsp⟩ := hex
        have : l.idxOf p < l.idxOf k := hrank p k ((wf.par p k).mpr hp)
        exact ih (l.idxOf p) (by omega) p rfl hsp
      · exact ⟨k, hk, fun p hp hsp => hex ⟨p, hp, hsp⟩⟩
  exact key _ k rfl hk

end MaestroVerif.Exec

namespace MaestroVerif.Exec
open MaestroVerif.Gen

/-! ### the measure: how many steps are not resolved yet -/

def Resolved (g : G) (k : Nat) : Prop := k ∈ g.completed ∨ k ∈ g.failed ∨ k ∈ g.cancelled

def resolvedB (g : G) (k : Nat) : Bool :=
  g.completed.contains k || g.failed.contains k || g.cancelled.contains k

theorem resolvedB_iff (g : G) (k : Nat) : resolvedB g k = true ↔ Resolved g k := by
  simp [resolvedB, Resolved, or_assoc]

def unresolved (cfg : Cfg) (g : G) : Nat :=
  ((List.range (cfg.n + 1)).filter (fun k => !resolvedB g k)).length

theorem Grow.resolved {g g' : G} (h : Grow g g') {k : Nat} (hk : Resolved g k) : Resolved g' k := by
  rcases hk with h1 | h1 | h1
  · exact Or.inl (h.completed k h1)
  · exact Or.inr (Or.inl (h.failed k h1))
  · exact Or.inr (Or.inr (h.cancelled k h1))

theorem filter_length_le {p q : Nat → Bool} : ∀ (l : List Nat), (∀ k, k ∈ l → q k = true → p k = true) →
    (l.filter q).length ≤ (l.filter p).length := by
  intro l
  induction l with
  | nil => intro _; simp
  | cons a as ih =>
    intro h
    have ih' := ih (fun k hk => h k (List.mem_cons_of_mem _ hk))
    by_cases hq : q a = true
    · have hp := h a (by simp) hq
      simp [List.filter_cons, hq, hp]; omega
    · by_cases hp : p a = true
      · simp [List.filter_cons, hq, hp]; omega
      · simp [List.filter_cons, hq, hp]; omega

theorem filter_length_lt {p q : Nat → Bool} : ∀ (l : List Nat), (∀ k, k ∈ l → q k = true → p k = true) →
    (∃ i, i ∈ l ∧ p i = true ∧ q i = false) → (l.filter q).length < (l.filter p).length := by
  intro l
  induction l with
  | nil => intro _ h; obtain ⟨i, hi, _⟩ := h; simp at hi
  | cons a as ih =>
    intro h hex
    have hle := filter_length_le as (fun k hk => h k (List.mem_cons_of_mem _ hk))
    obtain ⟨i, hi, hpi, hqi⟩ := hex
    by_cases hq : q a = true
    · have hp := h a (by simp) hq
      have hia : i ≠ a := by intro e; subst e; rw [hq] at hqi; cases hqi
      have hi' : i ∈ as := by
        rcases List.mem_cons.mp hi with e | e
        · exact absurd e hia
        · exact e
      have := ih (fun k hk => h k (List.mem_cons_of_mem _ hk)) ⟨i, hi', hpi, hqi⟩
      simp [List.filter_cons, hq, hp]; omega
    · by_cases hp : p a = true
      · simp [List.filter_cons, hq, hp]; omega
      · have hia : i ≠ a := by intro e; subst e; exact hp hpi
        have hi' : i ∈ as := by
          rcases List.mem_cons.mp hi with e | e
          · exact absurd e hia
          · exact e
        have := ih (fun k hk => h k (List.mem_cons_of_mem _ hk)) ⟨i, hi', hpi, hqi⟩
        simp [List.filter_cons, hq, hp]; omega

theorem unresolved_le {cfg : Cfg} {g g' : G} (h : Grow g g') : unresolved cfg g' ≤ unresolved cfg g := by
  unfold unresolved
  apply filter_length_le
  intro k _ hk
  simp only [Bool.not_eq_true', ← Bool.not_eq_true] at hk ⊢
  intro hr
  exact hk ((resolvedB_iff g' k).mpr (h.resolved ((resolvedB_iff g k).mp hr)))

theorem unresolved_lt {cfg : Cfg} {g g' : G} (h : Grow g g') {i : Nat} (hi : i ≤ cfg.n)
    (h0 : ¬ Resolved g i) (h1 : Resolved g' i) : unresolved cfg g' < unresolved cfg g := by
  unfold unresolved
  apply filter_length_lt
  · intro k _ hk
    simp only [Bool.not_eq_true', ← Bool.not_eq_true] at hk ⊢
    intro hr
    exact hk ((resolvedB_iff g' k).mpr (h.resolved ((resolvedB_iff g k).mp hr)))
  · refine ⟨i, by simp; omega, ?_, ?_⟩
    · simp only [Bool.not_eq_true', ← Bool.not_eq_true]
      exact fun hr => h0 ((resolvedB_iff g i).mp hr)
    · simp [(resolvedB_iff g' i).mpr h1]

theorem unresolved_zero_iff (cfg : Cfg) (g : G) :
    unresolved cfg g = 0 ↔ ∀ k, k ≤ cfg.n → Resolved g k := by
  unfold unresolved
  rw [List.length_eq_zero_iff, List.filter_eq_nil_iff]
  constructor
  · intro h k hk
    have := h k (by simp; omega)
    simp only [Bool.not_eq_true, Bool.not_eq_false'] at this
    exact (resolvedB_iff g k).mp this
  · intro h k hk
    simp only [List.mem_range] at hk
    simp [(resolvedB_iff g k).mpr (h k (by omega))]

/-! ### decisive answers -/

/-- a scheduler answer that ends the job for good (no restart, no re-queue) -/
def decisiveState (st : Option State) : Prop :=
  st = some .FINISHED ∨ st = some .FAILED ∨ st = some .UNKNOWN ∨ st = some .CANCELLED

/-- waiting for a sweep or already resolved -/
def Settled (g : G) (k : Nat) : Prop := k ∈ g.completed ∨ k ∈ g.cleanup ∨ k ∈ g.cancelQ

theorem report_settles {cfg : Cfg} (wf : WFCfg cfg) (g : G) (i : Nat) {st : Option State}
    (hs : decisiveState st) : Settled (report cfg g i st) i := by
  have hself := self_mem_subtree wf i
  rcases hs with h | h | h | h <;> subst h <;>
    simp only [report, terminal, setStatus, ↓reduceIte, Settled, mem_ins, mem_insAll] <;> simp [hself]

theorem report_settled_mono {cfg : Cfg} (g : G) (i : Nat) {st : Option State}
    (hs : decisiveState st) {k : Nat} (hk : Settled g k) : Settled (report cfg g i st) k := by
  rcases hs with h | h | h | h <;> subst h <;>
    simp only [report, terminal, setStatus, ↓reduceIte, Settled, mem_ins, mem_insAll] <;>
    unfold Settled at hk <;> grind

theorem reports_settle {cfg : Cfg} (wf : WFCfg cfg) : ∀ (rs : List (Nat × Option State)) (g : G),
    (∀ r, r ∈ rs → decisiveState r.2) →
    (∀ k, Settled g k → Settled (rs.foldl (fun g r => report cfg g r.1 r.2) g) k) ∧
    (∀ r, r ∈ rs → Settled (rs.foldl (fun g r => report cfg g r.1 r.2) g) r.1) := by
  intro rs
  induction rs with
  | nil => intro g _; exact ⟨fun _ h => h, fun r hr => by simp at hr⟩
  | cons r rest ih =>
    intro g hd
    simp only [List.foldl_cons]
    obtain ⟨m, s⟩ := ih (report cfg g r.1 r.2) (fun r' hr' => hd r' (List.mem_cons_of_mem _ hr'))
    have hdr := hd r (by simp)
    refine ⟨fun k hk => m k (report_settled_mono g r.1 hdr hk), fun r' hr' => ?_⟩
    rcases List.mem_cons.mp hr' with e | e
    · subst e; exact m _ (report_settles wf g r'.1 hdr)
    · exact s r' e

theorem sweeps_resolves (g : G) {k : Nat} (h : Settled g k) : Resolved (sweeps g) k := by
  rw [sweeps_eq]
  have mf := markFailed_spec g.cleanup g
  have mc := markCancelled_spec g.cancelQ (markFailed g.cleanup g)
  unfold Resolved
  simp only [mc.completed, mf.completed, mc.failed]
  rcases h with h | h | h
  · exact Or.inl h
  · exact Or.inr (Or.inl ((mf.failed k).mpr (Or.inl h)))
  · exact Or.inr (Or.inr ((mc.cancelled k).mpr (Or.inl h)))

end MaestroVerif.Exec

namespace MaestroVerif.Exec
open MaestroVerif.Gen

/-! ### launching makes progress -/

/-- whatever happens to a launched step, it is tracked or resolved afterwards -/
theorem executeRecord_outcome {cfg : Cfg} (wf : WFCfg cfg) (g : G) (i : Nat) (restart : Bool) :
    i ∈ (executeRecord cfg g i restart).inProgress ∨ Resolved (executeRecord cfg g i restart) i := by
  obtain ⟨ec, ei, ef, ecn, er, ecl, ecq, es, eic, ers⟩ := execPrep_fields cfg g i restart
  unfold executeRecord
  simp only
  split
  · right; left; simp [dryMark, setStatus]
  · generalize submitLoop cfg i restart cfg.attempts (execPrep cfg g i restart) = r
    unfold execFinish
    split
    · split
      · left; simp
      · right; left; simp [setStatus]
    · right; right; left
      rw [failSubtree_eq]
      exact ((markFailed_spec (subtree cfg i) _).failed i).mpr (Or.inl (self_mem_subtree wf i))

theorem launch_keeps_inProgress (cfg : Cfg) {i : Nat} : ∀ (k : Nat) (g : G),
    i ∈ g.inProgress → i ∉ g.ready → i ∈ (launch cfg k g).inProgress := by
  intro k
  induction k with
  | zero => intro g h _; exact h
  | succ k ih =>
    intro g h hr
    unfold launch
    split
    · exact h
    · rename_i j rest hj
      have hij : i ≠ j := by intro e; apply hr; rw [hj, e]; simp
      have hir : i ∉ rest := by intro e; apply hr; rw [hj]; simp [e]
      simp only
      split
      · apply ih
        · simpa [setStatus] using h
        · simpa [setStatus] using hir
      · obtain ⟨f1, _, _, _, f5, _, _⟩ := executeRecord_frame cfg { g with ready := rest } j false
        apply ih
        · exact (f1 i hij).mpr h
        · rw [f5]; exact hir

/-- **Launching from a non-empty queue makes progress**: either some step that
was unresolved is resolved afterwards, or something is tracked afterwards. -/
theorem launch_progress {cfg : Cfg} (wf : WFCfg cfg) {g : G} (h : InvA cfg g) {k : Nat} (hk : 0 < k)
    (hr : g.ready ≠ []) :
    (∃ j, j ≤ cfg.n ∧ ¬ Resolved g j ∧ Resolved (launch cfg k g) j) ∨ (launch cfg k g).inProgress ≠ [] := by
  obtain ⟨k', rfl⟩ : ∃ k', k = k' + 1 := ⟨k - 1, by omega⟩
  unfold launch
  cases hq : g.ready with
  | nil => exact absurd hq hr
  | cons i rest =>
    simp only
    have hi : i ∈ g.ready := by rw [hq]; simp
    have hle : i ≤ cfg.n := h.bnd i (Or.inr (Or.inr (Or.inr (Or.inr (Or.inl hi)))))
    have hnr : ¬ Resolved g i := by
      intro hres
      rcases hres with h1 | h1 | h1
      · exact (h.cD i h1).2.2 hi
      · exact (h.rD i hi).1 h1
      · exact (h.rD i hi).2 h1
    have hnodup : i ∉ rest := by
      have := h.rN; rw [hq] at this; exact (List.nodup_cons.mp this).1
    split
    · left
      refine ⟨i, hle, hnr, ?_⟩
      have gr := (launch_completed cfg k'
        (setStatus { g with ready := rest, cancelled := ins i g.cancelled } i .CANCELLED)).1
      exact gr.resolved (Or.inr (Or.inr (by simp [setStatus])))
    · rcases executeRecord_outcome wf { g with ready := rest } i false with hin | hres
      · right
        obtain ⟨_, _, _, _, f5, _, _⟩ := executeRecord_frame cfg { g with ready := rest } i false
        have := launch_keeps_inProgress cfg k' _ hin (by rw [f5]; exact hnodup)
        intro he; rw [he] at this; simp at this
      · left
        refine ⟨i, hle, hnr, ?_⟩
        exact (launch_completed cfg k' _).1.resolved hres

end MaestroVerif.Exec

namespace MaestroVerif.Exec
open MaestroVerif.Gen

/-! ### one decisive poll makes progress -/

theorem launch_nil (cfg : Cfg) (k : Nat) (g : G) (h : g.ready = []) : launch cfg k g = g := by
  cases k with
  | zero => rfl
  | succ k => unfold launch; simp [h]

theorem verdict_final_of {cfg : Cfg} {g : G}
    (h : (g.isCanceled = true ∧ g.inProgress = []) ∨ ∀ k, k ≤ cfg.n → Resolved g k) :
    verdict cfg g ≠ .RUNNING := by
  unfold verdict
  rcases h with ⟨h1, h2⟩ | h
  · simp [h1, h2]
  · split
    · simp
    · have hall : (List.range (cfg.n + 1)).all
          (fun k => g.completed.contains k || g.failed.contains k || g.cancelled.contains k) = true := by
        simp only [List.all_eq_true, List.mem_range]
        intro k hk
        have := (resolvedB_iff g k).mpr (h k (by omega))
        simpa [resolvedB] using this
      simp only [hall, ↓reduceIte]
      repeat' split
      all_goals simp

/-- the tail of a poll (staging and launching) from a state in which nothing is
tracked and the sweeps are done: the study is over, or a step gets resolved, or
something is tracked afterwards -/
theorem tail_progress {cfg : Cfg} (wf : WFCfg cfg) (ha : Dag.Acyclic cfg.dag) {g : G}
    (hA : InvA cfg g) (hU : InvU cfg g) (hq : g.cleanup = [] ∧ g.cancelQ = [])
    (hip : g.inProgress = [])
    (hcl : (launch cfg (available cfg (stage cfg g)) (stage cfg g)).isCanceled = false →
      Closed cfg (launch cfg (available cfg (stage cfg g)) (stage cfg g))) :
    verdict cfg (launch cfg (available cfg (stage cfg g)) (stage cfg g)) ≠ .RUNNING ∨
    (∃ j, j ≤ cfg.n ∧ ¬ Resolved g j ∧
      Resolved (launch cfg (available cfg (stage cfg g)) (stage cfg g)) j) ∨
    (launch cfg (available cfg (stage cfg g)) (stage cfg g)).inProgress ≠ [] := by
  obtain ⟨s1, s2, s3, s4, s5⟩ := inv_stage hA hq
  obtain ⟨c1, c2, c3, _, _, c6⟩ := stage_sets cfg g
  by_cases hr : (stage cfg g).ready = []
  · -- nothing to launch: the study is over
    left
    rw [launch_nil cfg _ _ hr] at hcl ⊢
    apply verdict_final_of
    by_cases hc : (stage cfg g).isCanceled = true
    · exact Or.inl ⟨hc, by rw [s4]; exact hip⟩
    · right
      have hclosed := hcl (by simpa using hc)
      refine Classical.byContradiction fun hnot => ?_
      have hex : ∃ k, k ≤ cfg.n ∧ ¬ Resolved (stage cfg g) k := by
        refine Classical.byContradiction fun hne => hnot fun k hk => ?_
        exact Classical.byContradiction fun hk' => hne ⟨k, hk, hk'⟩
      obtain ⟨k, hk⟩ := hex
      obtain ⟨m, ⟨hm, hmr⟩, hpar⟩ := exists_minimal wf ha
        (fun k => k ≤ cfg.n ∧ ¬ Resolved (stage cfg g) k) hk
      -- every parent of m is complete
      have hpc : ∀ p, p ∈ cfg.parents m → p ∈ g.completed := by
        intro p hp
        have hedge : m ∈ cfg.dag.adj p := (wf.par p m).mpr hp
        have hpn : p ≤ cfg.n := (wf.nodes p).mp (wf.dagwf.src p m hedge)
        have hres : Resolved (stage cfg g) p := Classical.byContradiction fun h => hpar p hp ⟨hpn, h⟩
        rcases hres with h1 | h1 | h1
        · rw [c1] at h1; exact h1
        · exact absurd ((hclosed p m (Or.inl h1) hedge).elim (fun h => Or.inr (Or.inl h))
            (fun h => Or.inr (Or.inr h))) hmr
        · exact absurd ((hclosed p m (Or.inr h1) hedge).elim (fun h => Or.inr (Or.inl h))
            (fun h => Or.inr (Or.inr h))) hmr
      have hmc : m ∉ g.completed := fun h => hmr (Or.inl (by rw [c1]; exact h))
      have hst : g.status m = .INITIALIZED := by
        refine Classical.byContradiction fun hne => ?_
        rcases hU.fresh m hne with h1 | h1 | h1 | h1 | h1 | h1 | h1
        · exact hmc h1
        · rw [hip] at h1; simp at h1
        · exact hmr (Or.inr (Or.inl (by rw [c2]; exact h1)))
        · exact hmr (Or.inr (Or.inr (by rw [c3]; exact h1)))
        · have := stage_ready_mono cfg g m h1; rw [hr] at this; simp at this
        · rw [hq.1] at h1; simp at h1
        · rw [hq.2] at h1; simp at h1
      have := stage_queues_eligible hU hm hmc hst hpc
      rw [hr] at this; simp at this
  · -- something is queued and a slot is free
    have hav : 0 < available cfg (stage cfg g) := by
      unfold available
      have hlen : 0 < (stage cfg g).ready.length := List.length_pos_iff.mpr hr
      split
      · exact hlen
      · rename_i ht
        have ht' : cfg.throttle ≠ 0 := by simpa using ht
        rw [s4, hip]
        simp only [List.length_nil, Nat.sub_zero]
        omega
    rcases launch_progress wf s1 hav hr with ⟨j, hj, hn, hres⟩ | hin
    · right; left
      refine ⟨j, hj, fun h => hn ?_, hres⟩
      rcases h with h1 | h1 | h1
      · exact Or.inl (by rw [c1]; exact h1)
      · exact Or.inr (Or.inl (by rw [c2]; exact h1))
      · exact Or.inr (Or.inr (by rw [c3]; exact h1))
    · exact Or.inr (Or.inr hin)

end MaestroVerif.Exec

namespace MaestroVerif.Exec
open MaestroVerif.Gen

/-- a poll in which the scheduler answers every tracked job, each with an answer
that ends the job for good -/
structure Decisive (g : G) (p : PollIn) : Prop where
  ok    : p.code = .OK
  wf    : WFPoll g p
  all   : ∀ i, i ∈ g.inProgress → ∃ r, r ∈ p.reports ∧ r.1 = i
  final : ∀ r, r ∈ p.reports → decisiveState r.2

theorem sweeps_idle (g : G) (h1 : g.cleanup = []) (h2 : g.cancelQ = []) :
    (sweeps g).completed = g.completed ∧ (sweeps g).failed = g.failed ∧
    (sweeps g).cancelled = g.cancelled ∧ (sweeps g).inProgress = g.inProgress := by
  simp [sweeps, h1, h2]

theorem decisive_progress {cfg : Cfg} (wf : WFCfg' cfg) (ha : Dag.Acyclic cfg.dag) {g : G}
    (hr : Reachable cfg g) {p : PollIn} (hd : Decisive g p) :
    verdict cfg (poll cfg g p).1 ≠ .RUNNING ∨
    unresolved cfg (poll cfg g p).1 < unresolved cfg g ∨
    (unresolved cfg (poll cfg g p).1 ≤ unresolved cfg g ∧ g.inProgress = [] ∧
      (poll cfg g p).1.inProgress ≠ []) := by
  have hI := Inv_reachable wf hr
  have hU := InvU_reachable wf hr
  have hgrow := (poll_completed cfg g p).1
  have hcl := closed_reachable wf (Reachable.poll p hr hd.wf)
  -- from a resolution to the measure
  have fin : ∀ j, j ≤ cfg.n → ¬ Resolved g j → Resolved (poll cfg g p).1 j →
      unresolved cfg (poll cfg g p).1 < unresolved cfg g :=
    fun j hj h0 h1 => unresolved_lt hgrow hj h0 h1
  by_cases hip : g.inProgress = []
  · -- nothing tracked: the tail decides
    have hnorep : p.reports = [] := by
      cases hrep : p.reports with
      | nil => rfl
      | cons r rest =>
        have := hd.wf.mem r (by rw [hrep]; simp)
        rw [hip] at this; simp at this
    have tail : ∀ g0 : G, InvA cfg g0 → InvU cfg g0 → g0.cleanup = [] ∧ g0.cancelQ = [] →
        g0.inProgress = [] → (∀ j, Resolved g j → Resolved g0 j) →
        (poll cfg g p).1 = launch cfg (available cfg (stage cfg g0)) (stage cfg g0) →
        verdict cfg (poll cfg g p).1 ≠ .RUNNING ∨
        unresolved cfg (poll cfg g p).1 < unresolved cfg g ∨
        (unresolved cfg (poll cfg g p).1 ≤ unresolved cfg g ∧ g.inProgress = [] ∧
          (poll cfg g p).1.inProgress ≠ []) := by
      intro g0 a0 u0 q0 i0 hsub heq
      rw [heq] at hcl
      rcases tail_progress wf.toWFCfg ha a0 u0 q0 i0 hcl with h | ⟨j, hj, hn, hrj⟩ | h
      · left; rw [heq]; exact h
      · right; left
        exact fin j hj (fun h => hn (hsub j h)) (by rw [heq]; exact hrj)
      · right; right
        exact ⟨unresolved_le hgrow, hip, by rw [heq]; exact h⟩
    by_cases hdry : cfg.dry = true
    · apply tail g hI.toInvA hU ⟨hI.noClean, hI.noCancQ⟩ hip (fun _ h => h)
      unfold poll
      simp [hdry]
    · have hdry' : cfg.dry = false := by simpa using hdry
      have he := inv_emit hI.toInvA (Ev.check g.inProgress)
      have hs := inv_sweeps he
      have ue := (hU.adv (adv_emit g (Ev.check g.inProgress))).adv
        (adv_sweeps (emit g (Ev.check g.inProgress)))
      obtain ⟨w1, w2, w3, w4⟩ := sweeps_idle (emit g (Ev.check g.inProgress))
        (by simpa [emit] using hI.noClean) (by simpa [emit] using hI.noCancQ)
      apply tail (sweeps (emit g (Ev.check g.inProgress))) hs ue (by simp [sweeps])
        (by rw [w4]; simpa [emit] using hip)
      · intro j hj
        unfold Resolved at hj ⊢
        rw [w1, w2, w3]
        simpa [emit] using hj
      · unfold poll
        simp [hdry', hd.ok, hnorep]
  · -- something is tracked: its job is answered for good
    obtain ⟨i, hi⟩ := List.exists_mem_of_ne_nil _ hip
    have hdry' : cfg.dry = false := by
      cases hc : cfg.dry with
      | false => rfl
      | true => exact absurd (hI.dryIdle hc) hip
    obtain ⟨r, hrm, hri⟩ := hd.all i hi
    right; left
    have hle : i ≤ cfg.n := hI.toInvA.bnd i (Or.inr (Or.inl hi))
    have hnr : ¬ Resolved g i := by
      obtain ⟨d1, d2, d3, _⟩ := hI.toInvA.ipD i hi
      intro h
      rcases h with h | h | h
      · exact d1 h
      · exact d2 h
      · exact d3 h
    apply fin i hle hnr
    unfold poll
    simp only [hdry', Bool.false_eq_true, ↓reduceIte, hd.ok]
    have hset := (reports_settle wf.toWFCfg p.reports (emit g (Ev.check g.inProgress)) hd.final).2 r hrm
    rw [hri] at hset
    have hres := sweeps_resolves _ hset
    obtain ⟨c1, c2, c3, _⟩ := stage_sets cfg (sweeps (p.reports.foldl (fun g r => report cfg g r.1 r.2)
      (emit g (Ev.check g.inProgress))))
    have hst : Resolved (stage cfg (sweeps (p.reports.foldl (fun g r => report cfg g r.1 r.2)
        (emit g (Ev.check g.inProgress))))) i := by
      unfold Resolved at hres ⊢
      rw [c1, c2, c3]; exact hres
    exact (launch_completed cfg _ _).1.resolved hst

/-! ### termination under decisive polls -/

/-- the lexicographic measure: unresolved steps, then "nothing tracked" -/
def idle (g : G) : Nat := if g.inProgress = [] then 1 else 0

/-- a run of decisive polls -/
def runPolls (cfg : Cfg) (g : G) : List PollIn → G
  | [] => g
  | p :: ps => runPolls cfg (poll cfg g p).1 ps

inductive DecisiveRun (cfg : Cfg) : G → List PollIn → Prop
  | nil (g : G) : DecisiveRun cfg g []
  | cons {g : G} {p : PollIn} {ps : List PollIn} : Decisive g p →
      DecisiveRun cfg (poll cfg g p).1 ps → DecisiveRun cfg g (p :: ps)

/-- **Termination**: from any reachable state, a run of decisive polls reaches a
final verdict within `2 * unresolved + idle` polls. -/
theorem decisive_terminates {cfg : Cfg} (wf : WFCfg' cfg) (ha : Dag.Acyclic cfg.dag) :
    ∀ (m : Nat) (g : G), Reachable cfg g → 2 * unresolved cfg g + idle g ≤ m →
      ∀ ps, DecisiveRun cfg g ps → m < ps.length →
        ∃ k, k < ps.length ∧ verdict cfg (runPolls cfg g (ps.take (k + 1))) ≠ .RUNNING := by
  intro m
  induction m using Nat.strongRecOn with
  | _ m ih =>
    intro g hr hm ps hrun hlen
    cases hrun with
    | nil => simp at hlen
    | cons hd htail =>
      rename_i p ps'
      rcases decisive_progress wf ha hr hd with hfin | hlt | ⟨hle, hip, hnip⟩
      · exact ⟨0, by simp, by simpa [runPolls] using hfin⟩
      · -- the measure dropped
        have hr' := Reachable.poll p hr hd.wf
        have hm' : 2 * unresolved cfg (poll cfg g p).1 + idle (poll cfg g p).1 < m := by
          have : idle (poll cfg g p).1 ≤ 1 := by unfold idle; split <;> omega
          have : idle g ≤ 1 := by unfold idle; split <;> omega
          omega
        have hlen' : 2 * unresolved cfg (poll cfg g p).1 + idle (poll cfg g p).1 < ps'.length := by
          simp only [List.length_cons] at hlen; omega
        obtain ⟨k, hk, hv⟩ := ih _ hm' (poll cfg g p).1 hr' (Nat.le_refl _) ps' htail hlen'
        exact ⟨k + 1, by simp only [List.length_cons]; omega, by simpa [runPolls] using hv⟩
      · have hr' := Reachable.poll p hr hd.wf
        have h1 : idle g = 1 := by simp [idle, hip]
        have h0 : idle (poll cfg g p).1 = 0 := by simp [idle, hnip]
        have hm' : 2 * unresolved cfg (poll cfg g p).1 + idle (poll cfg g p).1 < m := by omega
        have hlen' : 2 * unresolved cfg (poll cfg g p).1 + idle (poll cfg g p).1 < ps'.length := by
          simp only [List.length_cons] at hlen; omega
        obtain ⟨k, hk, hv⟩ := ih _ hm' (poll cfg g p).1 hr' (Nat.le_refl _) ps' htail hlen'
        exact ⟨k + 1, by simp only [List.length_cons]; omega, by simpa [runPolls] using hv⟩

end MaestroVerif.Exec
