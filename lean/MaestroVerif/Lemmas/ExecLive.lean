import MaestroVerif.Lemmas.ExecClosed
import MaestroVerif.Lemmas.ExecMore

/-! Liveness infrastructure for C05: a step that was never touched is still
`INITIALIZED` and its dependency set is a subset of its parents (`InvU`), a step
never leaves the union of the bookkeeping sets (`Adv`), the staging loop queues
every untouched step whose parents are complete, and a decisive poll makes
progress. -/
namespace MaestroVerif.Exec
open MaestroVerif.Gen

/-- the step is somewhere in the bookkeeping -/
def Touched (g : G) (i : Nat) : Prop :=
  i ∈ g.completed ∨ i ∈ g.inProgress ∨ i ∈ g.failed ∨ i ∈ g.cancelled ∨ i ∈ g.ready ∨
    i ∈ g.cleanup ∨ i ∈ g.cancelQ

theorem Touched.c {g : G} {i : Nat} (h : i ∈ g.completed) : Touched g i := Or.inl h
theorem Touched.p {g : G} {i : Nat} (h : i ∈ g.inProgress) : Touched g i := Or.inr (Or.inl h)
theorem Touched.f {g : G} {i : Nat} (h : i ∈ g.failed) : Touched g i := Or.inr (Or.inr (Or.inl h))
theorem Touched.x {g : G} {i : Nat} (h : i ∈ g.cancelled) : Touched g i :=
  Or.inr (Or.inr (Or.inr (Or.inl h)))
theorem Touched.r {g : G} {i : Nat} (h : i ∈ g.ready) : Touched g i :=
  Or.inr (Or.inr (Or.inr (Or.inr (Or.inl h))))
theorem Touched.cl {g : G} {i : Nat} (h : i ∈ g.cleanup) : Touched g i :=
  Or.inr (Or.inr (Or.inr (Or.inr (Or.inr (Or.inl h)))))
theorem Touched.cq {g : G} {i : Nat} (h : i ∈ g.cancelQ) : Touched g i :=
  Or.inr (Or.inr (Or.inr (Or.inr (Or.inr (Or.inr h)))))

/-- one piece of `execute_ready_steps` advanced the state: no step left the
bookkeeping, a status was only written for a step that is in it, dependency sets
only shrank -/
structure Adv (g g' : G) : Prop where
  touched : ∀ i, Touched g i → Touched g' i
  status  : ∀ i, g'.status i ≠ .INITIALIZED → g.status i ≠ .INITIALIZED ∨ Touched g' i
  deps    : ∀ i x, x ∈ g'.deps i → x ∈ g.deps i

theorem Adv.refl (g : G) : Adv g g := ⟨fun _ h => h, fun _ h => Or.inl h, fun _ _ h => h⟩

theorem Adv.trans {g1 g2 g3 : G} (a : Adv g1 g2) (b : Adv g2 g3) : Adv g1 g3 := by
  refine ⟨fun i h => b.touched i (a.touched i h), fun i h => ?_, fun i x h => a.deps i x (b.deps i x h)⟩
  rcases b.status i h with h2 | h2
  · rcases a.status i h2 with h1 | h1
    · exact Or.inl h1
    · exact Or.inr (b.touched i h1)
  · exact Or.inr h2

structure InvU (cfg : Cfg) (g : G) : Prop where
  depsSub : ∀ i x, x ∈ g.deps i → x ∈ cfg.parents i
  fresh   : ∀ i, g.status i ≠ .INITIALIZED → Touched g i

theorem InvU.adv {cfg : Cfg} {g g' : G} (h : InvU cfg g) (a : Adv g g') : InvU cfg g' := by
  refine ⟨fun i x hx => h.depsSub i x (a.deps i x hx), fun i hi => ?_⟩
  rcases a.status i hi with h1 | h1
  · exact a.touched i (h.fresh i h1)
  · exact h1

theorem invU_init (cfg : Cfg) : InvU cfg (init cfg) :=
  ⟨fun _ _ h => h, fun i h => by simp [init] at h⟩

/-! ### the pieces -/

theorem adv_emit (g : G) (e : Ev) : Adv g (emit g e) :=
  ⟨fun _ h => h, fun _ h => Or.inl h, fun _ _ h => h⟩

theorem adv_markFailed (xs : List Nat) (g : G) : Adv g (markFailed xs g) := by
  have m := markFailed_spec xs g
  refine ⟨fun i h => ?_, fun i h => ?_, fun i x h => by rw [m.deps] at h; exact h⟩
  · unfold Touched at h ⊢
    rw [m.completed, m.inProgress, m.cancelled, m.ready, m.cleanup, m.cancelQ, m.failed]
    grind
  · unfold Touched
    rw [m.status] at h
    rw [m.failed]
    by_cases hx : i ∈ xs
    · exact Or.inr (Or.inr (Or.inr (Or.inl (Or.inl hx))))
    · simp only [hx, ↓reduceIte] at h; exact Or.inl h

theorem adv_markCancelled (xs : List Nat) (g : G) : Adv g (markCancelled xs g) := by
  have m := markCancelled_spec xs g
  refine ⟨fun i h => ?_, fun i h => ?_, fun i x h => by rw [m.deps] at h; exact h⟩
  · unfold Touched at h ⊢
    rw [m.completed, m.inProgress, m.failed, m.ready, m.cleanup, m.cancelQ, m.cancelled]
    grind
  · unfold Touched
    rw [m.status] at h
    rw [m.cancelled]
    by_cases hx : i ∈ xs
    · exact Or.inr (Or.inr (Or.inr (Or.inr (Or.inl (Or.inl hx)))))
    · simp only [hx, ↓reduceIte] at h; exact Or.inl h

theorem adv_sweeps (g : G) : Adv g (sweeps g) := by
  rw [sweeps_eq]
  have mf := markFailed_spec g.cleanup g
  have mc := markCancelled_spec g.cancelQ (markFailed g.cleanup g)
  refine ⟨fun i h => ?_, fun i h => ?_, fun i x h => ?_⟩
  · unfold Touched at h ⊢
    simp only [mc.completed, mf.completed, mc.inProgress, mf.inProgress, mc.failed, mf.failed,
      mc.cancelled, mf.cancelled, mc.ready, mf.ready, mc.cancelQ, mf.cancelQ]
    grind
  · unfold Touched
    simp only [mc.status, mf.status] at h
    simp only [mc.failed, mf.failed, mc.cancelled, mf.cancelled, mc.cancelQ, mf.cancelQ]
    by_cases h1 : i ∈ g.cancelQ
    · grind
    · by_cases h2 : i ∈ g.cleanup
      · grind
      · simp only [h1, h2, ↓reduceIte] at h; exact Or.inl h
  · simp only [mc.deps, mf.deps] at h; exact h

theorem adv_stageOne (g : G) (key : Nat) : Adv g (stageOne g key) := by
  unfold stageOne
  split
  · exact Adv.refl g
  · split
    · simp only
      split
      · split
        · refine ⟨fun i h => h, fun i h => Or.inl h, fun i x h => ?_⟩
          simp only [upd] at h
          split at h
          · rename_i hk; subst hk; exact (List.mem_filter.mp h).1
          · exact h
        · refine ⟨fun i h => ?_, fun i h => Or.inl h, fun i x h => ?_⟩
          · unfold Touched at h ⊢; simp only [List.mem_append]; grind
          · simp only [upd] at h
            split at h
            · rename_i hk; subst hk; exact (List.mem_filter.mp h).1
            · exact h
      · refine ⟨fun i h => h, fun i h => Or.inl h, fun i x h => ?_⟩
        simp only [upd] at h
        split at h
        · rename_i hk; subst hk; exact (List.mem_filter.mp h).1
        · exact h
    · exact Adv.refl g

theorem adv_stage (cfg : Cfg) (g : G) : Adv g (stage cfg g) := by
  unfold stage
  generalize List.range (cfg.n + 1) = keys
  induction keys generalizing g with
  | nil => exact Adv.refl g
  | cons k ks ih => simp only [List.foldl_cons]; exact (adv_stageOne g k).trans (ih _)

end MaestroVerif.Exec

namespace MaestroVerif.Exec
open MaestroVerif.Gen

theorem adv_executeRecord {cfg : Cfg} (wf : WFCfg cfg) (g : G) (i : Nat) (restart : Bool) :
    Adv g (executeRecord cfg g i restart) ∧ Touched (executeRecord cfg g i restart) i := by
  obtain ⟨ec, ei, ef, ecn, er, ecl, ecq, es, eic, ers⟩ := execPrep_fields cfg g i restart
  have edeps : (execPrep cfg g i restart).deps = g.deps := by unfold execPrep; split <;> simp [emit]
  unfold executeRecord
  simp only
  split
  · -- dry run
    refine ⟨⟨fun a h => ?_, fun a h => ?_, fun a x h => ?_⟩, ?_⟩
    · unfold Touched at h ⊢
      simp only [dryMark, setStatus, mem_ins, ec, ei, ef, ecn, er, ecl, ecq]; grind
    · simp only [dryMark, setStatus, upd, es] at h
      by_cases ha : a = i
      · exact Or.inr (Touched.c (by simp [dryMark, setStatus, ha]))
      · simp only [ha, ↓reduceIte] at h; exact Or.inl h
    · simpa [dryMark, setStatus, edeps] using h
    · exact Touched.c (by simp [dryMark, setStatus])
  · have fr := submitLoop_frame cfg i restart cfg.attempts (execPrep cfg g i restart)
    generalize submitLoop cfg i restart cfg.attempts (execPrep cfg g i restart) = r at fr
    have c1 : r.1.completed = g.completed := by rw [fr.completed, ec]
    have c2 : r.1.failed = g.failed := by rw [fr.failed, ef]
    have c3 : r.1.cancelled = g.cancelled := by rw [fr.cancelled, ecn]
    have c4 : r.1.inProgress = g.inProgress := by rw [fr.inProgress, ei]
    have c5 : r.1.ready = g.ready := by rw [fr.ready, er]
    have c6 : r.1.cleanup = g.cleanup := by rw [fr.cleanup, ecl]
    have c7 : r.1.cancelQ = g.cancelQ := by rw [fr.cancelQ, ecq]
    have c8 : r.1.deps = g.deps := by rw [fr.deps, edeps]
    have so : ∀ a, a ≠ i → r.1.status a = g.status a := fun a ha => by rw [fr.statusO a ha, es]
    unfold execFinish
    split
    · split
      · -- scheduled: tracked
        refine ⟨⟨fun a h => ?_, fun a h => ?_, fun a x h => ?_⟩, ?_⟩
        · unfold Touched at h ⊢; simp only [mem_ins, c1, c2, c3, c4, c5, c6, c7]; grind
        · by_cases ha : a = i
          · exact Or.inr (Touched.p (by simp [ha]))
          · simp only at h; rw [so a ha] at h; exact Or.inl h
        · simpa [c8] using h
        · exact Touched.p (by simp)
      · -- local: completed at once
        refine ⟨⟨fun a h => ?_, fun a h => ?_, fun a x h => ?_⟩, ?_⟩
        · unfold Touched at h ⊢
          simp only [setStatus, mem_ins, mem_rem, c1, c2, c3, c4, c5, c6, c7]; grind
        · simp only [setStatus, upd] at h
          by_cases ha : a = i
          · exact Or.inr (Touched.c (by simp [setStatus, ha]))
          · simp only [ha, ↓reduceIte] at h; rw [so a ha] at h; exact Or.inl h
        · simpa [setStatus, c8] using h
        · exact Touched.c (by simp [setStatus])
    · -- every attempt failed: the sub-tree is failed
      rw [failSubtree_eq]
      have m := markFailed_spec (subtree cfg i) { r.1 with inProgress := rem i r.1.inProgress }
      have hself := self_mem_subtree wf i
      refine ⟨⟨fun a h => ?_, fun a h => ?_, fun a x h => ?_⟩, ?_⟩
      · unfold Touched at h ⊢
        rw [m.completed, m.inProgress, m.cancelled, m.ready, m.cleanup, m.cancelQ, m.failed]
        simp only [mem_rem, c1, c2, c3, c4, c5, c6, c7]
        by_cases ha : a = i
        · subst ha; exact Or.inr (Or.inr (Or.inl (Or.inl hself)))
        · grind
      · rw [m.status] at h
        by_cases hx : a ∈ subtree cfg i
        · exact Or.inr (Touched.f ((m.failed a).mpr (Or.inl hx)))
        · simp only [hx, ↓reduceIte] at h
          have ha : a ≠ i := fun e => hx (e ▸ hself)
          rw [so a ha] at h; exact Or.inl h
      · rw [m.deps] at h; simpa [c8] using h
      · exact Touched.f ((m.failed i).mpr (Or.inl hself))

theorem adv_setStatus_of_touched (g : G) (i : Nat) (s : State) (h : Touched g i) :
    Adv g (setStatus g i s) := by
  refine ⟨fun a ha => ha, fun a ha => ?_, fun a x hx => hx⟩
  simp only [setStatus, upd] at ha
  by_cases e : a = i
  · subst e; exact Or.inr h
  · simp only [e, ↓reduceIte] at ha; exact Or.inl ha

theorem adv_report {cfg : Cfg} (wf : WFCfg cfg) (g : G) (i : Nat) (hi : i ∈ g.inProgress)
    (st : Option State) : Adv g (report cfg g i st) := by
  have hself := self_mem_subtree wf i
  -- the ghost ledger update changes nothing that `Adv` reads
  have ghost : ∀ (b : Bool), Adv g (if b then { g with live := rem i g.live } else g) := by
    intro b; cases b
    · exact Adv.refl g
    · exact ⟨fun _ h => h, fun _ h => Or.inl h, fun _ _ h => h⟩
  cases st with
  | none => simpa [report, terminal] using Adv.refl g
  | some s =>
    cases s
    case FINISHED =>
      simp only [report, terminal, setStatus, ↓reduceIte]
      refine ⟨fun a h => ?_, fun a h => ?_, fun a x h => h⟩
      · unfold Touched at h ⊢; simp only [mem_ins, mem_rem]; grind
      · simp only [upd] at h
        by_cases e : a = i
        · exact Or.inr (Touched.c (by simp [e]))
        · simp only [e, ↓reduceIte] at h; exact Or.inl h
    case RUNNING =>
      simp only [report, terminal, Bool.false_eq_true, ↓reduceIte]
      exact adv_setStatus_of_touched g i .RUNNING (Touched.p hi)
    case HWFAILURE =>
      simp only [report, terminal, ↓reduceIte]
      refine ⟨fun a h => ?_, fun a h => Or.inl h, fun a x h => h⟩
      unfold Touched at h ⊢; simp only [mem_rem, List.mem_append, List.mem_singleton]; grind
    case FAILED =>
      simp only [report, terminal, setStatus, ↓reduceIte]
      refine ⟨fun a h => ?_, fun a h => ?_, fun a x h => h⟩
      · unfold Touched at h ⊢; simp only [mem_rem, mem_insAll]; grind
      · simp only [upd] at h
        by_cases e : a = i
        · subst e; exact Or.inr (Touched.cl (by simp [hself]))
        · simp only [e, ↓reduceIte] at h; exact Or.inl h
    case UNKNOWN =>
      simp only [report, terminal, setStatus, ↓reduceIte]
      refine ⟨fun a h => ?_, fun a h => ?_, fun a x h => h⟩
      · unfold Touched at h ⊢; simp only [mem_rem, mem_insAll]; grind
      · simp only [upd] at h
        by_cases e : a = i
        · subst e; exact Or.inr (Touched.cl (by simp [hself]))
        · simp only [e, ↓reduceIte] at h; exact Or.inl h
    case CANCELLED =>
      simp only [report, terminal, setStatus, ↓reduceIte]
      refine ⟨fun a h => ?_, fun a h => ?_, fun a x h => h⟩
      · unfold Touched at h ⊢; simp only [mem_rem, mem_insAll]; grind
      · simp only [upd] at h
        by_cases e : a = i
        · subst e; exact Or.inr (Touched.cq (by simp [hself]))
        · simp only [e, ↓reduceIte] at h; exact Or.inl h
    case TIMEDOUT =>
      simp only [report, terminal, ↓reduceIte]
      split
      · split
        · -- restart
          have a1 : Adv g (setStatus { g with live := rem i g.live } i .TIMEDOUT) := by
            refine ⟨fun a h => h, fun a h => ?_, fun a x h => h⟩
            simp only [setStatus, upd] at h
            by_cases e : a = i
            · subst e; exact Or.inr (Touched.p hi)
            · simp only [e, ↓reduceIte] at h; exact Or.inl h
          have a2 : Adv (setStatus { g with live := rem i g.live } i .TIMEDOUT)
              { setStatus { g with live := rem i g.live } i .TIMEDOUT with
                restarts := upd (setStatus { g with live := rem i g.live } i .TIMEDOUT).restarts i
                  ((setStatus { g with live := rem i g.live } i .TIMEDOUT).restarts i + 1) } :=
            ⟨fun _ h => h, fun _ h => Or.inl h, fun _ _ h => h⟩
          exact (a1.trans a2).trans (adv_executeRecord wf _ i true).1
        · refine ⟨fun a h => ?_, fun a h => ?_, fun a x h => h⟩
          · unfold Touched at h ⊢; simp only [setStatus, mem_rem, mem_insAll]; grind
          · simp only [setStatus, upd] at h
            by_cases e : a = i
            · subst e; exact Or.inr (Touched.cl (by simp [hself]))
            · simp only [e, ↓reduceIte] at h; exact Or.inl h
      · refine ⟨fun a h => ?_, fun a h => ?_, fun a x h => h⟩
        · unfold Touched at h ⊢; simp only [setStatus, mem_rem, mem_insAll, mem_ins]; grind
        · simp only [setStatus, upd] at h
          by_cases e : a = i
          · exact Or.inr (Touched.f (by simp [setStatus, e]))
          · simp only [e, ↓reduceIte] at h; exact Or.inl h
    all_goals simpa [report, terminal] using Adv.refl g

end MaestroVerif.Exec

namespace MaestroVerif.Exec
open MaestroVerif.Gen

theorem adv_reports {cfg : Cfg} (wf : WFCfg cfg) : ∀ (rs : List (Nat × Option State)) (g : G),
    (rs.map (·.1)).Nodup → (∀ r, r ∈ rs → r.1 ∈ g.inProgress) →
    Adv g (rs.foldl (fun g r => report cfg g r.1 r.2) g) := by
  intro rs
  induction rs with
  | nil => intro g _ _; exact Adv.refl g
  | cons r rest ih =>
    intro g hn hm
    simp only [List.foldl_cons]
    simp only [List.map_cons, List.nodup_cons] at hn
    have h1 := adv_report wf g r.1 (hm r (by simp)) r.2
    refine h1.trans (ih _ hn.2 ?_)
    intro r' hr'
    have hne : r'.1 ≠ r.1 := by
      intro e; apply hn.1; rw [← e]; exact List.mem_map.mpr ⟨r', hr', rfl⟩
    exact report_inProgress_other cfg g r.1 r.2 hne (hm r' (by simp [hr']))

theorem adv_launch {cfg : Cfg} (wf : WFCfg cfg) : ∀ (k : Nat) (g : G), Adv g (launch cfg k g) := by
  intro k
  induction k with
  | zero => intro g; exact Adv.refl g
  | succ k ih =>
    intro g
    unfold launch
    split
    · exact Adv.refl g
    · rename_i i rest hr
      simp only
      split
      · refine Adv.trans ?_ (ih _)
        refine ⟨fun a h => ?_, fun a h => ?_, fun a x h => h⟩
        · unfold Touched at h ⊢
          simp only [setStatus, mem_ins]
          rw [hr] at h
          simp only [List.mem_cons] at h
          grind
        · simp only [setStatus, upd] at h
          by_cases e : a = i
          · exact Or.inr (Touched.x (by simp [setStatus, e]))
          · simp only [e, ↓reduceIte] at h; exact Or.inl h
      · obtain ⟨a1, t1⟩ := adv_executeRecord wf { g with ready := rest } i false
        refine Adv.trans ?_ (ih _)
        refine ⟨fun a h => ?_, fun a h => ?_, fun a x h => a1.deps a x h⟩
        · by_cases e : a = i
          · subst e; exact t1
          · apply a1.touched
            unfold Touched at h ⊢
            rw [hr] at h
            simp only [List.mem_cons] at h
            grind
        · rcases a1.status a h with h' | h'
          · exact Or.inl h'
          · exact Or.inr h'

theorem adv_poll {cfg : Cfg} (wf : WFCfg cfg) {g : G} {p : PollIn} (hp : WFPoll g p) :
    Adv g (poll cfg g p).1 := by
  unfold poll
  simp only
  by_cases hd : cfg.dry = true
  · simp only [hd, ↓reduceIte]
    exact (adv_stage cfg g).trans (adv_launch wf _ _)
  · have hd' : cfg.dry = false := by simpa using hd
    simp only [hd', Bool.false_eq_true, ↓reduceIte]
    have he := adv_emit g (Ev.check g.inProgress)
    cases hc : p.code with
    | ERROR => simp only; exact he
    | NOJOBS =>
      simp only
      exact he.trans ((adv_stage cfg _).trans (adv_launch wf _ _))
    | OK =>
      simp only
      have hr := adv_reports wf p.reports (emit g (Ev.check g.inProgress)) hp.nodup
        (by intro r hr; simpa [emit] using hp.mem r hr)
      exact he.trans (hr.trans ((adv_sweeps _).trans ((adv_stage cfg _).trans (adv_launch wf _ _))))

theorem adv_cancel (g : G) : Adv g (cancel g) :=
  ⟨fun _ h => h, fun _ h => Or.inl h, fun _ _ h => h⟩

/-- **Every reachable state**: a step that is in none of the bookkeeping sets
was never touched (its status is still `INITIALIZED`) and every dependency set
is a subset of the step's parents. -/
theorem InvU_reachable {cfg : Cfg} (wf : WFCfg' cfg) {g : G} (h : Reachable cfg g) : InvU cfg g := by
  induction h with
  | init => exact invU_init cfg
  | poll p _ hp ih => exact ih.adv (adv_poll wf.toWFCfg hp)
  | cancel _ ih => exact ih.adv (adv_cancel _)

end MaestroVerif.Exec

namespace MaestroVerif.Exec
open MaestroVerif.Gen

/-! ### the staging loop queues every eligible step -/

theorem stageOne_ready_mono (g : G) (key x : Nat) (h : x ∈ g.ready) : x ∈ (stageOne g key).ready := by
  unfold stageOne
  split
  · exact h
  · split
    · simp only
      split
      · split
        · exact h
        · simp [h]
      · exact h
    · exact h

theorem stage_ready_mono (cfg : Cfg) (g : G) (x : Nat) (h : x ∈ g.ready) : x ∈ (stage cfg g).ready := by
  unfold stage
  generalize List.range (cfg.n + 1) = keys
  induction keys generalizing g with
  | nil => exact h
  | cons k ks ih => simp only [List.foldl_cons]; exact ih _ (stageOne_ready_mono g k x h)

/-- the body of the staging loop, run for a step that was never touched and whose
parents are all complete, puts it in the queue -/
theorem stageOne_queues_eligible {cfg : Cfg} {g : G} {k : Nat} (hc : k ∉ g.completed)
    (hs : g.status k = .INITIALIZED) (hd : ∀ x, x ∈ g.deps k → x ∈ g.completed) :
    k ∈ (stageOne g k).ready := by
  unfold stageOne
  simp only [hc, ↓reduceIte, hs, beq_self_eq_true]
  have hempty : (g.deps k).filter (fun x => !(g.completed.contains x)) = [] := by
    apply List.filter_eq_nil_iff.mpr
    intro x hx
    simp [hd x hx]
  simp only [hempty, List.isEmpty_nil, ↓reduceIte]
  split
  · assumption
  · simp

theorem stage_queues_eligible_aux {cfg : Cfg} {k : Nat} : ∀ (keys : List Nat) (g : G),
    k ∈ keys → k ∉ g.completed → g.status k = .INITIALIZED →
    (∀ x, x ∈ g.deps k → x ∈ g.completed) → k ∈ (keys.foldl stageOne g).ready := by
  intro keys
  induction keys with
  | nil => intro g h; simp at h
  | cons a rest ih =>
    intro g hk hc hs hd
    simp only [List.foldl_cons]
    obtain ⟨s1, _, _, _, _, s6⟩ := stageOne_sets g a
    by_cases e : a = k
    · subst e
      have := stageOne_queues_eligible (cfg := cfg) hc hs hd
      -- the remaining keys never remove anything from the queue
      have mono : ∀ (ks : List Nat) (g1 : G), a ∈ g1.ready → a ∈ (ks.foldl stageOne g1).ready := by
        intro ks
        induction ks with
        | nil => intro g1 h; exact h
        | cons b bs ih2 => intro g1 h; simp only [List.foldl_cons]; exact ih2 _ (stageOne_ready_mono g1 b a h)
      exact mono rest _ this
    · have hk' : k ∈ rest := by
        rcases List.mem_cons.mp hk with h | h
        · exact absurd h.symm e
        · exact h
      apply ih _ hk'
      · rw [s1]; exact hc
      · rw [s6]; exact hs
      · intro x hx
        rw [s1]
        exact hd x ((adv_stageOne g a).deps k x hx)

/-- **The staging loop queues every untouched step whose parents are complete.** -/
theorem stage_queues_eligible {cfg : Cfg} {g : G} (hU : InvU cfg g) {k : Nat} (hk : k ≤ cfg.n)
    (hc : k ∉ g.completed) (hs : g.status k = .INITIALIZED)
    (hp : ∀ p, p ∈ cfg.parents k → p ∈ g.completed) : k ∈ (stage cfg g).ready := by
  unfold stage
  apply stage_queues_eligible_aux (cfg := cfg) _ g (by simp; omega) hc hs
  intro x hx
  exact hp x (hU.depsSub k x hx)

/-! ### a minimal unresolved step -/

theorem exists_minimal {cfg : Cfg} (wf : WFCfg cfg) (ha : Dag.Acyclic cfg.dag) (S : Nat → Prop)
    {k : Nat} (hk : S k) : ∃ m, S m ∧ ∀ p, p ∈ cfg.parents m → ¬ S p := by
  obtain ⟨l, _, _, hrank⟩ := C14.C14_toposort cfg.dag wf.dagwf ha
  have key : ∀ r k, l.idxOf k = r → S k → ∃ m, S m ∧ ∀ p, p ∈ cfg.parents m → ¬ S p := by
    intro r
    induction r using Nat.strongRecOn with
    | _ r ih =>
      intro k hr hk
      by_cases hex : ∃ p, p ∈ cfg.parents k ∧ S p
      · obtain ⟨p, hp, hsp⟩ := hex
        have : l.idxOf p < l.idxOf k := hrank p k ((wf.par p k).mpr hp)
        exact ih (l.idxOf p) (by omega) p rfl hsp
      · exact ⟨k, hk, fun p hp hsp => hex ⟨p, hp, hsp⟩⟩
  exact key _ k rfl hk

end MaestroVerif.Exec

namespace MaestroVerif.Exec
open MaestroVerif.Gen

/-! ### the measure: how many steps are not resolved yet -/

def Resolved (g : G) (k : Nat) : Prop := k ∈ g.completed ∨ k ∈ g.failed ∨ k ∈ g.cancelled

def resolvedB (g : G) (k : Nat) : Bool :=
  g.completed.contains k || g.failed.contains k || g.cancelled.contains k

theorem resolvedB_iff (g : G) (k : Nat) : resolvedB g k = true ↔ Resolved g k := by
  simp [resolvedB, Resolved, or_assoc]

def unresolved (cfg : Cfg) (g : G) : Nat :=
  ((List.range (cfg.n + 1)).filter (fun k => !resolvedB g k)).length

theorem Grow.resolved {g g' : G} (h : Grow g g') {k : Nat} (hk : Resolved g k) : Resolved g' k := by
  rcases hk with h1 | h1 | h1
  · exact Or.inl (h.completed k h1)
  · exact Or.inr (Or.inl (h.failed k h1))
  · exact Or.inr (Or.inr (h.cancelled k h1))

theorem filter_length_le {p q : Nat → Bool} : ∀ (l : List Nat), (∀ k, k ∈ l → q k = true → p k = true) →
    (l.filter q).length ≤ (l.filter p).length := by
  intro l
  induction l with
  | nil => intro _; simp
  | cons a as ih =>
    intro h
    have ih' := ih (fun k hk => h k (List.mem_cons_of_mem _ hk))
    by_cases hq : q a = true
    · have hp := h a (by simp) hq
      simp [List.filter_cons, hq, hp]; omega
    · by_cases hp : p a = true
      · simp [List.filter_cons, hq, hp]; omega
      · simp [List.filter_cons, hq, hp]; omega

theorem filter_length_lt {p q : Nat → Bool} : ∀ (l : List Nat), (∀ k, k ∈ l → q k = true → p k = true) →
    (∃ i, i ∈ l ∧ p i = true ∧ q i = false) → (l.filter q).length < (l.filter p).length := by
  intro l
  induction l with
  | nil => intro _ h; obtain ⟨i, hi, _⟩ := h; simp at hi
  | cons a as ih =>
    intro h hex
    have hle := filter_length_le as (fun k hk => h k (List.mem_cons_of_mem _ hk))
    obtain ⟨i, hi, hpi, hqi⟩ := hex
    by_cases hq : q a = true
    · have hp := h a (by simp) hq
      have hia : i ≠ a := by intro e; subst e; rw [hq] at hqi; cases hqi
      have hi' : i ∈ as := by
        rcases List.mem_cons.mp hi with e | e
        · exact absurd e hia
        · exact e
      have := ih (fun k hk => h k (List.mem_cons_of_mem _ hk)) ⟨i, hi', hpi, hqi⟩
      simp [List.filter_cons, hq, hp]; omega
    · by_cases hp : p a = true
      · simp [List.filter_cons, hq, hp]; omega
      · have hia : i ≠ a := by intro e; subst e; exact hp hpi
        have hi' : i ∈ as := by
          rcases List.mem_cons.mp hi with e | e
          · exact absurd e hia
          · exact e
        have := ih (fun k hk => h k (List.mem_cons_of_mem _ hk)) ⟨i, hi', hpi, hqi⟩
        simp [List.filter_cons, hq, hp]; omega

theorem unresolved_le {cfg : Cfg} {g g' : G} (h : Grow g g') : unresolved cfg g' ≤ unresolved cfg g := by
  unfold unresolved
  apply filter_length_le
  intro k _ hk
  simp only [Bool.not_eq_true', ← Bool.not_eq_true] at hk ⊢
  intro hr
  exact hk ((resolvedB_iff g' k).mpr (h.resolved ((resolvedB_iff g k).mp hr)))

theorem unresolved_lt {cfg : Cfg} {g g' : G} (h : Grow g g') {i : Nat} (hi : i ≤ cfg.n)
    (h0 : ¬ Resolved g i) (h1 : Resolved g' i) : unresolved cfg g' < unresolved cfg g := by
  unfold unresolved
  apply filter_length_lt
  · intro k _ hk
    simp only [Bool.not_eq_true', ← Bool.not_eq_true] at hk ⊢
    intro hr
    exact hk ((resolvedB_iff g' k).mpr (h.resolved ((resolvedB_iff g k).mp hr)))
  · refine ⟨i, by simp; omega, ?_, ?_⟩
    · simp only [Bool.not_eq_true', ← Bool.not_eq_true]
      exact fun hr => h0 ((resolvedB_iff g i).mp hr)
    · simp [(resolvedB_iff g' i).mpr h1]

theorem unresolved_zero_iff (cfg : Cfg) (g : G) :
    unresolved cfg g = 0 ↔ ∀ k, k ≤ cfg.n → Resolved g k := by
  unfold unresolved
  rw [List.length_eq_zero_iff, List.filter_eq_nil_iff]
  constructor
  · intro h k hk
    have := h k (by simp; omega)
    simp only [Bool.not_eq_true, Bool.not_eq_false'] at this
    exact (resolvedB_iff g k).mp this
  · intro h k hk
    simp only [List.mem_range] at hk
    simp [(resolvedB_iff g k).mpr (h k (by omega))]

/-! ### decisive answers -/

/-- a scheduler answer that ends the job for good (no restart, no re-queue) -/
def decisiveState (st : Option State) : Prop :=
  st = some .FINISHED ∨ st = some .FAILED ∨ st = some .UNKNOWN ∨ st = some .CANCELLED

/-- waiting for a sweep or already resolved -/
def Settled (g : G) (k : Nat) : Prop := k ∈ g.completed ∨ k ∈ g.cleanup ∨ k ∈ g.cancelQ

theorem report_settles {cfg : Cfg} (wf : WFCfg cfg) (g : G) (i : Nat) {st : Option State}
    (hs : decisiveState st) : Settled (report cfg g i st) i := by
  have hself := self_mem_subtree wf i
  rcases hs with h | h | h | h <;> subst h <;>
    simp only [report, terminal, setStatus, ↓reduceIte, Settled, mem_ins, mem_insAll] <;> simp [hself]

theorem report_settled_mono {cfg : Cfg} (g : G) (i : Nat) {st : Option State}
    (hs : decisiveState st) {k : Nat} (hk : Settled g k) : Settled (report cfg g i st) k := by
  rcases hs with h | h | h | h <;> subst h <;>
    simp only [report, terminal, setStatus, ↓reduceIte, Settled, mem_ins, mem_insAll] <;>
    unfold Settled at hk <;> grind

theorem reports_settle {cfg : Cfg} (wf : WFCfg cfg) : ∀ (rs : List (Nat × Option State)) (g : G),
    (∀ r, r ∈ rs → decisiveState r.2) →
    (∀ k, Settled g k → Settled (rs.foldl (fun g r => report cfg g r.1 r.2) g) k) ∧
    (∀ r, r ∈ rs → Settled (rs.foldl (fun g r => report cfg g r.1 r.2) g) r.1) := by
  intro rs
  induction rs with
  | nil => intro g _; exact ⟨fun _ h => h, fun r hr => by simp at hr⟩
  | cons r rest ih =>
    intro g hd
    simp only [List.foldl_cons]
    obtain ⟨m, s⟩ := ih (report cfg g r.1 r.2) (fun r' hr' => hd r' (List.mem_cons_of_mem _ hr'))
    have hdr := hd r (by simp)
    refine ⟨fun k hk => m k (report_settled_mono g r.1 hdr hk), fun r' hr' => ?_⟩
    rcases List.mem_cons.mp hr' with e | e
    · subst e; exact m _ (report_settles wf g r'.1 hdr)
    · exact s r' e

theorem sweeps_resolves (g : G) {k : Nat} (h : Settled g k) : Resolved (sweeps g) k := by
  rw [sweeps_eq]
  have mf := markFailed_spec g.cleanup g
  have mc := markCancelled_spec g.cancelQ (markFailed g.cleanup g)
  unfold Resolved
  simp only [mc.completed, mf.completed, mc.failed]
  rcases h with h | h | h
  · exact Or.inl h
  · exact Or.inr (Or.inl ((mf.failed k).mpr (Or.inl h)))
  · exact Or.inr (Or.inr ((mc.cancelled k).mpr (Or.inl h)))

end MaestroVerif.Exec
