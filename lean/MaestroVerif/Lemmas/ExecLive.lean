import MaestroVerif.Lemmas.ExecClosed
import MaestroVerif.Lemmas.ExecMore

/-! Liveness infrastructure for C05: a step that was never touched is still
`INITIALIZED` and its dependency set is a subset of its parents (`InvU`), a step
never leaves the union of the bookkeeping sets (`Adv`), the staging loop queues
every untouched step whose parents are complete, and a decisive poll makes
progress. -/
namespace MaestroVerif.Exec
open MaestroVerif.Gen

/-- the step is somewhere in the bookkeeping -/
def Touched (g : G) (i : Nat) : Prop :=
  i ∈ g.completed ∨ i ∈ g.inProgress ∨ i ∈ g.failed ∨ i ∈ g.cancelled ∨ i ∈ g.ready ∨
    i ∈ g.cleanup ∨ i ∈ g.cancelQ

theorem Touched.c {g : G} {i : Nat} (h : i ∈ g.completed) : Touched g i := Or.inl h
theorem Touched.p {g : G} {i : Nat} (h : i ∈ g.inProgress) : Touched g i := Or.inr (Or.inl h)
theorem Touched.f {g : G} {i : Nat} (h : i ∈ g.failed) : Touched g i := Or.inr (Or.inr (Or.inl h))
theorem Touched.x {g : G} {i : Nat} (h : i ∈ g.cancelled) : Touched g i :=
  Or.inr (Or.inr (Or.inr (Or.inl h)))
theorem Touched.r {g : G} {i : Nat} (h : i ∈ g.ready) : Touched g i :=
  Or.inr (Or.inr (Or.inr (Or.inr (Or.inl h))))
theorem Touched.cl {g : G} {i : Nat} (h : i ∈ g.cleanup) : Touched g i :=
  Or.inr (Or.inr (Or.inr (Or.inr (Or.inr (Or.inl h)))))
theorem Touched.cq {g : G} {i : Nat} (h : i ∈ g.cancelQ) : Touched g i :=
  Or.inr (Or.inr (Or.inr (Or.inr (Or.inr (Or.inr h)))))

/-- one piece of `execute_ready_steps` advanced the state: no step left the
bookkeeping, a status was only written for a step that is in it, dependency sets
only shrank -/
structure Adv (g g' : G) : Prop where
  touched : ∀ i, Touched g i → Touched g' i
  status  : ∀ i, g'.status i ≠ .INITIALIZED → g.status i ≠ .INITIALIZED ∨ Touched g' i
  deps    : ∀ i x, x ∈ g'.deps i → x ∈ g.deps i

theorem Adv.refl (g : G) : Adv g g := ⟨fun _ h => h, fun _ h => Or.inl h, fun _ _ h => h⟩

theorem Adv.trans {g1 g2 g3 : G} (a : Adv g1 g2) (b : Adv g2 g3) : Adv g1 g3 := by
  refine ⟨fun i h => b.touched i (a.touched i h), fun i h => ?_, fun i x h => a.deps i x (b.deps i x h)⟩
  rcases b.status i h with h2 | h2
  · rcases a.status i h2 with h1 | h1
    · exact Or.inl h1
    · exact Or.inr (b.touched i h1)
  · exact Or.inr h2

structure InvU (cfg : Cfg) (g : G) : Prop where
  depsSub : ∀ i x, x ∈ g.deps i → x ∈ cfg.parents i
  fresh   : ∀ i, g.status i ≠ .INITIALIZED → Touched g i

theorem InvU.adv {cfg : Cfg} {g g' : G} (h : InvU cfg g) (a : Adv g g') : InvU cfg g' := by
  refine ⟨fun i x hx => h.depsSub i x (a.deps i x hx), fun i hi => ?_⟩
  rcases a.status i hi with h1 | h1
  · exact a.touched i (h.fresh i h1)
  · exact h1

theorem invU_init (cfg : Cfg) : InvU cfg (init cfg) :=
  ⟨fun _ _ h => h, fun i h => by simp [init] at h⟩

/-! ### the pieces -/

theorem adv_emit (g : G) (e : Ev) : Adv g (emit g e) :=
  ⟨fun _ h => h, fun _ h => Or.inl h, fun _ _ h => h⟩

theorem adv_markFailed (xs : List Nat) (g : G) : Adv g (markFailed xs g) := by
  have m := markFailed_spec xs g
  refine ⟨fun i h => ?_, fun i h => ?_, fun i x h => by rw [m.deps] at h; exact h⟩
  · unfold Touched at h ⊢
    rw [m.completed, m.inProgress, m.cancelled, m.ready, m.cleanup, m.cancelQ, m.failed]
    grind
  · unfold Touched
    rw [m.status] at h
    rw [m.failed]
    by_cases hx : i ∈ xs
    · exact Or.inr (Or.inr (Or.inr (Or.inl (Or.inl hx))))
    · simp only [hx, ↓reduceIte] at h; exact Or.inl h

theorem adv_markCancelled (xs : List Nat) (g : G) : Adv g (markCancelled xs g) := by
  have m := markCancelled_spec xs g
  refine ⟨fun i h => ?_, fun i h => ?_, fun i x h => by rw [m.deps] at h; exact h⟩
  · unfold Touched at h ⊢
    rw [m.completed, m.inProgress, m.failed, m.ready, m.cleanup, m.cancelQ, m.cancelled]
    grind
  · unfold Touched
    rw [m.status] at h
    rw [m.cancelled]
    by_cases hx : i ∈ xs
    · exact Or.inr (Or.inr (Or.inr (Or.inr (Or.inl (Or.inl hx)))))
    · simp only [hx, ↓reduceIte] at h; exact Or.inl h

theorem adv_sweeps (g : G) : Adv g (sweeps g) := by
  rw [sweeps_eq]
  have mf := markFailed_spec g.cleanup g
  have mc := markCancelled_spec g.cancelQ (markFailed g.cleanup g)
  refine ⟨fun i h => ?_, fun i h => ?_, fun i x h => ?_⟩
  · unfold Touched at h ⊢
    simp only [mc.completed, mf.completed, mc.inProgress, mf.inProgress, mc.failed, mf.failed,
      mc.cancelled, mf.cancelled, mc.ready, mf.ready, mc.cancelQ, mf.cancelQ]
    grind
  · unfold Touched
    simp only [mc.status, mf.status] at h
    simp only [mc.failed, mf.failed, mc.cancelled, mf.cancelled, mc.cancelQ, mf.cancelQ]
    by_cases h1 : i ∈ g.cancelQ
    · grind
    · by_cases h2 : i ∈ g.cleanup
      · grind
      · simp only [h1, h2, ↓reduceIte] at h; exact Or.inl h
  · simp only [mc.deps, mf.deps] at h; exact h

theorem adv_stageOne (g : G) (key : Nat) : Adv g (stageOne g key) := by
  unfold stageOne
  split
  · exact Adv.refl g
  · split
    · simp only
      split
      · split
        · refine ⟨fun i h => h, fun i h => Or.inl h, fun i x h => ?_⟩
          simp only [upd] at h
          split at h
          · rename_i hk; subst hk; exact (List.mem_filter.mp h).1
          · exact h
        · refine ⟨fun i h => ?_, fun i h => Or.inl h, fun i x h => ?_⟩
          · unfold Touched at h ⊢; simp only [List.mem_append]; grind
          · simp only [upd] at h
            split at h
            · rename_i hk; subst hk; exact (List.mem_filter.mp h).1
            · exact h
      · refine ⟨fun i h => h, fun i h => Or.inl h, fun i x h => ?_⟩
        simp only [upd] at h
        split at h
        · rename_i hk; subst hk; exact (List.mem_filter.mp h).1
        · exact h
    · exact Adv.refl g

theorem adv_stage (cfg : Cfg) (g : G) : Adv g (stage cfg g) := by
  unfold stage
  generalize List.range (cfg.n + 1) = keys
  induction keys generalizing g with
  | nil => exact Adv.refl g
  | cons k ks ih => simp only [List.foldl_cons]; exact (adv_stageOne g k).trans (ih _)

end MaestroVerif.Exec

namespace MaestroVerif.Exec
open MaestroVerif.Gen

theorem adv_executeRecord {cfg : Cfg} (wf : WFCfg cfg) (g : G) (i : Nat) (restart : Bool) :
    Adv g (executeRecord cfg g i restart) ∧ Touched (executeRecord cfg g i restart) i := by
  obtain ⟨ec, ei, ef, ecn, er, ecl, ecq, es, eic, ers⟩ := execPrep_fields cfg g i restart
  have edeps : (execPrep cfg g i restart).deps = g.deps := by unfold execPrep; split <;> simp [emit]
  unfold executeRecord
  simp only
  split
  · -- dry run
    refine ⟨⟨fun a h => ?_, fun a h => ?_, fun a x h => ?_⟩, ?_⟩
    · unfold Touched at h ⊢
      simp only [dryMark, setStatus, mem_ins, ec, ei, ef, ecn, er, ecl, ecq]; grind
    · simp only [dryMark, setStatus, upd, es] at h
      by_cases ha : a = i
      · exact Or.inr (Touched.c (by simp [dryMark, setStatus, ha]))
      · simp only [ha, ↓reduceIte] at h; exact Or.inl h
    · simpa [dryMark, setStatus, edeps] using h
    · exact Touched.c (by simp [dryMark, setStatus])
  · have fr := submitLoop_frame cfg i restart cfg.attempts (execPrep cfg g i restart)
    generalize submitLoop cfg i restart cfg.attempts (execPrep cfg g i restart) = r at fr
    have c1 : r.1.completed = g.completed := by rw [fr.completed, ec]
    have c2 : r.1.failed = g.failed := by rw [fr.failed, ef]
    have c3 : r.1.cancelled = g.cancelled := by rw [fr.cancelled, ecn]
    have c4 : r.1.inProgress = g.inProgress := by rw [fr.inProgress, ei]
    have c5 : r.1.ready = g.ready := by rw [fr.ready, er]
    have c6 : r.1.cleanup = g.cleanup := by rw [fr.cleanup, ecl]
    have c7 : r.1.cancelQ = g.cancelQ := by rw [fr.cancelQ, ecq]
    have c8 : r.1.deps = g.deps := by rw [fr.deps, edeps]
    have so : ∀ a, a ≠ i → r.1.status a = g.status a := fun a ha => by rw [fr.statusO a ha, es]
    unfold execFinish
    split
    · split
      · -- scheduled: tracked
        refine ⟨⟨fun a h => ?_, fun a h => ?_, fun a x h => ?_⟩, ?_⟩
        · unfold Touched at h ⊢; simp only [mem_ins, c1, c2, c3, c4, c5, c6, c7]; grind
        · by_cases ha : a = i
          · exact Or.inr (Touched.p (by simp [ha]))
          · simp only at h; rw [so a ha] at h; exact Or.inl h
        · simpa [c8] using h
        · exact Touched.p (by simp)
      · -- local: completed at once
        refine ⟨⟨fun a h => ?_, fun a h => ?_, fun a x h => ?_⟩, ?_⟩
        · unfold Touched at h ⊢
          simp only [setStatus, mem_ins, mem_rem, c1, c2, c3, c4, c5, c6, c7]; grind
        · simp only [setStatus, upd] at h
          by_cases ha : a = i
          · exact Or.inr (Touched.c (by simp [setStatus, ha]))
          · simp only [ha, ↓reduceIte] at h; rw [so a ha] at h; exact Or.inl h
        · simpa [setStatus, c8] using h
        · exact Touched.c (by simp [setStatus])
    · -- every attempt failed: the sub-tree is failed
      rw [failSubtree_eq]
      have m := markFailed_spec (subtree cfg i) { r.1 with inProgress := rem i r.1.inProgress }
      have hself := self_mem_subtree wf i
      refine ⟨⟨fun a h => ?_, fun a h => ?_, fun a x h => ?_⟩, ?_⟩
      · unfold Touched at h ⊢
        rw [m.completed, m.inProgress, m.cancelled, m.ready, m.cleanup, m.cancelQ, m.failed]
        simp only [mem_rem, c1, c2, c3, c4, c5, c6, c7]
        by_cases ha : a = i
        · subst ha; exact Or.inr (Or.inr (Or.inl (Or.inl hself)))
        · grind
      · rw [m.status] at h
        by_cases hx : a ∈ subtree cfg i
        · exact Or.inr (Touched.f ((m.failed a).mpr (Or.inl hx)))
        · simp only [hx, ↓reduceIte] at h
          have ha : a ≠ i := fun e => hx (e ▸ hself)
          rw [so a ha] at h; exact Or.inl h
      · rw [m.deps] at h; simpa [c8] using h
      · exact Touched.f ((m.failed i).mpr (Or.inl hself))

theorem adv_setStatus_of_touched (g : G) (i : Nat) (s : State) (h : Touched g i) :
    Adv g (setStatus g i s) := by
  refine ⟨fun a ha => ha, fun a ha => ?_, fun a x hx => hx⟩
  simp only [setStatus, upd] at ha
  by_cases e : a = i
  · subst e; exact Or.inr h
  · simp only [e, ↓reduceIte] at ha; exact Or.inl ha

theorem adv_report {cfg : Cfg} (wf : WFCfg cfg) (g : G) (i : Nat) (hi : i ∈ g.inProgress)
    (st : Option State) : Adv g (report cfg g i st) := by
  have hself := self_mem_subtree wf i
  -- the ghost ledger update changes nothing that `Adv` reads
  have ghost : ∀ (b : Bool), Adv g (if b then { g with live := rem i g.live } else g) := by
    intro b; cases b
    · exact Adv.refl g
    · exact ⟨fun _ h => h, fun _ h => Or.inl h, fun _ _ h => h⟩
  cases st with
  | none => simpa [report, terminal] using Adv.refl g
  | some s =>
    cases s
    case FINISHED =>
      simp only [report, terminal, setStatus, ↓reduceIte]
      refine ⟨fun a h => ?_, fun a h => ?_, fun a x h => h⟩
      · unfold Touched at h ⊢; simp only [mem_ins, mem_rem]; grind
      · simp only [upd] at h
        by_cases e : a = i
        · exact Or.inr (Touched.c (by simp [e]))
        · simp only [e, ↓reduceIte] at h; exact Or.inl h
    case RUNNING =>
      simp only [report, terminal, Bool.false_eq_true, ↓reduceIte]
      exact adv_setStatus_of_touched g i .RUNNING (Touched.p hi)
    case HWFAILURE =>
      simp only [report, terminal, ↓reduceIte]
      refine ⟨fun a h => ?_, fun a h => Or.inl h, fun a x h => h⟩
      unfold Touched at h ⊢; simp only [mem_rem, List.mem_append, List.mem_singleton]; grind
    case FAILED =>
      simp only [report, terminal, setStatus, ↓reduceIte]
      refine ⟨fun a h => ?_, fun a h => ?_, fun a x h => h⟩
      · unfold Touched at h ⊢; simp only [mem_rem, mem_insAll]; grind
      · simp only [upd] at h
        by_cases e : a = i
        · subst e; exact Or.inr (Touched.cl (by simp [hself]))
        · simp only [e, ↓reduceIte] at h; exact Or.inl h
    case UNKNOWN =>
      simp only [report, terminal, setStatus, ↓reduceIte]
      refine ⟨fun a h => ?_, fun a h => ?_, fun a x h => h⟩
      · unfold Touched at h ⊢; simp only [mem_rem, mem_insAll]; grind
      · simp only [upd] at h
        by_cases e : a = i
        · subst e; exact Or.inr (Touched.cl (by simp [hself]))
        · simp only [e, ↓reduceIte] at h; exact Or.inl h
    case CANCELLED =>
      simp only [report, terminal, setStatus, ↓reduceIte]
      refine ⟨fun a h => ?_, fun a h => ?_, fun a x h => h⟩
      · unfold Touched at h ⊢; simp only [mem_rem, mem_insAll]; grind
      · simp only [upd] at h
        by_cases e : a = i
        · subst e; exact Or.inr (Touched.cq (by simp [hself]))
        · simp only [e, ↓reduceIte] at h; exact Or.inl h
    case TIMEDOUT =>
      simp only [report, terminal, ↓reduceIte]
      split
      · split
        · -- restart
          have a1 : Adv g (setStatus { g with live := rem i g.live } i .TIMEDOUT) := by
            refine ⟨fun a h => h, fun a h => ?_, fun a x h => h⟩
            simp only [setStatus, upd] at h
            by_cases e : a = i
            · subst e; exact Or.inr (Touched.p hi)
            · simp only [e, ↓reduceIte] at h; exact Or.inl h
          have a2 : Adv (setStatus { g with live := rem i g.live } i .TIMEDOUT)
              { setStatus { g with live := rem i g.live } i .TIMEDOUT with
                restarts := upd (setStatus { g with live := rem i g.live } i .TIMEDOUT).restarts i
                  ((setStatus { g with live := rem i g.live } i .TIMEDOUT).restarts i + 1) } :=
            ⟨fun _ h => h, fun _ h => Or.inl h, fun _ _ h => h⟩
          exact (a1.trans a2).trans (adv_executeRecord wf _ i true).1
        · refine ⟨fun a h => ?_, fun a h => ?_, fun a x h => h⟩
          · unfold Touched at h ⊢; simp only [setStatus, mem_rem, mem_insAll]; grind
          · simp only [setStatus, upd] at h
            by_cases e : a = i
            · subst e; exact Or.inr (Touched.cl (by simp [hself]))
            · simp only [e, ↓reduceIte] at h; exact Or.inl h
      · refine ⟨fun a h => ?_, fun a h => ?_, fun a x h => h⟩
        · unfold Touched at h ⊢; simp only [setStatus, mem_rem, mem_insAll, mem_ins]; grind
        · simp only [setStatus, upd] at h
          by_cases e : a = i
          · exact Or.inr (Touched.f (by simp [setStatus, e]))
          · simp only [e, ↓reduceIte] at h; exact Or.inl h
    all_goals simpa [report, terminal] using Adv.refl g

end MaestroVerif.Exec
