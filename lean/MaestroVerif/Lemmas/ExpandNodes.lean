import MaestroVerif.Lemmas.ExpandInv

/-! No dangling edges: in every expansion each member of a dependency set and each child in the
adjacency table is a node of the graph (an instance or `_source`). -/
namespace MaestroVerif.Expand
open MaestroVerif.Subst

theorem connFold_nodes (c : Str) : ∀ (L : List Str) (g g' : XG),
    L.foldl (connStep c) (.ok g) = .ok g' → ∀ p, p ∈ L → p = c ∨ g.hasNode p = true := by
  intro L
  induction L with
  | nil => intro g g' _ p hp; cases hp
  | cons q qs ih =>
    intro g g' h p hp
    simp only [List.foldl_cons, connStep] at h
    rw [addConnection_eq'] at h
    by_cases hb : bad g q c = true
    · simp only [hb, ↓reduceIte] at h
      rw [foldl_connStep_error] at h
      cases h
    · simp only [hb, Bool.false_eq_true, ↓reduceIte] at h
      have hb' : bad g q c = false := by simpa using hb
      have hq := node_of_not_bad g q c hb'
      rcases List.mem_cons.mp hp with e | e
      · subst e
        rcases hq with h1 | h1
        · exact Or.inr h1
        · exact Or.inl (by simpa using h1)
      · rcases ih _ _ h p e with h1 | h1
        · exact Or.inl h1
        · right
          rw [hasNode_addDep, hasNode_adjUpd g q c p hq] at h1
          exact h1

/-- every member of a dependency set, and every child listed in the adjacency table, is a node -/
def NoDangling (g : XG) : Prop :=
  (∀ k x, x ∈ getAssoc g.deps k → g.hasNode x = true) ∧
  (∀ k x, x ∈ getAssoc g.adj k → g.hasNode x = true)

theorem wire_list {ord : List Str → List Str} (g g' : XG) (isRoot : Bool) (parents hubD : List Str)
    (combos : List (Str × List Str)) (child : Str)
    (h : wire ord g isRoot parents hubD combos child = .ok g') :
    ∃ L : List Str, L.foldl (connStep child) (Except.ok g) = Except.ok g' := by
  cases isRoot with
  | true => exact ⟨[SOURCE], by simpa [wire, connStep] using h⟩
  | false => rw [wire_eq] at h; exact ⟨_, h⟩

theorem noDangling_place : PlaceInv NoDangling := by
  intro ord s s' inst isRoot parents hubD h ⟨hd, ha⟩
  unfold place at h
  cases hw : wire ord (s.g.addStep inst) isRoot parents hubD s.combos inst.name with
  | error e => simp [hw] at h
  | ok g' =>
    simp only [hw, Except.ok.injEq] at h
    subst h
    simp only
    obtain ⟨L, hL⟩ := wire_list _ _ _ _ _ _ _ hw
    obtain ⟨_, hdeps⟩ := connFold_deps inst.name L _ _ hL
    obtain ⟨hnode, hadj⟩ := connFold_adj inst.name L _ _ hL
    have hnodes := connFold_nodes inst.name L _ _ hL
    have hself : (s.g.addStep inst).hasNode inst.name = true := by rw [hasNode_addStep]; simp
    have hmono : ∀ n, s.g.hasNode n = true → (s.g.addStep inst).hasNode n = true := by
      intro n hn; rw [hasNode_addStep, hn]; rfl
    refine ⟨?_, ?_⟩
    · intro k x hx
      rw [hnode]
      rcases (hdeps k x).mp hx with h1 | ⟨_, h2⟩
      · rw [getAssoc_addStep_deps] at h1
        split at h1
        · cases h1
        · exact hmono x (hd k x h1)
      · rcases hnodes x h2 with h3 | h3
        · rw [h3]; exact hself
        · exact h3
    · intro k x hx
      rw [hnode]
      rcases (hadj k x).mp hx with h1 | ⟨h2, _⟩
      · rw [getAssoc_addStep_adj] at h1
        exact hmono x (ha k x h1)
      · rw [h2]; exact hself

/-- **no dangling edge in any expansion**: every dependency of an instance is itself an instance
(or `_source`), and so is every child in the adjacency table -/
theorem stage_noDangling (spec : Spec) (ord : List Str → List Str) (r : XG)
    (h : stage spec ord = .ok r) : NoDangling r :=
  stage_inv noDangling_place spec ord r h
    ⟨by intro k x hx; simp [initSS, getAssoc] at hx, by
      intro k x hx
      simp only [initSS, getAssoc] at hx
      split at hx
      · rename_i e he
        simp only [List.find?_cons] at he
        split at he
        · simp only [Option.some.injEq] at he; subst he; cases hx
        · cases he
      · cases hx⟩

end MaestroVerif.Expand
