import MaestroVerif.Model.Exec
import MaestroVerif.Props.C14

/-! Basic facts about the primitives of `Model/Exec.lean` and frame lemmas of
its loops. -/
namespace MaestroVerif.Exec
open MaestroVerif.Gen

@[simp, grind =] theorem mem_ins {a x : Nat} {l : List Nat} : a ∈ ins x l ↔ a = x ∨ a ∈ l := by
  unfold ins; split <;> simp <;> grind

@[simp, grind =] theorem mem_rem {a x : Nat} {l : List Nat} : a ∈ rem x l ↔ a ∈ l ∧ a ≠ x := by
  unfold rem; simp

@[simp, grind =] theorem mem_insAll {a : Nat} {xs l : List Nat} : a ∈ insAll xs l ↔ a ∈ xs ∨ a ∈ l := by
  unfold insAll
  induction xs generalizing l with
  | nil => simp
  | cons x xs ih => simp [ih]; grind

@[simp, grind =] theorem upd_same {α} (f : Nat → α) (i : Nat) (v : α) : upd f i v i = v := by simp [upd]

@[grind =] theorem upd_apply {α} (f : Nat → α) (i x : Nat) (v : α) :
    upd f i v x = if x = i then v else f x := rfl

theorem nodup_ins {x : Nat} {l : List Nat} (h : l.Nodup) : (ins x l).Nodup := by
  unfold ins; split
  · exact h
  · rw [List.nodup_append]; refine ⟨h, by simp, ?_⟩
    intro a ha b hb; simp at hb; subst hb; intro hab; subst hab; contradiction

theorem nodup_rem {x : Nat} {l : List Nat} (h : l.Nodup) : (rem x l).Nodup := by
  unfold rem; exact h.filter _

theorem length_ins_le (x : Nat) (l : List Nat) : (ins x l).length ≤ l.length + 1 := by
  unfold ins; split <;> simp

theorem length_ins_mem {x : Nat} {l : List Nat} (h : x ∈ l) : (ins x l).length = l.length := by
  unfold ins; simp [h]

theorem length_rem_le (x : Nat) (l : List Nat) : (rem x l).length ≤ l.length := by
  unfold rem; exact List.length_filter_le _ _

theorem length_rem_lt {x : Nat} {l : List Nat} (h : x ∈ l) : (rem x l).length < l.length := by
  unfold rem
  induction l with
  | nil => simp at h
  | cons a l ih =>
    simp only [List.filter_cons]
    by_cases hax : a = x
    · subst hax
      simp
      have := List.length_filter_le (fun y => y != a) l
      omega
    · have hx : x ∈ l := by
        rcases List.mem_cons.mp h with h | h
        · exact absurd h.symm hax
        · exact h
      have := ih hx
      simp [hax]; omega

/-! ### what the configuration must satisfy (what `Study.stage` builds) -/

structure WFCfg (cfg : Cfg) : Prop where
  dagwf    : Dag.WF cfg.dag
  nodes    : ∀ x, x ∈ cfg.dag.nodes ↔ x ≤ cfg.n
  par      : ∀ p c, c ∈ cfg.dag.adj p ↔ p ∈ cfg.parents c
  attempts : 0 < cfg.attempts

theorem mem_subtree {cfg : Cfg} (wf : WFCfg cfg) {i x : Nat} :
    x ∈ subtree cfg i ↔ Dag.Reach cfg.dag i x := by
  obtain ⟨l, h1, _, h3⟩ := C14.C14_bfs_exact cfg.dag wf.dagwf i
  simp [subtree, h1, h3]

theorem self_mem_subtree {cfg : Cfg} (wf : WFCfg cfg) (i : Nat) : i ∈ subtree cfg i :=
  (mem_subtree wf).mpr Relation.ReflTransGen.refl

theorem subtree_closed {cfg : Cfg} (wf : WFCfg cfg) {i x c : Nat} (hx : x ∈ subtree cfg i)
    (hc : c ∈ cfg.dag.adj x) : c ∈ subtree cfg i :=
  (mem_subtree wf).mpr (((mem_subtree wf).mp hx).tail hc)

/-! ### marking loops (`failSubtree`, the two sweeps) -/

def markFailed (xs : List Nat) (g : G) : G :=
  xs.foldl (fun g x => setStatus { g with failed := ins x g.failed } x .FAILED) g

def markCancelled (xs : List Nat) (g : G) : G :=
  xs.foldl (fun g x => setStatus { g with cancelled := ins x g.cancelled } x .CANCELLED) g

theorem failSubtree_eq (cfg : Cfg) (g : G) (i : Nat) :
    failSubtree cfg g i = markFailed (subtree cfg i) g := rfl

theorem sweeps_eq (g : G) :
    sweeps g = { markCancelled g.cancelQ (markFailed g.cleanup g) with cleanup := [], cancelQ := [] } := by
  have h : ∀ xs (g : G), (markFailed xs g).cancelQ = g.cancelQ := by
    intro xs; induction xs with
    | nil => intro g; rfl
    | cons x xs ih => intro g; simp only [markFailed, List.foldl_cons] at ih ⊢; rw [ih]; rfl
  simp only [sweeps, markFailed, markCancelled] at h ⊢
  rw [h]

structure MarkedF (xs : List Nat) (g g' : G) : Prop where
  failed     : ∀ a, a ∈ g'.failed ↔ a ∈ xs ∨ a ∈ g.failed
  status     : ∀ a, g'.status a = if a ∈ xs then State.FAILED else g.status a
  jobs       : g'.jobs = g.jobs
  restarts   : g'.restarts = g.restarts
  deps       : g'.deps = g.deps
  completed  : g'.completed = g.completed
  inProgress : g'.inProgress = g.inProgress
  cancelled  : g'.cancelled = g.cancelled
  ready      : g'.ready = g.ready
  isCanceled : g'.isCanceled = g.isCanceled
  subCount   : g'.subCount = g.subCount
  cleanup    : g'.cleanup = g.cleanup
  cancelQ    : g'.cancelQ = g.cancelQ
  log        : g'.log = g.log
  live       : g'.live = g.live
  peak       : g'.peak = g.peak
  depsOk     : g'.depsOk = g.depsOk
  freshOk    : g'.freshOk = g.freshOk
  cancelOk   : g'.cancelOk = g.cancelOk
  restartOk  : g'.restartOk = g.restartOk
  oneJob     : g'.oneJob = g.oneJob

theorem markFailed_spec (xs : List Nat) (g : G) : MarkedF xs g (markFailed xs g) := by
  induction xs generalizing g with
  | nil => constructor <;> simp [markFailed]
  | cons x xs ih =>
    have h := ih (setStatus { g with failed := ins x g.failed } x .FAILED)
    simp only [markFailed, List.foldl_cons] at h ⊢
    constructor
    · intro a; rw [h.failed]; simp [setStatus]; grind
    · intro a; rw [h.status]; simp [setStatus, upd]; grind
    all_goals first | exact h.jobs | exact h.restarts | exact h.deps | exact h.completed
                    | exact h.inProgress | exact h.cancelled | exact h.ready | exact h.isCanceled
                    | exact h.subCount | exact h.cleanup | exact h.cancelQ | exact h.log
                    | exact h.live | exact h.peak | exact h.depsOk | exact h.oneJob
                    | exact h.freshOk | exact h.cancelOk | exact h.restartOk

structure MarkedC (xs : List Nat) (g g' : G) : Prop where
  cancelled  : ∀ a, a ∈ g'.cancelled ↔ a ∈ xs ∨ a ∈ g.cancelled
  status     : ∀ a, g'.status a = if a ∈ xs then State.CANCELLED else g.status a
  jobs       : g'.jobs = g.jobs
  restarts   : g'.restarts = g.restarts
  deps       : g'.deps = g.deps
  completed  : g'.completed = g.completed
  inProgress : g'.inProgress = g.inProgress
  failed     : g'.failed = g.failed
  ready      : g'.ready = g.ready
  isCanceled : g'.isCanceled = g.isCanceled
  subCount   : g'.subCount = g.subCount
  cleanup    : g'.cleanup = g.cleanup
  cancelQ    : g'.cancelQ = g.cancelQ
  log        : g'.log = g.log
  live       : g'.live = g.live
  peak       : g'.peak = g.peak
  depsOk     : g'.depsOk = g.depsOk
  freshOk    : g'.freshOk = g.freshOk
  cancelOk   : g'.cancelOk = g.cancelOk
  restartOk  : g'.restartOk = g.restartOk
  oneJob     : g'.oneJob = g.oneJob

theorem markCancelled_spec (xs : List Nat) (g : G) : MarkedC xs g (markCancelled xs g) := by
  induction xs generalizing g with
  | nil => constructor <;> simp [markCancelled]
  | cons x xs ih =>
    have h := ih (setStatus { g with cancelled := ins x g.cancelled } x .CANCELLED)
    simp only [markCancelled, List.foldl_cons] at h ⊢
    constructor
    · intro a; rw [h.cancelled]; simp [setStatus]; grind
    · intro a; rw [h.status]; simp [setStatus, upd]; grind
    all_goals first | exact h.jobs | exact h.restarts | exact h.deps | exact h.completed
                    | exact h.inProgress | exact h.failed | exact h.ready | exact h.isCanceled
                    | exact h.subCount | exact h.cleanup | exact h.cancelQ | exact h.log
                    | exact h.live | exact h.peak | exact h.depsOk | exact h.oneJob
                    | exact h.freshOk | exact h.cancelOk | exact h.restartOk

/-! ### frame of the submission retry loop -/

structure SubmitFrame (cfg : Cfg) (i : Nat) (restart : Bool) (g g' : G) : Prop where
  statusO    : ∀ a, a ≠ i → g'.status a = g.status a
  statusI    : g'.status i = g.status i ∨ g'.status i = .PENDING ∨ g'.status i = .RUNNING
  restarts   : g'.restarts = g.restarts
  deps       : g'.deps = g.deps
  completed  : g'.completed = g.completed
  inProgress : g'.inProgress = g.inProgress
  failed     : g'.failed = g.failed
  cancelled  : g'.cancelled = g.cancelled
  ready      : g'.ready = g.ready
  isCanceled : g'.isCanceled = g.isCanceled
  cleanup    : g'.cleanup = g.cleanup
  cancelQ    : g'.cancelQ = g.cancelQ
  depsOk     : g'.depsOk = g.depsOk
  freshOk    : g'.freshOk = g.freshOk
  cancelOk   : g'.cancelOk = g.cancelOk
  restartOk  : g'.restartOk = g.restartOk

theorem SubmitFrame.refl (cfg : Cfg) (i : Nat) (restart : Bool) (g : G) :
    SubmitFrame cfg i restart g g := by
  constructor <;> simp

theorem SubmitFrame.trans {cfg : Cfg} {i : Nat} {restart : Bool} {g g1 g2 : G}
    (h1 : SubmitFrame cfg i restart g g1) (h2 : SubmitFrame cfg i restart g1 g2) :
    SubmitFrame cfg i restart g g2 := by
  constructor
  · intro a ha; rw [h2.statusO a ha, h1.statusO a ha]
  · rcases h2.statusI with h | h | h
    · rw [h]; exact h1.statusI
    · exact Or.inr (Or.inl h)
    · exact Or.inr (Or.inr h)
  all_goals first
    | (rw [h2.restarts, h1.restarts]) | (rw [h2.deps, h1.deps])
    | (rw [h2.completed, h1.completed]) | (rw [h2.inProgress, h1.inProgress])
    | (rw [h2.failed, h1.failed]) | (rw [h2.cancelled, h1.cancelled])
    | (rw [h2.ready, h1.ready]) | (rw [h2.isCanceled, h1.isCanceled])
    | (rw [h2.cleanup, h1.cleanup]) | (rw [h2.cancelQ, h1.cancelQ])
    | (rw [h2.depsOk, h1.depsOk]) | (rw [h2.freshOk, h1.freshOk])
    | (rw [h2.cancelOk, h1.cancelOk]) | (rw [h2.restartOk, h1.restartOk])

theorem attempt_frame (cfg : Cfg) (i : Nat) (restart : Bool) (g : G) :
    SubmitFrame cfg i restart g (attempt cfg i restart g).1 := by
  constructor <;> (simp only [attempt, emit, setStatus]; repeat' split) <;> simp [upd] <;> grind

theorem submitLoop_frame (cfg : Cfg) (i : Nat) (restart : Bool) :
    ∀ k g, SubmitFrame cfg i restart g (submitLoop cfg i restart k g).1 := by
  intro k
  induction k with
  | zero => intro g; exact SubmitFrame.refl cfg i restart g
  | succ k ih =>
    intro g
    simp only [submitLoop]
    split
    · exact attempt_frame cfg i restart g
    · exact (attempt_frame cfg i restart g).trans (ih _)

end MaestroVerif.Exec
