import MaestroVerif.Model.Launcher
import MaestroVerif.Lemmas.SubstLemmas

/-! Lemmas about the resource dictionaries and the launcher-token loop of
`Model/Launcher.lean`. -/
deriving instance DecidableEq for Except

namespace MaestroVerif.Launcher
open MaestroVerif.Subst

/-! ### dictionaries -/

theorem look_set_self (d : Dict) (k : Str) (v : Val) : (d.set k v).look k = some v := by
  induction d with
  | nil => simp [Dict.set, Dict.look]
  | cons e rest ih =>
    by_cases h : e.1 == k
    · simp [Dict.set, Dict.look, h]
    · simp [Dict.set, Dict.look, h, ih]

theorem look_set_ne (d : Dict) (k k' : Str) (v : Val) (hne : k' ≠ k) :
    (d.set k v).look k' = d.look k' := by
  induction d with
  | nil =>
    have : (k == k') = false := by simpa using fun h => hne h.symm
    simp [Dict.set, Dict.look, this]
  | cons e rest ih =>
    by_cases h : e.1 == k
    · have hk : e.1 = k := by simpa using h
      have : (k == k') = false := by simpa using fun h => hne h.symm
      simp [Dict.set, Dict.look, h, hk, this]
    · by_cases h2 : e.1 == k'
      · simp [Dict.set, Dict.look, h, h2]
      · simp [Dict.set, Dict.look, h, h2, ih]

/-- the entry an update sequence leaves for `k`: its last entry for `k` -/
def lastLook : Dict → Str → Option Val
  | [], _ => none
  | kv :: rest, k =>
    match lastLook rest k with
    | some v => some v
    | none => if kv.1 == k then some kv.2 else none

theorem look_update (e : Dict) : ∀ (d : Dict) (k : Str),
    (d.update e).look k = match lastLook e k with | some v => some v | none => d.look k := by
  induction e with
  | nil => intro d k; simp [Dict.update, lastLook]
  | cons kv rest ih =>
    intro d k
    simp only [Dict.update, lastLook]
    rw [ih]
    cases h : lastLook rest k with
    | some v => rfl
    | none =>
      by_cases hk : kv.1 == k
      · have : kv.1 = k := by simpa using hk
        simp [hk, ← this, look_set_self]
      · have : k ≠ kv.1 := by intro h; simp [h] at hk
        simp [hk, look_set_ne _ _ _ _ this]

theorem look_none_of_not_mem (d : Dict) (k : Str) (h : k ∉ d.map (·.1)) : Dict.look d k = none := by
  induction d with
  | nil => rfl
  | cons a as ih =>
    simp only [List.map_cons, List.mem_cons, not_or] at h
    have : (a.1 == k) = false := by simpa using fun h' => h.1 h'.symm
    simp [Dict.look, this, ih h.2]

/-- for a dictionary with distinct keys the last entry is the entry -/
theorem lastLook_eq_look (e : Dict) (hn : (e.map (·.1)).Nodup) (k : Str) :
    lastLook e k = Dict.look e k := by
  induction e with
  | nil => rfl
  | cons kv rest ih =>
    simp only [List.map_cons, List.nodup_cons] at hn
    simp only [lastLook, Dict.look]
    rw [ih hn.2]
    by_cases hk : kv.1 == k
    · have hk' : kv.1 = k := by simpa using hk
      have : Dict.look rest k = none := look_none_of_not_mem rest k (hk' ▸ hn.1)
      simp [hk, this]
    · cases h : Dict.look rest k <;> simp [hk]

theorem look_filter (e : Dict) (p : Str × Val → Bool) (hn : (e.map (·.1)).Nodup) (k : Str) :
    Dict.look (e.filter p) k = match Dict.look e k with
      | some v => if p (k, v) then some v else none
      | none => none := by
  induction e with
  | nil => rfl
  | cons kv rest ih =>
    simp only [List.map_cons, List.nodup_cons] at hn
    by_cases hk : kv.1 == k
    · have hk' : kv.1 = k := by simpa using hk
      have hrest : Dict.look rest k = none := look_none_of_not_mem rest k (hk' ▸ hn.1)
      have hkv : kv = (k, kv.2) := by rw [← hk']
      by_cases hp : p kv
      · have hp' : p (k, kv.2) = true := hkv ▸ hp
        simp [List.filter_cons, hp, Dict.look, hk, hp']
      · have hp' : p (k, kv.2) = false := by rw [← hkv]; simpa using hp
        have := ih hn.2
        simp only [hrest] at this
        simp [List.filter_cons, hp, Dict.look, hk, hp', this]
    · by_cases hp : p kv
      · simp [List.filter_cons, hp, Dict.look, hk, ih hn.2]
      · simp [List.filter_cons, hp, Dict.look, hk, ih hn.2]

theorem nodup_filter_keys (e : Dict) (p : Str × Val → Bool) (hn : (e.map (·.1)).Nodup) :
    ((e.filter p).map (·.1)).Nodup := by
  induction e with
  | nil => simp
  | cons kv rest ih =>
    simp only [List.map_cons, List.nodup_cons] at hn
    by_cases hp : p kv
    · simp only [List.filter_cons, hp, ↓reduceIte, List.map_cons, List.nodup_cons]
      refine ⟨?_, ih hn.2⟩
      intro hmem
      apply hn.1
      simp only [List.mem_map, List.mem_filter] at hmem ⊢
      obtain ⟨a, ⟨ha, _⟩, hak⟩ := hmem
      exact ⟨a, ha, hak⟩
    · simp only [List.filter_cons, hp, Bool.false_eq_true, ↓reduceIte]
      exact ih hn.2

/-- **the resource a header line is generated from**: the step's value when the
step declares one (a truthy value), else the batch block's -/
theorem look_update_truthy (batch run : Dict) (hn : (run.map (·.1)).Nodup) (k : Str) :
    Dict.look (batch.update (truthyItems run)) k =
      match Dict.look run k with
      | some v => if v.truthy then some v else Dict.look batch k
      | none => Dict.look batch k := by
  rw [look_update]
  unfold truthyItems
  rw [lastLook_eq_look _ (nodup_filter_keys _ _ hn), look_filter _ _ hn]
  cases h : Dict.look run k with
  | none => rfl
  | some v => by_cases ht : v.truthy <;> simp [ht]

end MaestroVerif.Launcher

namespace MaestroVerif.Launcher
open MaestroVerif.Subst

/-! ### the launcher-token loop -/

/-- the text of one bracketed token -/
def tokText (alloc : Str) : Str := launcherVar ++ ['['] ++ alloc ++ [']']

/-- the counts `(nodes, procs)` one token asks for -/
def tokenCounts (alloc : Str) : Except PErr (Option Int × Option Int) :=
  match parseAlloc alloc with
  | .error e => .error e
  | .ok (ns, ps) =>
    match tokCount ns, tokCount ps with
    | .error e, _ => .error e
    | .ok _, .error e => .error e
    | .ok n, .ok p => .ok (n, p)

/-- the launcher a token is replaced by: built from the token's own counts -/
def tokLauncher (cx : Ctx) (addl : Dict) (alloc : Str) : Except PErr Str :=
  match parseAlloc alloc with
  | .error e => .error e
  | .ok (ns, ps) => parallel cx (optStr ps) (optStr ns) addl

theorem substOne_ok {cx : Ctx} {nodes procs : Val} {maxN maxP : Int} {addl : Dict} {acc acc' : Acc}
    {alloc : Str} (h : substOne cx nodes procs maxN maxP addl acc alloc = .ok acc') :
    ∃ n p pc, tokenCounts alloc = .ok (n, p) ∧ overOne nodes maxN n = false ∧
      overOne procs maxP p = false ∧ tokLauncher cx addl alloc = .ok pc ∧
      acc' = { cmd := replaceAll acc.cmd (tokText alloc) pc,
               totalNodes := acc.totalNodes + n.getD 0, totalProcs := acc.totalProcs + p.getD 0 } := by
  unfold substOne at h
  unfold tokenCounts tokLauncher
  cases hp : parseAlloc alloc with
  | error e => simp [hp] at h
  | ok nsps =>
    obtain ⟨ns, ps⟩ := nsps
    simp only [hp] at h ⊢
    cases hn : tokCount ns with
    | error e => simp [hn] at h
    | ok n =>
      cases hpp : tokCount ps with
      | error e => simp [hn, hpp] at h
      | ok p =>
        simp only [hn, hpp] at h ⊢
        by_cases hov : (overOne nodes maxN n || overOne procs maxP p) = true
        · simp [hov] at h
        · simp only [hov, Bool.false_eq_true, ↓reduceIte] at h
          cases hpc : parallel cx (optStr ps) (optStr ns) addl with
          | error e => simp [hpc] at h
          | ok pc =>
            simp only [hpc, Except.ok.injEq] at h
            simp only [Bool.or_eq_true, not_or, Bool.not_eq_true] at hov
            exact ⟨n, p, pc, rfl, hov.1, hov.2, rfl, by rw [← h]; rfl⟩

def nodeAsk (alloc : Str) : Int :=
  match tokenCounts alloc with
  | .ok (n, _) => n.getD 0
  | .error _ => 0

def procAsk (alloc : Str) : Int :=
  match tokenCounts alloc with
  | .ok (_, p) => p.getD 0
  | .error _ => 0

/-- the command text after the tokens of `allocs` were replaced, in order, each by
its own launcher -/
def applyTokens (cx : Ctx) (addl : Dict) : Str → List Str → Str
  | c, [] => c
  | c, a :: as =>
    match tokLauncher cx addl a with
    | .ok pc => applyTokens cx addl (replaceAll c (tokText a) pc) as
    | .error _ => c

theorem substFold_ok {cx : Ctx} {nodes procs : Val} {maxN maxP : Int} {addl : Dict} :
    ∀ (allocs : List Str) (acc acc' : Acc),
      substFold cx nodes procs maxN maxP addl acc allocs = .ok acc' →
      acc'.cmd = applyTokens cx addl acc.cmd allocs ∧
      acc'.totalNodes = acc.totalNodes + (allocs.map nodeAsk).sum ∧
      acc'.totalProcs = acc.totalProcs + (allocs.map procAsk).sum ∧
      ∀ a ∈ allocs, ∃ n p, tokenCounts a = .ok (n, p) ∧ overOne nodes maxN n = false ∧
        overOne procs maxP p = false := by
  intro allocs
  induction allocs with
  | nil =>
    intro acc acc' h
    simp only [substFold, Except.ok.injEq] at h
    subst h
    simp [applyTokens]
  | cons a as ih =>
    intro acc acc' h
    simp only [substFold] at h
    cases h1 : substOne cx nodes procs maxN maxP addl acc a with
    | error e => simp [h1] at h
    | ok acc1 =>
      simp only [h1] at h
      obtain ⟨n, p, pc, hc, hon, hop, hl, hacc⟩ := substOne_ok h1
      obtain ⟨i1, i2, i3, i4⟩ := ih acc1 acc' h
      have hna : nodeAsk a = n.getD 0 := by simp [nodeAsk, hc]
      have hpa : procAsk a = p.getD 0 := by simp [procAsk, hc]
      refine ⟨?_, ?_, ?_, ?_⟩
      · simp only [applyTokens, hl]; rw [i1, hacc]
      · rw [i2, hacc]; simp only [List.map_cons, List.sum_cons, hna]; omega
      · rw [i3, hacc]; simp only [List.map_cons, List.sum_cons, hpa]; omega
      · intro b hb
        rcases List.mem_cons.mp hb with rfl | hb
        · exact ⟨n, p, hc, hon, hop⟩
        · exact i4 b hb

/-! ### only clean rejections on Slurm and Flux -/

theorem parseInt_err {s : Str} {e : PErr} (h : parseInt s = .error e) : e = .valueError := by
  unfold parseInt at h
  split at h
  · simp only [Except.error.injEq] at h; exact h.symm
  · simp at h

theorem tokCount_err {s : Option Str} {e : PErr} (h : tokCount s = .error e) : e = .valueError := by
  unfold tokCount at h
  split at h
  · split at h
    · simp at h
    · cases hp : parseInt _ with
      | error e' =>
        rw [hp] at h
        simp only [Except.map] at h
        simp only [Except.error.injEq] at h
        rw [← h]; exact parseInt_err hp
      | ok v => rw [hp] at h; simp [Except.map] at h
  · simp at h

theorem parseAlloc_err {a : Str} {e : PErr} (h : parseAlloc a = .error e) : e = .valueError := by
  unfold parseAlloc at h
  split at h
  · simp at h
  · split at h
    · simp only [Except.error.injEq] at h; exact h.symm
    · split at h
      · simp only [Except.error.injEq] at h; exact h.symm
      · simp at h

theorem maxOf_err {v : Val} {e : PErr} (h : maxOf v = .error e) : e = .valueError := by
  unfold maxOf at h
  split at h
  · rename_i ht
    cases v with
    | none => simp [Val.truthy] at ht
    | int n => simp [Val.toInt] at h
    | bool b => simp [Val.toInt] at h
    | str s => exact parseInt_err h
  · simp at h

/-- an adapter whose launcher generation cannot fail -/
def totalLauncher (cx : Ctx) : Prop := cx.adapter = .slurm ∨ cx.adapter = .flux ∨ cx.adapter = .localA

theorem parallel_total {cx : Ctx} (hc : totalLauncher cx) (p n : Val) (addl : Dict) :
    ∃ s, parallel cx p n addl = .ok s := by
  unfold parallel
  rcases hc with h | h | h <;> simp [h]

theorem substOne_err {cx : Ctx} (hc : totalLauncher cx) {nodes procs : Val} {maxN maxP : Int} {addl : Dict}
    {acc : Acc} {a : Str} {e : PErr} (h : substOne cx nodes procs maxN maxP addl acc a = .error e) :
    e = .valueError := by
  unfold substOne at h
  cases hp : parseAlloc a with
  | error e' => simp only [hp, Except.error.injEq] at h; rw [← h]; exact parseAlloc_err hp
  | ok nsps =>
    obtain ⟨ns, ps⟩ := nsps
    simp only [hp] at h
    cases hn : tokCount ns with
    | error e' => simp only [hn, Except.error.injEq] at h; rw [← h]; exact tokCount_err hn
    | ok n =>
      cases hpp : tokCount ps with
      | error e' => simp only [hn, hpp, Except.error.injEq] at h; rw [← h]; exact tokCount_err hpp
      | ok p =>
        simp only [hn, hpp] at h
        split at h
        · simp only [Except.error.injEq] at h; exact h.symm
        · obtain ⟨s, hs⟩ := parallel_total hc (optStr ps) (optStr ns) addl
          simp [hs] at h

theorem substFold_err {cx : Ctx} (hc : totalLauncher cx) {nodes procs : Val} {maxN maxP : Int} {addl : Dict} :
    ∀ (allocs : List Str) (acc : Acc) (e : PErr),
      substFold cx nodes procs maxN maxP addl acc allocs = .error e → e = .valueError := by
  intro allocs
  induction allocs with
  | nil => intro acc e h; simp [substFold] at h
  | cons a as ih =>
    intro acc e h
    simp only [substFold] at h
    cases h1 : substOne cx nodes procs maxN maxP addl acc a with
    | error e' => simp only [h1, Except.error.injEq] at h; rw [← h]; exact substOne_err hc h1
    | ok acc1 => simp only [h1] at h; exact ih acc1 e h

theorem substituteParallel_err {cx : Ctx} (hc : totalLauncher cx) {cmd : Str} {run : Dict} {e : PErr}
    (h : substituteParallel cx cmd run = .error e) : e = .valueError := by
  unfold substituteParallel at h
  simp only at h
  split at h
  · obtain ⟨s, hs⟩ := parallel_total hc (run.getN "procs") (run.getN "nodes")
      ((run.remove "nodes").remove "procs")
    simp only [hs] at h
    split at h <;> simp at h
  · cases hn : maxOf (run.getN "nodes") with
    | error e' => simp only [hn, Except.error.injEq] at h; rw [← h]; exact maxOf_err hn
    | ok maxN =>
      cases hp : maxOf (run.getN "procs") with
      | error e' => simp only [hn, hp, Except.error.injEq] at h; rw [← h]; exact maxOf_err hp
      | ok maxP =>
        simp only [hn, hp] at h
        split at h
        · rename_i e' hf
          simp only [Except.error.injEq] at h; rw [← h]; exact substFold_err hc _ _ _ hf
        · split at h
          · simp only [Except.error.injEq] at h; exact h.symm
          · split at h
            · simp only [Except.error.injEq] at h; exact h.symm
            · simp at h

theorem schedulerCommand_err {cx : Ctx} (hc : totalLauncher cx) {run : Dict} {e : PErr}
    (h : schedulerCommand cx run = .error e) : e = .valueError := by
  unfold schedulerCommand at h
  simp only at h
  split at h
  · split at h
    · rename_i e' hs
      simp only [Except.error.injEq] at h; rw [← h]; exact substituteParallel_err hc hs
    · split at h
      · split at h
        · rename_i e' hs
          simp only [Except.error.injEq] at h; rw [← h]; exact substituteParallel_err hc hs
        · simp at h
      · simp at h
  · simp at h

end MaestroVerif.Launcher
