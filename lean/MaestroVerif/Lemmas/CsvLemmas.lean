import MaestroVerif.Model.Csv

/-! The status table round trip: `readCsv (writeCsv header rows)` for fields free
of `,`, `\n` and `\r`. -/
namespace MaestroVerif.Csv

theorem splitOn_ne_nil (sep : Char) (s : Str) : splitOn sep s ≠ [] := by
  induction s with
  | nil => simp [splitOn]
  | cons c cs ih =>
    simp only [splitOn]
    split
    · simp
    · split <;> simp

theorem splitOn_clean (sep : Char) (x : Str) (h : sep ∉ x) : splitOn sep x = [x] := by
  induction x with
  | nil => rfl
  | cons c cs ih =>
    have hc : c ≠ sep := fun e => h (by simp [e])
    have hcs : sep ∉ cs := fun e => h (by simp [e])
    simp only [splitOn, ih hcs]
    have : (c == sep) = false := by simpa using hc
    simp [this]

theorem splitOn_append (sep : Char) (x rest : Str) (h : sep ∉ x) :
    splitOn sep (x ++ sep :: rest) = x :: splitOn sep rest := by
  induction x with
  | nil =>
    simp only [List.nil_append, splitOn]
    cases hr : splitOn sep rest with
    | nil => exact absurd hr (splitOn_ne_nil sep rest)
    | cons t ts => simp
  | cons c cs ih =>
    have hc : c ≠ sep := fun e => h (by simp [e])
    have hcs : sep ∉ cs := fun e => h (by simp [e])
    simp only [List.cons_append, splitOn, ih hcs]
    have : (c == sep) = false := by simpa using hc
    simp [this]

theorem splitOn_join (sep : Char) : ∀ (fields : List Str), fields ≠ [] →
    (∀ f, f ∈ fields → sep ∉ f) → splitOn sep (join [sep] fields) = fields := by
  intro fields
  induction fields with
  | nil => intro h; exact absurd rfl h
  | cons f fs ih =>
    intro _ hc
    cases fs with
    | nil => simp only [join]; exact splitOn_clean sep f (hc f (by simp))
    | cons g gs =>
      simp only [join, List.append_assoc, List.singleton_append]
      rw [splitOn_append sep f _ (hc f (by simp))]
      rw [ih (by simp) (fun x hx => hc x (by simp [hx]))]

theorem translate_clean (s : Str) (h : '\r' ∉ s) : translateNewlines s = s := by
  induction s with
  | nil => rfl
  | cons c cs ih =>
    have hc : c ≠ '\r' := fun e => h (by simp [e])
    have hcs : '\r' ∉ cs := fun e => h (by simp [e])
    rw [translateNewlines.eq_4 c cs (fun _ e _ => hc e) hc, ih hcs]

theorem readlinesAux_clean (l cur : Str) (h : '\n' ∉ l) :
    readlinesAux l cur = if (cur.reverse ++ l).isEmpty then [] else [cur.reverse ++ l] := by
  induction l generalizing cur with
  | nil => simp [readlinesAux]
  | cons c cs ih =>
    have hc : c ≠ '\n' := fun e => h (by simp [e])
    have hcs : '\n' ∉ cs := fun e => h (by simp [e])
    rw [readlinesAux.eq_3 cur c cs hc, ih (c :: cur) hcs]
    simp

theorem readlinesAux_append (l rest cur : Str) (h : '\n' ∉ l) :
    readlinesAux (l ++ '\n' :: rest) cur = (cur.reverse ++ l ++ ['\n']) :: readlinesAux rest [] := by
  induction l generalizing cur with
  | nil => simp [readlinesAux.eq_2]
  | cons c cs ih =>
    have hc : c ≠ '\n' := fun e => h (by simp [e])
    have hcs : '\n' ∉ cs := fun e => h (by simp [e])
    simp only [List.cons_append]
    rw [readlinesAux.eq_3 cur c _ hc, ih (c :: cur) hcs]
    simp

/-- every line but the last gets a `\n` -/
def addNl : List Str → List Str
  | [] => []
  | [l] => [l]
  | l :: l' :: ls => (l ++ ['\n']) :: addNl (l' :: ls)

/-- `readlines` of `"\n".join(lines)` -/
theorem readlines_join : ∀ (lines : List Str), (∀ l, l ∈ lines → '\n' ∉ l ∧ l ≠ []) →
    readlines (join ['\n'] lines) = addNl lines := by
  intro lines
  induction lines with
  | nil => intro _; simp [join, readlines, readlinesAux, addNl]
  | cons l ls ih =>
    intro hc
    cases ls with
    | nil =>
      have := hc l (by simp)
      simp only [join, readlines, addNl]
      rw [readlinesAux_clean l [] this.1]
      have hne : l ≠ [] := this.2
      cases l with
      | nil => exact absurd rfl hne
      | cons a b => simp
    | cons g gs =>
      have h1 := hc l (by simp)
      simp only [join, readlines, List.append_assoc, List.singleton_append, addNl]
      rw [readlinesAux_append l _ [] h1.1]
      have := ih (fun x hx => hc x (by simp [hx]))
      simp only [readlines] at this
      rw [this]
      simp

theorem dropWhile_nl_clean (s : Str) (h : '\n' ∉ s) : s.dropWhile (· == '\n') = s := by
  cases s with
  | nil => rfl
  | cons c cs =>
    have hc : c ≠ '\n' := fun e => h (by simp [e])
    have : (c == '\n') = false := by simpa using hc
    simp [List.dropWhile, this]

theorem stripNl_clean (s : Str) (h : '\n' ∉ s) : stripNl s = s := by
  unfold stripNl
  rw [dropWhile_nl_clean s h, dropWhile_nl_clean s.reverse (by simpa using h)]
  simp

theorem stripNl_append_nl (s : Str) (h : '\n' ∉ s) : stripNl (s ++ ['\n']) = s := by
  unfold stripNl
  cases s with
  | nil => simp [List.dropWhile]
  | cons c cs =>
    have hc : c ≠ '\n' := fun e => h (by simp [e])
    have hb : (c == '\n') = false := by simpa using hc
    simp only [List.cons_append, List.dropWhile, hb]
    simp only [List.reverse_cons, List.reverse_append, List.reverse_nil, List.nil_append,
      List.singleton_append, List.cons_append]
    have : ('\n' == '\n') = true := rfl
    simp only [List.dropWhile, this]
    have hr : '\n' ∉ (cs.reverse ++ [c]) := by
      simp only [List.mem_append, List.mem_reverse, List.mem_singleton, not_or]
      exact ⟨fun e => h (by simp [e]), fun e => hc e.symm⟩
    rw [dropWhile_nl_clean _ hr]
    simp

end MaestroVerif.Csv

namespace MaestroVerif.Csv

theorem initTable_nodup (header : List Str) (h : header.Nodup) :
    initTable header = header.map (fun x => (x, [])) := by
  unfold initTable
  suffices hs : ∀ (pre rest : List Str), (pre ++ rest).Nodup →
      rest.foldl (fun t h => if t.any (·.1 == h) then t.map (fun e => if e.1 == h then (h, []) else e)
        else t ++ [(h, [])]) (pre.map (fun x => (x, ([] : List Str)))) =
      (pre ++ rest).map (fun x => (x, [])) by
    simpa using hs [] header (by simpa using h)
  intro pre rest
  induction rest generalizing pre with
  | nil => intro _; simp
  | cons r rs ih =>
    intro hn
    simp only [List.foldl_cons]
    have hr : r ∉ pre := by
      intro hc
      have := List.nodup_append.mp hn
      exact this.2.2 r hc r (by simp) rfl
    have hany : (List.map (fun x => (x, ([] : List Str))) pre).any (fun e => e.1 == r) = false := by
      simp only [List.any_map, List.any_eq_false, Function.comp_apply, beq_iff_eq]
      intro x hx hxr; exact hr (hxr ▸ hx)
    simp only [hany, Bool.false_eq_true, ↓reduceIte]
    have := ih (pre ++ [r]) (by simpa using hn)
    simpa using this

theorem appendCol_other (t : Table) (k : Str) (v : Str) (h : ∀ e, e ∈ t → e.1 ≠ k) :
    appendCol t k v = t := by
  unfold appendCol
  induction t with
  | nil => rfl
  | cons e es ih =>
    have he : (e.1 == k) = false := by simpa using h e (by simp)
    simp only [List.map_cons, he, Bool.false_eq_true, ↓reduceIte]
    rw [ih (fun e' he' => h e' (by simp [he']))]

theorem fold_appendCol_head (hd : Str × List Str) (t : Table) (pairs : List (Str × Str))
    (h : ∀ p, p ∈ pairs → p.1 ≠ hd.1) :
    pairs.foldl (fun t hf => appendCol t hf.1 (stripNl hf.2)) (hd :: t) =
    hd :: pairs.foldl (fun t hf => appendCol t hf.1 (stripNl hf.2)) t := by
  induction pairs generalizing t with
  | nil => rfl
  | cons p ps ih =>
    simp only [List.foldl_cons]
    have hp : (hd.1 == p.1) = false := by simpa using (h p (by simp)).symm
    have : appendCol (hd :: t) p.1 (stripNl p.2) = hd :: appendCol t p.1 (stripNl p.2) := by
      simp only [appendCol, List.map_cons, hp, Bool.false_eq_true, ↓reduceIte]
    rw [this, ih _ (fun q hq => h q (by simp [hq]))]

/-- appending one clean row to a table in `zip` form -/
theorem fold_appendCol_zip : ∀ (header : List Str) (cols : List (List Str)) (fields : List Str),
    header.Nodup → cols.length = header.length → fields.length = header.length →
    (header.zip fields).foldl (fun t hf => appendCol t hf.1 (stripNl hf.2)) (header.zip cols) =
    header.zip (List.zipWith (fun c f => c ++ [stripNl f]) cols fields) := by
  intro header
  induction header with
  | nil => intro cols fields _ _ _; simp
  | cons h hs ih =>
    intro cols fields hn hc hf
    cases cols with
    | nil => simp at hc
    | cons c cs =>
      cases fields with
      | nil => simp at hf
      | cons f fs =>
        simp only [List.zip_cons_cons, List.foldl_cons, List.zipWith_cons_cons]
        simp only [List.nodup_cons] at hn
        have h1 : appendCol ((h, c) :: hs.zip cs) h (stripNl f) = (h, c ++ [stripNl f]) :: hs.zip cs := by
          simp only [appendCol, List.map_cons, beq_self_eq_true, ↓reduceIte]
          congr 1
          have := appendCol_other (hs.zip cs) h (stripNl f) (by
            intro e he heq
            have := (List.of_mem_zip he).1
            exact hn.1 (heq ▸ this))
          simpa [appendCol] using this
        rw [h1, fold_appendCol_head]
        · rw [ih cs fs hn.2 (by simpa using hc) (by simpa using hf)]
        · intro p hp heq
          have := (List.of_mem_zip hp).1
          simp only at heq
          exact hn.1 (heq ▸ this)

end MaestroVerif.Csv

namespace MaestroVerif.Csv

theorem mem_join {c : Char} {sep : Str} : ∀ {parts : List Str}, c ∈ join sep parts →
    c ∈ sep ∨ ∃ p, p ∈ parts ∧ c ∈ p := by
  intro parts
  induction parts with
  | nil => intro h; simp [join] at h
  | cons x xs ih =>
    intro h
    cases xs with
    | nil => simp only [join] at h; exact Or.inr ⟨x, by simp, h⟩
    | cons y ys =>
      simp only [join, List.mem_append] at h
      rcases h with (h | h) | h
      · exact Or.inr ⟨x, by simp, h⟩
      · exact Or.inl h
      · rcases ih h with h' | ⟨p, hp, hc⟩
        · exact Or.inl h'
        · exact Or.inr ⟨p, by simp [hp], hc⟩

theorem join_ne_nil_of_two (sep : Str) (hs : sep ≠ []) : ∀ (parts : List Str), 2 ≤ parts.length →
    join sep parts ≠ [] := by
  intro parts h
  match parts, h with
  | x :: y :: rest, _ =>
    simp only [join]
    intro hc
    have : sep = [] := by
      have := congrArg List.length hc
      simp only [List.length_append, List.length_nil] at this
      exact List.eq_nil_of_length_eq_zero (by omega)
    exact hs this

inductive All2 {α β : Type} (R : α → β → Prop) : List α → List β → Prop
  | nil : All2 R [] []
  | cons {a b as bs} : R a b → All2 R as bs → All2 R (a :: as) (b :: bs)

/-- a line satisfies `LineOf r` when splitting it at commas and stripping
newlines yields the row `r` -/
def LineOf (n : Nat) (ln : Str) (r : List Str) : Prop :=
  (splitOn ',' ln).length = n ∧ (splitOn ',' ln).map stripNl = r

theorem addLine_zip (header : List Str) (cols : List (List Str)) (ln : Str) (r : List Str)
    (hn : header.Nodup) (hc : cols.length = header.length) (hl : LineOf header.length ln r) :
    addLine header (header.zip cols) ln =
      .ok (header.zip (List.zipWith (fun c f => c ++ [f]) cols r)) := by
  obtain ⟨h1, h2⟩ := hl
  unfold addLine
  simp only [h1, Nat.lt_irrefl, ↓reduceIte]
  rw [fold_appendCol_zip header cols _ hn hc h1, ← h2]
  congr 2
  rw [List.zipWith_map_right]

theorem addLines_zip (header : List Str) (hn : header.Nodup) :
    ∀ (lines : List Str) (rows : List (List Str)) (cols : List (List Str)),
    cols.length = header.length → All2 (LineOf header.length) lines rows →
    (∀ r, r ∈ rows → r.length = header.length) →
    addLines header lines (header.zip cols) =
      .ok (header.zip (rows.foldl (fun cols r => List.zipWith (fun c f => c ++ [f]) cols r) cols)) := by
  intro lines
  induction lines with
  | nil => intro rows cols _ hf _; cases hf; rfl
  | cons l ls ih =>
    intro rows cols hc hf hr
    cases hf with
    | cons h1 h2 =>
      rename_i r rs
      simp only [addLines, List.foldl_cons]
      rw [addLine_zip header cols l r hn hc h1]
      simp only
      apply ih rs _ _ h2 (fun x hx => hr x (by simp [hx]))
      simp [List.length_zipWith, hc, hr r (by simp)]

structure CleanF (f : Str) : Prop where
  comma : ',' ∉ f
  nl    : '\n' ∉ f
  cr    : '\r' ∉ f

theorem lineOf_plain : ∀ (fs : List Str), fs ≠ [] → (∀ f, f ∈ fs → CleanF f) →
    LineOf fs.length (join [','] fs) fs := by
  intro fs hne hc
  have := splitOn_join ',' fs hne (fun f hf => (hc f hf).comma)
  refine ⟨by rw [this], ?_⟩
  rw [this]
  conv => rhs; rw [← List.map_id fs]
  apply List.map_congr_left
  intro f hf
  exact stripNl_clean f (hc f hf).nl

theorem lineOf_nl : ∀ (fs : List Str), fs ≠ [] → (∀ f, f ∈ fs → CleanF f) →
    LineOf fs.length (join [','] fs ++ ['\n']) fs := by
  intro fs
  induction fs with
  | nil => intro h; exact absurd rfl h
  | cons f rest ih =>
    intro _ hc
    have hf := hc f (by simp)
    cases rest with
    | nil =>
      simp only [join, LineOf]
      have : ',' ∉ f ++ ['\n'] := by
        simp only [List.mem_append, List.mem_singleton, not_or]
        exact ⟨hf.comma, by decide⟩
      rw [splitOn_clean ',' _ this]
      simp [stripNl_append_nl f hf.nl]
    | cons g gs =>
      have := ih (by simp) (fun x hx => hc x (by simp [hx]))
      simp only [join, List.append_assoc, List.singleton_append, List.cons_append, LineOf]
      rw [splitOn_append ',' f _ hf.comma]
      obtain ⟨h1, h2⟩ := this
      refine ⟨by simp [h1], ?_⟩
      simp only [List.map_cons, List.nil_append, h2, stripNl_clean f hf.nl]

end MaestroVerif.Csv
