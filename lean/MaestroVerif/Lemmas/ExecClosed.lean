import MaestroVerif.Lemmas.ExecLog

/-! Descendant closure of the failed / cancelled sets (C02): as long as no
study-wide cancel was requested, every child of a failed or cancelled step is
itself failed or cancelled. -/
namespace MaestroVerif.Exec
open MaestroVerif.Gen

/-- closure, counting the steps still queued for the two sweeps -/
def ClosedMid (cfg : Cfg) (g : G) : Prop :=
  ∀ i c, (i ∈ g.failed ∨ i ∈ g.cancelled ∨ i ∈ g.cleanup ∨ i ∈ g.cancelQ) → c ∈ cfg.dag.adj i →
    (c ∈ g.failed ∨ c ∈ g.cancelled ∨ c ∈ g.cleanup ∨ c ∈ g.cancelQ)

def Closed (cfg : Cfg) (g : G) : Prop :=
  ∀ i c, (i ∈ g.failed ∨ i ∈ g.cancelled) → c ∈ cfg.dag.adj i → (c ∈ g.failed ∨ c ∈ g.cancelled)

theorem closedMid_markFailed {cfg : Cfg} (wf : WFCfg cfg) {g : G} (h : ClosedMid cfg g) (i : Nat) :
    ClosedMid cfg (markFailed (subtree cfg i) g) := by
  have m := markFailed_spec (subtree cfg i) g
  have hs := fun x c (hx : x ∈ subtree cfg i) (hc : c ∈ cfg.dag.adj x) => subtree_closed wf hx hc
  intro a c ha hc
  simp only [m.failed, m.cancelled, m.cleanup, m.cancelQ] at ha ⊢
  rcases ha with (ha | ha) | ha
  · exact Or.inl (Or.inl (hs a c ha hc))
  · have := h a c (Or.inl ha) hc; grind
  · have := h a c (Or.inr ha) hc; grind

theorem closedMid_executeRecord {cfg : Cfg} (wf : WFCfg cfg) {g : G} (h : ClosedMid cfg g)
    (i : Nat) (restart : Bool) : ClosedMid cfg (executeRecord cfg g i restart) := by
  obtain ⟨ec, ei, ef, ecn, er, ecl, ecq, es, eic, ers⟩ := execPrep_fields cfg g i restart
  unfold executeRecord
  simp only
  split
  · intro a c ha hc
    simp only [dryMark, setStatus, ef, ecn, ecl, ecq] at ha ⊢
    exact h a c ha hc
  · have fr := submitLoop_frame cfg i restart cfg.attempts (execPrep cfg g i restart)
    generalize submitLoop cfg i restart cfg.attempts (execPrep cfg g i restart) = r at fr
    have hr : ClosedMid cfg r.1 := by
      intro a c ha hc
      simp only [fr.failed, fr.cancelled, fr.cleanup, fr.cancelQ, ef, ecn, ecl, ecq] at ha ⊢
      exact h a c ha hc
    unfold execFinish
    split
    · split
      · exact hr
      · intro a c ha hc; simp only [setStatus] at ha ⊢; exact hr a c ha hc
    · rw [failSubtree_eq]
      apply closedMid_markFailed wf
      intro a c ha hc; simp only at ha ⊢; exact hr a c ha hc

theorem closedMid_report {cfg : Cfg} (wf : WFCfg cfg) {g : G} (h : ClosedMid cfg g) (i : Nat)
    (st : Option State) : ClosedMid cfg (report cfg g i st) := by
  have hs := fun x c (hx : x ∈ subtree cfg i) (hc : c ∈ cfg.dag.adj x) => subtree_closed wf hx hc
  have hself := self_mem_subtree wf i
  unfold ClosedMid at h ⊢
  cases st with
  | none => simpa [report, terminal] using h
  | some s =>
    cases s
    case TIMEDOUT =>
      simp only [report, terminal, ↓reduceIte]
      split
      · split
        · apply closedMid_executeRecord wf
          intro a c ha hc; simp only [setStatus] at ha ⊢; exact h a c ha hc
        · intro a c ha hc
          simp only [setStatus, mem_insAll] at ha ⊢
          grind
      · intro a c ha hc
        simp only [setStatus, mem_insAll, mem_rem, mem_ins] at ha ⊢
        grind
    case FAILED =>
      intro a c ha hc
      simp only [report, terminal, setStatus, mem_insAll, ↓reduceIte] at ha ⊢
      grind
    case UNKNOWN =>
      intro a c ha hc
      simp only [report, terminal, setStatus, mem_insAll, ↓reduceIte] at ha ⊢
      grind
    case CANCELLED =>
      intro a c ha hc
      simp only [report, terminal, setStatus, mem_insAll, ↓reduceIte] at ha ⊢
      grind
    all_goals (intro a c ha hc; simp only [report, terminal, setStatus, ↓reduceIte] at ha ⊢; exact h a c ha hc)

theorem closedMid_reports {cfg : Cfg} (wf : WFCfg cfg) : ∀ (rs : List (Nat × Option State)) (g : G),
    ClosedMid cfg g → ClosedMid cfg (rs.foldl (fun g r => report cfg g r.1 r.2) g) := by
  intro rs
  induction rs with
  | nil => intro g h; exact h
  | cons r rs ih => intro g h; simp only [List.foldl_cons]; exact ih _ (closedMid_report wf h r.1 r.2)

theorem closed_sweeps {cfg : Cfg} {g : G} (h : ClosedMid cfg g) :
    ClosedMid cfg (sweeps g) ∧ Closed cfg (sweeps g) := by
  rw [sweeps_eq]
  have mf := markFailed_spec g.cleanup g
  have mc := markCancelled_spec g.cancelQ (markFailed g.cleanup g)
  have key : ∀ i c, (i ∈ (markCancelled g.cancelQ (markFailed g.cleanup g)).failed ∨
      i ∈ (markCancelled g.cancelQ (markFailed g.cleanup g)).cancelled) → c ∈ cfg.dag.adj i →
      (c ∈ (markCancelled g.cancelQ (markFailed g.cleanup g)).failed ∨
       c ∈ (markCancelled g.cancelQ (markFailed g.cleanup g)).cancelled) := by
    intro i c hi hc
    simp only [mc.failed, mc.cancelled, mf.failed, mf.cancelled] at hi ⊢
    have := h i c (by grind) hc
    grind
  constructor
  · intro i c hi hc
    simp only [List.not_mem_nil, or_false] at hi ⊢
    exact key i c hi hc
  · intro i c hi hc; exact key i c hi hc

theorem closedMid_of_closed {cfg : Cfg} {g : G} (h : Closed cfg g) (h1 : g.cleanup = [])
    (h2 : g.cancelQ = []) : ClosedMid cfg g := by
  intro i c hi hc
  simp only [h1, h2, List.not_mem_nil, or_false] at hi ⊢
  exact h i c hi hc

theorem closed_of_closedMid {cfg : Cfg} {g : G} (h : ClosedMid cfg g) (h1 : g.cleanup = [])
    (h2 : g.cancelQ = []) : Closed cfg g := by
  intro i c hi hc
  have := h i c (by grind) hc
  simp only [h1, h2, List.not_mem_nil, or_false] at this
  exact this

theorem closedMid_launch {cfg : Cfg} (wf : WFCfg cfg) : ∀ (k : Nat) (g : G),
    g.isCanceled = false → ClosedMid cfg g →
    ClosedMid cfg (launch cfg k g) ∧ (launch cfg k g).isCanceled = false := by
  intro k
  induction k with
  | zero => intro g hc h; exact ⟨h, hc⟩
  | succ k ih =>
    intro g hc h
    unfold launch
    split
    · exact ⟨h, hc⟩
    · rename_i i rest _
      simp only [hc, Bool.false_eq_true, ↓reduceIte]
      apply ih
      · rw [(executeRecord_frame cfg _ i false).2.2.2.1]
      · apply closedMid_executeRecord wf
        intro a c ha hcc; simp only at ha ⊢; exact h a c ha hcc

theorem launch_isCanceled (cfg : Cfg) : ∀ (k : Nat) (g : G),
    (launch cfg k g).isCanceled = g.isCanceled := by
  intro k
  induction k with
  | zero => intro g; rfl
  | succ k ih =>
    intro g
    unfold launch
    split
    · rfl
    · simp only
      split
      · rw [ih]; simp [setStatus]
      · rw [ih, (executeRecord_frame cfg _ _ false).2.2.2.1]

theorem report_isCanceled (cfg : Cfg) (g : G) (i : Nat) (st : Option State) :
    (report cfg g i st).isCanceled = g.isCanceled := by
  cases st with
  | none => simp [report, terminal]
  | some s =>
    cases s
    case TIMEDOUT =>
      simp only [report, terminal, ↓reduceIte]
      split
      · split
        · rw [(executeRecord_frame cfg _ i true).2.2.2.1]; simp [setStatus]
        · simp [setStatus]
      · simp [setStatus]
    all_goals simp [report, terminal, setStatus]

theorem reports_isCanceled (cfg : Cfg) : ∀ (rs : List (Nat × Option State)) (g : G),
    (rs.foldl (fun g r => report cfg g r.1 r.2) g).isCanceled = g.isCanceled := by
  intro rs
  induction rs with
  | nil => intro g; rfl
  | cons r rs ih => intro g; simp only [List.foldl_cons]; rw [ih, report_isCanceled]

theorem poll_isCanceled (cfg : Cfg) (g : G) (p : PollIn) :
    (poll cfg g p).1.isCanceled = g.isCanceled := by
  unfold poll
  simp only
  by_cases hd : cfg.dry = true
  · simp only [hd, ↓reduceIte]; rw [launch_isCanceled, stage_isCanceled]
  · have hd' : cfg.dry = false := by simpa using hd
    simp only [hd', Bool.false_eq_true, ↓reduceIte]
    cases hc : p.code with
    | ERROR => simp [emit]
    | NOJOBS => simp only; rw [launch_isCanceled, stage_isCanceled]; simp [emit]
    | OK =>
      simp only
      rw [launch_isCanceled, stage_isCanceled, (sweeps_log _).2, reports_isCanceled]; simp [emit]

theorem stageOne_queues (g : G) (k : Nat) :
    (stageOne g k).cleanup = g.cleanup ∧ (stageOne g k).cancelQ = g.cancelQ := by
  unfold stageOne
  split
  · simp
  · split
    · simp only
      split
      · split <;> simp
      · simp
    · simp

theorem stage_queues (cfg : Cfg) (g : G) :
    (stage cfg g).cleanup = g.cleanup ∧ (stage cfg g).cancelQ = g.cancelQ := by
  unfold stage
  generalize List.range (cfg.n + 1) = keys
  induction keys generalizing g with
  | nil => simp
  | cons k ks ih =>
    simp only [List.foldl_cons]
    obtain ⟨a1, a2⟩ := stageOne_queues g k
    obtain ⟨b1, b2⟩ := ih (stageOne g k)
    exact ⟨b1.trans a1, b2.trans a2⟩

theorem stage_closed {cfg : Cfg} {g : G} (h : ClosedMid cfg g) : ClosedMid cfg (stage cfg g) := by
  obtain ⟨s1, s2, s3, _⟩ := stage_sets cfg g
  obtain ⟨q1, q2⟩ := stage_queues cfg g
  intro i c hi hc
  simp only [s2, s3, q1, q2] at hi ⊢
  exact h i c hi hc

/-- **C02 closure for every reachable state in which no study-wide cancel was
requested.** -/
theorem closed_poll {cfg : Cfg} (wf : WFCfg cfg) {g : G} (hI : Inv cfg g) (hc : g.isCanceled = false)
    (h : Closed cfg g) (p : PollIn) : Closed cfg (poll cfg g p).1 := by
  have hm : ClosedMid cfg g := closedMid_of_closed h hI.noClean hI.noCancQ
  have hfin : ∀ g' : G, g'.isCanceled = false → ClosedMid cfg g' → g'.cleanup = [] →
      g'.cancelQ = [] →
      Closed cfg (launch cfg (available cfg (stage cfg g')) (stage cfg g')) := by
    intro g' hc' hm' q1 q2
    obtain ⟨l1, _⟩ := closedMid_launch wf (available cfg (stage cfg g')) (stage cfg g')
      (by rw [stage_isCanceled]; exact hc') (stage_closed hm')
    obtain ⟨s1, s2⟩ := stage_queues cfg g'
    have hq : ∀ (k : Nat) (g0 : G), (launch cfg k g0).cleanup = g0.cleanup ∧
        (launch cfg k g0).cancelQ = g0.cancelQ := by
      intro k
      induction k with
      | zero => intro g0; exact ⟨rfl, rfl⟩
      | succ k ih =>
        intro g0
        unfold launch
        split
        · exact ⟨rfl, rfl⟩
        · simp only
          split
          · obtain ⟨a, b⟩ := ih (setStatus { g0 with ready := _, cancelled := _ } _ .CANCELLED)
            exact ⟨a, b⟩
          · obtain ⟨a, b⟩ := ih (executeRecord cfg { g0 with ready := _ } _ false)
            obtain ⟨_, f2, f3, _⟩ := executeRecord_frame cfg { g0 with ready := _ } _ false
            exact ⟨a.trans f2, b.trans f3⟩
    obtain ⟨k1, k2⟩ := hq (available cfg (stage cfg g')) (stage cfg g')
    exact closed_of_closedMid l1 (by rw [k1, s1, q1]) (by rw [k2, s2, q2])
  unfold poll
  simp only
  by_cases hd : cfg.dry = true
  · simp only [hd, ↓reduceIte]
    exact hfin g hc hm hI.noClean hI.noCancQ
  · have hd' : cfg.dry = false := by simpa using hd
    simp only [hd', Bool.false_eq_true, ↓reduceIte]
    have hme : ClosedMid cfg (emit g (Ev.check g.inProgress)) := by
      intro i c hi hcc; simp only [emit] at hi ⊢; exact hm i c hi hcc
    cases hcode : p.code with
    | ERROR =>
      simp only
      intro i c hi hcc; simp only [emit] at hi ⊢; exact h i c hi hcc
    | NOJOBS =>
      simp only
      exact hfin _ (by simpa [emit] using hc) hme (by simpa [emit] using hI.noClean)
        (by simpa [emit] using hI.noCancQ)
    | OK =>
      simp only
      have hr := closedMid_reports wf p.reports _ hme
      obtain ⟨w1, _⟩ := closed_sweeps hr
      apply hfin _ _ w1
      · simp [sweeps]
      · simp [sweeps]
      · rw [(sweeps_log _).2, reports_isCanceled]; simpa [emit] using hc

theorem closed_reachable {cfg : Cfg} (wf : WFCfg' cfg) {g : G} (h : Reachable cfg g)
    (hc : g.isCanceled = false) : Closed cfg g := by
  induction h with
  | init => intro i c hi _; simp [init] at hi
  | poll p hr _ ih =>
    rw [poll_isCanceled] at hc
    exact closed_poll wf.toWFCfg (Inv_reachable wf hr) hc (ih hc) p
  | cancel _ _ => simp [cancel, emit] at hc

end MaestroVerif.Exec
