import MaestroVerif.Lemmas.ExpandNodes

/-! Every gating dependency is an adjacency edge: in every expansion, if `p` is in the dependency
set of `c` (what the launch of `c` waits for) then `c` is a child of `p` in the adjacency table
(what failure propagation and the status listing walk). -/
namespace MaestroVerif.Expand
open MaestroVerif.Subst

def DepsInAdj (g : XG) : Prop :=
  ∀ p c, p ≠ c → p ∈ getAssoc g.deps c → c ∈ getAssoc g.adj p

theorem depsInAdj_place : PlaceInv DepsInAdj := by
  intro ord s s' inst isRoot parents hubD h hinv
  unfold place at h
  cases hw : wire ord (s.g.addStep inst) isRoot parents hubD s.combos inst.name with
  | error e => simp [hw] at h
  | ok g' =>
    simp only [hw, Except.ok.injEq] at h
    subst h
    simp only
    obtain ⟨L, hL⟩ := wire_list _ _ _ _ _ _ _ hw
    obtain ⟨_, hdeps⟩ := connFold_deps inst.name L _ _ hL
    obtain ⟨_, hadj⟩ := connFold_adj inst.name L _ _ hL
    have hself : (s.g.addStep inst).hasNode inst.name = true := by rw [hasNode_addStep]; simp
    intro p c hpc hp
    rw [hadj]
    rcases (hdeps c p).mp hp with h1 | ⟨hc, hpL⟩
    · rw [getAssoc_addStep_deps] at h1
      split at h1
      · cases h1
      · left
        rw [getAssoc_addStep_adj]
        exact hinv p c hpc h1
    · right
      exact ⟨hc, hpL, hc ▸ hpc, hself⟩

/-- **every gating dependency is an adjacency edge, in the finished graph** -/
theorem stage_depsInAdj (spec : Spec) (ord : List Str → List Str) (r : XG)
    (h : stage spec ord = .ok r) : DepsInAdj r :=
  stage_inv depsInAdj_place spec ord r h (by
    intro p c _ hp
    simp [initSS, getAssoc] at hp)

end MaestroVerif.Expand
