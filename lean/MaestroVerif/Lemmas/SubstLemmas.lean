import MaestroVerif.Model.Subst

namespace MaestroVerif.Subst

theorem isPrefixOf_iff {a b : Str} : a.isPrefixOf b = true ↔ ∃ t, b = a ++ t := by
  rw [List.isPrefixOf_iff_prefix]
  constructor
  · rintro ⟨t, ht⟩; exact ⟨t, ht.symm⟩
  · rintro ⟨t, ht⟩; exact ⟨t, ht.symm⟩

/-- `old in s` means exactly: `s = pre ++ old ++ post` -/
theorem occurs_iff (old : Str) : ∀ (s : Str), occurs old s = true ↔ ∃ pre post, s = pre ++ old ++ post := by
  intro s
  induction s with
  | nil =>
    simp only [occurs, List.isEmpty_iff]
    constructor
    · intro h; exact ⟨[], [], by simp [h]⟩
    · rintro ⟨pre, post, h⟩
      have := congrArg List.length h
      simp at this
      exact List.eq_nil_of_length_eq_zero (by omega)
  | cons c cs ih =>
    simp only [occurs, Bool.or_eq_true, isPrefixOf_iff, ih]
    constructor
    · rintro (⟨t, ht⟩ | ⟨pre, post, h⟩)
      · exact ⟨[], t, by simpa using ht⟩
      · exact ⟨c :: pre, post, by simp [h]⟩
    · rintro ⟨pre, post, h⟩
      cases pre with
      | nil => exact Or.inl ⟨post, by simpa using h⟩
      | cons p ps =>
        simp only [List.cons_append, List.cons.injEq] at h
        exact Or.inr ⟨ps, post, h.2⟩

/-- text in which the token does not occur is left untouched by `replace` -/
theorem replaceGo_no_occurrence (old new : Str) (hne : old ≠ []) :
    ∀ (s : Str), occurs old s = false → replaceGo old new 0 s = s := by
  intro s
  induction s with
  | nil => intro _; rfl
  | cons c cs ih =>
    intro h
    simp only [occurs, Bool.or_eq_false_iff] at h
    simp only [replaceGo, h.1, Bool.false_eq_true, ↓reduceIte, ih h.2]

theorem replaceAll_no_occurrence (s old new : Str) (h : occurs old s = false) :
    replaceAll s old new = s := by
  unfold replaceAll
  split
  · rfl
  · rename_i hne
    exact replaceGo_no_occurrence old new (by simpa using hne) s h

/-- skipping `k ≤ |t|` characters -/
theorem replaceGo_skip (old new : Str) : ∀ (k : Nat) (t rest : Str), t.length = k →
    replaceGo old new k (t ++ rest) = replaceGo old new 0 rest := by
  intro k
  induction k with
  | zero => intro t rest h; have := List.eq_nil_of_length_eq_zero h; subst this; rfl
  | succ k ih =>
    intro t rest h
    cases t with
    | nil => simp at h
    | cons a as =>
      simp only [List.cons_append, replaceGo]
      exact ih as rest (by simpa using h)

/-- **one occurrence at the front is replaced by the value, and the scan
continues behind it** -/
theorem replaceGo_at (old new rest : Str) (hne : old ≠ []) :
    replaceGo old new 0 (old ++ rest) = new ++ replaceGo old new 0 rest := by
  cases old with
  | nil => exact absurd rfl hne
  | cons c cs =>
    have hp : (c :: cs).isPrefixOf (c :: cs ++ rest) = true := by
      rw [isPrefixOf_iff]; exact ⟨rest, rfl⟩
    simp only [List.cons_append] at hp ⊢
    simp only [replaceGo, hp, ↓reduceIte, List.length_cons, Nat.add_sub_cancel]
    rw [replaceGo_skip (c :: cs) new cs.length cs rest rfl]

/-- literal text before the first occurrence is copied -/
theorem replaceGo_lit (old new : Str) : ∀ (lit rest : Str),
    (∀ pre post, lit ++ rest ≠ pre ++ old ++ post ∨ lit.length ≤ pre.length) →
    replaceGo old new 0 (lit ++ rest) = lit ++ replaceGo old new 0 rest := by
  intro lit
  induction lit with
  | nil => intro rest _; rfl
  | cons c cs ih =>
    intro rest h
    have hnp : (old.isPrefixOf (c :: cs ++ rest)) = false := by
      cases hp : old.isPrefixOf (c :: cs ++ rest) with
      | false => rfl
      | true =>
        obtain ⟨t, ht⟩ := isPrefixOf_iff.mp hp
        rcases h [] t with h' | h'
        · exact absurd (by simpa using ht) h'
        · simp at h'
    simp only [List.cons_append] at hnp ⊢
    simp only [replaceGo, hnp, Bool.false_eq_true, ↓reduceIte]
    rw [ih rest]
    intro pre post
    rcases h (c :: pre) post with h' | h'
    · left; intro heq; apply h'; simp [heq]
    · right; simp at h'; exact h'

/-! ### `sorted(set)` -/

theorem mem_insertSorted {x a : Str} {l : List Str} : a ∈ insertSorted x l ↔ a = x ∨ a ∈ l := by
  induction l with
  | nil => simp [insertSorted]
  | cons y ys ih =>
    simp only [insertSorted]
    split
    · simp [ih]; grind
    · simp

theorem mem_sortDedup {a : Str} {l : List Str} : a ∈ sortDedup l ↔ a ∈ l := by
  unfold sortDedup
  suffices h : ∀ (acc : List Str), a ∈ l.foldl (fun acc x => if acc.contains x then acc else insertSorted x acc) acc ↔
      (a ∈ acc ∨ a ∈ l) by simpa using h []
  induction l with
  | nil => intro acc; simp
  | cons x xs ih =>
    intro acc
    simp only [List.foldl_cons, ih]
    split
    · rename_i hc
      have : x ∈ acc := by simpa using hc
      simp; grind
    · simp [mem_insertSorted]; grind

end MaestroVerif.Subst
