import MaestroVerif.Model.Expand
import MaestroVerif.Lemmas.SubstLemmas
import MaestroVerif.Lemmas.CsvLemmas

/-! Set-union folds of the used-parameter computation (`usedOf_closure`) and injectivity of the
instance name in the labels of the used parameters (`instName_inj`); `Props/C08.lean` states them
as `C08_used_closure` and `C08_sharing_exact`. -/
namespace MaestroVerif.Expand
open MaestroVerif.Subst

theorem mem_union {a : Str} {x y : List Str} : a ∈ union x y ↔ a ∈ x ∨ a ∈ y := by
  unfold union
  induction y generalizing x with
  | nil => simp
  | cons b bs ih =>
    simp only [List.foldl_cons, ih]
    split
    · rename_i h; have : b ∈ x := by simpa using h
      simp; grind
    · simp; grind

theorem deps_fold_mem (usedTbl : List (Str × List Str)) (a : Str) : ∀ (ds : List Str) (acc : List Str),
    a ∈ ds.foldl (fun acc d => union acc (getAssoc usedTbl d)) acc ↔
      (a ∈ acc ∨ ∃ d, d ∈ ds ∧ a ∈ getAssoc usedTbl d) := by
  intro ds
  induction ds with
  | nil => intro acc; simp
  | cons d ds ih =>
    intro acc
    simp only [List.foldl_cons, ih, mem_union]
    constructor
    · rintro ((h | h) | ⟨d', hd', h⟩)
      · exact Or.inl h
      · exact Or.inr ⟨d, by simp, h⟩
      · exact Or.inr ⟨d', by simp [hd'], h⟩
    · rintro (h | ⟨d', hd', h⟩)
      · exact Or.inl (Or.inl h)
      · rcases List.mem_cons.mp hd' with e | e
        · subst e; exact Or.inl (Or.inr h)
        · exact Or.inr ⟨d', e, h⟩

theorem refs_fold_mem (usedTbl : List (Str × List Str)) (hub : List Str) (a : Str) :
    ∀ (ws : List Str) (acc : List Str) (res : List Str),
    ws.foldl (fun (acc : Except Err (List Str)) w =>
      match acc with
      | .error e => .error e
      | .ok pp =>
        if !(usedTbl.any (·.1 == w)) then .error .wsBeforeGenerated
        else if hub.contains w then .ok pp
        else .ok (union pp (getAssoc usedTbl w))) (.ok acc) = .ok res →
    (a ∈ res ↔ (a ∈ acc ∨ ∃ w, w ∈ ws ∧ w ∉ hub ∧ a ∈ getAssoc usedTbl w)) := by
  intro ws
  induction ws with
  | nil => intro acc res h; simp only [List.foldl_nil, Except.ok.injEq] at h; subst h; simp
  | cons w ws ih =>
    intro acc res h
    simp only [List.foldl_cons] at h
    split at h
    · -- error: the fold stays an error
      exfalso
      have : ∀ (l : List Str), l.foldl (fun (acc : Except Err (List Str)) w =>
          match acc with
          | .error e => .error e
          | .ok pp =>
            if !(usedTbl.any (·.1 == w)) then .error .wsBeforeGenerated
            else if hub.contains w then .ok pp
            else .ok (union pp (getAssoc usedTbl w))) (.error .wsBeforeGenerated) =
          .error .wsBeforeGenerated := by
        intro l; induction l with
        | nil => rfl
        | cons x xs ih' => simpa using ih'
      rw [this] at h; cases h
    · split at h
      · rename_i hh
        have hw : w ∈ hub := by simpa using hh
        rw [ih acc res h]
        constructor
        · rintro (h' | ⟨w', hw', hn, h'⟩)
          · exact Or.inl h'
          · exact Or.inr ⟨w', by simp [hw'], hn, h'⟩
        · rintro (h' | ⟨w', hw', hn, h'⟩)
          · exact Or.inl h'
          · rcases List.mem_cons.mp hw' with e | e
            · subst e; exact absurd hw hn
            · exact Or.inr ⟨w', e, hn, h'⟩
      · rename_i hh
        have hw : w ∉ hub := by simpa using hh
        rw [ih _ res h, mem_union]
        constructor
        · rintro ((h' | h') | ⟨w', hw', hn, h'⟩)
          · exact Or.inl h'
          · exact Or.inr ⟨w, by simp, hw, h'⟩
          · exact Or.inr ⟨w', by simp [hw'], hn, h'⟩
        · rintro (h' | ⟨w', hw', hn, h'⟩)
          · exact Or.inl (Or.inl h')
          · rcases List.mem_cons.mp hw' with e | e
            · subst e; exact Or.inl (Or.inr h')
            · exact Or.inr ⟨w', e, hn, h'⟩

theorem usedOf_closure (spec : Spec) (usedTbl : List (Str × List Str)) (st : Step)
    (used : List Str) (h : usedOf spec usedTbl st = .ok used) (k : Str) :
    k ∈ used ↔
      (k ∈ directParams spec st ∨
       (∃ d, d ∈ depsOf st ∧ k ∈ getAssoc usedTbl d) ∨
       (∃ w, w ∈ refsOf st ∧ w ∉ hubOf st ∧ k ∈ getAssoc usedTbl w)) := by
  unfold usedOf at h
  cases hi : inheritedParams usedTbl st with
  | error e => simp [hi] at h
  | ok pp =>
    simp only [hi, Except.ok.injEq] at h
    subst h
    unfold inheritedParams at hi
    have := refs_fold_mem usedTbl (hubOf st) k (refsOf st) _ pp hi
    rw [mem_union, this, deps_fold_mem]
    simp only [List.not_mem_nil, false_or]
    constructor
    · rintro ((h | h) | h)
      · exact Or.inr (Or.inl h)
      · exact Or.inr (Or.inr h)
      · exact Or.inl h
    · rintro (h | h | h)
      · exact Or.inr h
      · exact Or.inl (Or.inl h)
      · exact Or.inl (Or.inr h)

theorem joinWith_eq_csv (sep : Str) (l : List Str) : joinWith sep l = Csv.join sep l := by
  induction l with
  | nil => rfl
  | cons x xs ih =>
    cases xs with
    | nil => rfl
    | cons y ys => simp only [joinWith, Csv.join, ih]

theorem instName_inj (step : Str) (used : List Str) (hu : used ≠ []) (c₁ c₂ : Combo)
    (hdot : ∀ k, k ∈ used → '.' ∉ lookup c₁.labels k ∧ '.' ∉ lookup c₂.labels k) :
    instName step used c₁ = instName step used c₂ ↔
      ∀ k, k ∈ used → lookup c₁.labels k = lookup c₂.labels k := by
  have hne : used.isEmpty = false := by simpa using hu
  simp only [instName, hne, Bool.false_eq_true, ↓reduceIte, List.append_cancel_left_eq,
    Combo.paramString, joinWith_eq_csv]
  have hsd : sortDedup used ≠ [] := by
    intro h
    cases used with
    | nil => exact hu rfl
    | cons a as => have := (mem_sortDedup (a := a) (l := a :: as)).mpr (by simp); rw [h] at this; simp at this
  constructor
  · intro h k hk
    have h1 := Csv.splitOn_join '.' ((sortDedup used).map (lookup c₁.labels)) (by simpa using hsd)
      (by intro f hf; obtain ⟨k', hk', rfl⟩ := List.mem_map.mp hf; exact (hdot k' (mem_sortDedup.mp hk')).1)
    have h2 := Csv.splitOn_join '.' ((sortDedup used).map (lookup c₂.labels)) (by simpa using hsd)
      (by intro f hf; obtain ⟨k', hk', rfl⟩ := List.mem_map.mp hf; exact (hdot k' (mem_sortDedup.mp hk')).2)
    rw [h, h2] at h1
    have := List.map_inj_left.mp h1.symm k (mem_sortDedup.mpr hk)
    exact this
  · intro h
    congr 1
    apply List.map_congr_left
    intro k hk
    exact h k (mem_sortDedup.mp hk)

end MaestroVerif.Expand
