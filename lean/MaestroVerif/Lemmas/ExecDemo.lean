import MaestroVerif.Lemmas.ExecClosed

/-! A concrete configuration and history used by the non-vacuity `example`s of
the execution properties: it satisfies the hypotheses `WFCfg'` and `Reachable`
that the theorems assume. -/
namespace MaestroVerif.Exec
open MaestroVerif.Gen

/-- decidable form of `WFPoll` -/
def wfPollB (g : G) (p : PollIn) : Bool :=
  decide (p.reports.map (·.1)).Nodup && p.reports.all (fun r => g.inProgress.contains r.1)

theorem wfPollB_sound {g : G} {p : PollIn} (h : wfPollB g p = true) : WFPoll g p := by
  simp only [wfPollB, Bool.and_eq_true, decide_eq_true_eq, List.all_eq_true,
    List.contains_iff_mem] at h
  exact ⟨h.1, h.2⟩

/-- every poll of the operation list is well formed at the time it happens -/
def wfOps (cfg : Cfg) : G → List Op → Bool
  | _, [] => true
  | g, .poll p :: ops => wfPollB g p && wfOps cfg (poll cfg g p).1 ops
  | g, .cancel :: ops => wfOps cfg (cancel g) ops

theorem reachable_of_wfOps (cfg : Cfg) : ∀ (ops : List Op) (g : G), Reachable cfg g →
    wfOps cfg g ops = true → Reachable cfg (ops.foldl (step cfg) g) := by
  intro ops
  induction ops with
  | nil => intro g h _; exact h
  | cons op ops ih =>
    intro g h hw
    cases op with
    | poll p =>
      simp only [wfOps, Bool.and_eq_true] at hw
      exact ih _ (Reachable.poll p h (wfPollB_sound hw.1)) hw.2
    | cancel =>
      simp only [wfOps] at hw
      exact ih _ (Reachable.cancel h) hw

theorem reachable_run {cfg : Cfg} {ops : List Op} (h : wfOps cfg (init cfg) ops = true) :
    Reachable cfg (run cfg ops) :=
  reachable_of_wfOps cfg ops (init cfg) Reachable.init h

/-- diamond 1 → {2,3} → 4 below the source; step 2 has a restart command with
limit 1; throttle 2; two submission attempts; the very first submission fails -/
def demoCfg : Cfg :=
  { n := 4,
    dag := { nodes := [0, 1, 2, 3, 4],
             adj := fun a => if a = 0 then [1] else if a = 1 then [2, 3] else if a = 2 then [4]
                    else if a = 3 then [4] else [] },
    parents := fun b => if b = 1 then [0] else if b = 2 then [1] else if b = 3 then [1]
               else if b = 4 then [2, 3] else [],
    sched := fun _ => true, hasRestart := fun i => i == 2, rlimit := fun i => if i == 2 then 1 else 0,
    throttle := 2, attempts := 2, dry := false, subOk := fun k => k != 0 }

theorem demo_wf : WFCfg' demoCfg := by
  refine ⟨⟨⟨?_, ?_, by decide, ?_⟩, ?_, ?_, by decide⟩, by decide⟩
  · intro a b h; simp only [demoCfg] at h ⊢; repeat' split at h
    all_goals simp_all
  · intro a b h; simp only [demoCfg] at h ⊢; repeat' split at h
    all_goals simp_all <;> omega
  · intro a; simp only [demoCfg]; repeat' split
    all_goals decide
  · intro x; simp only [demoCfg]; simp only [List.mem_cons, List.not_mem_nil, or_false]; omega
  · intro p c; simp only [demoCfg]
    constructor
    · intro h; repeat' split at h
      all_goals simp_all
      all_goals (rcases h with h | h <;> subst h <;> decide)
    · intro h; repeat' split at h
      all_goals simp_all
      all_goals (rcases h with h | h <;> subst h <;> decide)

/-- a history with a failed first submission, a lost report, a time-out with
restart, a failure that sweeps a dependent, and a cancel request -/
def demoOps : List Op :=
  [.poll ⟨.OK, []⟩, .poll ⟨.OK, [(1, some .FINISHED)]⟩,
   .poll ⟨.OK, [(2, some .TIMEDOUT), (3, none)]⟩, .poll ⟨.NOJOBS, []⟩,
   .poll ⟨.OK, [(3, some .FINISHED), (2, some .FAILED)]⟩, .cancel, .poll ⟨.OK, []⟩]

theorem demo_reachable : Reachable demoCfg (run demoCfg demoOps) :=
  reachable_run (by decide +kernel)

theorem demo_state : (run demoCfg demoOps).completed = [0, 1, 3] ∧
    (run demoCfg demoOps).failed = [2, 4] ∧ (run demoCfg demoOps).restarts 2 = 1 ∧
    (run demoCfg demoOps).isCanceled = true ∧ (run demoCfg demoOps).peak = 2 ∧
    verdict demoCfg (run demoCfg demoOps) = .CANCELLED := by decide +kernel

end MaestroVerif.Exec
