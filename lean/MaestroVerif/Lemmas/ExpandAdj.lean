import MaestroVerif.Lemmas.ExpandPlace

/-! The adjacency side of placing one instance, and the agreement of the two edge records
(`adjacency_table` and `_dependencies`) on the new edges. -/
namespace MaestroVerif.Expand
open MaestroVerif.Subst

theorem mem_adj_adjUpd (g : XG) (p c k x : Str) (hp : g.hasNode p = true ∨ (p == c) = true) :
    x ∈ getAssoc (adjUpd g p c).adj k ↔
      (x ∈ getAssoc g.adj k ∨ (k = p ∧ x = c ∧ p ≠ c ∧ g.hasNode c = true)) := by
  unfold adjUpd
  by_cases hcond : (p == c || !g.hasNode c || (getAssoc g.adj p).contains c) = true
  · simp only [hcond, ↓reduceIte]
    constructor
    · intro h; exact Or.inl h
    · rintro (h | ⟨hk, hx, hne, hn⟩)
      · exact h
      · subst hk hx
        have h1 : (k == x) = false := by simpa using hne
        simp only [h1, hn, Bool.not_true, Bool.or_self, Bool.false_or] at hcond
        simpa using hcond
  · simp only [hcond, Bool.false_eq_true, ↓reduceIte]
    simp only [Bool.or_eq_true, not_or] at hcond
    obtain ⟨⟨hne0, hn0⟩, hc⟩ := hcond
    have hne : p ≠ c := by simpa using hne0
    have hn : g.hasNode c = true := by simpa using hn0
    by_cases hk : k = p
    · subst hk
      rw [getAssoc_setAssoc_self]
      simp only [List.mem_append, List.mem_singleton]
      constructor
      · rintro (h | h)
        · exact Or.inl h
        · exact Or.inr ⟨trivial, h, hne, hn⟩
      · rintro (h | ⟨_, h, _, _⟩)
        · exact Or.inl h
        · exact Or.inr h
    · rw [getAssoc_setAssoc_ne _ _ _ _ hk]
      constructor
      · intro h; exact Or.inl h
      · rintro (h | ⟨h, _⟩)
        · exact h
        · exact absurd h hk

theorem connFold_adj (c : Str) : ∀ (L : List Str) (g g' : XG),
    L.foldl (connStep c) (.ok g) = .ok g' →
    (∀ n, g'.hasNode n = g.hasNode n) ∧
    ∀ k x, x ∈ getAssoc g'.adj k ↔
      (x ∈ getAssoc g.adj k ∨ (x = c ∧ k ∈ L ∧ k ≠ c ∧ g.hasNode c = true)) := by
  intro L
  induction L with
  | nil =>
    intro g g' h
    simp only [List.foldl_nil, Except.ok.injEq] at h
    subst h
    exact ⟨fun _ => rfl, fun k x => by simp⟩
  | cons p ps ih =>
    intro g g' h
    simp only [List.foldl_cons, connStep] at h
    rw [addConnection_eq'] at h
    by_cases hb : bad g p c = true
    · simp only [hb, ↓reduceIte] at h
      rw [foldl_connStep_error] at h
      cases h
    · simp only [hb, Bool.false_eq_true, ↓reduceIte] at h
      have hb' : bad g p c = false := by simpa using hb
      have hp := node_of_not_bad g p c hb'
      obtain ⟨i1, i2⟩ := ih _ _ h
      have hn : ∀ n, (addDep (adjUpd g p c) p c).hasNode n = g.hasNode n := by
        intro n; rw [hasNode_addDep, hasNode_adjUpd g p c n hp]
      refine ⟨fun n => (i1 n).trans (hn n), ?_⟩
      intro k x
      rw [i2, adj_addDep, mem_adj_adjUpd g p c k x hp, hn c]
      simp only [List.mem_cons]
      constructor
      · rintro ((h | ⟨h1, h2, h3, h4⟩) | ⟨h1, h2, h3, h4⟩)
        · exact Or.inl h
        · exact Or.inr ⟨h2, Or.inl h1, h1 ▸ h3, h4⟩
        · exact Or.inr ⟨h1, Or.inr h2, h3, h4⟩
      · rintro (h | ⟨h1, h2 | h2, h3, h4⟩)
        · exact Or.inl (Or.inl h)
        · exact Or.inl (Or.inr ⟨h2, h1, h2 ▸ h3, h4⟩)
        · exact Or.inr ⟨h1, h2, h3, h4⟩

theorem hasNode_addStep (g : XG) (i : Inst) (n : Str) :
    (g.addStep i).hasNode n = (g.hasNode n || i.name == n) := by
  unfold XG.addStep
  simp only
  have e : XG.hasNode { g with deps := setAssoc g.deps i.name [] } i.name = g.hasNode i.name := rfl
  rw [e]
  by_cases h : g.hasNode i.name = true
  · simp only [h, ↓reduceIte]
    have e2 : XG.hasNode { g with deps := setAssoc g.deps i.name [] } n = g.hasNode n := rfl
    rw [e2]
    by_cases hn : i.name == n
    · have : i.name = n := by simpa using hn
      subst this; simp [h]
    · simp [hn]
  · simp only [h, Bool.false_eq_true, ↓reduceIte]
    unfold XG.hasNode
    simp [List.any_append]

theorem getAssoc_addStep_adj (g : XG) (i : Inst) (k : Str) :
    getAssoc (g.addStep i).adj k = getAssoc g.adj k := by
  unfold XG.addStep
  simp only
  have e : XG.hasNode { g with deps := setAssoc g.deps i.name [] } i.name = g.hasNode i.name := rfl
  rw [e]
  by_cases h : g.hasNode i.name = true
  · simp only [h, ↓reduceIte]
  · simp only [h, Bool.false_eq_true, ↓reduceIte]
    unfold getAssoc
    rw [List.find?_append]
    cases hf : g.adj.find? (·.1 == k) with
    | some e => rfl
    | none =>
      simp only [Option.none_or, List.find?_cons]
      by_cases hk : i.name == k
      · simp [hk]
      · simp [hk]

/-- **the adjacency side of placing one instance**: the new instance becomes a child of exactly
the parents it was wired to (other than itself), no other child list changes -/
theorem place_adj_exact {ord : List Str → List Str} (ho : IsPermOracle ord) (s s' : SS) (inst : Inst)
    (isRoot : Bool) (parents hubD : List Str) (h : place ord s inst isRoot parents hubD = .ok s') :
    ∀ k x, x ∈ getAssoc s'.g.adj k ↔
      (x ∈ getAssoc s.g.adj k ∨
        (x = inst.name ∧ wiredTo isRoot parents hubD s.combos k ∧ k ≠ inst.name)) := by
  unfold place at h
  cases hw : wire ord (s.g.addStep inst) isRoot parents hubD s.combos inst.name with
  | error e => simp [hw] at h
  | ok g' =>
    simp only [hw, Except.ok.injEq] at h
    subst h
    simp only
    have hnode : (s.g.addStep inst).hasNode inst.name = true := by
      rw [hasNode_addStep]; simp
    intro k x
    cases isRoot with
    | true =>
      have h' : [SOURCE].foldl (connStep inst.name) (.ok (s.g.addStep inst)) = .ok g' := by
        simpa [wire, connStep] using hw
      obtain ⟨_, i2⟩ := connFold_adj inst.name _ _ _ h'
      rw [i2, getAssoc_addStep_adj]
      simp [wiredTo, hnode]
    | false =>
      rw [wire_eq] at hw
      obtain ⟨_, i2⟩ := connFold_adj inst.name _ _ _ hw
      rw [i2, getAssoc_addStep_adj]
      simp only [wiredTo, Bool.false_eq_true, ↓reduceIte, List.mem_append, List.mem_flatMap, hnode,
        and_true]
      constructor
      · rintro (h | ⟨hx, h | ⟨hb, h1, h2⟩, hne⟩)
        · exact Or.inl h
        · exact Or.inr ⟨hx, Or.inl ((ho parents).mem_iff.mp h), hne⟩
        · exact Or.inr ⟨hx, Or.inr ⟨hb, (ho hubD).mem_iff.mp h1, (ho _).mem_iff.mp h2⟩, hne⟩
      · rintro (h | ⟨hx, h | ⟨hb, h1, h2⟩, hne⟩)
        · exact Or.inl h
        · exact Or.inr ⟨hx, Or.inl ((ho parents).mem_iff.mpr h), hne⟩
        · exact Or.inr ⟨hx, Or.inr ⟨hb, (ho hubD).mem_iff.mpr h1, (ho _).mem_iff.mpr h2⟩, hne⟩

/-- **the two edge records agree on the new edges**: for every `p` other than the instance itself,
`p` is in the instance's dependency set exactly when the instance is a *new* child of `p` -
so that the gating sets (C01) and the adjacency table (failure propagation, C02) describe the
same edges -/
theorem place_edges_consistent {ord : List Str → List Str} (ho : IsPermOracle ord) (s s' : SS)
    (inst : Inst) (isRoot : Bool) (parents hubD : List Str)
    (h : place ord s inst isRoot parents hubD = .ok s')
    (hfresh : ∀ k, inst.name ∉ getAssoc s.g.adj k) (p : Str) (hp : p ≠ inst.name) :
    p ∈ getAssoc s'.g.deps inst.name ↔ inst.name ∈ getAssoc s'.g.adj p := by
  obtain ⟨d1, _⟩ := place_exact ho s s' inst isRoot parents hubD h
  rw [d1, place_adj_exact ho s s' inst isRoot parents hubD h]
  constructor
  · intro hw; exact Or.inr ⟨rfl, hw, hp⟩
  · rintro (h' | ⟨_, hw, _⟩)
    · exact absurd h' (hfresh p)
    · exact hw

end MaestroVerif.Expand
