import MaestroVerif.Lemmas.ExpandOrder

/-! The whole expansion is independent of the order in which Python iterates its sets:
for any two iteration oracles that return permutations, `stage` produces the same instance
list, the same adjacency table and dependency sets with the same members (C11). -/
namespace MaestroVerif.Expand
open MaestroVerif.Subst

/-- an iteration order of a Python `set`: some permutation of its elements -/
def IsPermOracle (ord : List Str → List Str) : Prop := ∀ l, (ord l).Perm l

theorem addStep_rel {g₁ g₂ : XG} (h : Rel g₁ g₂) (i : Inst) : Rel (g₁.addStep i) (g₂.addStep i) := by
  have hn : ∀ n, g₁.hasNode n = g₂.hasNode n := by intro n; unfold XG.hasNode; rw [h.adj]
  have hk : (setAssoc g₁.deps i.name []).map (·.1) = (setAssoc g₂.deps i.name []).map (·.1) := by
    simp only [keys_setAssoc]; rw [any_key_of_keys h.keys i.name, h.keys]
  have hm : ∀ k x, x ∈ getAssoc (setAssoc g₁.deps i.name []) k ↔ x ∈ getAssoc (setAssoc g₂.deps i.name []) k := by
    intro k x
    by_cases hki : k = i.name
    · subst hki; rw [getAssoc_setAssoc_self, getAssoc_setAssoc_self]
    · rw [getAssoc_setAssoc_ne _ _ _ _ hki, getAssoc_setAssoc_ne _ _ _ _ hki]; exact h.mem k x
  unfold XG.addStep
  simp only
  have hn' : XG.hasNode { g₁ with deps := setAssoc g₁.deps i.name [] } i.name =
      XG.hasNode { g₂ with deps := setAssoc g₂.deps i.name [] } i.name := hn i.name
  rw [hn']
  split
  · exact ⟨h.insts, h.adj, hk, hm⟩
  · exact ⟨by simp [h.insts], by simp [h.adj], hk, hm⟩

/-! ### the wiring of one instance as a single fold -/

theorem foldl_connStep_error (c : Str) (e : Err) (l : List Str) :
    l.foldl (connStep c) (.error e) = .error e := by
  induction l with
  | nil => rfl
  | cons p ps ih => simpa [List.foldl_cons, connStep] using ih

theorem hubFold_eq (ord : List Str → List Str) (f : Str → List Str) (c : Str) :
    ∀ (l : List Str) (acc : Except Err XG),
    l.foldl (fun acc parent => match acc with
      | .error e => .error e
      | .ok g => addConnections ord g (f parent) c) acc =
    (l.flatMap (fun p => ord (f p))).foldl (connStep c) acc := by
  intro l
  induction l with
  | nil => intro acc; rfl
  | cons p ps ih =>
    intro acc
    simp only [List.foldl_cons, List.flatMap_cons, List.foldl_append]
    rw [ih]
    congr 1
    cases acc with
    | error e => simp only [foldl_connStep_error]
    | ok g => simp only [addConnections_eq]

theorem wire_eq (ord : List Str → List Str) (g : XG) (parents hubD : List Str)
    (combos : List (Str × List Str)) (child : Str) :
    wire ord g false parents hubD combos child =
      (ord parents ++ (ord hubD).flatMap (fun p => ord (getAssoc combos p))).foldl (connStep child) (.ok g) := by
  unfold wire
  simp only [Bool.false_eq_true, ↓reduceIte, List.foldl_append]
  rw [addConnections_eq]
  cases h : (ord parents).foldl (connStep child) (.ok g) with
  | error e => simp only [foldl_connStep_error]
  | ok g' => simp only; exact hubFold_eq ord (getAssoc combos) child (ord hubD) (.ok g')

theorem perm_flatMap_left {α β : Type} (l : List α) (f g : α → List β) (h : ∀ a ∈ l, (f a).Perm (g a)) :
    (l.flatMap f).Perm (l.flatMap g) := by
  induction l with
  | nil => exact List.Perm.refl _
  | cons a as ih =>
    simp only [List.flatMap_cons]
    exact List.Perm.append (h a (List.mem_cons_self ..)) (ih (fun x hx => h x (List.mem_cons_of_mem _ hx)))

/-- **the wiring of one instance does not depend on the iteration oracle** -/
theorem wire_rel {ord₁ ord₂ : List Str → List Str} (h₁ : IsPermOracle ord₁) (h₂ : IsPermOracle ord₂)
    {g₁ g₂ : XG} (h : Rel g₁ g₂) (isRoot : Bool) (parents hubD : List Str)
    (combos : List (Str × List Str)) (child : Str) :
    RelE (wire ord₁ g₁ isRoot parents hubD combos child) (wire ord₂ g₂ isRoot parents hubD combos child) := by
  cases isRoot with
  | true => simp only [wire, ↓reduceIte]; exact addConnection_rel h SOURCE child
  | false =>
    rw [wire_eq, wire_eq]
    apply connect_perm child _ (a := .ok g₁) (b := .ok g₂) h
    apply List.Perm.append ((h₁ parents).trans (h₂ parents).symm)
    have a : ∀ (ord : List Str → List Str), IsPermOracle ord →
        ((ord hubD).flatMap (fun p => ord (getAssoc combos p))).Perm (hubD.flatMap (getAssoc combos)) := by
      intro ord ho
      exact (List.Perm.flatMap_right _ (ho hubD)).trans (perm_flatMap_left hubD _ _ (fun p _ => ho _))
    exact (a ord₁ h₁).trans (a ord₂ h₂).symm

/-! ### staging states that differ at most in the order inside the dependency sets -/

structure SRel (s₁ s₂ : SS) : Prop where
  g          : Rel s₁.g s₂.g
  workspaces : s₁.workspaces = s₂.workspaces
  hub        : s₁.hub = s₂.hub
  depends    : s₁.depends = s₂.depends
  used       : s₁.used = s₂.used
  combos     : s₁.combos = s₂.combos

def ERelS : Except Err SS → Except Err SS → Prop
  | .ok a, .ok b => SRel a b
  | .error e, .error f => e = f
  | _, _ => False

theorem ERelS.refl_err (e : Err) : ERelS (.error e) (.error e) := rfl

theorem place_rel {ord₁ ord₂ : List Str → List Str} (h₁ : IsPermOracle ord₁) (h₂ : IsPermOracle ord₂)
    {s₁ s₂ : SS} (h : SRel s₁ s₂) (inst : Inst) (isRoot : Bool) (parents hubD : List Str) :
    ERelS (place ord₁ s₁ inst isRoot parents hubD) (place ord₂ s₂ inst isRoot parents hubD) := by
  unfold place
  have w := wire_rel h₁ h₂ (addStep_rel h.g inst) isRoot parents hubD s₁.combos inst.name
  rw [← h.combos]
  cases a : wire ord₁ (s₁.g.addStep inst) isRoot parents hubD s₁.combos inst.name with
  | error e =>
    cases b : wire ord₂ (s₂.g.addStep inst) isRoot parents hubD s₁.combos inst.name with
    | error f => rw [a, b] at w; exact w
    | ok _ => rw [a, b] at w; exact absurd w (by simp [RelE])
  | ok ga =>
    cases b : wire ord₂ (s₂.g.addStep inst) isRoot parents hubD s₁.combos inst.name with
    | error f => rw [a, b] at w; exact absurd w (by simp [RelE])
    | ok gb =>
      rw [a, b] at w
      exact ⟨w, h.workspaces, h.hub, h.depends, h.used, rfl⟩

theorem foldl_erel {α : Type} (f₁ f₂ : Except Err SS → α → Except Err SS)
    (hf : ∀ a b x, ERelS a b → ERelS (f₁ a x) (f₂ b x)) :
    ∀ (l : List α) (a b : Except Err SS), ERelS a b → ERelS (l.foldl f₁ a) (l.foldl f₂ b) := by
  intro l
  induction l with
  | nil => intro a b h; exact h
  | cons x xs ih => intro a b h; exact ih _ _ (hf a b x h)

/-- **one step of the staging loop does not depend on the iteration oracle** -/
theorem stageStep_rel (spec : Spec) {ord₁ ord₂ : List Str → List Str} (h₁ : IsPermOracle ord₁)
    (h₂ : IsPermOracle ord₂) {s₁ s₂ : SS} (h : SRel s₁ s₂) (st : Step) :
    ERelS (stageStep spec ord₁ s₁ st) (stageStep spec ord₂ s₂ st) := by
  obtain ⟨g₁, w, hb, dp, us, cb⟩ := s₁
  obtain ⟨g₂, w', hb', dp', us', cb'⟩ := s₂
  obtain ⟨hg, e1, e2, e3, e4, e5⟩ := h
  simp only at hg e1 e2 e3 e4 e5
  subst e1 e2 e3 e4 e5
  unfold stageStep
  simp only
  split
  · exact ERelS.refl_err _
  · rename_i used _
    split
    · -- no parameters
      split
      · exact ERelS.refl_err _
      · apply place_rel h₁ h₂
        exact ⟨hg, rfl, rfl, rfl, rfl, rfl⟩
    · -- one instance per combination
      apply foldl_erel
      · intro a b row hab
        cases a with
        | error e =>
          cases b with
          | error f => exact hab
          | ok _ => exact absurd hab (by simp [ERelS])
        | ok sa =>
          cases b with
          | error f => exact absurd hab (by simp [ERelS])
          | ok sb =>
            obtain ⟨ga, wa, ha, da, ua, ca⟩ := sa
            obtain ⟨gb, wb, hb2, db, ub, cb2⟩ := sb
            obtain ⟨hg', f1, f2, f3, f4, f5⟩ := hab
            simp only at hg' f1 f2 f3 f4 f5
            subst f1 f2 f3 f4 f5
            simp only [stageRow]
            split
            · exact ⟨hg', rfl, rfl, rfl, rfl, rfl⟩
            · split
              · exact ERelS.refl_err _
              · apply place_rel h₁ h₂
                exact ⟨hg', rfl, rfl, rfl, rfl, rfl⟩
      · exact ⟨hg, rfl, rfl, rfl, rfl, rfl⟩

/-- **The whole expansion does not depend on the order in which sets are iterated**: for any
two iteration oracles that return permutations, `stage` yields graphs with the same instance
list, the same adjacency table, the same dependency-table keys and dependency sets with the
same members - or fails with the same error. -/
theorem stage_rel (spec : Spec) {ord₁ ord₂ : List Str → List Str} (h₁ : IsPermOracle ord₁)
    (h₂ : IsPermOracle ord₂) : RelE (stage spec ord₁) (stage spec ord₂) := by
  unfold stage
  split
  · rfl
  · rename_i flow _
    split
    · rfl
    · rename_i order _
      simp only
      have key : ERelS
          (order.foldl (fun (acc : Except Err SS) idx =>
            match acc with
            | .error e => .error e
            | .ok s =>
              match flow.names[idx]? with
              | none => .ok s
              | some nm =>
                if nm == SOURCE then .ok s
                else match flow.steps.find? (·.1 == nm) with
                  | none => .ok s
                  | some (_, st) => stageStep spec ord₁ s st) (.ok (initSS spec.root)))
          (order.foldl (fun (acc : Except Err SS) idx =>
            match acc with
            | .error e => .error e
            | .ok s =>
              match flow.names[idx]? with
              | none => .ok s
              | some nm =>
                if nm == SOURCE then .ok s
                else match flow.steps.find? (·.1 == nm) with
                  | none => .ok s
                  | some (_, st) => stageStep spec ord₂ s st) (.ok (initSS spec.root))) := by
        apply foldl_erel
        · intro a b idx hab
          cases a with
          | error e =>
            cases b with
            | error f => exact hab
            | ok _ => exact absurd hab (by simp [ERelS])
          | ok sa =>
            cases b with
            | error f => exact absurd hab (by simp [ERelS])
            | ok sb =>
              simp only
              split
              · exact hab
              · split
                · exact hab
                · split
                  · exact hab
                  · exact stageStep_rel spec h₁ h₂ hab _
        · exact ⟨Rel.refl _, rfl, rfl, rfl, rfl, rfl⟩
      revert key
      generalize order.foldl _ (Except.ok (initSS spec.root)) = r₁
      generalize order.foldl _ (Except.ok (initSS spec.root)) = r₂
      intro key
      cases r₁ with
      | error e =>
        cases r₂ with
        | error f => exact key
        | ok _ => exact absurd key (by simp [ERelS])
      | ok sa =>
        cases r₂ with
        | error f => exact absurd key (by simp [ERelS])
        | ok sb => exact key.g

end MaestroVerif.Expand
