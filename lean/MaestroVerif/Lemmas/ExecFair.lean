import MaestroVerif.Lemmas.ExecLive

/-! Termination under fair scheduler answers that include time-outs: every step with a restart
command has a finite restart budget, every tracked job is answered in every poll, and each answer
ends the job for good or reports a time-out.  The measure adds the remaining restart budgets to
the number of unresolved steps. -/
namespace MaestroVerif.Exec
open MaestroVerif.Gen

/-- resolved, or waiting for this poll's sweep -/
def Settled2 (g : G) (k : Nat) : Prop :=
  k ∈ g.completed ∨ k ∈ g.failed ∨ k ∈ g.cancelled ∨ k ∈ g.cleanup ∨ k ∈ g.cancelQ

def fairState (st : Option State) : Prop := decisiveState st ∨ st = some .TIMEDOUT

/-- every step that can be restarted can be restarted finitely often only -/
def FiniteBudget (cfg : Cfg) : Prop := ∀ i, cfg.hasRestart i = true → 0 < cfg.rlimit i

theorem settled2_executeRecord {cfg : Cfg} (g : G) (i : Nat) (rs : Bool) {k : Nat}
    (h : Settled2 g k) : Settled2 (executeRecord cfg g i rs) k := by
  obtain ⟨_, e2, e3, _, _, _, e7⟩ := executeRecord_frame cfg g i rs
  have gr := (executeRecord_completed cfg g i rs).1
  unfold Settled2 at h ⊢
  rw [e2, e3]
  rcases h with h | h | h | h | h
  · exact Or.inl (gr.completed k h)
  · exact Or.inr (Or.inl (gr.failed k h))
  · exact Or.inr (Or.inr (Or.inl (gr.cancelled k h)))
  · exact Or.inr (Or.inr (Or.inr (Or.inl h)))
  · exact Or.inr (Or.inr (Or.inr (Or.inr h)))

/-- no answer un-settles a step -/
theorem settled2_report {cfg : Cfg} (g : G) (i : Nat) (st : Option State) {k : Nat}
    (h : Settled2 g k) : Settled2 (report cfg g i st) k := by
  cases st with
  | none => simpa [report, terminal] using h
  | some s =>
    cases s
    case TIMEDOUT =>
      simp only [report, terminal, ↓reduceIte]
      split
      · split
        · apply settled2_executeRecord
          unfold Settled2 at h ⊢; simpa [setStatus] using h
        · unfold Settled2 at h ⊢
          simp only [setStatus, mem_insAll]
          grind
      · unfold Settled2 at h ⊢
        simp only [setStatus, mem_ins, mem_rem, mem_insAll]
        by_cases hk : k = i
        · subst hk; exact Or.inr (Or.inl (Or.inl rfl))
        · grind
    all_goals (unfold Settled2 at h ⊢; simp only [report, terminal, setStatus, ↓reduceIte, mem_ins, mem_insAll]; grind)

theorem settled2_reports {cfg : Cfg} : ∀ (rs : List (Nat × Option State)) (g : G) {k : Nat},
    Settled2 g k → Settled2 (rs.foldl (fun g r => report cfg g r.1 r.2) g) k := by
  intro rs
  induction rs with
  | nil => intro g k h; exact h
  | cons r rs ih => intro g k h; simp only [List.foldl_cons]; exact ih _ (settled2_report g r.1 r.2 h)

theorem restarts_report (cfg : Cfg) (g : G) (i : Nat) (st : Option State) (j : Nat) :
    g.restarts j ≤ (report cfg g i st).restarts j := by
  cases st with
  | none => simp [report, terminal]
  | some s =>
    cases s
    case TIMEDOUT =>
      simp only [report, terminal, ↓reduceIte]
      split
      · split
        · rw [(executeRecord_frame cfg _ i true).2.2.2.2.2.1]
          simp only [setStatus, upd]
          split
          · subst_vars; omega
          · exact Nat.le_refl _
        · simp [setStatus]
      · simp [setStatus]
    all_goals simp [report, terminal, setStatus]

theorem restarts_reports (cfg : Cfg) : ∀ (rs : List (Nat × Option State)) (g : G) (j : Nat),
    g.restarts j ≤ (rs.foldl (fun g r => report cfg g r.1 r.2) g).restarts j := by
  intro rs
  induction rs with
  | nil => intro g j; exact Nat.le_refl _
  | cons r rs ih =>
    intro g j
    simp only [List.foldl_cons]
    exact Nat.le_trans (restarts_report cfg g r.1 r.2 j) (ih _ j)

/-- a fair answer for `i` settles it, or consumes one unit of its finite restart budget -/
theorem report_fair {cfg : Cfg} (wf : WFCfg cfg) (fb : FiniteBudget cfg) (g : G) (i : Nat)
    {st : Option State} (hs : fairState st) :
    Settled2 (report cfg g i st) i ∨
    (cfg.hasRestart i = true ∧ g.restarts i < cfg.rlimit i ∧
      (report cfg g i st).restarts i = g.restarts i + 1) := by
  have hself := self_mem_subtree wf i
  rcases hs with hd | ht
  · left
    have := report_settles wf g i hd
    unfold Settled at this
    unfold Settled2
    rcases this with h | h | h
    · exact Or.inl h
    · exact Or.inr (Or.inr (Or.inr (Or.inl h)))
    · exact Or.inr (Or.inr (Or.inr (Or.inr h)))
  · subst ht
    simp only [report, terminal, ↓reduceIte]
    split
    · rename_i hre
      have hr : cfg.hasRestart i = true := by
        simp only [Bool.and_eq_true] at hre; exact hre.1
      split
      · rename_i hcan
        right
        have hl := fb i hr
        have hlt : g.restarts i < cfg.rlimit i := by
          simp only [canConsumeRestart, setStatus, Bool.or_eq_true, beq_iff_eq] at hcan
          rcases hcan with h' | h'
          · omega
          · exact of_decide_eq_true h'
        refine ⟨hr, hlt, ?_⟩
        rw [(executeRecord_frame cfg _ i true).2.2.2.2.2.1]
        simp [setStatus, upd]
      · left
        unfold Settled2
        simp only [setStatus, mem_insAll]
        exact Or.inr (Or.inr (Or.inr (Or.inl (Or.inl hself))))
    · left
      unfold Settled2
      simp only [setStatus, mem_ins]
      exact Or.inr (Or.inl (Or.inl trivial))

theorem sweeps_resolves2 (g : G) {k : Nat} (h : Settled2 g k) : Resolved (sweeps g) k := by
  rw [sweeps_eq]
  have mf := markFailed_spec g.cleanup g
  have mc := markCancelled_spec g.cancelQ (markFailed g.cleanup g)
  unfold Resolved
  simp only [mc.completed, mf.completed, mc.failed]
  rcases h with h | h | h | h | h
  · exact Or.inl h
  · exact Or.inr (Or.inl ((mf.failed k).mpr (Or.inr h)))
  · exact Or.inr (Or.inr ((mc.cancelled k).mpr (Or.inr (by rw [mf.cancelled]; exact h))))
  · exact Or.inr (Or.inl ((mf.failed k).mpr (Or.inl h)))
  · exact Or.inr (Or.inr ((mc.cancelled k).mpr (Or.inl h)))

/-- over the reports of one poll: the step answered by `r` is settled, or its restart counter
has grown (and had room to grow) -/
theorem reports_fair {cfg : Cfg} (wf : WFCfg cfg) (fb : FiniteBudget cfg) :
    ∀ (rs : List (Nat × Option State)) (g : G), (∀ r, r ∈ rs → fairState r.2) →
    ∀ r, r ∈ rs →
      Settled2 (rs.foldl (fun g r => report cfg g r.1 r.2) g) r.1 ∨
      (cfg.hasRestart r.1 = true ∧ g.restarts r.1 < cfg.rlimit r.1 ∧
        g.restarts r.1 < (rs.foldl (fun g r => report cfg g r.1 r.2) g).restarts r.1) := by
  intro rs
  induction rs with
  | nil => intro g _ r hr; simp at hr
  | cons r0 rest ih =>
    intro g hf r hr
    simp only [List.foldl_cons]
    rcases List.mem_cons.mp hr with e | e
    · subst e
      rcases report_fair wf fb g r.1 (hf r (List.mem_cons_self ..)) with h | ⟨h1, h2, h3⟩
      · exact Or.inl (settled2_reports rest _ h)
      · refine Or.inr ⟨h1, h2, ?_⟩
        have := restarts_reports cfg rest (report cfg g r.1 r.2) r.1
        omega
    · rcases ih (report cfg g r0.1 r0.2) (fun r' hr' => hf r' (List.mem_cons_of_mem _ hr')) r e with
        h | ⟨h1, h2, h3⟩
      · exact Or.inl h
      · -- the budget test was made on a counter that can only have grown
        have hm := restarts_report cfg g r0.1 r0.2 r.1
        by_cases hlt : g.restarts r.1 < cfg.rlimit r.1
        · exact Or.inr ⟨h1, hlt, by omega⟩
        · exact Or.inr ⟨h1, by omega, by omega⟩

/-! ### the measure -/

def rem1 (cfg : Cfg) (g : G) (i : Nat) : Nat :=
  if cfg.hasRestart i then cfg.rlimit i - g.restarts i else 0

/-- the restart budget still unspent, over all steps -/
def remaining (cfg : Cfg) (g : G) : Nat := ((List.range (cfg.n + 1)).map (rem1 cfg g)).sum

theorem sum_map_le (l : List Nat) (f h : Nat → Nat) (hle : ∀ i, i ∈ l → f i ≤ h i) :
    (l.map f).sum ≤ (l.map h).sum := by
  induction l with
  | nil => simp
  | cons a as ih =>
    simp only [List.map_cons, List.sum_cons]
    have := hle a (List.mem_cons_self ..)
    have := ih (fun i hi => hle i (List.mem_cons_of_mem _ hi))
    omega

theorem sum_map_lt (l : List Nat) (f h : Nat → Nat) (hle : ∀ i, i ∈ l → f i ≤ h i)
    (j : Nat) (hj : j ∈ l) (hlt : f j < h j) : (l.map f).sum < (l.map h).sum := by
  induction l with
  | nil => cases hj
  | cons a as ih =>
    simp only [List.map_cons, List.sum_cons]
    have ha := hle a (List.mem_cons_self ..)
    have hrest := sum_map_le as f h (fun i hi => hle i (List.mem_cons_of_mem _ hi))
    rcases List.mem_cons.mp hj with e | e
    · subst e; omega
    · have := ih (fun i hi => hle i (List.mem_cons_of_mem _ hi)) e
      omega

theorem poll_restarts_mono (cfg : Cfg) (g : G) (p : PollIn) (j : Nat) :
    g.restarts j ≤ (poll cfg g p).1.restarts j := by
  unfold poll
  simp only
  have hsw : ∀ g : G, (sweeps g).restarts = g.restarts := by
    intro g; rw [sweeps_eq]
    have mf := markFailed_spec g.cleanup g
    have mc := markCancelled_spec g.cancelQ (markFailed g.cleanup g)
    simp only [mc.restarts, mf.restarts]
  by_cases hd : cfg.dry = true
  · simp only [hd, ↓reduceIte]
    rw [launch_restarts, (stage_sets cfg g).2.2.2.2.1]; exact Nat.le_refl _
  · have hd' : cfg.dry = false := by simpa using hd
    simp only [hd', Bool.false_eq_true, ↓reduceIte]
    cases hc : p.code with
    | ERROR => simp [emit]
    | NOJOBS =>
      simp only
      rw [launch_restarts, (stage_sets cfg _).2.2.2.2.1]; simp [emit]
    | OK =>
      simp only
      rw [launch_restarts, (stage_sets cfg _).2.2.2.2.1, hsw]
      exact restarts_reports cfg p.reports (emit g (Ev.check g.inProgress)) j

theorem remaining_le (cfg : Cfg) (g : G) (p : PollIn) :
    remaining cfg (poll cfg g p).1 ≤ remaining cfg g := by
  unfold remaining
  apply sum_map_le
  intro i _
  unfold rem1
  split
  · have := poll_restarts_mono cfg g p i; omega
  · exact Nat.le_refl _

/-- a poll in which the scheduler answers every tracked job, each with an answer that ends the
job for good or reports a time-out -/
structure Fair (g : G) (p : PollIn) : Prop where
  ok    : p.code = .OK
  wf    : WFPoll g p
  all   : ∀ i, i ∈ g.inProgress → ∃ r, r ∈ p.reports ∧ r.1 = i
  final : ∀ r, r ∈ p.reports → fairState r.2

/-- the termination measure: unresolved steps plus unspent restart budget, then "nothing tracked" -/
def fairMeasure (cfg : Cfg) (g : G) : Nat := 2 * (unresolved cfg g + remaining cfg g) + idle g

theorem idle_le (g : G) : idle g ≤ 1 := by unfold idle; split <;> omega

theorem fair_progress {cfg : Cfg} (wf : WFCfg' cfg) (ha : Dag.Acyclic cfg.dag) (fb : FiniteBudget cfg)
    {g : G} (hr : Reachable cfg g) {p : PollIn} (hf : Fair g p) :
    verdict cfg (poll cfg g p).1 ≠ .RUNNING ∨
    fairMeasure cfg (poll cfg g p).1 < fairMeasure cfg g := by
  have hI := Inv_reachable wf hr
  have hgrow := (poll_completed cfg g p).1
  have hrem := remaining_le cfg g p
  have hule := unresolved_le (cfg := cfg) hgrow
  have hi1 := idle_le g
  have hi2 := idle_le (poll cfg g p).1
  by_cases hip : g.inProgress = []
  · -- nothing is tracked: no report at all, the poll is decisive
    have hnorep : p.reports = [] := by
      cases hrep : p.reports with
      | nil => rfl
      | cons r rest =>
        have := hf.wf.mem r (by rw [hrep]; simp)
        rw [hip] at this; simp at this
    have hd : Decisive g p :=
      ⟨hf.ok, hf.wf, hf.all, fun r hr' => by rw [hnorep] at hr'; cases hr'⟩
    rcases decisive_progress wf ha hr hd with h | h | ⟨h1, h2, h3⟩
    · exact Or.inl h
    · right; unfold fairMeasure; omega
    · right
      have e1 : idle g = 1 := by simp [idle, h2]
      have e0 : idle (poll cfg g p).1 = 0 := by simp [idle, h3]
      unfold fairMeasure; omega
  · obtain ⟨i, hi⟩ := List.exists_mem_of_ne_nil _ hip
    have hdry' : cfg.dry = false := by
      cases hc : cfg.dry with
      | false => rfl
      | true => exact absurd (hI.dryIdle hc) hip
    obtain ⟨r, hrm, hri⟩ := hf.all i hi
    have hle : i ≤ cfg.n := hI.toInvA.bnd i (Or.inr (Or.inl hi))
    have hnr : ¬ Resolved g i := by
      obtain ⟨d1, d2, d3, _⟩ := hI.toInvA.ipD i hi
      intro h
      rcases h with h | h | h
      · exact d1 h
      · exact d2 h
      · exact d3 h
    right
    have hpoll : (poll cfg g p).1 =
        launch cfg (available cfg (stage cfg (sweeps (p.reports.foldl
          (fun g r => report cfg g r.1 r.2) (emit g (Ev.check g.inProgress))))))
          (stage cfg (sweeps (p.reports.foldl (fun g r => report cfg g r.1 r.2)
            (emit g (Ev.check g.inProgress))))) := by
      unfold poll
      simp only [hdry', Bool.false_eq_true, ↓reduceIte, hf.ok]
    rcases reports_fair wf.toWFCfg fb p.reports (emit g (Ev.check g.inProgress)) hf.final r hrm with
      hset | ⟨h1, h2, h3⟩
    · -- settled, hence resolved by the sweep
      rw [hri] at hset
      have hres := sweeps_resolves2 _ hset
      obtain ⟨c1, c2, c3, _⟩ := stage_sets cfg (sweeps (p.reports.foldl (fun g r => report cfg g r.1 r.2)
        (emit g (Ev.check g.inProgress))))
      have hst : Resolved (stage cfg (sweeps (p.reports.foldl (fun g r => report cfg g r.1 r.2)
          (emit g (Ev.check g.inProgress))))) i := by
        unfold Resolved at hres ⊢
        rw [c1, c2, c3]; exact hres
      have hfin : Resolved (poll cfg g p).1 i := by
        rw [hpoll]; exact (launch_completed cfg _ _).1.resolved hst
      have := unresolved_lt hgrow hle hnr hfin
      unfold fairMeasure; omega
    · -- one unit of the restart budget was spent
      rw [hri] at h1 h2 h3
      have hsw : ∀ g : G, (sweeps g).restarts = g.restarts := by
        intro g; rw [sweeps_eq]
        have mf := markFailed_spec g.cleanup g
        have mc := markCancelled_spec g.cancelQ (markFailed g.cleanup g)
        simp only [mc.restarts, mf.restarts]
      have hfinal : g.restarts i < (poll cfg g p).1.restarts i := by
        rw [hpoll, launch_restarts, (stage_sets cfg _).2.2.2.2.1, hsw]
        simpa [emit] using h3
      have hlt : remaining cfg (poll cfg g p).1 < remaining cfg g := by
        unfold remaining
        apply sum_map_lt _ _ _ _ i (List.mem_range.mpr (by omega))
        · unfold rem1
          simp only [h1, ↓reduceIte]
          simp only [emit] at h2
          omega
        · intro j _
          unfold rem1
          split
          · have := poll_restarts_mono cfg g p j; omega
          · exact Nat.le_refl _
      unfold fairMeasure; omega

/-! ### termination under fair polls -/

inductive FairRun (cfg : Cfg) : G → List PollIn → Prop
  | nil (g : G) : FairRun cfg g []
  | cons {g : G} {p : PollIn} {ps : List PollIn} : Fair g p →
      FairRun cfg (poll cfg g p).1 ps → FairRun cfg g (p :: ps)

/-- **Termination with time-outs**: from any reachable state, a run of fair polls reaches a final
verdict within `fairMeasure` polls. -/
theorem fair_terminates {cfg : Cfg} (wf : WFCfg' cfg) (ha : Dag.Acyclic cfg.dag) (fb : FiniteBudget cfg) :
    ∀ (m : Nat) (g : G), Reachable cfg g → fairMeasure cfg g ≤ m →
      ∀ ps, FairRun cfg g ps → m < ps.length →
        ∃ k, k < ps.length ∧ verdict cfg (runPolls cfg g (ps.take (k + 1))) ≠ .RUNNING := by
  intro m
  induction m using Nat.strongRecOn with
  | _ m ih =>
    intro g hr hm ps hrun hlen
    cases hrun with
    | nil => simp at hlen
    | cons hd htail =>
      rename_i p ps'
      rcases fair_progress wf ha fb hr hd with hfin | hlt
      · exact ⟨0, by simp, by simpa [runPolls] using hfin⟩
      · have hr' := Reachable.poll p hr hd.wf
        have hm' : fairMeasure cfg (poll cfg g p).1 < m := by omega
        have hlen' : fairMeasure cfg (poll cfg g p).1 < ps'.length := by
          simp only [List.length_cons] at hlen; omega
        obtain ⟨k, hk, hv⟩ := ih _ hm' (poll cfg g p).1 hr' (Nat.le_refl _) ps' htail hlen'
        exact ⟨k + 1, by simp only [List.length_cons]; omega, by simpa [runPolls] using hv⟩

end MaestroVerif.Exec
